#!/bin/sh
# Build the Coq development and the hook binaries from files on disk only.
set -e
cd "$(dirname "$0")"
mkdir -p .build evidence replays
cd coq
coq_makefile -f _CoqProject -o Makefile >/dev/null
timeout 3000 make -j16
cd ..
python3 harness/build.py
