#!/bin/sh
# Build the Coq development and the hook binaries from files on disk only.
set -e
cd "$(dirname "$0")"
mkdir -p .build/props evidence replays
cd coq
coq_makefile -f _CoqProject -o Makefile >/dev/null
timeout 3000 make -j16
cd ..
python3 harness/build.py
# the property files (statements + Print Assumptions) are compiled by each check; compile them once here too
for f in coq/Props/*.v; do
  (cd coq && timeout 900 coqc $(grep '^-Q' _CoqProject | tr '\n' ' ') -o ../.build/props/$(basename $f .v).vo Props/$(basename $f)) >/dev/null || echo "warning: $f does not check"
done
