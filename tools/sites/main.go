// Command sites scans /repo with go/types and prints, as JSON, the tables the Coq obligations
// of C13 and C14 are stated over:
//   - map_ranges: every `range` over a map in internal/parser, internal/model and cmd
//     (non-test, non-verif files), classified by what its body does;
//   - model_mutations: every statement in the generator and cmd sources that writes memory
//     of the parsed model (assignment through a model pointer / into a model map or slice,
//     call of a pointer-receiver method of package model, in-place sort/copy/delete/clear of
//     model memory, also through local aliases).
package main

import (
	"encoding/json"
	"fmt"
	"go/ast"
	"go/token"
	"go/types"
	"os"
	"path/filepath"
	"sort"
	"strings"

	"golang.org/x/tools/go/packages"
)

type site struct {
	File string `json:"file"`
	Func string `json:"func"`
	Line int    `json:"line"`
	Kind string `json:"kind"`
	Text string `json:"text"`
}

const modelPkg = "github.com/xinchentechnote/fin-protoc/internal/model"

func isModelNamed(t types.Type) bool {
	if n, ok := t.(*types.Named); ok {
		return n.Obj().Pkg() != nil && n.Obj().Pkg().Path() == modelPkg
	}
	return false
}

// pointsIntoModel: a value of this type refers to model memory (pointer to / slice of / map of model data
// reached from a model struct)
func isModelPtr(t types.Type) bool {
	if p, ok := t.Underlying().(*types.Pointer); ok {
		return isModelNamed(p.Elem())
	}
	return false
}

func main() {
	repo := os.Args[1]
	cfg := &packages.Config{Mode: packages.NeedName | packages.NeedFiles | packages.NeedSyntax | packages.NeedTypes | packages.NeedTypesInfo | packages.NeedImports | packages.NeedDeps,
		Dir: repo, Env: append(os.Environ(), "GOFLAGS=-mod=mod", "GOPROXY=off")}
	pkgs, err := packages.Load(cfg, "./internal/parser", "./internal/model", "./cmd")
	if err != nil {
		fmt.Fprintln(os.Stderr, err)
		os.Exit(2)
	}
	var ranges, muts []site
	for _, pkg := range pkgs {
		if len(pkg.Errors) > 0 {
			fmt.Fprintln(os.Stderr, pkg.Errors)
			os.Exit(2)
		}
		for _, f := range pkg.Syntax {
			name := pkg.Fset.Position(f.Pos()).Filename
			base := filepath.Base(name)
			if strings.HasSuffix(base, "_test.go") || strings.HasPrefix(base, "verif_") {
				continue
			}
			rel, _ := filepath.Rel(repo, name)
			scanFile(pkg, f, rel, &ranges, &muts)
		}
	}
	sort.Slice(ranges, func(i, j int) bool { return ranges[i].File+fmt.Sprint(1e6+ranges[i].Line) < ranges[j].File+fmt.Sprint(1e6+ranges[j].Line) })
	sort.Slice(muts, func(i, j int) bool { return muts[i].File+fmt.Sprint(1e6+muts[i].Line) < muts[j].File+fmt.Sprint(1e6+muts[j].Line) })
	if ranges == nil {
		ranges = []site{}
	}
	if muts == nil {
		muts = []site{}
	}
	json.NewEncoder(os.Stdout).Encode(map[string]interface{}{"map_ranges": ranges, "model_mutations": muts})
}

func exprText(fset *token.FileSet, e ast.Node) string {
	var b strings.Builder
	ast.Fprint(&b, nil, nil, nil)
	return types.ExprString(e.(ast.Expr))
}

func scanFile(pkg *packages.Package, f *ast.File, rel string, ranges, muts *[]site) {
	info := pkg.TypesInfo
	fset := pkg.Fset
	isGeneratorSide := strings.Contains(rel, "_generator.go") || strings.HasPrefix(rel, "cmd/") || strings.HasSuffix(rel, "common.go") || strings.HasSuffix(rel, "generator.go")
	for _, d := range f.Decls {
		fd, ok := d.(*ast.FuncDecl)
		if !ok || fd.Body == nil {
			continue
		}
		fname := fd.Name.Name
		if fd.Recv != nil && len(fd.Recv.List) > 0 {
			fname = types.ExprString(fd.Recv.List[0].Type) + "." + fname
		}
		// local aliases of model memory (flow-insensitive)
		alias := map[types.Object]bool{}
		denotesModelMem := func(e ast.Expr) bool { return false }
		var rootIsModel func(e ast.Expr) bool
		rootIsModel = func(e ast.Expr) bool {
			switch x := e.(type) {
			case *ast.ParenExpr:
				return rootIsModel(x.X)
			case *ast.StarExpr:
				return isModelPtr(info.TypeOf(x.X)) || rootIsModel(x.X)
			case *ast.SelectorExpr:
				if tv := info.TypeOf(x.X); tv != nil && isModelPtr(tv) {
					return true
				}
				return rootIsModel(x.X)
			case *ast.IndexExpr:
				return rootIsModel(x.X) || denotesModelMem(x.X)
			case *ast.Ident:
				if o := info.ObjectOf(x); o != nil && alias[o] {
					return true
				}
			}
			return false
		}
		// an expression of reference type (slice/map/pointer) that denotes memory owned by the model
		denotesModelMem = func(e ast.Expr) bool {
			t := info.TypeOf(e)
			if t == nil {
				return false
			}
			switch t.Underlying().(type) {
			case *types.Slice, *types.Map, *types.Pointer:
			default:
				return false
			}
			if isModelPtr(t) {
				return true
			}
			switch x := e.(type) {
			case *ast.SelectorExpr:
				// a field of a model struct
				if sel := info.Selections[x]; sel != nil && sel.Kind() == types.FieldVal {
					rt := sel.Recv()
					if p, ok := rt.Underlying().(*types.Pointer); ok {
						rt = p.Elem()
					}
					if isModelNamed(rt) {
						return true
					}
				}
			case *ast.IndexExpr:
				return denotesModelMem(x.X)
			case *ast.SliceExpr:
				// a re-slice shares the backing array
				return denotesModelMem(x.X)
			case *ast.Ident:
				if o := info.ObjectOf(x); o != nil && alias[o] {
					return true
				}
			case *ast.ParenExpr:
				return denotesModelMem(x.X)
			}
			return false
		}
		// x := <model slice>[a:b]  (the "filter without allocating" idiom): appending to x overwrites the model's array
		reslice := map[types.Object]bool{}
		isReslice := func(e ast.Expr) bool {
			for {
				if p, ok := e.(*ast.ParenExpr); ok {
					e = p.X
					continue
				}
				break
			}
			if se, ok := e.(*ast.SliceExpr); ok {
				return denotesModelMem(se.X)
			}
			if id, ok := e.(*ast.Ident); ok {
				if o := info.ObjectOf(id); o != nil && reslice[o] {
					return true
				}
			}
			return false
		}
		// aliases: x := <model slice/map expr> ; for _, x := range <...> yields copies of elements (pointers are model ptrs anyway)
		for pass := 0; pass < 3; pass++ {
			ast.Inspect(fd.Body, func(n ast.Node) bool {
				as, ok := n.(*ast.AssignStmt)
				if !ok {
					return true
				}
				for i, lhs := range as.Lhs {
					id, ok := lhs.(*ast.Ident)
					if !ok || i >= len(as.Rhs) || len(as.Lhs) != len(as.Rhs) {
						continue
					}
					t := info.TypeOf(as.Rhs[i])
					if t == nil {
						continue
					}
					switch t.Underlying().(type) {
					case *types.Slice, *types.Map:
						if denotesModelMem(as.Rhs[i]) {
							if o := info.ObjectOf(id); o != nil {
								alias[o] = true
							}
						}
						if isReslice(as.Rhs[i]) {
							if o := info.ObjectOf(id); o != nil {
								reslice[o] = true
							}
						}
					}
				}
				return true
			})
		}
		add := func(list *[]site, n ast.Node, kind string, e ast.Expr) {
			*list = append(*list, site{rel, fname, fset.Position(n.Pos()).Line, kind, types.ExprString(e)})
		}
		ast.Inspect(fd.Body, func(n ast.Node) bool {
			switch s := n.(type) {
			case *ast.RangeStmt:
				if t := info.TypeOf(s.X); t != nil {
					if _, ok := t.Underlying().(*types.Map); ok {
						add(ranges, s, classifyRange(info, fd, s), s.X)
					}
				}
			case *ast.AssignStmt:
				if !isGeneratorSide {
					return true
				}
				for _, lhs := range s.Lhs {
					switch x := lhs.(type) {
					case *ast.SelectorExpr, *ast.StarExpr:
						if rootIsModel(x) {
							add(muts, s, "assign", x)
						}
					case *ast.IndexExpr:
						if denotesModelMem(x.X) || rootIsModel(x.X) {
							add(muts, s, "index-assign", x)
						}
					}
				}
			case *ast.IncDecStmt:
				if isGeneratorSide && rootIsModel(s.X) {
					add(muts, s, "incdec", s.X)
				}
			case *ast.CallExpr:
				if !isGeneratorSide {
					return true
				}
				// pointer-receiver methods of package model
				if sel, ok := s.Fun.(*ast.SelectorExpr); ok {
					if selinfo := info.Selections[sel]; selinfo != nil && selinfo.Kind() == types.MethodVal {
						if fn, ok := selinfo.Obj().(*types.Func); ok && fn.Pkg() != nil && fn.Pkg().Path() == modelPkg {
							sig := fn.Type().(*types.Signature)
							if sig.Recv() != nil {
								if _, isPtr := sig.Recv().Type().(*types.Pointer); isPtr {
									add(muts, s, "model-method", s.Fun)
								}
							}
						}
					}
					// in-place library functions on model memory
					if id, ok := sel.X.(*ast.Ident); ok {
						if pn, ok := info.ObjectOf(id).(*types.PkgName); ok {
							p := pn.Imported().Path()
							if (p == "sort" || p == "slices" || p == "math/rand") && len(s.Args) > 0 && denotesModelMem(s.Args[0]) {
								add(muts, s, "in-place "+p+"."+sel.Sel.Name, s.Args[0])
							}
						}
					}
				}
				if id, ok := s.Fun.(*ast.Ident); ok && len(s.Args) > 0 {
					if _, isBuiltin := info.ObjectOf(id).(*types.Builtin); isBuiltin {
						switch id.Name {
						case "delete", "clear", "copy":
							if denotesModelMem(s.Args[0]) {
								add(muts, s, "builtin "+id.Name, s.Args[0])
							}
						case "append":
							// append to a re-slice of a model slice writes into the model's backing array
							if isReslice(s.Args[0]) {
								add(muts, s, "append-to-reslice", s.Args[0])
							}
						}
					}
				}
			}
			return true
		})
	}
}

// classifyRange: "keyed-insert" (the body only stores under a key computed from the element),
// "collect-then-sort" (the body only appends the key to a slice that is sorted afterwards),
// "effects" otherwise.
func classifyRange(info *types.Info, fd *ast.FuncDecl, r *ast.RangeStmt) string {
	onlyKeyed := true
	onlyCollect := true
	var collected types.Object
	for _, st := range r.Body.List {
		as, ok := st.(*ast.AssignStmt)
		if !ok {
			onlyKeyed, onlyCollect = false, false
			break
		}
		// m[k] = v
		if len(as.Lhs) == 1 {
			if ix, ok := as.Lhs[0].(*ast.IndexExpr); ok {
				if t := info.TypeOf(ix.X); t != nil {
					if _, isMap := t.Underlying().(*types.Map); isMap {
						onlyCollect = false
						continue
					}
				}
			}
			// x = append(x, key)
			if id, ok := as.Lhs[0].(*ast.Ident); ok && len(as.Rhs) == 1 {
				if call, ok := as.Rhs[0].(*ast.CallExpr); ok {
					if fn, ok := call.Fun.(*ast.Ident); ok && fn.Name == "append" {
						onlyKeyed = false
						collected = info.ObjectOf(id)
						continue
					}
				}
			}
			// code := ... ; local temporaries used by a keyed insert
			if as.Tok == token.DEFINE || isLocalIdent(as.Lhs[0]) {
				continue
			}
		}
		onlyKeyed, onlyCollect = false, false
		break
	}
	if onlyKeyed {
		return "keyed-insert"
	}
	if onlyCollect && collected != nil {
		sorted := false
		ast.Inspect(fd.Body, func(n ast.Node) bool {
			if call, ok := n.(*ast.CallExpr); ok && call.Pos() > r.End() {
				if sel, ok := call.Fun.(*ast.SelectorExpr); ok {
					if id, ok := sel.X.(*ast.Ident); ok && id.Name == "sort" && sel.Sel.Name == "Strings" && len(call.Args) == 1 {
						if a, ok := call.Args[0].(*ast.Ident); ok && info.ObjectOf(a) == collected {
							sorted = true
						}
					}
				}
			}
			return true
		})
		if sorted {
			return "collect-then-sort"
		}
	}
	return "effects"
}

func isLocalIdent(e ast.Expr) bool {
	_, ok := e.(*ast.Ident)
	return ok
}
