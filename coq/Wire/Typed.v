(* The value domain of a packet for decoding (the part of "has_type" that the layout
   function does not already enforce by returning None), and the relation "same message up
   to the members the encoder computes" (length-of and checksum members).  Model only. *)
From FP Require Export Sem.
Open Scope N_scope.
Open Scope list_scope.

(* a fixed string survives padding + trimming iff it neither begins (left padding) nor ends
   (right padding) with the pad character *)
Definition trim_stable (c : byte) (lft : bool) (s : list byte) : bool :=
  match (if lft then s else rev s) with
  | [] => true
  | b :: _ => negb (N.eqb b c)
  end.

Definition pairs_table (pairs : list mpair) : list (string * string) :=
  map (fun mp => (mp_key mp, mp_value mp)) pairs.

Fixpoint index_of_name (n : string) (fs : list field) (i : nat) : option nat :=
  match fs with
  | [] => None
  | f :: r => if String.eqb n (f_name f) then Some i else index_of_name n r (S i)
  end.

Section Typed.
  Variable cs : string -> option (list byte -> N).
  Variable M : bmodel.

  Section Body.
    Variable rec : packet -> value -> bool.

    Definition typed_elem (a : attr) (v : value) : bool :=
      match a, v with
      | AFixed _ fp, VStr s =>
          match eff_pad M fp with Some (c, l) => trim_stable c l s | None => false end
      | AObj true _ _ (Some q), _ => rec q v
      | AObj false _ (Some n) _, _ => match lookup_packet M n with Some q => rec q v | None => false end
      | _, _ => true
      end.

    (* a key field is a plain, non-repeated scalar or string declared before the match field *)
    Definition key_field_ok (kf : field) : bool :=
      andb (negb (f_rep kf))
           (match f_attr kf, f_len kf with
            | ABasic _, LNone | AFixed _ _, LNone | ADyn, LNone => true
            | _, _ => false
            end).

    Definition typed_field (p : packet) (vs : list value) (i : nat) (f : field) (v : value) : bool :=
      if f_rep f then
        match v with VList l => forallb (typed_elem (f_attr f)) l | _ => true end
      else
        match f_attr f, v with
        | AMatch (Some k) _ pairs, VDyn name pv =>
            match index_of_name k (p_fields p) 0 with
            | Some ki =>
                andb (Nat.ltb ki i)
                (match nth_error (p_fields p) ki, nth_error vs ki with
                 | Some kf, Some kv =>
                     andb (key_field_ok kf)
                     (andb (typed_elem (f_attr kf) kv)
                     (match table_first (pairs_table pairs) kv, lookup_packet M name with
                      | Some n, Some q => andb (String.eqb n name) (rec q pv)
                      | _, _ => false
                      end))
                 | _, _ => false
                 end)
            | None => false
            end
        | AMatch _ _ _, _ => false               (* no key field, or not a payload *)
        | a, _ => typed_elem a v
        end.

    Fixpoint typed_fields (p : packet) (vs : list value) (i : nat) (fs : list field) (rest : list value) : bool :=
      match fs, rest with
      | [], [] => true
      | f :: fr, v :: vr => andb (typed_field p vs i f v) (typed_fields p vs (S i) fr vr)
      | _, _ => false
      end.

    Definition typed_body (p : packet) (v : value) : bool :=
      match v with
      | VObj vs => typed_fields p vs 0 (p_fields p) vs
      | _ => false
      end.
  End Body.

  Fixpoint typed (fuel : nat) : packet -> value -> bool :=
    match fuel with
    | O => fun _ _ => false
    | S fuel' => typed_body (typed fuel')
    end.

  (* ---- same message up to computed members ---- *)
  Section UBody.
    Variable rec : packet -> value -> value -> Prop.

    Definition ueq_elem (a : attr) (v v' : value) : Prop :=
      match a with
      | AObj true _ _ (Some q) => rec q v v'
      | AObj false _ (Some n) _ => match lookup_packet M n with Some q => rec q v v' | None => v = v' end
      | AMatch _ _ _ =>
          match v, v' with
          | VDyn n pv, VDyn n' pv' =>
              n = n' /\ match lookup_packet M n with Some q => rec q pv pv' | None => pv = pv' end
          | _, _ => v = v'
          end
      | _ => v = v'
      end.

    Definition ueq_field (f : field) (v v' : value) : Prop :=
      if f_rep f then
        match v, v' with
        | VList l, VList l' => Forall2 (ueq_elem (f_attr f)) l l'
        | _, _ => v = v'
        end
      else
        match f_attr f with
        | ALen _ _ => exists a b, v = VInt a /\ v' = VInt b     (* computed by the encoder *)
        | ACheck alg _ =>                                        (* computed when the algorithm is registered *)
            (cs (unquote alg) = None -> v = v') /\ exists a b, v = VInt a /\ v' = VInt b
        | a => ueq_elem a v v'
        end.

    Definition ueq_body (p : packet) (v v' : value) : Prop :=
      match v, v' with
      | VObj vs, VObj vs' => Forall2 (fun fv v' => ueq_field (fst fv) (snd fv) v') (combine (p_fields p) vs) vs'
                             /\ length vs = length (p_fields p)
      | _, _ => False
      end.
  End UBody.

  Fixpoint ueq (fuel : nat) : packet -> value -> value -> Prop :=
    match fuel with
    | O => fun _ _ _ => False
    | S fuel' => ueq_body (ueq fuel')
    end.
End Typed.
