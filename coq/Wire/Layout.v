(* Messages and the wire layout a DSL declares (the specification side of C01-C06, C15).
   Written from the property statements, independently of any generator.               *)
From FP Require Export Bytes BModel.
Open Scope N_scope.
Open Scope list_scope.

(* A message of a packet is positional: one value per declared field, in order. *)
Inductive value :=
| VInt (n : N)                 (* scalar, as its unsigned bit pattern (floats: IEEE bits) *)
| VStr (s : list byte)         (* string, as its UTF-8 bytes *)
| VList (l : list value)
| VObj (fs : list value)
| VDyn (pkt : string) (v : value).   (* match payload: the caller's packet and its message *)

(* 'c' with c one byte; the configuration default is a bare space (model.go:142) *)
Definition pad_byte_of (s : string) : option byte :=
  match s with
  | String "'"%char (String c (String "'"%char EmptyString)) => Some (N_of_ascii c)
  | String " "%char EmptyString => Some 32
  | _ => None
  end.

(* scalar width, with the one-byte 'char' *)
Definition scalar_width (t : string) : option nat :=
  if String.eqb t "char" then Some 1%nat else ty_width t.

(* "@calculatedFrom("CRC32")": the registry is keyed by the unquoted name *)
Definition unquote (s : string) : string :=
  match s with
  | String """"%char r =>
      (fix go (r : string) : string :=
         match r with
         | EmptyString => EmptyString
         | String """"%char EmptyString => EmptyString
         | String c r' => String c (go r')
         end) r
  | _ => s
  end.

Section Spec.
  Variable cs : string -> option (list byte -> N).     (* registered checksum algorithms *)
  Variable M : bmodel.

  Definition cfg_le := c_le (m_cfg M).
  Definition list_w := ty_width (c_list (m_cfg M)).
  Definition str_w := ty_width (c_str (m_cfg M)).

  (* declared, else configured, else space on the right *)
  Definition eff_pad (fp : option padding) : option (byte * bool) :=
    match (match fp with Some p => Some p | None => c_pad (m_cfg M) end) with
    | Some p => match pad_byte_of (pad_char p) with
                | Some b => Some (b, pad_left p)
                | None => None
                end
    | None => Some (32, false)
    end.

  Definition fits (w : nat) (n : N) : bool := N.ltb n (pow256 w).

  (* state while laying out the fields of one packet: the whole output buffer so far and the
     position of this packet's length placeholder, if one has been written *)
  Definition lstate := (list byte * option nat)%type.

  Definition len_width (p : packet) : option nat :=
    match p_lenf p with
    | None => None
    | Some n => match field_map p n with
                | Some f => match field_get_type f with Some t => ty_width t | None => None end
                | None => None
                end
    end.

  Fixpoint lay_list (f : value -> list byte -> option (list byte)) (l : list value) (buf : list byte)
    : option (list byte) :=
    match l with
    | [] => Some buf
    | v :: r => match f v buf with Some b => lay_list f r b | None => None end
    end.

  Section Body.
    (* open recursion: [rec] lays out a nested packet (one level less fuel) *)
    Variable rec : packet -> value -> list byte -> option (list byte).

    Definition lay_ref (name : string) (v : value) (buf : list byte) : option (list byte) :=
      match lookup_packet M name with
      | Some q => rec q v buf
      | None => None
      end.

    (* one occurrence of a field's type *)
    Definition lay_elem (a : attr) (v : value) (buf : list byte) : option (list byte) :=
      match a, v with
      | ABasic t, VInt n =>
          match scalar_width (get_basic_type t) with
          | Some w => if fits w n then Some (buf ++ enc_int w cfg_le n) else None
          | None => None
          end
      | AFixed len fp, VStr s =>
          match eff_pad fp with
          | Some (c, lft) => if Nat.leb (length s) len then Some (buf ++ pad_to len c lft s) else None
          | None => None
          end
      | ADyn, VStr s =>
          match str_w with
          | Some w => if fits w (N.of_nat (length s))
                      then Some (buf ++ enc_int w cfg_le (N.of_nat (length s)) ++ s) else None
          | None => None
          end
      | AObj true _ _ (Some q), _ => rec q v buf
      | AObj false _ (Some name) _, _ => lay_ref name v buf
      | AMatch _ _ _, VDyn name pv => lay_ref name pv buf
      | _, _ => None
      end.

    Definition repeatable (a : attr) : bool :=
      match a with ABasic _ | AFixed _ _ | ADyn | AObj _ _ _ _ => true | _ => false end.

    Definition lay_field (p : packet) (f : field) (v : value) (st : lstate) : option lstate :=
      let '(buf, lp) := st in
      if f_rep f then
        match v with
        | VList l =>
            if repeatable (f_attr f) then
              match list_w with
              | Some w =>
                  if fits w (N.of_nat (length l))
                  then match lay_list (lay_elem (f_attr f)) l (buf ++ enc_int w cfg_le (N.of_nat (length l))) with
                       | Some b => Some (b, lp)
                       | None => None
                       end
                  else None
              | None => None
              end
            else None
        | _ => None
        end
      else
        match f_attr f with
        | ALen _ t =>                                    (* placeholder, patched at the target *)
            match v, ty_width (get_basic_type t) with
            | VInt _, Some w => Some (buf ++ enc_int w cfg_le 0, Some (length buf))
            | _, _ => None
            end
        | ACheck alg t =>
            match v, ty_width (get_basic_type t) with
            | VInt n, Some w =>
                let x := match cs (unquote alg) with Some h => h buf | None => n end in
                if fits w x then Some (buf ++ enc_int w cfg_le x, lp) else None
            | _, _ => None
            end
        | a =>
            match f_len f with
            | LTarget =>
                match lp, len_width p, lay_elem a v buf with
                | Some pos, Some w, Some b =>
                    let n := N.of_nat (length b - length buf) in
                    if fits w n then Some (patch_at b pos (enc_int w cfg_le n), lp) else None
                | _, _, _ => None
                end
            | _ => match lay_elem a v buf with Some b => Some (b, lp) | None => None end
            end
        end.

    Fixpoint lay_fields (p : packet) (fs : list field) (vs : list value) (st : lstate) : option (list byte) :=
      match fs, vs with
      | [], [] => Some (fst st)
      | f :: fr, v :: vr => match lay_field p f v st with Some st' => lay_fields p fr vr st' | None => None end
      | _, _ => None
      end.

    Definition lay_packet_body (p : packet) (v : value) (buf : list byte) : option (list byte) :=
      match v with
      | VObj vs => lay_fields p (p_fields p) vs (buf, None)
      | _ => None
      end.
  End Body.

  Fixpoint lay_packet (fuel : nat) : packet -> value -> list byte -> option (list byte) :=
    match fuel with
    | O => fun _ _ _ => None
    | S fuel' => lay_packet_body (lay_packet fuel')
    end.

  (* the wire bytes of a message of packet [p] written into an empty buffer *)
  Definition layout (fuel : nat) (p : packet) (v : value) : option (list byte) := lay_packet fuel p v [].
End Spec.
