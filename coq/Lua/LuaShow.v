(* Canonical text form of the Lua IR (harness/extract_lua.py prints the same format), and of
   results of its semantics.  Model only: no proofs here. *)
From FP Require Export LuaIR Show.
Open Scope string_scope.
Open Scope list_scope.

Definition show_lexpr (e : lexpr) : string :=
  match e with LConst n => show_nat n | LVar x => "$" ++ x end.

Fixpoint show_lstmt (s : lstmt) : string :=
  match s with
  | LSubtree parent len label => "Sub(" ++ parent ++ "," ++ show_nat len ++ "," ++ show_codes label ++ ")"
  | LAppendText t => "App(" ++ t ++ ")"
  | LAdd t f len le => "Add(" ++ t ++ "," ++ f ++ "," ++ show_lexpr len ++ "," ++ show_bool le ++ ")"
  | LAddText t label v len => "Txt(" ++ t ++ "," ++ show_codes label ++ "," ++ v ++ "," ++ show_nat len ++ ")"
  | LAdv e => "Adv(" ++ show_lexpr e ++ ")"
  | LLocalInt x w meth => "Int(" ++ x ++ "," ++ show_nat w ++ "," ++ meth ++ ")"
  | LLocalStr x len => "Str(" ++ x ++ "," ++ show_lexpr len ++ ")"
  | LFor limit body =>
      "For(" ++ limit ++ ")[" ++
      join ";" ((fix go (b : list lstmt) : list string := match b with [] => [] | s' :: r => show_lstmt s' :: go r end) body)
      ++ "]"
  | LCall f t assign => "Call(" ++ f ++ "," ++ t ++ "," ++ show_bool assign ++ ")"
  | LIfChain arms =>
      "If[" ++
      join "|" ((fix pick (a : list (string * string * list lstmt)) : list string :=
                   match a with
                   | [] => []
                   | (k, lit, body) :: r =>
                       (k ++ "==" ++ show_codes lit ++ "[" ++
                        join ";" ((fix go (b : list lstmt) : list string :=
                                     match b with [] => [] | s' :: r => show_lstmt s' :: go r end) body) ++ "]")%string
                       :: pick r
                   end) arms)
      ++ "]"
  | LInfo t => "Info(" ++ show_codes t ++ ")"
  | LMarker t => "Marker(" ++ show_codes t ++ ")"
  | LReturnOffset => "Ret"
  | LJunk t => "Junk<" ++ show_codes t ++ ">"
  end.

Definition show_body (b : list lstmt) : string := "[" ++ join ";" (map show_lstmt b) ++ "]".

Definition show_lfun (f : lfun) : string :=
  "fun " ++ fn_name f ++ " " ++ (if fn_local f then "L" else "G") ++ " " ++ show_body (fn_body f).

(* one line per part: the fields table, every function, the main dissector *)
Definition show_lprog (P : lprog) : string :=
  join "#" (("fields[" ++ join "," (map (fun '(n, c) => n ++ ":" ++ c)%string (lp_fields P)) ++ "]")%string
            :: map show_lfun (lp_funs P) ++ [("main " ++ show_body (lp_main P))%string]).

Definition show_z (z : Z) : string :=
  match z with
  | Z0 => "0"
  | Zpos p => show_nat (Pos.to_nat p)
  | Zneg p => "-" ++ show_nat (Pos.to_nat p)
  end.

Definition show_lerr (e : lerr) : string :=
  match e with
  | EUndefCall f => "UndefCall(" ++ f ++ ")"
  | EUndefVar x => "UndefVar(" ++ x ++ ")"
  | EUndefField f => "UndefField(" ++ f ++ ")"
  | EBeyond o l n => "Beyond(" ++ show_z o ++ "," ++ show_z l ++ "," ++ show_nat n ++ ")"
  | EType w => "Type(" ++ w ++ ")"
  | EFuel => "Fuel"
  | ENoCtor c => "NoCtor(" ++ c ++ ")"
  | ESyntax w => "Syntax(" ++ w ++ ")"
  | EJunkStmt t => "Junk(" ++ show_codes t ++ ")"
  end.

Definition show_triple (t : triple) : string :=
  let '(f, o, l) := t in f ++ "@" ++ show_nat o ++ "+" ++ show_nat l.

Definition show_ranges (r : list triple * nat) : string :=
  join " " (map show_triple (fst r)) ++ " | " ++ show_nat (snd r).

Definition show_lres (r : lres (list triple * nat)) : string :=
  match r with
  | LOk x => "Ok " ++ show_ranges x
  | LFail e => "Fail " ++ show_lerr e
  end.
