(* The specification side of C15: the byte range every declared field of a message occupies
   in its canonical encoding, derived from the wire layout (Wire/Layout.v) and from nothing
   else (in particular not from Gen/Lua.v).  Model only: no proofs here.

   What is attributed:
   * a scalar (basic, length-of, checksum) or fixed-string field: the bytes [lay_field] appends
     for it, under the name  <snake(packet name)>_<snake(field name)>  - the key under which the
     dissector declares the field's ProtoField; the packet is the one that DECLARES the field
     (for a field reached through an object, a list element or a match payload: that packet);
   * a dynamic string: the range of its characters, i.e. what [lay_elem] appends minus the
     length prefix (the prefix is displayed by the dissector as an unnamed text item: not a field);
   * a repeated field: one entry per element, in order, under the field's name; the count prefix
     is not a field;
   * an object field / a match field: nothing for the field itself (no ProtoField is declared
     for it), and, at its position, the entries of the fields of the packet it holds;
   * the second component is the total length of the encoding.

   The extents come from [lay_field] / [lay_elem] themselves: the buffer before and after.   *)
From FP Require Export Layout.
Open Scope list_scope.
Open Scope string_scope.

Section Ranges.
  Variable cs : string -> option (list byte -> N).
  Variable M : bmodel.

  Definition rtriple := (string * nat * nat)%type.

  Definition spec_field_name (p : packet) (f : field) : string := snake M (p_name p) ++ "_" ++ snake M (f_name f).

  Section Body.
    (* the layout of a nested packet, and its ranges (one level less fuel): ranges of the
       message [v] of packet [q] laid out after [buf] *)
    Variable lay : packet -> value -> list byte -> option (list byte).
    Variable rec : packet -> value -> list byte -> option (list rtriple).

    Definition rng_ref (name : string) (v : value) (buf : list byte) : option (list rtriple) :=
      match lookup_packet M name with
      | Some q => rec q v buf
      | None => None
      end.

    (* one occurrence of the field's type laid out after [buf], [buf'] being the result of lay_elem *)
    Definition rng_elem (name : string) (a : attr) (v : value) (buf buf' : list byte) : option (list rtriple) :=
      let start := length buf in
      let size := (length buf' - start)%nat in
      match a, v with
      | ABasic _, _ => Some [(name, start, size)]
      | AFixed _ _, _ => Some [(name, start, size)]
      | ADyn, _ =>
          match str_w M with
          | Some w => Some [(name, (start + w)%nat, (size - w)%nat)]
          | None => None
          end
      | AObj true _ _ (Some q), _ => rec q v buf
      | AObj false _ (Some r) _, _ => rng_ref r v buf
      | AMatch _ _ _, VDyn r pv => rng_ref r pv buf
      | _, _ => None
      end.

    Fixpoint rng_list (name : string) (a : attr) (l : list value) (buf : list byte) : option (list rtriple) :=
      match l with
      | [] => Some []
      | v :: r =>
          match lay_elem M lay a v buf with
          | Some buf' =>
              match rng_elem name a v buf buf', rng_list name a r buf' with
              | Some x, Some y => Some (x ++ y)%list
              | _, _ => None
              end
          | None => None
          end
      end.

    (* the field [f] of [p] holding [v], laid out from state [st] to state [st'] *)
    Definition rng_field (p : packet) (f : field) (v : value) (st st' : lstate) : option (list rtriple) :=
      let name := spec_field_name p f in
      let buf := fst st in
      if f_rep f then
        match v, list_w M with
        | VList l, Some w => rng_list name (f_attr f) l (buf ++ enc_int w (cfg_le M) (N.of_nat (length l)))
        | _, _ => None
        end
      else
        match f_attr f with
        | ALen _ _ | ACheck _ _ => Some [(name, length buf, (length (fst st') - length buf)%nat)]
        | a => rng_elem name a v buf (fst st')
        end.

    Fixpoint rng_fields (p : packet) (fs : list field) (vs : list value) (st : lstate) : option (list rtriple) :=
      match fs, vs with
      | [], [] => Some []
      | f :: fr, v :: vr =>
          match lay_field cs M lay p f v st with
          | Some st' =>
              match rng_field p f v st st', rng_fields p fr vr st' with
              | Some x, Some y => Some (x ++ y)%list
              | _, _ => None
              end
          | None => None
          end
      | _, _ => None
      end.

    Definition rng_packet_body (p : packet) (v : value) (buf : list byte) : option (list rtriple) :=
      match v with
      | VObj vs => rng_fields p (p_fields p) vs (buf, None)
      | _ => None
      end.
  End Body.

  Fixpoint rng_packet (fuel : nat) : packet -> value -> list byte -> option (list rtriple) :=
    match fuel with
    | O => fun _ _ _ => None
    | S fuel' => rng_packet_body (lay_packet cs M fuel') (rng_packet fuel')
    end.

  (* the ranges of the fields of message [v] of packet [p], and the length of its encoding *)
  Definition ranges_with (fuel : nat) (p : packet) (v : value) : option (list rtriple * nat) :=
    match layout cs M fuel p v, rng_packet fuel p v [] with
    | Some b, Some r => Some (r, length b)
    | _, _ => None
    end.
End Ranges.

(* lengths and positions do not depend on the checksum registry (only the checksum's value
   does): the registry-free instance *)
Definition ranges (M : bmodel) (fuel : nat) (p : packet) (v : value) : option (list (string * nat * nat) * nat) :=
  ranges_with (fun _ => None) M fuel p v.
