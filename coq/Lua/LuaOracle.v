(* Executable oracle for C15: a Lua IR (the model's, or the one extracted from the real
   generator's output) is run over the canonical encoding of a message of the root packet
   and judged against [ranges].  Model only: no proofs here. *)
From FP Require Export LuaShow Ranges Oracle.
Open Scope string_scope.
Open Scope list_scope.

Definition triple_eqb (a b : triple) : bool :=
  let '(f, o, l) := a in let '(g, p, m) := b in andb (String.eqb f g) (andb (Nat.eqb o p) (Nat.eqb l m)).

(* index and contents of the first position where two lists of triples differ *)
Fixpoint first_diff (i : nat) (a b : list triple) : option (nat * option triple * option triple) :=
  match a, b with
  | [], [] => None
  | x :: r, y :: s => if triple_eqb x y then first_diff (S i) r s else Some (i, Some x, Some y)
  | x :: _, [] => Some (i, Some x, None)
  | [], y :: _ => Some (i, None, Some y)
  end.

Definition show_otriple (t : option triple) : string := match t with Some t => show_triple t | None => "-" end.

Definition no_cs : string -> option (list byte -> N) := fun _ => None.

Definition root_packet (M : bmodel) : option packet :=
  match m_root M with Some rn => lookup_packet M rn | None => None end.

Inductive lverdict :=
| LvAgree
| LvNoRoot
| LvNotAMessage
| LvFails (e : lerr)                                              (* the dissector raises an error *)
| LvRangesDiffer (i : nat) (got want : option triple)             (* first field attributed another range / another field *)
| LvEndDiffers (got want : nat).                                  (* same fields and ranges, but it finishes elsewhere *)

(* [strict]: the script has to load first (ProtoField constructors, reserved words) *)
Definition lua_check (strict : bool) (M : bmodel) (P : lprog) (v : value) : lverdict :=
  match root_packet M with
  | None => LvNoRoot
  | Some root =>
      match layout no_cs M fuel0 root v, ranges M fuel0 root v with
      | Some b, Some (want, total) =>
          match (if strict then sem_lua P fuel0 b else sem_lua_run P fuel0 b) with
          | LFail e => LvFails e
          | LOk (got, fin) =>
              match first_diff 0 got want with
              | Some (i, x, y) => LvRangesDiffer i x y
              | None => if Nat.eqb fin total then LvAgree else LvEndDiffers fin total
              end
          end
      | _, _ => LvNotAMessage
      end
  end.

(* "<class>:<detail>" *)
Definition show_lverdict (v : lverdict) : string :=
  match v with
  | LvAgree => "Agree:"
  | LvNoRoot => "NoRoot:"
  | LvNotAMessage => "NotAMessage:"
  | LvFails e => "Fails:" ++ show_lerr e
  | LvRangesDiffer i x y => "RangesDiffer:#" ++ show_nat i ++ " got " ++ show_otriple x ++ " want " ++ show_otriple y
  | LvEndDiffers g w => "EndDiffers:got " ++ show_nat g ++ " want " ++ show_nat w
  end.
