(* What the emitted Wireshark dissector (internal/parser/lua_wsp_generator.go) does with the
   running offset: a small IR of the Lua statements the generator can emit, and its
   semantics over a byte buffer.  Model only: no proofs here.

   The semantics is the written-down contract of the two runtimes the script runs on:

   * Lua: lexical scoping (a [local function f] is visible in the functions defined after
     it and in its own body; a name that is not a visible local is a global, i.e. nil here),
     block-scoped locals ([for] bodies, [if] arms), reserved words, [nil] indexed/called/
     concatenated is an error, the limit of a numeric [for] must be a number, [==] between
     values of different types is false.
   * Wireshark: [buf(offset, n)] raises "Range is out of bounds" when offset + n exceeds the
     buffer (n = 0 at the very end is allowed; a nil or -1 length means "to the end");
     [TvbRange:uint()] handles 1..4 bytes, [:int()] 1..4, [:uint64()/:int64()] 1..8 and return a
     UInt64/Int64 *userdata* (not a number: it cannot be a [for] limit nor a range length and
     never equals a number literal), [:float()] 4 or 8; [tree:add(nil, ...)] is an error;
     [ProtoField.<ctor>] exists only for the constructors of [protofield_ctors].

   Decisions:
   * [LAdd] (a [T:add/le_add(fields.X, buf(offset, N))]) records the triple (X, offset, N):
     the result of [sem_lua] is the list of those triples in execution order and the value
     of [offset] when the main dissector finishes.
   * [LAddText] (the [T:add("f Size: ".. v, buf(offset, N))] lines) and [LSubtree] (the
     [local subtree = tree:add(<proto>, buf(offset, 1), "P")] line) are items that are not
     fields: they are NOT recorded, but everything they evaluate is evaluated (range bounds,
     the tree they index, the variable they concatenate).
   * [LInfo] ([pinfo.cols.info:set/append]) and [LMarker] (an emitted comment) do nothing.    *)
From FP Require Export Sem.
From Coq Require Export ZArith.
Open Scope string_scope.
Open Scope list_scope.

Inductive lexpr :=
| LConst (n : nat)
| LVar (x : string).

Inductive lstmt :=
| LSubtree (parent : string) (len : nat) (label : string)
      (* local subtree = parent:add(<proto>, buf(offset, len), "label") *)
| LAppendText (tree : string)                              (* tree:append_text(" (No Body)") *)
| LAdd (tree : string) (field : string) (len : lexpr) (le : bool)
      (* tree:add(fields.field, buf(offset, len))   /  tree:le_add(...) *)
| LAddText (tree : string) (label : string) (var : string) (len : nat)
      (* tree:add("label".. var, buf(offset, len)) *)
| LAdv (e : lexpr)                                         (* offset = offset + e *)
| LLocalInt (x : string) (w : nat) (meth : string)         (* local x = buf(offset, w):meth() *)
| LLocalStr (x : string) (len : lexpr)                     (* local x = buf(offset, len):string() *)
| LFor (limit : string) (body : list lstmt)                (* for i=1,limit do body end *)
| LCall (f : string) (tree : string) (assign : bool)       (* [offset = ] f(buf, pinfo, tree, offset) *)
| LIfChain (arms : list (string * string * list lstmt))    (* if k == lit then .. elseif k' == lit' then .. end *)
| LInfo (text : string)                                    (* pinfo.cols.info:set("..") / :append(" ..[" ..i.. "]") *)
| LMarker (text : string)                                  (* -- unsupported ... *)
| LReturnOffset                                            (* return offset *)
| LJunk (text : string).                                   (* extractor only: a line no template claims *)

Record lfun := mkFun { fn_name : string; fn_local : bool; fn_body : list lstmt }.

Record lprog := mkLua {
  lp_fields : list (string * string);   (* entries of the [fields] table in order: key, ProtoField constructor *)
  lp_funs : list lfun;                  (* the sub-dissectors, in emission order *)
  lp_main : list lstmt                  (* body of <proto>.dissector(buf, pinfo, tree), after "local offset = 0" *)
}.

(* ------------------------------------------------------------------ results *)

Inductive lerr :=
| EUndefCall (f : string)                   (* call of a name that is not a visible function: nil *)
| EUndefVar (x : string)                    (* nil (from the lookup of [x]) indexed, concatenated or used in arithmetic *)
| EUndefField (f : string)                  (* fields.f is nil *)
| EBeyond (off len : Z) (buflen : nat)      (* buf(off, len) outside the buffer *)
| EType (what : string)                     (* a value of the wrong type where a number / tree is needed *)
| EFuel
| ENoCtor (c : string)                      (* ProtoField.c does not exist: the script does not load *)
| ESyntax (what : string)                   (* the script does not compile *)
| EJunkStmt (text : string).

Inductive lres (A : Type) :=
| LOk (a : A)
| LFail (e : lerr).
Arguments LOk {A} a.
Arguments LFail {A} e.

Definition lbind {A B} (r : lres A) (f : A -> lres B) : lres B :=
  match r with LOk a => f a | LFail e => LFail e end.

(* ------------------------------------------------------------------ the two runtimes *)

(* wslua_proto_field.c: the functions of the ProtoField class *)
Definition protofield_ctors : list string :=
  ["new"; "char"; "uint8"; "uint16"; "uint24"; "uint32"; "uint64"; "int8"; "int16"; "int24"; "int32"; "int64";
   "framenum"; "bool"; "absolute_time"; "relative_time"; "float"; "double"; "string"; "stringz"; "bytes";
   "ubytes"; "none"; "ipv4"; "ipv6"; "ether"; "guid"; "oid"; "protocol"; "rel_oid"; "systemid"; "eui64"].

Definition lua_keywords : list string :=
  ["and"; "break"; "do"; "else"; "elseif"; "end"; "false"; "for"; "function"; "goto"; "if"; "in"; "local"; "nil";
   "not"; "or"; "repeat"; "return"; "then"; "true"; "until"; "while"].

Definition mem_str (s : string) (l : list string) : bool := existsb (String.eqb s) l.

Inductive lval :=
| LvNum (z : Z)
| LvU64 (n : N)                 (* UInt64 / Int64 userdata *)
| LvFloat (bits : N)
| LvBytes (b : list byte)
| LvTree
| LvNil (origin : string).      (* nil, with the name whose lookup produced it *)

(* newest binding first *)
Definition lenv := list (string * lval).

Definition lget (e : lenv) (x : string) : lval :=
  match assoc e x with Some v => v | None => LvNil x end.

(* assignment to the nearest binding (an assignment to an unbound name would create a global:
   the emitted code never does that; it is dropped here) *)
Fixpoint lset (e : lenv) (x : string) (v : lval) : lenv :=
  match e with
  | [] => []
  | (y, w) :: r => if String.eqb x y then (y, v) :: r else (y, w) :: lset r x v
  end.

Definition triple := (string * nat * nat)%type.

Record lua_state := mkLS {
  ls_env : lenv;
  ls_out : list triple;          (* reversed *)
  ls_budget : nat;               (* loop iterations left *)
  ls_ret : option lval           (* Some: a [return] has been executed *)
}.

Definition with_env (st : lua_state) (e : lenv) : lua_state := mkLS e (ls_out st) (ls_budget st) (ls_ret st).

Definition starts_with (p s : string) : bool := String.eqb (substring 0 (String.length p) s) p.

(* the accessor named [meth] applied to a range of [w] bytes holding [h] *)
Definition accessor (meth : string) (w : nat) (h : list byte) : lres lval :=
  let le := starts_with "le_" meth in
  let base := if le then substring 3 (String.length meth - 3) meth else meth in
  let u := dec_be 0 (if le then rev h else h) in
  if String.eqb base "uint" then
    if andb (Nat.leb 1 w) (Nat.leb w 4) then LOk (LvNum (Z.of_N u)) else LFail (EType "TvbRange:uint() on a range that is not 1..4 bytes")
  else if String.eqb base "int" then
    if andb (Nat.leb 1 w) (Nat.leb w 4)
    then LOk (LvNum (if N.leb (pow256 w / 2) u then Z.of_N u - Z.of_N (pow256 w) else Z.of_N u)%Z)
    else LFail (EType "TvbRange:int() on a range that is not 1..4 bytes")
  else if orb (String.eqb base "uint64") (String.eqb base "int64") then
    if andb (Nat.leb 1 w) (Nat.leb w 8) then LOk (LvU64 u) else LFail (EType "TvbRange:uint64() on a range that is not 1..8 bytes")
  else if String.eqb base "float" then
    if orb (Nat.eqb w 4) (Nat.eqb w 8) then LOk (LvFloat u) else LFail (EType "TvbRange:float() on a range that is not 4 or 8 bytes")
  else LFail (EUndefCall ("TvbRange:" ++ meth)).

(* k == lit *)
Definition key_eq (v : lval) (lit : string) : bool :=
  match v with
  | LvNum z => match lit with
               | EmptyString => false
               | _ => match digits_val 0 lit with Some k => Z.eqb z (Z.of_N k) | None => false end
               end
  | LvBytes b => match lit with
                 | String """"%char _ => list_eqb (string_bytes (unquote lit)) b
                 | _ => false
                 end
  | _ => false       (* nil, userdata (UInt64 == number is false: different types), float keys are not modelled *)
  end.

Section Exec.
  Variable buf : list byte.
  Variable fields : list string.
  (* call of the function a name denotes at this point: tree argument, offset argument, the
     output and budget so far; result: the returned value *)
  Variable callf : string -> lval -> lval -> list triple -> nat -> lres (lval * list triple * nat).

  Definition blen : nat := length buf.

  (* buf(offset, len): absolute offset and length of the range *)
  Definition buf_range (e : lenv) (len : lval) : lres (nat * nat) :=
    let off := match lget e "offset" with
               | LvNum o => LOk o
               | LvNil _ => LOk 0%Z                    (* luaL_optinteger(L, 2, 0) *)
               | _ => LFail (EType "buf(offset, ..): offset is not a number")
               end in
    lbind off (fun o =>
    let ln := match len with
              | LvNum l => LOk l
              | LvNil _ => LOk (-1)%Z                  (* luaL_optinteger(L, 3, -1) *)
              | LvU64 _ => LFail (EType "buf(.., len): len is a UInt64/Int64 userdata, number expected")
              | _ => LFail (EType "buf(.., len): number expected")
              end in
    lbind ln (fun l =>
    if (o <? 0)%Z then LFail (EBeyond o l blen)
    else if (l =? -1)%Z then
      if (o <=? Z.of_nat blen)%Z then LOk (Z.to_nat o, (blen - Z.to_nat o)%nat) else LFail (EBeyond o l blen)
    else if (l <? -1)%Z then LFail (EType "negative length in tvb range")
    else if (o + l <=? Z.of_nat blen)%Z then LOk (Z.to_nat o, Z.to_nat l) else LFail (EBeyond o l blen))).

  Definition eval (e : lenv) (x : lexpr) : lval :=
    match x with LConst n => LvNum (Z.of_nat n) | LVar v => lget e v end.

  (* T:method(...) : T must be a tree item *)
  Definition need_tree (e : lenv) (t : string) : lres unit :=
    match lget e t with
    | LvTree => LOk tt
    | LvNil o => LFail (EUndefVar o)
    | _ => LFail (EType ("method call on " ++ t ++ ", which is not a tree item"))
    end.

  Definition declare (st : lua_state) (x : string) (v : lval) : lua_state := with_env st ((x, v) :: ls_env st).

  (* leave a block: the locals it declared go away, assignments to outer variables stay *)
  Definition leave (outer : lua_state) (st : lua_state) : lua_state :=
    with_env st (skipn (length (ls_env st) - length (ls_env outer)) (ls_env st)).

  (* for i=1,n do body end, [k] bounds the recursion, the budget of the state the total work *)
  Fixpoint for_loop (body : lua_state -> lres lua_state) (k : nat) (i n : Z) (st : lua_state) : lres lua_state :=
    if (n <? i)%Z then LOk st
    else match ls_ret st with
         | Some _ => LOk st
         | None =>
           match k, ls_budget st with
           | S k', S b =>
               lbind (body (mkLS (("i", LvNum i) :: ls_env st) (ls_out st) b None))
                     (fun st' => for_loop body k' (i + 1)%Z n (leave st st'))
           | _, _ => LFail EFuel
           end
         end.

  Fixpoint exec_stmt (s : lstmt) (st : lua_state) {struct s} : lres lua_state :=
    let e := ls_env st in
    match s with
    | LSubtree parent len label =>
        lbind (need_tree e parent) (fun _ =>
        lbind (buf_range e (LvNum (Z.of_nat len))) (fun _ =>
        LOk (declare st "subtree" LvTree)))
    | LAppendText t => lbind (need_tree e t) (fun _ => LOk st)
    | LAdd t f len le =>
        lbind (need_tree e t) (fun _ =>
        if negb (mem_str f fields) then LFail (EUndefField f)
        else lbind (buf_range e (eval e len)) (fun '(o, l) =>
             LOk (mkLS e ((f, o, l) :: ls_out st) (ls_budget st) (ls_ret st))))
    | LAddText t label v len =>
        lbind (need_tree e t) (fun _ =>
        match lget e v with
        | LvNil o => LFail (EUndefVar o)                (* attempt to concatenate a nil value *)
        | LvTree => LFail (EType "concatenation of a tree item")
        | _ => lbind (buf_range e (LvNum (Z.of_nat len))) (fun _ => LOk st)
        end)
    | LAdv x =>
        match lget e "offset", eval e x with
        | LvNum o, LvNum d => LOk (with_env st (lset e "offset" (LvNum (o + d)%Z)))
        | LvNil o, _ => LFail (EUndefVar o)
        | _, LvNil o => LFail (EUndefVar o)             (* attempt to perform arithmetic on a nil value *)
        | _, _ => LFail (EType "offset = offset + v: v is not a number (the sum of a number and a UInt64 is a UInt64)")
        end
    | LLocalInt x w meth =>
        lbind (buf_range e (LvNum (Z.of_nat w))) (fun '(o, l) =>
        lbind (accessor meth l (firstn l (skipn o buf))) (fun v => LOk (declare st x v)))
    | LLocalStr x len =>
        lbind (buf_range e (eval e len)) (fun '(o, l) => LOk (declare st x (LvBytes (firstn l (skipn o buf)))))
    | LFor limit body =>
        match lget e limit with
        | LvNum n =>
            for_loop ((fix go (b : list lstmt) (st : lua_state) : lres lua_state :=
                         match b with
                         | [] => LOk st
                         | s' :: r => match ls_ret st with
                                      | Some _ => LOk st
                                      | None => lbind (exec_stmt s' st) (go r)
                                      end
                         end) body) (ls_budget st) 1%Z n st
        | LvFloat _ => LFail (EType "float loop limit: not modelled")
        | _ => LFail (EType "'for' limit must be a number")
        end
    | LCall f t assign =>
        lbind (callf f (lget e t) (lget e "offset") (ls_out st) (ls_budget st)) (fun '(v, out, b) =>
        if assign then
          match v with
          | LvNum _ => LOk (mkLS (lset e "offset" v) out b (ls_ret st))
          | _ => LFail (EType "offset = f(..): f does not return a number")
          end
        else LOk (mkLS e out b (ls_ret st)))
    | LIfChain arms =>
        (fix pick (a : list (string * string * list lstmt)) : lres lua_state :=
           match a with
           | [] => LOk st
           | (k, lit, body) :: r =>
               if key_eq (lget e k) lit
               then lbind ((fix go (b : list lstmt) (st : lua_state) : lres lua_state :=
                              match b with
                              | [] => LOk st
                              | s' :: r => match ls_ret st with
                                           | Some _ => LOk st
                                           | None => lbind (exec_stmt s' st) (go r)
                                           end
                              end) body st) (fun st' => LOk (leave st st'))
               else pick r
           end) arms
    | LInfo _ => LOk st
    | LMarker _ => LOk st
    | LReturnOffset => LOk (mkLS e (ls_out st) (ls_budget st) (Some (lget e "offset")))
    | LJunk t => LFail (EJunkStmt t)
    end.

  Fixpoint exec_list (b : list lstmt) (st : lua_state) : lres lua_state :=
    match b with
    | [] => LOk st
    | s :: r => match ls_ret st with
                | Some _ => LOk st
                | None => lbind (exec_stmt s st) (exec_list r)
                end
    end.
End Exec.

(* The function the name [f] denotes in the body of the function at position [caller] of the
   chunk (the main dissector is at position [length funs]): the nearest [local function f]
   at a position <= caller (its own name is in scope in its body); otherwise the last global
   [function f] of the chunk (all definitions have been executed when a packet is dissected). *)
Fixpoint resolve_local (funs : list lfun) (i caller : nat) (f : string) (best : option (nat * lfun)) : option (nat * lfun) :=
  match funs with
  | [] => best
  | fn :: r =>
      if Nat.ltb caller i then best
      else resolve_local r (S i) caller f
             (if andb (fn_local fn) (String.eqb (fn_name fn) f) then Some (i, fn) else best)
  end.

Fixpoint resolve_global (funs : list lfun) (i : nat) (f : string) (best : option (nat * lfun)) : option (nat * lfun) :=
  match funs with
  | [] => best
  | fn :: r => resolve_global r (S i) f (if andb (negb (fn_local fn)) (String.eqb (fn_name fn) f) then Some (i, fn) else best)
  end.

Definition resolve (funs : list lfun) (caller : nat) (f : string) : option (nat * lfun) :=
  match resolve_local funs 0 caller f None with
  | Some r => Some r
  | None => resolve_global funs 0 f None
  end.

Fixpoint call_fn (P : lprog) (buf : list byte) (fuel : nat) (caller : nat) (f : string) (tree off : lval)
                 (out : list triple) (budget : nat) : lres (lval * list triple * nat) :=
  match fuel with
  | O => LFail EFuel
  | S fuel' =>
      match resolve (lp_funs P) caller f with
      | None => LFail (EUndefCall f)
      | Some (idx, fn) =>
          (* parameters (buf, pinfo, tree, offset) *)
          match exec_list buf (map fst (lp_fields P)) (call_fn P buf fuel' idx) (fn_body fn)
                          (mkLS [("offset", off); ("tree", tree)] out budget None) with
          | LOk st => LOk (match ls_ret st with Some v => v | None => LvNil "(no return value)" end, ls_out st, ls_budget st)
          | LFail e => LFail e
          end
      end
  end.

(* ---- what is decided when the script is loaded ---- *)

(* names that must be Lua identifiers: declared locals and the variables compared in if chains *)
Fixpoint stmt_names (s : lstmt) : list string :=
  match s with
  | LLocalInt x _ _ => [x]
  | LLocalStr x _ => [x]
  | LFor _ body => (fix go (b : list lstmt) : list string := match b with [] => [] | s' :: r => stmt_names s' ++ go r end) body
  | LIfChain arms =>
      (fix pick (a : list (string * string * list lstmt)) : list string :=
         match a with
         | [] => []
         | (k, _, body) :: r =>
             k :: (fix go (b : list lstmt) : list string := match b with [] => [] | s' :: r => stmt_names s' ++ go r end) body
               ++ pick r
         end) arms
  | _ => []
  end.

Definition prog_names (P : lprog) : list string :=
  flat_map stmt_names (flat_map fn_body (lp_funs P) ++ lp_main P).

Definition find_first (pred : string -> bool) (l : list string) : option string :=
  match filter pred l with x :: _ => Some x | [] => None end.

(* loading the script: it must compile, and the [fields] table constructor calls ProtoField.<ctor> *)
Definition load_check (P : lprog) : option lerr :=
  match find_first (fun x => mem_str x lua_keywords) (prog_names P) with
  | Some k => Some (ESyntax ("reserved word used as a variable: " ++ k))
  | None =>
      match find_first (fun c => negb (mem_str c protofield_ctors)) (map snd (lp_fields P)) with
      | Some c => Some (ENoCtor c)
      | None => None
      end
  end.

Definition loop_budget : nat := (30 * 1000)%nat.

(* running the main dissector on a buffer, the script being loaded *)
Definition sem_lua_run (P : lprog) (fuel : nat) (buf : list byte) : lres (list triple * nat) :=
  match exec_list buf (map fst (lp_fields P)) (call_fn P buf fuel (length (lp_funs P))) (lp_main P)
                  (mkLS [("offset", LvNum 0); ("tree", LvTree)] [] loop_budget None) with
  | LOk st =>
      match lget (ls_env st) "offset" with
      | LvNum o => if (o <? 0)%Z then LFail (EBeyond o 0 (length buf)) else LOk (rev (ls_out st), Z.to_nat o)
      | _ => LFail (EType "offset is not a number at the end of the dissector")
      end
  | LFail e => LFail e
  end.

(* loading, then running *)
Definition sem_lua (P : lprog) (fuel : nat) (buf : list byte) : lres (list triple * nat) :=
  match load_check P with
  | Some e => LFail e
  | None => sem_lua_run P fuel buf
  end.
