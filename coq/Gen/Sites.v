(* GENERATED on every run by harness/sites.py from /repo's source (tools/sites, go/types). Do not edit. *)
From Coq Require Import String List.
Import ListNotations.
Open Scope string_scope.

(* every `range` over a map in internal/parser, internal/model and cmd: file, function, kind *)
Definition map_range_sites : list (string * string * string) :=
  [("internal/model/model.go", "*BinaryModel.AddOption", "collect-then-sort");
   ("internal/parser/common.go", "WriteCodeToFile", "effects");
   ("internal/parser/cpp_generator.go", "CppGenerator.generateCodeForPacket", "collect-then-sort");
   ("internal/parser/go_generator.go", "GoGenerator.Generate", "keyed-insert");
   ("internal/parser/java_generator.go", "JavaGenerator.Generate", "keyed-insert");
   ("internal/parser/py_generator.go", "PythonGenerator.generateCodeForPacket", "collect-then-sort");
   ("internal/parser/rust_generator.go", "RustGenerator.Generate", "keyed-insert");
   ("internal/parser/rust_generator.go", "RustGenerator.generateLibCode", "collect-then-sort")].

(* every statement of the generator / cmd sources that writes memory of the parsed model *)
Definition model_mutation_sites : list (string * string * string) :=
  [].
