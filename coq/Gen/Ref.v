(* The reference compilation of a model to the codec IR: what a generator has to emit, up
   to the equivalence of IR/Eqv.v.  Proofs/RefEnc.v and Proofs/RefDec.v prove that it
   implements the wire specification; each generator model is then proved (Proofs/<L>.v)
   equivalent to it on that language's fragment, and the IR extracted from the real
   generator's output is validated against it on every run by the same proved-sound
   boolean equivalence.  Model only: no proofs here. *)
From FP Require Export Common.
Open Scope string_scope.
Open Scope list_scope.

Section Ref.
  Variable M : bmodel.
  (* identity of the length placeholder's position variable (languages differ, any choice works) *)
  Variable mk : string -> packet -> nat.

  Definition quote_byte (b : byte) : string :=
    if N.eqb b 92 then "'\\'" else String "'" (String (ascii_of_N b) (String "'" EmptyString)).

  Definition ref_pad (fp : option padding) : padarg :=
    match eff_pad M fp with
    | Some (b, lft) => Some (quote_byte b, lft)
    | None => None
    end.

  Definition ref_obj_path (path : string) (f : field) : string :=
    match obj_path path f with Some ty => ty | None => "?" end.

  (* the step for one occurrence of a field's type *)
  Definition ref_elem (path : string) (f : field) : estep :=
    let le := le_of M in
    match f_attr f with
    | ABasic t => EInt (opt_w (scalar_width (get_basic_type t))) le
    | AFixed n fp => EFixed n (ref_pad fp)
    | ADyn => EStr (cfg_str_w M) le le
    | AObj _ _ _ _ => EObj (ref_obj_path path f)
    | AMatch _ _ _ => EDyn
    | _ => ENone "not an element"
    end.

  Definition ref_len_w (p : packet) : nat := opt_w (len_width p).

  Definition ref_enc_field (path : string) (p : packet) (i : nat) (f : field) : list (nat * estep) :=
    let le := le_of M in
    if f_rep f then [(i, EList (cfg_list_w M) le le (ref_elem path f))]
    else match f_attr f with
         | ALen _ t => [(i, EMarkZero (mk path p) (opt_w (ty_width (get_basic_type t))) le)]
         | ACheck alg t => [(i, ECheck alg (opt_w (ty_width (get_basic_type t))) le)]
         | _ => match f_len f with
                | LTarget => [(i, ESpan (ref_elem path f) i);
                              (i, EPatch (mk path p) i (ref_len_w p) le (ref_len_w p) None)]
                | _ => [(i, ref_elem path f)]
                end
         end.

  Definition ref_delem (path : string) (p : packet) (f : field) : dstep :=
    let le := le_of M in
    match f_attr f with
    | ABasic t => DInt (opt_w (scalar_width (get_basic_type t))) le
    | ALen _ t | ACheck _ t => DInt (opt_w (ty_width (get_basic_type t))) le
    | AFixed n fp => DFixed n (ref_pad fp)
    | ADyn => DStr (cfg_str_w M) le false
    | AObj _ _ _ _ => DObj (ref_obj_path path f)
    | AMatch (Some k) _ pairs =>
        match index_where (String.eqb k) (p_fields p) 0 with
        | Some ki => DDispatch (map (fun mp => (mp_key mp, mp_value mp)) pairs) true ki true
        | None => DNone "unresolved key"
        end
    | _ => DNone "not an element"
    end.

  Definition ref_dec_field (path : string) (p : packet) (i : nat) (f : field) : list (nat * dstep) :=
    if f_rep f then [(i, DList (cfg_list_w M) (le_of M) false (ref_delem path p f))]
    else [(i, ref_delem path p f)].

  Definition ref_ir (path : string) (p : packet) : pkt_ir :=
    let fs := number 0 (p_fields p) in
    mkPkt (length (p_fields p))
          (flat_map (fun '(i, f) => ref_enc_field path p i f) fs)
          (flat_map (fun '(i, f) => ref_dec_field path p i f) fs).

  Definition ref_prog : prog := map (fun '(path, p) => (path, ref_ir path p)) (all_packets M).
End Ref.
