(* Model of internal/parser/lua_wsp_generator.go at the level of the Lua IR (Lua/LuaIR.v).
   Faithful to the code, defects included.  Model only: no proofs here.

   Line numbers refer to lua_wsp_generator.go. *)
From FP Require Export Common LuaIR.
Open Scope string_scope.
Open Scope list_scope.

(* luaBasicTypeMap (lines 21-118): LuaType (the ProtoField constructor), Be, Le, Size *)
Record luatype := mkLT { lt_ctor : string; lt_be : string; lt_le : string; lt_size : nat }.

Definition lua_type_table : list (string * luatype) :=
  [("u8",   mkLT "uint32" "uint"   "le_uint"   1);
   ("char", mkLT "char"   "uint"   "le_uint"   1);
   ("u16",  mkLT "uint32" "uint"   "le_uint"   2);
   ("u24",  mkLT "uint32" "uint"   "le_uint"   3);
   ("u32",  mkLT "uint32" "uint"   "le_uint"   4);
   ("u64",  mkLT "uint64" "uint64" "le_uint64" 8);
   ("i8",   mkLT "int"    "int"    "le_int"    1);
   ("i16",  mkLT "int"    "int"    "le_int"    2);
   ("i24",  mkLT "int"    "int"    "le_int"    3);
   ("i32",  mkLT "int"    "int"    "le_int"    4);
   ("i64",  mkLT "int64"  "int64"  "le_int64"  8);
   ("f32",  mkLT "float"  "float"  "le_float"  4);
   ("f64",  mkLT "double" "float"  "le_float"  8)].

Definition lua_basic (t : string) : option luatype := assoc lua_type_table t.

(* the case lists of decodeListSize / decodeStringLen (lines 260, 282) *)
Definition prefix_names : list string := ["i8"; "u8"; "i16"; "u16"; "i32"; "u32"; "i64"; "u64"].
(* the numeric case of generateFieldDefinitionFromPacket (line 428) *)
Definition fielddef_numeric : list string := ["i8"; "u8"; "i16"; "u16"; "i32"; "u32"; "i64"; "u64"; "f32"; "f64"].

Section Lua.
  Variable M : bmodel.

  Definition lua_meth (lt : luatype) : string := if le_of M then lt_le lt else lt_be lt.

  (* f.GetType() where the Go code would panic: outside the modelled input space *)
  Definition gtype (f : field) : string := match field_get_type f with Some t => t | None => "?" end.

  (* RefPacket of an object attribute *)
  Definition ref_packet (a : attr) : option packet :=
    match a with
    | AObj true _ _ (Some q) => Some q
    | AObj false _ (Some r) _ => lookup_packet M r
    | _ => None
    end.

  Definition ref_name (a : attr) : string :=
    match a with
    | AObj true _ _ (Some q) => p_name q
    | AObj _ _ (Some r) _ => r
    | _ => "?"
    end.

  Definition lua_field_name (p : packet) (f : field) : string := snake M (p_name p) ++ "_" ++ snake M (f_name f).

  (* ---- generateFieldDefinitionFromPacket (lines 410-454): the entries of the fields table ---- *)
  Fixpoint field_defs (fuel : nat) (p : packet) : list (string * string) :=
    match fuel with
    | O => []
    | S fuel' =>
        flat_map (fun f =>
          let name := lua_field_name p f in
          match f_attr f with
          | AFixed _ _ => [(name, "string")]
          | a =>
              let t := gtype f in
              if String.eqb t "char" then [(name, "char")]
              else if str_in t fielddef_numeric then
                match lua_basic t with Some lt => [(name, lt_ctor lt)] | None => [] end
              else if orb (String.eqb t "string") (String.eqb t "char[]") then [(name, "string")]
              else if String.eqb t "bytes" then [(name, "bytes")]
              else if String.eqb t "bool" then [(name, "bool")]
              else match a with
                   | AObj _ _ _ _ => match ref_packet a with Some q => field_defs fuel' q | None => [] end
                   | _ => []                              (* "-- Unsupported type: ..." *)
                   end
          end) (p_fields p)
    end.

  (* ---- decodeListSize / decodeStringLen (lines 257-299) ---- *)
  Definition prefix_stmts (tree : string) (prefix : string) (var : string) (label : string) (f : field) : list lstmt :=
    if str_in prefix prefix_names then
      match lua_basic prefix with
      | Some lt => [LLocalInt var (lt_size lt) (lua_meth lt); LAddText tree label var (lt_size lt); LAdv (LConst (lt_size lt))]
      | None => [LMarker ("unsupported numeric type: " ++ prefix)]
      end
    else [LMarker ("unsupported numeric type: " ++ gtype f)].

  Definition size_name (p : packet) (f : field) : string := lua_field_name p f ++ "_size".
  Definition len_name (p : packet) (f : field) : string := lua_field_name p f ++ "_len".

  (* ---- decodeFieldForLocal (lines 301-332): the local a match is keyed by ---- *)
  Definition local_stmts (f : field) : list lstmt :=
    match f_attr f with
    | ABasic _ | ALen _ _ | ACheck _ _ =>
        match lua_basic (gtype f) with
        | Some lt => [LLocalInt (snake M (f_name f)) (lt_size lt) (lua_meth lt)]
        | None => [LMarker ("unsupported numeric type: " ++ gtype f)]
        end
    | AFixed n _ => [LLocalStr (snake M (f_name f)) (LConst n)]
    | ADyn =>
        match lua_basic (c_str (m_cfg M)) with
        | Some lt => [LLocalInt "_len" (lt_size lt) (lua_meth lt);
                      LLocalStr (snake M (f_name f)) (LVar "_len")]          (* buf(offset, _len): the prefix is not skipped *)
        | None => [LMarker ("unsupported numeric type: " ++ gtype f)]
        end
    | _ => [LMarker ("unsupported type: " ++ gtype f)]
    end.

  (* ---- decodeField (lines 334-397) ---- *)
  Definition field_stmts (tree : string) (p : packet) (f : field) : list lstmt :=
    let name := lua_field_name p f in
    match f_attr f with
    | AFixed n _ => [LAdd tree name (LConst n) false; LAdv (LConst n)]            (* always "add" *)
    | ABasic _ | ALen _ _ | ACheck _ _ =>
        match lua_basic (gtype f) with
        | Some lt => [LAdd tree name (LConst (lt_size lt)) (le_of M); LAdv (LConst (lt_size lt))]
        | None => [LMarker ("unsupported numeric type: " ++ gtype f)]
        end
    | AMatch (Some k) _ pairs =>
        match pairs with
        | [] => []
        | _ => [LIfChain (map (fun mp => (snake M k, mp_key mp,
                                          [LCall ("dissect_" ++ snake M (mp_value mp)) "tree" false;   (* "tree", result dropped *)
                                           LInfo ("set:" ++ mp_value mp)])) pairs)]
        end
    | AMatch None _ _ => [LJunk "panic: nil MatchKeyField"]
    | ADyn =>
        prefix_stmts tree (c_str (m_cfg M)) (len_name p f) (f_name f ++ " Len: ") f
        ++ [LAdd tree name (LVar (len_name p f)) false; LAdv (LVar (len_name p f))]
    | AObj _ _ _ _ =>
        LCall ("dissect_" ++ snake M (ref_name (f_attr f))) "subtree" false          (* "subtree", result dropped *)
        :: (if f_rep f then [] else [LInfo ("set:" ++ f_name f)])
    | ANil => [LMarker ("unsupported type: " ++ gtype f)]
    end.

  (* ---- decodeList (lines 231-243) ---- *)
  Definition list_stmts (tree : string) (p : packet) (f : field) : list lstmt :=
    let code := field_stmts tree p f in
    let code' := match f_attr f, code with
                 | AObj true _ _ _, LCall g t _ :: r => LCall g t true :: r       (* "offset = " + code, inline objects only *)
                 | _, _ => code
                 end in
    prefix_stmts tree (c_list (m_cfg M)) (size_name p f) (f_name f ++ " Size: ") f
    ++ [LFor (size_name p f) (code' ++ [LInfo ("append:" ++ f_name f)])].

  (* isMatchField (lines 245-252) *)
  Definition is_match_key (f : field) (p : packet) : bool :=
    existsb (fun g => match f_attr g with
                      | AMatch (Some k) _ _ => String.eqb (f_name f) k
                      | _ => false
                      end) (p_fields p).

  (* the loop bodies of generateSubDissector / generateMainDissector *)
  Definition packet_stmts (tree : string) (p : packet) : list lstmt :=
    flat_map (fun f =>
      (if andb (is_match_key f p) (negb (String.eqb (gtype f) "match")) then local_stmts f else [])
      ++ (if f_rep f then list_stmts tree p f else field_stmts tree p f)) (p_fields p).

  (* ---- generateSubDissector (lines 173-202): the inline packets first, then the packet ---- *)
  Fixpoint sub_dissectors (p : packet) {struct p} : list lfun :=
    match p with
    | mkPacket pname _ _ fs _ =>
        ((fix inl (fs : list field) : list lfun :=
            match fs with
            | [] => []
            | mkField _ (AObj true _ _ (Some q)) _ _ :: r => sub_dissectors q ++ inl r
            | _ :: r => inl r
            end) fs)
        ++ [mkFun ("dissect_" ++ snake M pname) true
                  (LSubtree "tree" 1 pname
                   :: (match fs with
                       | [] => [LAppendText "subtree"]
                       | _ => packet_stmts "subtree" p
                       end)
                   ++ [LReturnOffset])]
    end.

  (* the inline packets of the root (generateMainDissector, lines 207-212) *)
  Definition root_inline (root : packet) : list lfun :=
    flat_map (fun f => match f_attr f with
                       | AObj true _ _ (Some q) => sub_dissectors q
                       | _ => []
                       end) (p_fields root).

  Definition def_fuel : nat := 64%nat.

  (* Generate (lines 140-171).  binModel.RootPacket.Name is dereferenced first: no root packet, no output (panic) *)
  Definition gen_lua_opt : option lprog :=
    match m_root M with
    | None => None
    | Some rn =>
        match lookup_packet M rn with
        | None => None
        | Some root =>
            Some (mkLua (flat_map (field_defs def_fuel) (m_packets M))
                        (flat_map (fun p => if p_root p then [] else sub_dissectors p) (m_packets M) ++ root_inline root)
                        (packet_stmts "tree" root))
        end
    end.

  Definition gen_lua : lprog :=
    match gen_lua_opt with
    | Some P => P
    | None => mkLua [] [] [LJunk "panic: no root packet"]
    end.
End Lua.
