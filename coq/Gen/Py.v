(* Model of internal/parser/py_generator.go at the level of the codec IR.
   Faithful to the code, defects included.  Model only: no proofs here.

   Python specifics (see harness/extract_py.py for the text side):
   - the member list is the body of __init__; a non-repeated Basic/Length/CheckSum field whose
     type is not a key of pyBasicTypeMap (e.g. "char") gets NO member line, so member indices
     are positions in the filtered list [py_members]; members are referred to by name, so a step
     is tagged with the first member carrying the field's snake name ([undefined_mark] if none);
   - method names carry width and byte order: pyBasicTypeMap[t].Le is "t_le" except for i8/u8
     where it is "i8"/"u8", so a 1-byte scalar write/read never has the little-endian suffix;
   - "self.m.encode(buffer)" is dynamic in Python; it is EObj when the member's decoder
     constructs a class ("self.m = T()"), EDyn when it comes from a factory;
   - the "if self.m is not None:" guard of a match member has no counterpart in the IR (EDyn);
   - the length patch has no cast ("self.l = end - start"; "write_T_at(pos, self.l)"): cast_w
     is the width of the write method, slice is None.                                         *)
From FP Require Export Common.
Open Scope string_scope.
Open Scope list_scope.

Section Py.
  Variable M : bmodel.

  Definition py_pad := padarg_of norm_py M.

  (* pyBasicTypeMap has exactly the ten numeric types (the keys of ty_width); the method suffix is
     typ.Le under LittleEndian, typ.BasicType otherwise; Le = BasicType for the 1-byte types *)
  Definition py_ty (t : string) : option (nat * bool) :=
    match ty_width t with
    | Some w => Some (w, andb (le_of M) (negb (Nat.eqb w 1)))
    | None => None
    end.

  Definition py_scalar (f : field) : option (nat * bool) :=
    match field_get_type f with Some t => py_ty t | None => None end.

  (* "typ := pyBasicTypeMap[...]" without the ok test: the zero PyType, method "write_" *)
  Definition py_method (o : option (nat * bool)) : nat * bool :=
    match o with Some x => x | None => (0%nat, false) end.

  (* generateInitMethod: does the field get a "self.<snake> = ..." line ? *)
  Definition py_has_member (f : field) : bool :=
    if f_rep f then true
    else match f_attr f with
         | ABasic _ | ALen _ _ | ACheck _ _ => match py_scalar f with Some _ => true | None => false end
         | _ => true
         end.

  Definition py_members (p : packet) : list field := filter py_has_member (p_fields p).

  (* a name used as "self.<snake n>" or "<snake n>_pos": the member it denotes *)
  Definition sn_index (p : packet) (n : string) : nat :=
    match index_where (fun n' => String.eqb (snake M n') (snake M n)) (py_members p) 0 with
    | Some i => i
    | None => undefined_mark
    end.

  (* generateEncodeField *)
  Definition py_enc_elem (path : string) (f : field) : estep :=
    let le := le_of M in
    match f_attr f with
    | ABasic _ | ACheck _ _ => match py_scalar f with Some (w, l) => EInt w l | None => ENone "omitted" end
    | AFixed n _ => EFixed n (py_pad (f_attr f))
    | ADyn => EStr (cfg_str_w M) le le                       (* write_string{,_le}(buffer, self.m, '<cfg>') *)
    | AObj _ _ _ _ => match obj_path path f with Some ty => EObj ty | None => ENone "unresolved" end
    | AMatch _ _ _ => EDyn                                   (* guarded by "is not None" *)
    | ALen _ _ | ANil => ENone "marker"                      (* default branch *)
    end.

  (* the packet's factory: one "<lowerCamel(p)>MessageFactory" per packet, filled from p.MatchFields in
     sorted key order; every block registers under the same name.  The registered value is the raw pair
     value, which names an emitted class only if some class (ToCamel(packet name)) is spelled that way. *)
  Fixpoint py_classes (path : string) (p : packet) {struct p} : list (string * string) :=
    match p with
    | mkPacket pname _ _ fs _ =>
        (fix inl (fs : list field) : list (string * string) :=
           match fs with
           | [] => []
           | mkField fname (AObj true _ _ (Some q)) _ _ :: r => py_classes (path_join path fname) q ++ inl r
           | _ :: r => inl r
           end) fs ++ [(camel M pname, path)]
    end.

  Definition py_all_classes : list (string * string) :=
    flat_map (fun p => py_classes (p_name p) p) (m_packets M).

  Definition py_class_ref (v : string) : string :=
    match assoc py_all_classes v with Some path => path | None => "?" ++ v end.

  Definition py_table (p : packet) : list (string * string) :=
    flat_map (fun '(_, pairs) => map (fun mp => (mp_key mp, py_class_ref (mp_value mp))) pairs) (p_mfs p).

  (* generateEncodeMethod; [j] = position of the field.  Every reference to the field is by name
     ("self.<snake>"): the member it denotes is the first one of that name (two fields whose names
     convert to the same snake name share one attribute) *)
  Definition py_enc_step (path : string) (p : packet) (j : nat) (f : field) : list (nat * estep) :=
    let i := sn_index p (f_name f) in
    match f_len f with
    | LTarget =>
        (* "self.<f>.encode(buffer)" whatever the attribute and the repeat flag *)
        let inner := if f_rep f then ENone "encode on a list"
                     else match f_attr f with
                          | AMatch _ _ _ => EDyn
                          | AObj _ _ _ _ => match obj_path path f with Some ty => EObj ty | None => ENone "unresolved" end
                          | _ => ENone "encode on a non-codec member"
                          end in
        let lf := match len_field_index p with Some li => nth_error (p_fields p) li | None => None end in
        let '(w, le) := py_method (match lf with Some lf => py_scalar lf | None => None end) in
        (* "<len>_pos" is defined by the placeholder of the length field, if that came earlier *)
        let mark := match len_field_index p, p_lenf p with
                    | Some li, Some ln => if Nat.ltb li j then sn_index p ln else undefined_mark
                    | _, _ => undefined_mark
                    end in
        [(i, ESpan inner i); (i, EPatch mark i w le w None)]
    | _ =>
      match f_attr f with
      | ALen _ _ =>
          let mi := sn_index p (f_name f) in                 (* "<len>_pos = buffer.write_index" *)
          let '(w, le) := py_method (py_scalar f) in
          [(mi, EMarkZero mi w le)]
      | ACheck alg _ =>
          (* the service block always; the write only if the type is known *)
          [(i, match py_scalar f with Some (w, le) => ECheck alg w le | None => ECheck alg 0 false end)]
      | _ =>
          if f_rep f
          then let '(lw, lle) := py_method (py_ty (c_list (m_cfg M))) in       (* buffer.write_<list type>(size) *)
               [(i, EList lw lle lle (py_enc_elem path f))]
          else [(i, py_enc_elem path f)]
      end
    end.

  (* generateDecodeField *)
  Definition py_dec_elem (path : string) (p : packet) (f : field) : dstep :=
    let le := le_of M in
    match f_attr f with
    | ABasic _ | ALen _ _ | ACheck _ _ => match py_scalar f with Some (w, l) => DInt w l | None => DNone "omitted" end
    | AFixed n _ => DFixed n (py_pad (f_attr f))
    | ADyn => DStr (cfg_str_w M) le false
    | AObj _ _ _ _ => match obj_path path f with Some ty => DObj ty | None => DNone "unresolved" end
    | AMatch (Some k) _ _ => DDispatch (py_table p) false (sn_index p k) true
    | AMatch None _ _ => DNone "unresolved key"
    | ANil => DNone "marker"
    end.

  (* generateDecodeMethod: read_len{,_le}(buffer, '<list type>') + for loop *)
  Definition py_dec_step (path : string) (p : packet) (f : field) : nat * dstep :=
    let i := sn_index p (f_name f) in
    let e := py_dec_elem path p f in
    if f_rep f
    then match e with
         | DNone _ => (undefined_mark, DList (cfg_list_w M) (le_of M) false e)   (* empty / marker loop body names no member *)
         | _ => (i, DList (cfg_list_w M) (le_of M) false e)
         end
    else (i, e).

  Fixpoint py_number {A} (j : nat) (l : list A) : list (nat * A) :=
    match l with [] => [] | x :: r => (j, x) :: py_number (S j) r end.

  Definition py_ir (path : string) (p : packet) : pkt_ir :=
    mkPkt (length (py_members p))
          (flat_map (fun '(j, f) => py_enc_step path p j f) (py_number 0 (p_fields p)))
          (map (py_dec_step path p) (p_fields p)).

  (* canonical order of IR.md (the file order differs: referenced packets first, hasGen) *)
  Fixpoint py_packet (path : string) (p : packet) {struct p} : prog :=
    match p with
    | mkPacket _ _ _ fs _ =>
        (fix inl (fs : list field) : prog :=
           match fs with
           | [] => []
           | mkField fname (AObj true _ _ (Some q)) _ _ :: r => py_packet (path_join path fname) q ++ inl r
           | _ :: r => inl r
           end) fs ++ [(path, py_ir path p)]
    end.

  (* Generate: binModel.RootPacket.Name is dereferenced first: no root packet, no output (panic) *)
  Definition gen_py : prog :=
    match m_root M with
    | None => []
    | Some _ => flat_map (fun p => py_packet (p_name p) p) (m_packets M)
    end.
End Py.
