(* Model of internal/parser/py_generator.go at the level of the codec IR.
   Faithful to the code, defects included.  Model only: no proofs here. *)
From FP Require Export Common.
Open Scope string_scope.
Open Scope list_scope.

Section Py.
  Variable M : bmodel.

  Definition gen_py : prog := [].
End Py.
