(* Decisions shared by the generator models.  Model only: no proofs here. *)
From FP Require Export Sem.
Open Scope string_scope.
Open Scope list_scope.

Definition nul_char : ascii := ascii_of_nat 0.
(* the model's NUL pad character: quote, NUL byte, quote (packet_dsl_parser.go) *)
Definition nul_raw : string := String "'" (String nul_char (String "'" EmptyString)).
Definition nul_x00 : string := "'\x00'".       (* backslash x 0 0 *)
Definition nul_0 : string := "'\0'".           (* backslash 0 *)
Definition nul_u0000 : string := "'\u0000'".   (* backslash u 0 0 0 0 *)

Definition str_in (s : string) (l : list string) : bool := existsb (String.eqb s) l.

(* the five GetPadding normalisers *)
Definition norm_go (c : string) : string := if str_in c [nul_raw; nul_x00] then nul_x00 else c.
Definition norm_py := norm_go.
Definition norm_java (c : string) : string := if str_in c [nul_raw; nul_x00] then nul_0 else c.
Definition norm_rust (c : string) : string := if str_in c [nul_raw; nul_x00; nul_u0000] then nul_0 else c.
Definition norm_cpp := norm_rust.

(* Padding.IsDefault *)
Definition pad_is_default (c : string) (lft : bool) : bool := andb (String.eqb c "' '") (negb lft).

(* GetPadding(f) followed by the "if !padding.IsDefault()" test every emitter makes *)
Definition padarg_of (norm : string -> string) (M : bmodel) (a : attr) : padarg :=
  let p := match a with
           | AFixed _ (Some p) => Some p
           | _ => c_pad (m_cfg M)
           end in
  match p with
  | None => None
  | Some p => let c := norm (pad_char p) in
              if pad_is_default c (pad_left p) then None else Some (c, pad_left p)
  end.

Definition opt_w (o : option nat) : nat := match o with Some w => w | None => 0%nat end.

Definition cfg_list_w (M : bmodel) : nat := opt_w (ty_width (c_list (m_cfg M))).
Definition cfg_str_w (M : bmodel) : nat := opt_w (ty_width (c_str (m_cfg M))).
Definition le_of (M : bmodel) : bool := c_le (m_cfg M).

(* index of the first field whose name satisfies [pred] *)
Fixpoint index_where (pred : string -> bool) (fs : list field) (i : nat) : option nat :=
  match fs with
  | [] => None
  | f :: r => if pred (f_name f) then Some i else index_where pred r (S i)
  end.


(* an id that no step defines: a position variable used before (or without) its definition *)
Definition undefined_mark : nat := 999%nat.

(* the type of the member an object field is declared with, as a packet path *)
Definition obj_path (path : string) (f : field) : option string :=
  match f_attr f with
  | AObj true _ _ (Some _) => Some (path_join path (f_name f))
  | AObj false _ (Some r) _ => Some r
  | _ => None
  end.

(* all the (key, packet) registrations made for match fields of [fs] whose key field name
   satisfies [same] *)
Fixpoint registrations (same : string -> bool) (fs : list field) : list (string * string) :=
  match fs with
  | [] => []
  | f :: r =>
      match f_attr f with
      | AMatch (Some k) _ pairs =>
          (if same k then map (fun mp => (mp_key mp, mp_value mp)) pairs else []) ++ registrations same r
      | _ => registrations same r
      end
  end.

Definition width_of_field (f : field) : option nat :=
  match field_get_type f with Some t => ty_width t | None => None end.

(* width of the packet's length field (p.LengthField.GetType()) *)
Definition len_field_index (p : packet) : option nat :=
  match p_lenf p with
  | Some n => index_where (String.eqb n) (p_fields p) 0
  | None => None
  end.

Fixpoint number {A} (i : nat) (l : list A) : list (nat * A) :=
  match l with [] => [] | x :: r => (i, x) :: number (S i) r end.
