(* Language fragments: for each of the five codec generators two boolean, executable,
   structural predicates over the model, [L_frag_enc] and [L_frag_dec], on which the
   generator MODEL's output is proved (Proofs/Frag<L>.v, for ALL models, no bound) to be
   accepted by the validator - hence, by Proofs/Validated.v, to implement the wire
   specification for every message.

   A fragment is a conjunction of NAMED conditions ([list (string * bool)]): [conds_ok] is
   their conjunction, [conds_why] the names of the violated ones.  Every name is either a
   model well-formedness fact (WF: what the visitor guarantees for accepted programs /
   what harness/codec.modelled checks) or the negation of one finding of
   known_findings.json (the mapping is written next to each condition).

   Model only: no proofs here. *)
From FP Require Export Validate Go Py Cpp Rust Java.
Open Scope string_scope.
Open Scope list_scope.

Definition conds := list (string * bool).
Definition conds_ok (l : conds) : bool := forallb (fun c => snd c) l.
Fixpoint dedup (l : list string) : list string :=
  match l with
  | [] => []
  | x :: r => if existsb (String.eqb x) r then dedup r else x :: dedup r
  end.
Definition conds_why (l : conds) : list string := dedup (map fst (filter (fun c => negb (snd c)) l)).

Definition is_some {A} (o : option A) : bool := match o with Some _ => true | None => false end.
Definition onat_eqb (a b : option nat) : bool :=
  match a, b with Some x, Some y => Nat.eqb x y | _, _ => false end.

(* ---- conditions shared by the languages ---- *)

(* "numeric_scalar": the spelling denotes one of the ten numeric types, i.e. a key of the
   <lang>BasicTypeMap tables.  Excludes 'char' (finding char-field-dropped: Go, Python, C++)
   and unknown spellings (WF). *)
Definition numeric (t : string) : bool := is_some (ty_width (get_basic_type t)).

(* "numeric_or_char_scalar" (Rust, Java: put_char / the byte methods implement the one-byte 'char') *)
Definition scalar_or_char (t : string) : bool := orb (numeric t) (String.eqb t "char").

(* "pad_literal": the effective pad character (declared, else configured) is a quoted
   one-character literal 'c' other than a backslash.  Excludes the bare space kept by
   NewConfiguration for FixedStringPadFromLeft without FixedStringPadChar (finding
   bare-pad-literal) and escape spellings the specification does not read (WF: the visitor
   stores the NUL pad as quote-NUL-quote). *)
Definition quoted_char (s : string) : option ascii :=
  match s with
  | String a (String c (String b EmptyString)) =>
      if andb (Ascii.eqb a "'"%char) (Ascii.eqb b "'"%char) then Some c else None
  | _ => None
  end.
Definition pad_lit_ok (p : padding) : bool :=
  match quoted_char (pad_char p) with Some c => negb (Ascii.eqb c "\"%char) | None => false end.
Definition sel_pad (M : bmodel) (fp : option padding) : option padding :=
  match fp with Some p => Some p | None => c_pad (m_cfg M) end.
Definition pad_ok (M : bmodel) (fp : option padding) : bool :=
  match sel_pad M fp with Some p => pad_lit_ok p | None => true end.

(* "object_resolves": an object member has a type (inline packet present / reference named). WF. *)
Definition obj_ok (path : string) (f : field) : bool := is_some (obj_path path f).

(* the position variable a packet's encoder uses for its length placeholder: the one its first
   placeholder step defines *)
Fixpoint first_some {A} (fm : A -> option nat) (l : list A) : nat :=
  match l with
  | [] => undefined_mark
  | x :: r => match fm x with Some m => m | None => first_some fm r end
  end.

(* the width of the packet's length field, read the generators' way (first field of that name
   in the field list) *)
Definition len_field (p : packet) : option field :=
  match len_field_index p with Some li => nth_error (p_fields p) li | None => None end.

Definition lenf_w (p : packet) : option nat :=
  match len_field p with Some lf => width_of_field lf | None => None end.

(* "len_width_resolves": the packet's length field has a numeric type, the same whether it is
   looked up through FieldMap (specification: last field of the name) or through the field
   list (generators: first field of the name).  WF (field names are distinct). *)
Definition len_w_agree (p : packet) (w : option nat) : bool :=
  match len_width p, w with Some a, Some b => Nat.eqb a b | _, _ => false end.

(* every length-of field of a packet has the width of the packet's length field
   (= Proofs/RefDec.lenw_ok, restated here to keep this file free of proofs) *)
Definition frag_lenw_ok_packet (p : packet) : bool :=
  forallb (fun f => match f_attr f with
                    | ALen _ t => if f_rep f then true
                                  else match ty_width (get_basic_type t), len_width p with
                                       | Some a, Some b => Nat.eqb a b
                                       | None, _ => true
                                       | _, None => false
                                       end
                    | _ => true
                    end) (p_fields p).
Definition frag_lenw_ok (M : bmodel) : bool := forallb (fun x => frag_lenw_ok_packet (snd x)) (all_packets M).

(* the table the specification dispatches through *)
Definition pairs_tbl (pairs : list mpair) : list (string * string) :=
  map (fun mp => (mp_key mp, mp_value mp)) pairs.
Definition tbl_eqb (t t' : list (string * string)) : bool :=
  forall2b (fun a b => andb (String.eqb (fst a) (fst b)) (String.eqb (snd a) (snd b))) t t'.

(* conditions of every field of every packet *)
Definition fields_conds (c : string -> packet -> nat -> field -> conds) (path : string) (p : packet) : conds :=
  flat_map (fun '(i, f) => c path p i f) (FP.Common.number 0 (p_fields p)).
Definition packets_conds (M : bmodel) (c : string -> packet -> conds) : conds :=
  flat_map (fun '(path, p) => c path p) (all_packets M).

(* ================================================================== Go *)
Section GoFrag.
  Variable M : bmodel.

  (* the position variable defined by a field's placeholder: "<target>Pos" *)
  Definition go_field_mark (p : packet) (f : field) : option nat :=
    if f_rep f then None
    else match f_len f with
         | LTarget => None
         | _ => match f_attr f with ALen (Some t) _ => Some (FP.Go.lc_index M p t) | _ => None end
         end.
  Definition go_pkt_mark (p : packet) : nat := first_some (go_field_mark p) (p_fields p).

  (* Encoder conditions of field [i] = [f] of packet [p] at [path]:
     repeatable          WF: only scalars, strings and objects can be repeated
     numeric_scalar      finding char-field-dropped / WF
     pad_literal         finding bare-pad-literal / WF
     object_resolves     WF
     attr_present        WF (nil attribute)
     target_is_codec     WF: a length-of target is a match or object member
     len_target_named    WF: the length-of attribute names a target
     len_target_resolves WF: ... that is a field of the packet (through ToLowerCamel)
     len_mark_shared     WF: every placeholder / back-patch of the packet goes through one position
                         variable: the length-of attribute names (up to ToLowerCamel) the target
     len_before_target   finding length-field-after-target
     len_width_resolves  WF
     len_width_le_4      finding go-length-slice-is-4-bytes *)
  Definition go_enc_conds (path : string) (p : packet) (i : nat) (f : field) : conds :=
    if f_rep f then
      match f_attr f with
      | ABasic t => [("numeric_scalar", numeric t)]
      | AFixed _ fp => [("pad_literal", pad_ok M fp)]
      | ADyn => []
      | AObj _ _ _ _ => [("object_resolves", obj_ok path f)]
      | _ => [("repeatable", false)]
      end
    else
      match f_len f with
      | LTarget =>
          [("target_is_codec", match f_attr f with AMatch _ _ _ => true | AObj _ _ _ _ => obj_ok path f | _ => false end);
           ("len_before_target", match len_field_index p with Some li => Nat.ltb li i | None => false end);
           ("len_width_resolves", len_w_agree p (lenf_w p));
           ("len_width_le_4", match lenf_w p with Some w => Nat.leb w 4 | None => false end);
           ("len_mark_shared", Nat.eqb (FP.Go.lc_index M p (f_name f)) (go_pkt_mark p))]
      | _ =>
          match f_attr f with
          | ABasic t => [("numeric_scalar", numeric t)]
          | ALen (Some t) lt =>
              [("numeric_scalar", numeric lt);
               ("len_target_resolves",
                is_some (index_where (fun n' => String.eqb (lcamel M n') (lcamel M t)) (p_fields p) 0));
               ("len_mark_shared", Nat.eqb (FP.Go.lc_index M p t) (go_pkt_mark p))]
          | ALen None _ => [("len_target_named", false)]
          | ACheck _ t => [("numeric_scalar", numeric t)]
          | AFixed _ fp => [("pad_literal", pad_ok M fp)]
          | ADyn => []
          | AObj _ _ _ _ => [("object_resolves", obj_ok path f)]
          | AMatch _ _ _ => []
          | ANil => [("attr_present", false)]
          end
      end.

  (* Decoder conditions:
     go_object_named_after_type   finding go-object-field-name-is-not-type: ToCamel(field name)
                                  is the type name (single object) / ToCamel(type) is the type (list)
     match_key_resolves           WF: the key names a field, the same one by name and by ToCamel name
     match_table_own              WF: the registrations made under the key are this field's pairs
                                  (one match field per key)
     match_keys_distinct          finding duplicate-match-keys *)
  Definition go_dec_conds (path : string) (p : packet) (i : nat) (f : field) : conds :=
    if f_rep f then
      match f_attr f with
      | ABasic t => [("numeric_scalar", numeric t)]
      | AFixed _ fp => [("pad_literal", pad_ok M fp)]
      | ADyn => []
      | AObj _ _ _ _ =>
          [("object_resolves", obj_ok path f);
           ("go_object_named_after_type",
            match field_get_type f with Some t => String.eqb (camel M t) t | None => false end)]
      | _ => [("repeatable", false)]
      end
    else
      match f_attr f with
      | ABasic t | ALen _ t | ACheck _ t => [("numeric_scalar", numeric t)]
      | AFixed _ fp => [("pad_literal", pad_ok M fp)]
      | ADyn => []
      | AObj _ _ _ _ =>
          [("object_resolves", obj_ok path f);
           ("go_object_named_after_type",
            match field_get_type f with Some t => String.eqb (camel M (f_name f)) t | None => false end)]
      | AMatch (Some k) _ pairs =>
          [("match_key_resolves",
            onat_eqb (index_where (fun n => String.eqb (camel M n) (camel M k)) (p_fields p) 0)
                     (index_where (String.eqb k) (p_fields p) 0));
           ("match_table_own",
            tbl_eqb (registrations (fun k' => String.eqb (camel M k') (camel M k)) (p_fields p)) (pairs_tbl pairs));
           ("match_keys_distinct", keys_distinct (pairs_tbl pairs))]
      | AMatch None _ _ => [("match_key_resolves", false)]
      | ANil => [("attr_present", false)]
      end.

  (* paths_distinct: WF (unique type names; harness/codec.modelled) *)
  Definition go_enc_all : conds :=
    ("paths_distinct", paths_ok M) :: packets_conds M (fields_conds go_enc_conds).
  Definition go_dec_all : conds :=
    ("paths_distinct", paths_ok M) :: ("len_widths_agree", frag_lenw_ok M) :: packets_conds M (fields_conds go_dec_conds).

  Definition go_frag_enc : bool := conds_ok go_enc_all.
  Definition go_frag_dec : bool := conds_ok go_dec_all.
  Definition go_frag_why : list string := (conds_why go_enc_all ++ map (fun s => ("dec:" ++ s)%string) (conds_why go_dec_all))%list.
End GoFrag.

(* ================================================================== Python *)
Section PyFrag.
  Variable M : bmodel.

  (* the position variable defined by a field's placeholder: "<snake(len field)>_pos" (the IsRepeat
     flag is not looked at) *)
  Definition py_field_mark (p : packet) (f : field) : option nat :=
    match f_len f with
    | LTarget => None
    | _ => match f_attr f with ALen _ _ => Some (FP.Py.sn_index M p (f_name f)) | _ => None end
    end.
  Definition py_pkt_mark (p : packet) : nat := first_some (py_field_mark p) (p_fields p).

  (* Conditions shared by encoder and decoder of field [j] = [f]:
     snake_name_first    WF (+ strcase): members are referred to by "self.<snake name>"; the field is
                         the first member of that snake name (distinct converted names)
     repeatable, numeric_scalar (char-field-dropped: no member, no step), pad_literal, object_resolves,
     attr_present        as for Go *)
  Definition py_common_conds (path : string) (p : packet) (j : nat) (f : field) : conds :=
    ("snake_name_first", Nat.eqb (FP.Py.sn_index M p (f_name f)) j) ::
    (if f_rep f then
       match f_attr f with
       | ABasic t => [("numeric_scalar", numeric t)]
       | AFixed _ fp => [("pad_literal", pad_ok M fp)]
       | ADyn => []
       | AObj _ _ _ _ => [("object_resolves", obj_ok path f)]
       | _ => [("repeatable", false)]
       end
     else
       match f_attr f with
       | ABasic t | ALen _ t | ACheck _ t => [("numeric_scalar", numeric t)]
       | AFixed _ fp => [("pad_literal", pad_ok M fp)]
       | ADyn => []
       | AObj _ _ _ _ => [("object_resolves", obj_ok path f)]
       | AMatch _ _ _ => []
       | ANil => [("attr_present", false)]
       end).

  (* Encoder conditions in addition:
     target_not_repeated WF: "self.<f>.encode" on a list
     target_is_codec     WF
     len_before_target   finding length-field-after-target
     len_width_resolves  WF
     len_mark_shared     WF: one length field per packet: the placeholder of every length-of field and
                         the back-patch of every target use the position variable of the packet's
                         length field *)
  Definition py_enc_conds (path : string) (p : packet) (j : nat) (f : field) : conds :=
    py_common_conds path p j f ++
    match f_len f with
    | LTarget =>
        [("target_not_repeated", negb (f_rep f));
         ("target_is_codec", match f_attr f with AMatch _ _ _ => true | AObj _ _ _ _ => true | _ => false end);
         ("len_before_target", match len_field_index p with Some li => Nat.ltb li j | None => false end);
         ("len_width_resolves", len_w_agree p (lenf_w p));
         ("len_mark_shared", match p_lenf p with
                             | Some ln => Nat.eqb (FP.Py.sn_index M p ln) (py_pkt_mark p)
                             | None => false
                             end)]
    | _ => match f_attr f with
           | ALen _ _ => [("len_mark_shared", Nat.eqb (FP.Py.sn_index M p (f_name f)) (py_pkt_mark p))]
           | _ => []
           end
    end.

  (* Decoder conditions in addition:
     match_key_resolves  WF (+ strcase): the key names a field, the same one by name and by snake name
     match_table_own     finding factory-shared-by-match-fields (the packet's one factory holds exactly
                         this field's pairs) and: every pair value is spelled like the emitted class
                         (ToCamel) of the packet it names
     match_keys_distinct finding duplicate-match-keys (the Python factory keeps the last registration) *)
  Definition py_dec_conds (path : string) (p : packet) (j : nat) (f : field) : conds :=
    py_common_conds path p j f ++
    (if f_rep f then []
     else match f_attr f with
          | AMatch (Some k) _ pairs =>
              [("match_key_resolves", match index_where (String.eqb k) (p_fields p) 0 with
                                      | Some ki => Nat.eqb (FP.Py.sn_index M p k) ki
                                      | None => false
                                      end);
               ("match_table_own", tbl_eqb (py_table M p) (pairs_tbl pairs));
               ("match_keys_distinct", keys_distinct (pairs_tbl pairs))]
          | AMatch None _ _ => [("match_key_resolves", false)]
          | _ => []
          end).

  (* root_present: WF (Generate dereferences binModel.RootPacket first) *)
  Definition py_enc_all : conds :=
    ("paths_distinct", paths_ok M) :: ("root_present", is_some (m_root M)) :: packets_conds M (fields_conds py_enc_conds).
  Definition py_dec_all : conds :=
    ("paths_distinct", paths_ok M) :: ("len_widths_agree", frag_lenw_ok M) :: ("root_present", is_some (m_root M)) ::
    packets_conds M (fields_conds py_dec_conds).

  Definition py_frag_enc : bool := conds_ok py_enc_all.
  Definition py_frag_dec : bool := conds_ok py_dec_all.
  Definition py_frag_why : list string := (conds_why py_enc_all ++ map (fun s => ("dec:" ++ s)%string) (conds_why py_dec_all))%list.
End PyFrag.

(* ================================================================== C++ *)
Section CppFrag.
  Variable M : bmodel.

  (* "auto <lowerCamel(len field)>Pos" (the IsRepeat flag is not looked at) *)
  Definition cpp_field_mark (p : packet) (f : field) : option nat :=
    match f_len f with
    | LTarget => None
    | _ => match f_attr f with ALen _ _ => Some (cpp_lc_index M p (f_name f)) | _ => None end
    end.
  Definition cpp_pkt_mark (p : packet) : nat := first_some (cpp_field_mark p) (p_fields p).

  Definition cpp_common_conds (path : string) (p : packet) (f : field) : conds :=
    if f_rep f then
      match f_attr f with
      | ABasic t => [("numeric_scalar", numeric t)]
      | AFixed _ fp => [("pad_literal", pad_ok M fp)]
      | ADyn => []
      | AObj _ _ _ _ => [("object_resolves", obj_ok path f)]
      | _ => [("repeatable", false)]
      end
    else
      match f_attr f with
      | ABasic t | ALen _ t | ACheck _ t => [("numeric_scalar", numeric t)]
      | AFixed _ fp => [("pad_literal", pad_ok M fp)]
      | ADyn => []
      | AObj _ _ _ _ => [("object_resolves", obj_ok path f)]
      | AMatch _ _ _ => []
      | ANil => [("attr_present", false)]
      end.

  (* Encoder conditions in addition:
     cpp_target_is_match   finding cpp-arrow-on-object-target (and WF: not repeated)
     len_field_is_length   WF: the packet's length field carries the length-of attribute, numeric type
     len_width_le_cast     finding cpp-length-cast-to-int: the width fits static_cast<typ.BasicType>
     len_before_target     finding length-field-after-target
     len_width_resolves    WF
     len_target_resolves   WF (+ strcase): the placeholder's position variable names a member
     len_mark_shared       WF: one length field per packet *)
  Definition cpp_enc_conds (path : string) (p : packet) (i : nat) (f : field) : conds :=
    cpp_common_conds path p f ++
    match f_len f with
    | LTarget =>
        [("cpp_target_is_match", andb (negb (f_rep f)) (match f_attr f with AMatch _ _ _ => true | _ => false end));
         ("len_field_is_length", match len_field p with
                                 | Some lf => match f_attr lf with ALen _ t => numeric t | _ => false end
                                 | None => false
                                 end);
         ("len_width_le_cast", match len_field p with
                               | Some lf => match lenf_w p with
                                            | Some w => Nat.leb w (cpp_cast_w (attr_get_type (f_attr lf)))
                                            | None => false
                                            end
                               | None => false
                               end);
         ("len_before_target", match p_lenf p with
                               | Some ln => cpp_pos_defined M (lcamel M ln) (p_fields p) i
                               | None => false
                               end);
         ("len_width_resolves", len_w_agree p (lenf_w p));
         ("len_mark_shared", match p_lenf p with
                             | Some ln => Nat.eqb (cpp_lc_index M p ln) (cpp_pkt_mark p)
                             | None => false
                             end)]
    | _ => match f_attr f with
           | ALen _ _ =>
               [("len_target_resolves",
                 is_some (index_where (fun n' => String.eqb (lcamel M n') (lcamel M (f_name f))) (p_fields p) 0));
                ("len_mark_shared", Nat.eqb (cpp_lc_index M p (f_name f)) (cpp_pkt_mark p))]
           | _ => []
           end
    end.

  (* Decoder conditions in addition:
     factory_declared    WF: the packet has MatchFields (the packets inlined in another packet have none, so
                         the factory alias their decoder names is never declared), every key field has a
                         type and all key types agree (one "using <P>MessageFactory = ..." per key)
     match_key_resolves, match_table_own (finding factory-shared-by-match-fields), match_keys_distinct
     (finding duplicate-match-keys: the assumed MessageFactory keeps the last registration) *)
  Definition cpp_dec_conds (path : string) (p : packet) (i : nat) (f : field) : conds :=
    cpp_common_conds path p f ++
    (if f_rep f then []
     else match f_attr f with
          | AMatch (Some k) _ pairs =>
              [("factory_declared", match cpp_factory_key_types p with
                                    | Some kt :: kts => forallb (cpp_ostr_eqb (Some kt)) kts
                                    | _ => false
                                    end);
               ("match_key_resolves",
                onat_eqb (index_where (fun n => String.eqb (lcamel M n) (lcamel M k)) (p_fields p) 0)
                         (index_where (String.eqb k) (p_fields p) 0));
               ("match_table_own", tbl_eqb (cpp_table p) (pairs_tbl pairs));
               ("match_keys_distinct", keys_distinct (pairs_tbl pairs))]
          | AMatch None _ _ => [("match_key_resolves", false)]
          | _ => []
          end).

  Definition cpp_enc_all : conds :=
    ("paths_distinct", paths_ok M) :: ("root_present", is_some (m_root M)) :: packets_conds M (fields_conds cpp_enc_conds).
  Definition cpp_dec_all : conds :=
    ("paths_distinct", paths_ok M) :: ("len_widths_agree", frag_lenw_ok M) :: ("root_present", is_some (m_root M)) ::
    packets_conds M (fields_conds cpp_dec_conds).

  Definition cpp_frag_enc : bool := conds_ok cpp_enc_all.
  Definition cpp_frag_dec : bool := conds_ok cpp_dec_all.
  Definition cpp_frag_why : list string := (conds_why cpp_enc_all ++ map (fun s => ("dec:" ++ s)%string) (conds_why cpp_dec_all))%list.
End CppFrag.

(* ================================================================== Rust *)
Section RustFrag.
  Variable M : bmodel.

  (* one file per top-level packet: every packet of the tree with the top-level packet of its file *)
  Definition rust_units : list (packet * (string * packet)) :=
    flat_map (fun top => map (pair top) (packets_under (p_name top) top)) (m_packets M).
  Definition rust_packets_conds (c : packet -> string -> packet -> conds) : conds :=
    flat_map (fun x => c (fst x) (fst (snd x)) (snd (snd x))) rust_units.

  (* "let <snake(len field)>_pos" (before the IsRepeat test) *)
  Definition rs_field_mark (p : packet) (f : field) : option nat :=
    match f_attr f with ALen _ _ => Some (FP.Rust.sn_index M p (f_name f)) | _ => None end.
  Definition rs_pkt_mark (p : packet) : nat := first_some (rs_field_mark p) (p_fields p).

  (* Conditions shared by encoder and decoder:
     snake_name_first     WF (+ strcase): members are referred to by snake name; distinct converted names
     repeatable, numeric_scalar, pad_literal, attr_present as for Go; a scalar may also be 'char'
     rust_char_list_order put_char_list has no _le variant: a 'repeat char' needs a big-endian configuration
                          or a one-byte list prefix (NOT in known_findings.json: no corpus program has it)
     object_resolves      WF: the member has a type (reference named) and a packet
     rust_raw_type_name   finding rust-raw-type-names: the raw name the member type / decode call uses
                          is the name (ToCamel) exactly one struct is declared under, that of its packet *)
  Definition rs_obj_conds (path : string) (f : field) : conds :=
    [("object_resolves", andb (is_some (field_get_type f)) (obj_ok path f));
     ("rust_raw_type_name", match field_get_type f, obj_path path f with
                            | Some t, Some ty => String.eqb (rs_resolve M t) ty
                            | _, _ => true
                            end)].
  Definition rs_common_conds (path : string) (p : packet) (i : nat) (f : field) : conds :=
    ("snake_name_first", Nat.eqb (FP.Rust.sn_index M p (f_name f)) i) ::
    (if f_rep f then
       match f_attr f with
       | ABasic t => [("numeric_or_char_scalar", scalar_or_char t);
                      ("rust_char_list_order",
                       if String.eqb t "char" then orb (negb (le_of M)) (Nat.leb (cfg_list_w M) 1) else true)]
       | AFixed _ fp => [("pad_literal", pad_ok M fp)]
       | ADyn => []
       | AObj _ _ _ _ => rs_obj_conds path f
       | _ => [("repeatable", false)]
       end
     else
       match f_attr f with
       | ABasic t => [("numeric_or_char_scalar", scalar_or_char t)]
       | ALen _ t | ACheck _ t => [("numeric_scalar", numeric t)]
       | AFixed _ fp => [("pad_literal", pad_ok M fp)]
       | ADyn => []
       | AObj _ _ _ _ => rs_obj_conds path f
       | AMatch _ _ _ => []
       | ANil => [("attr_present", false)]
       end).

  (* Encoder conditions in addition:
     rust_checksum_order   finding rust-checksum-big-endian: big-endian configuration or a one-byte checksum
     rust_enum_declared    finding rust-raw-type-names (enum side): the enum <ToCamel(packet)><field>Enum the
                           code refers to is declared (top-level packet of the file, name unchanged by ToCamel)
     rust_target_is_match  finding rust-length-only-for-match-target
     len_before_target, len_width_resolves, len_mark_shared as for Python *)
  Definition rs_enc_conds (top : packet) (path : string) (p : packet) (i : nat) (f : field) : conds :=
    rs_common_conds path p i f ++
    (if f_rep f then []
     else
       match f_attr f with
       | ALen _ _ => [("len_mark_shared", Nat.eqb (FP.Rust.sn_index M p (f_name f)) (rs_pkt_mark p))]
       | ACheck _ t => [("rust_checksum_order",
                         orb (negb (le_of M)) (match ty_width (get_basic_type t) with Some w => Nat.leb w 1 | None => false end))]
       | AMatch _ _ _ =>
           ("rust_enum_declared", rs_enum_declared top (rs_enum_name M p f)) ::
           match f_len f with
           | LTarget =>
               [("len_before_target", match p_lenf p with Some ln => pos_defined M ln (p_fields p) i | None => false end);
                ("len_width_resolves", len_w_agree p (lenf_w p));
                ("len_mark_shared", match p_lenf p with
                                    | Some ln => Nat.eqb (FP.Rust.sn_index M p ln) (rs_pkt_mark p)
                                    | None => false
                                    end)]
           | _ => []
           end
       | _ => match f_len f with LTarget => [("rust_target_is_match", false)] | _ => [] end
       end).

  (* Decoder conditions in addition:
     match_pairs_nonempty  WF (mfa.MatchPairs[0])
     rust_enum_declared    as above
     match_table_own       the arms (one per distinct key text: finding duplicate-match-keys; payload types
                           through the declared struct names: finding rust-raw-type-names) are the DSL's table
     match_key_resolves    WF (+ strcase) *)
  Definition rs_dec_conds (top : packet) (path : string) (p : packet) (i : nat) (f : field) : conds :=
    rs_common_conds path p i f ++
    (if f_rep f then []
     else match f_attr f with
          | AMatch (Some k) _ pairs =>
              [("match_pairs_nonempty", match pairs with [] => false | _ => true end);
               ("rust_enum_declared", rs_enum_declared top (rs_enum_name M p f));
               ("match_key_resolves", match index_where (String.eqb k) (p_fields p) 0 with
                                      | Some ki => Nat.eqb (FP.Rust.sn_index M p k) ki
                                      | None => false
                                      end);
               ("match_table_own", tbl_eqb (rs_arms M [] pairs) (pairs_tbl pairs))]
          | AMatch None _ _ => [("match_key_resolves", false)]
          | _ => []
          end).

  Definition rust_enc_all : conds :=
    ("paths_distinct", paths_ok M) ::
    rust_packets_conds (fun top path p => fields_conds (rs_enc_conds top) path p).
  Definition rust_dec_all : conds :=
    ("paths_distinct", paths_ok M) :: ("len_widths_agree", frag_lenw_ok M) ::
    rust_packets_conds (fun top path p => fields_conds (rs_dec_conds top) path p).

  Definition rust_frag_enc : bool := conds_ok rust_enc_all.
  Definition rust_frag_dec : bool := conds_ok rust_dec_all.
  Definition rust_frag_why : list string := (conds_why rust_enc_all ++ map (fun s => ("dec:" ++ s)%string) (conds_why rust_dec_all))%list.
End RustFrag.

(* ================================================================== Java *)
Section JavaFrag.
  Variable M : bmodel.

  (* "strcase_basic_types": strcase.ToCamel of the six Java primitive type names, as the Netty method
     suffixes need them (T1 table m_names, recomputed with the real library on every run).  WF. *)
  Definition java_names_ok : bool :=
    forallb (fun ab => String.eqb (camel M (fst ab)) (snd ab))
            [("byte", "Byte"); ("short", "Short"); ("int", "Int"); ("long", "Long"); ("float", "Float"); ("double", "Double")].

  (* "int <lowerCamel(len field)>Pos" *)
  Definition java_field_mark (p : packet) (f : field) : option nat :=
    if f_rep f then None
    else match f_len f with
         | LTarget => None
         | _ => match f_attr f with ALen _ _ => Some (FP.Java.lc_index M p (f_name f)) | _ => None end
         end.
  Definition java_pkt_mark (p : packet) : nat := first_some (java_field_mark p) (p_fields p).

  (* the name the encoder uses for the member of field [f] *)
  Definition java_enc_name (f : field) : string :=
    match f_attr f with
    | AObj true _ _ _ => lcamel M (ref_name f)
    | _ => lcamel M (f_name f)
    end.

  (* Encoder conditions:
     java_member_named     finding java-member-name-conversion: the name the encoder uses
                           (ToLowerCamel(name); for an inline object ToLowerCamel(type name)) is the name
                           this field's member is declared under (ToLowerCamel(ToCamel(name)))
     java_member_declared  WF (+ strcase): the field is the first one with its declared member name
     prefix_type_valid     WF: StringLenPrefixLenType / ListLenPrefixLenType is one of the ten numeric types
     target_not_repeated, target_is_codec, len_before_target, len_width_resolves, len_mark_shared,
     len_target_resolves   as for Go / Python
     java_len_member_named finding java-member-name-conversion for the length member ("this.<len> = ...") *)
  Definition java_enc_conds (path : string) (p : packet) (i : nat) (f : field) : conds :=
    if f_rep f then
      [("target_not_repeated", match f_len f with LTarget => false | _ => true end);
       ("prefix_type_valid", is_some (ty_width (c_list (m_cfg M))));
       ("java_member_declared", onat_eqb (decl_index M p (decl_name M (f_name f))) (Some i));
       ("java_member_named", onat_eqb (decl_index M p (java_enc_name f)) (Some i))] ++
      match f_attr f with
      | ABasic t => [("numeric_or_char_scalar", scalar_or_char t)]
      | AFixed _ fp => [("pad_literal", pad_ok M fp)]
      | ADyn => [("prefix_type_valid", is_some (ty_width (c_str (m_cfg M))))]
      | AObj _ _ _ _ => [("object_resolves", obj_ok path f)]
      | _ => [("repeatable", false)]
      end
    else
      match f_len f with
      | LTarget =>
          [("java_member_named", onat_eqb (decl_index M p (lcamel M (f_name f))) (Some i));
           ("target_is_codec", match f_attr f with AMatch _ _ _ => true | AObj _ _ _ _ => obj_ok path f | _ => false end);
           ("len_before_target", match p_lenf p with
                                 | Some ln => pos_defined_before M p i (lcamel M ln)
                                 | None => false
                                 end);
           ("java_len_member_named", match p_lenf p with
                                     | Some ln => is_some (decl_index M p (lcamel M ln))
                                     | None => false
                                     end);
           ("len_width_resolves", len_w_agree p (lenf_w p));
           ("len_mark_shared", match p_lenf p with
                               | Some ln => Nat.eqb (FP.Java.lc_index M p ln) (java_pkt_mark p)
                               | None => false
                               end)]
      | _ =>
          match f_attr f with
          | ALen _ t =>
              [("numeric_scalar", numeric t);
               ("len_target_resolves",
                is_some (index_where (fun n' => String.eqb (lcamel M n') (lcamel M (f_name f))) (p_fields p) 0));
               ("len_mark_shared", Nat.eqb (FP.Java.lc_index M p (f_name f)) (java_pkt_mark p))]
          | a =>
              ("java_member_named", onat_eqb (decl_index M p (java_enc_name f)) (Some i)) ::
              match a with
              | ABasic t => [("numeric_or_char_scalar", scalar_or_char t)]
              | ACheck _ t => [("numeric_scalar", numeric t)]
              | AFixed _ fp => [("pad_literal", pad_ok M fp)]
              | ADyn => [("prefix_type_valid", is_some (ty_width (c_str (m_cfg M))))]
              | AObj _ _ _ _ => [("object_resolves", obj_ok path f)]
              | AMatch _ _ _ => []
              | _ => [("attr_present", false)]
              end
          end
      end.

  (* Decoder conditions:
     java_no_length_prefix        finding java-signed-length-prefix: every string / list length prefix is
                                  read into a signed primitive and guarded by "> 0" - no dynamic string and
                                  no list decoder is ever validated: the Java decoder fragment is the models
                                  without dynamic strings and lists
     java_member_declared         as above
     java_member_named            (objects, match keys) as above
     java_object_named_after_type finding java-object-field-name-is-not-type: "new <fieldName>()"
     match_key_resolves, match_table_own, match_keys_distinct (finding duplicate-match-keys) *)
  Definition java_dec_conds (path : string) (p : packet) (i : nat) (f : field) : conds :=
    if f_rep f then [("java_no_length_prefix", false)]
    else
      ("java_member_declared", onat_eqb (decl_index M p (decl_name M (f_name f))) (Some i)) ::
      match f_attr f with
      | ABasic t => [("numeric_or_char_scalar", scalar_or_char t)]
      | ALen _ t | ACheck _ t => [("numeric_scalar", numeric t)]
      | AFixed _ fp => [("pad_literal", pad_ok M fp)]
      | ADyn => [("java_no_length_prefix", false)]
      | AObj _ pn _ _ =>
          [("object_resolves", obj_ok path f);
           ("java_member_named", onat_eqb (decl_index M p (java_enc_name f)) (Some i));
           ("java_object_named_after_type", String.eqb pn (f_name f))]
      | AMatch (Some k) _ pairs =>
          [("match_key_resolves", onat_eqb (decl_index M p (lcamel M k)) (index_where (String.eqb k) (p_fields p) 0));
           ("match_table_own", tbl_eqb (java_regs M p (camel M (f_name f))) (pairs_tbl pairs));
           ("match_keys_distinct", keys_distinct (pairs_tbl pairs))]
      | AMatch None _ _ => [("match_key_resolves", false)]
      | ANil => [("attr_present", false)]
      end.

  Definition java_enc_all : conds :=
    ("paths_distinct", paths_ok M) :: ("strcase_basic_types", java_names_ok) :: packets_conds M (fields_conds java_enc_conds).
  Definition java_dec_all : conds :=
    ("paths_distinct", paths_ok M) :: ("len_widths_agree", frag_lenw_ok M) :: ("strcase_basic_types", java_names_ok) ::
    packets_conds M (fields_conds java_dec_conds).

  Definition java_frag_enc : bool := conds_ok java_enc_all.
  Definition java_frag_dec : bool := conds_ok java_dec_all.
  Definition java_frag_why : list string := (conds_why java_enc_all ++ map (fun s => ("dec:" ++ s)%string) (conds_why java_dec_all))%list.
End JavaFrag.

(* ================================================================== all five *)
Inductive lang := LGo | LPy | LCpp | LRust | LJava.

Definition gen_of (l : lang) (M : bmodel) : prog :=
  match l with LGo => gen_go M | LPy => gen_py M | LCpp => gen_cpp M | LRust => gen_rust M | LJava => gen_java M end.
Definition frag_enc_of (l : lang) (M : bmodel) : bool :=
  match l with LGo => go_frag_enc M | LPy => py_frag_enc M | LCpp => cpp_frag_enc M | LRust => rust_frag_enc M | LJava => java_frag_enc M end.
Definition frag_dec_of (l : lang) (M : bmodel) : bool :=
  match l with LGo => go_frag_dec M | LPy => py_frag_dec M | LCpp => cpp_frag_dec M | LRust => rust_frag_dec M | LJava => java_frag_dec M end.
Definition frag_why_of (l : lang) (M : bmodel) : list string :=
  match l with LGo => go_frag_why M | LPy => py_frag_why M | LCpp => cpp_frag_why M | LRust => rust_frag_why M | LJava => java_frag_why M end.
