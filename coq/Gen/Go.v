(* Model of internal/parser/go_generator.go at the level of the codec IR.
   Faithful to the code, defects included.  Model only: no proofs here. *)
From FP Require Export Common.
Open Scope string_scope.
Open Scope list_scope.

Section Go.
  Variable M : bmodel.

  Definition go_pad := padarg_of norm_go M.

  (* goBasicTypeMap has exactly the ten numeric types: ty_width is defined on the same keys
     (obligation go_table_ok over the regenerated table) *)
  Definition go_scalar (f : field) : option nat := width_of_field f.

  (* generateEncodingListField *)
  Definition go_enc_list (path : string) (f : field) : estep :=
    let lw := cfg_list_w M in let le := le_of M in
    match f_attr f with
    | ABasic _ => match go_scalar f with
                  | Some w => EList lw le le (EInt w le)
                  | None => ENone "omitted"            (* e.g. repeat char: no type, no step *)
                  end
    | ADyn => EList lw le le (EStr (cfg_str_w M) le le)
    | AFixed n _ => EList lw le le (EFixed n (go_pad (f_attr f)))
    | AObj _ _ _ _ => match obj_path path f with
                      | Some ty => EList lw le le (EObj ty)
                      | None => ENone "unresolved"
                      end
    | _ => ENone "marker"
    end.

  (* generateEncodingField *)
  (* a position variable is named after a field (ToLowerCamel): the member it denotes *)
  Definition lc_index (p : packet) (n : string) : nat :=
    match index_where (fun n' => String.eqb (lcamel M n') (lcamel M n)) (p_fields p) 0 with
    | Some i => i
    | None => undefined_mark
    end.

  Definition go_enc_field (path : string) (p : packet) (i : nat) (f : field) : list (nat * estep) :=
    let le := le_of M in
    match f_len f with
    | LTarget =>
        let inner := match f_attr f with
                     | AMatch _ _ _ => EDyn
                     | AObj _ _ _ _ => match obj_path path f with Some ty => EObj ty | None => ENone "unresolved" end
                     | _ => ENone "encode on a non-codec member"
                     end in
        let lw := match len_field_index p with
                  | Some li => match nth_error (p_fields p) li with
                               | Some lf => opt_w (go_scalar lf)
                               | None => 0%nat
                               end
                  | None => 0%nat
                  end in
        (* "<field>Pos" is defined by the placeholder of the length field, if that came earlier *)
        let mark := match len_field_index p with
                    | Some li => if Nat.ltb li i then lc_index p (f_name f) else undefined_mark
                    | None => undefined_mark
                    end in
        [(i, ESpan inner i); (i, EPatch mark i lw le lw (Some 4%nat))]      (* buf.Bytes()[pos:pos + 4] whatever the width *)
    | _ =>
      match f_attr f with
      | ALen (Some t) _ => let ti := lc_index p t in [(ti, EMarkZero ti (opt_w (go_scalar f)) le)]   (* "<target>Pos := buf.Len()" *)
      | a =>
      [(i, match a with
       | ABasic _ => match go_scalar f with Some w => EInt w le | None => ENone "omitted" end
       | ALen _ _ => ENone "unresolved"
       | ACheck alg _ => ECheck alg (opt_w (go_scalar f)) le
       | AFixed n _ => EFixed n (go_pad (f_attr f))
       | ADyn => EStr (cfg_str_w M) le le
       | AObj _ _ _ _ => match obj_path path f with Some ty => EObj ty | None => ENone "unresolved" end
       | AMatch _ _ _ => EDyn
       | ANil => ENone "marker"
       end)]
      end
    end.

  Definition go_enc_step (path : string) (p : packet) (i : nat) (f : field) : list (nat * estep) :=
    if f_rep f then [(i, go_enc_list path f)] else go_enc_field path p i f.

  (* generateDecodingListField *)
  Definition go_dec_list (path : string) (f : field) : dstep :=
    let lw := cfg_list_w M in let le := le_of M in
    match f_attr f with
    | ABasic _ => match go_scalar f with
                  | Some w => DList lw le false (DInt w le)
                  | None => DNone "omitted"
                  end
    | AFixed n _ => DList lw le false (DFixed n (go_pad (f_attr f)))
    | ADyn => DList lw le false (DStr (cfg_str_w M) le false)
    | AObj _ _ _ _ =>
        (* func() *ToCamel(T) { return &ToCamel(T){} }: resolves only if the conversion keeps the name *)
        match field_get_type f, obj_path path f with
        | Some t, Some ty => if String.eqb (camel M t) t then DList lw le false (DObj ty) else DNone "unresolved type"
        | _, _ => DNone "unresolved"
        end
    | _ => DNone "marker"
    end.

  (* generateDecodingField *)
  Definition go_dec_field (path : string) (p : packet) (f : field) : dstep :=
    let le := le_of M in
    match f_attr f with
    | AFixed n _ => DFixed n (go_pad (f_attr f))
    | ADyn => DStr (cfg_str_w M) le false
    | ABasic _ | ALen _ _ | ACheck _ _ =>
        match go_scalar f with Some w => DInt w le | None => DNone "omitted" end
    | AObj _ _ _ _ =>
        (* "if p.<Type> == nil { p.<Type> = &<Type>{} }" then "p.<FieldCamel>.Decode": the member that is
           initialised is the one named after the type *)
        match field_get_type f, obj_path path f with
        | Some t, Some ty => if String.eqb (camel M (f_name f)) t then DObj ty else DNone "nil member"
        | _, _ => DNone "unresolved"
        end
    | AMatch (Some k) _ _ =>
        let same := fun k' => String.eqb (camel M k') (camel M k) in
        match index_where (fun n => String.eqb (camel M n) (camel M k)) (p_fields p) 0 with
        | Some ki => DDispatch (registrations same (p_fields p)) false ki true
        | None => DNone "unresolved key"
        end
    | AMatch None _ _ => DNone "unresolved key"
    | ANil => DNone "marker"
    end.

  Definition go_dec_step (path : string) (p : packet) (f : field) : dstep :=
    if f_rep f then go_dec_list path f else go_dec_field path p f.

  Definition go_ir (path : string) (p : packet) : pkt_ir :=
    let fs := number 0 (p_fields p) in
    mkPkt (length (p_fields p))
          (flat_map (fun '(i, f) => go_enc_step path p i f) fs)
          (map (fun '(i, f) => (i, go_dec_step path p f)) fs).

  (* generateGoFileForPacket: inline packets of a packet are emitted (recursively) with it;
     all_packets is that traversal *)
  Definition gen_go : prog := map (fun '(path, p) => (path, go_ir path p)) (all_packets M).
End Go.
