(* The fragment of models on which the emitted dissector is right:

     lua_frag M = true  ->  for every message v of the root packet that the specification lays
     out (layout .. = Some b) and types (Typed.typed):
        sem_lua_run (gen_lua M) fuel b = LOk (ranges M fuel root v)
     lua_frag_strict M = true  ->  the same for sem_lua (the script also loads).

   It is a sufficient condition written on the model (checked against the oracle on every run of
   harness/lua.py, both ways: "frag => agrees" must hold, and the programs that agree on all
   sampled messages without being in the fragment are listed).  It is tight except for
   sub-dissector calls that cannot be observed (packets whose encoding is always empty and that
   declare no field of their own other than such packets), see the comments below.
   Model only: no proofs here.

   Shape of the fragment: a root packet that is FLAT -
     scalars (basic types, char, length-of and checksum fields), fixed strings, dynamic strings,
     lists of those, with unsigned 1/2/4-byte prefix types (u8 u16 u32);
     match fields only when every packet they can select is an EMPTY top-level packet and at
     least one byte always follows the match field.
   Everything else is outside, because of the generator (line numbers of lua_wsp_generator.go):
     * object fields (387): the sub-dissector's result is dropped (no "offset = "), so the offset
       does not move; in the main dissector the tree argument "subtree" is moreover an undefined
       global (nil): the callee fails on its first line;
     * lists of referenced (non-inline) packets (236-238): "offset = " only for inline packets;
     * match fields (373): result dropped; the payload is dissected, the fields after it are
       displayed over the payload's bytes and the dissector finishes too early;
     * any sub-dissector called at the very end of the buffer (184): buf(offset, 1) for the
       subtree item is out of range - hence "at least one byte follows";
     * 8-byte prefix types (260, 282 with 58-64, 95-101): uint64()/int64() return a userdata, which
       can be neither a 'for' limit nor a range length;
     * signed prefix types: a count/length >= 2^(8w-1) is read as a negative number.          *)
From FP Require Export Lua.
Open Scope string_scope.
Open Scope list_scope.

Section Frag.
  Variable M : bmodel.

  Definition unsigned_prefix (t : string) : bool := str_in t ["u8"; "u16"; "u32"].

  (* names a key variable must not take: reserved words (the script does not compile) and the
     variables of the dissector it would shadow *)
  Definition key_name_ok (k : string) : bool :=
    let s := snake M k in
    negb (orb (mem_str s lua_keywords) (mem_str s ["offset"; "tree"; "buf"; "pinfo"; "fields"; "_len"])).

  Definition ends_with (suffix s : string) : bool :=
    let n := String.length s in let m := String.length suffix in
    andb (Nat.leb m n) (String.eqb (substring (n - m) m s) suffix).

  (* the locals "<p>_<f>_len" / "<p>_<f>_size" must not capture a key variable *)
  Definition key_not_captured (k : string) : bool :=
    let s := snake M k in negb (orb (ends_with "_len" s) (ends_with "_size" s)).

  Definition scalar_ok (f : field) : bool :=
    match f_attr f with
    | ABasic _ => match field_get_type f with Some t => match scalar_width t with Some _ => true | None => false end | None => false end
    | ALen _ _ | ACheck _ _ => match width_of_field f with Some _ => true | None => false end
    | _ => false
    end.

  (* the least number of bytes a field of the fragment occupies *)
  Definition min_size (f : field) : nat :=
    if f_rep f then cfg_list_w M
    else match f_attr f with
         | ABasic _ => match field_get_type f with Some t => opt_w (scalar_width t) | None => 0 end
         | ALen _ _ | ACheck _ _ => opt_w (width_of_field f)
         | AFixed n _ => n
         | ADyn => cfg_str_w M
         | _ => 0
         end%nat.

  Definition sub_function_names : list string :=
    map (fun '(_, q) => snake M (p_name q))
        (flat_map (fun p => if p_root p then [] else packets_under (p_name p) p) (m_packets M)).

  Fixpoint nodup_str (l : list string) : bool :=
    match l with [] => true | x :: r => andb (negb (mem_str x r)) (nodup_str r) end.

  (* every packet the match can select is an empty, non-root, top-level packet *)
  Definition pair_ok (mp : mpair) : bool :=
    match lookup_packet M (mp_value mp) with
    | Some q => andb (negb (p_root q)) (match p_fields q with [] => true | _ => false end)
    | None => false
    end.

  Definition key_field_ok (root : packet) (k : string) : bool :=
    match find_field (p_fields root) k with
    | Some kf => andb (negb (f_rep kf)) (andb (key_name_ok k) (key_not_captured k))
    | None => false
    end.

  Fixpoint fields_ok (root : packet) (fs : list field) : bool :=
    match fs with
    | [] => true
    | f :: r =>
        andb (fields_ok root r)
        (if f_rep f then
           andb (unsigned_prefix (c_list (m_cfg M)))
                (match f_attr f with
                 | ABasic _ => scalar_ok f
                 | AFixed _ _ => true
                 | ADyn => unsigned_prefix (c_str (m_cfg M))
                 | _ => false
                 end)
         else
           match f_attr f with
           | ABasic _ | ALen _ _ | ACheck _ _ => scalar_ok f
           | AFixed _ _ => true
           | ADyn => unsigned_prefix (c_str (m_cfg M))
           | AMatch (Some k) _ pairs =>
               andb (forallb pair_ok pairs)
                    (andb (key_field_ok root k)
                          (Nat.leb 1 (fold_right (fun g acc => (min_size g + acc)%nat) 0%nat r)))
           | _ => false
           end)
    end.

  Definition lua_frag : bool :=
    match m_root M with
    | Some rn =>
        match lookup_packet M rn with
        | Some root => andb (fields_ok root (p_fields root)) (nodup_str sub_function_names)
        | None => false
        end
    | None => false
    end.

  (* the script loads: every ProtoField constructor it calls exists (ProtoField.int, emitted for
     every i8/i16/i32 field of ANY packet of the program, does not) and no key variable is a
     reserved word *)
  Definition lua_loads : bool :=
    match load_check (gen_lua M) with None => true | Some _ => false end.

  Definition lua_frag_strict : bool := andb lua_frag lua_loads.
End Frag.
