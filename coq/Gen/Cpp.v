(* Model of internal/parser/cpp_generator.go at the level of the codec IR.
   Faithful to the code, defects included.  Model only: no proofs here. *)
From FP Require Export Common.
Open Scope string_scope.
Open Scope list_scope.

Section Cpp.
  Variable M : bmodel.

  Definition gen_cpp : prog := [].
End Cpp.
