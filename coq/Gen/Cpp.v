(* Model of internal/parser/cpp_generator.go at the level of the codec IR.
   Faithful to the code, defects included.  Model only: no proofs here.

   One header (include/<snake root>.hpp) holds every packet: generateHppFile emits the
   non-root packets in declaration order and then the root packet; generateCodeForPacket
   first emits (once per *name*, hasGen) the packets its object fields and match pairs refer
   to.  With unique type names (codec.modelled) every packet of the tree is emitted exactly
   once, so the prog is the same tree walk as for Go; the order inside the file is not part
   of the IR.

   Conventions used below (see harness/IR.md and harness/extract_cpp.py):
   - the width and byte order of a scalar step are those of the buf.write_<x>/read_<x>
     method that is named: <x> is a key of cppBasicTypeMap (big-endian) or its Le column;
     the Le column of i8/u8 is "i8"/"u8" (no _le suffix), so those steps have le = false
     whatever the configuration.  A name outside the map ("" or e.g. "char") is no method
     of the runtime: width 0 (the IR has no "does not compile" step);
   - the codec::write_..._le / read_..._le helpers carry the byte order in their name
     (prefix and elements);
   - x->encode(buf) on a member that is not a std::unique_ptr is ill-typed: ENone (inside the
     ESpan of a length-of target, where it makes the span fail);
   - MessageFactory (runtime, not in the repository): a later REGISTER_MESSAGE of a key
     replaces an earlier one (first_wins = false) and create() of an unknown key signals an
     error (unk_err = true) - the assumption cpp_factory_unknown_key_throws of DESIGN.md. *)
From FP Require Export Common.
Open Scope string_scope.
Open Scope list_scope.

Section Cpp.
  Variable M : bmodel.

  (* GetPadding + "if !padding.IsDefault()" *)
  Definition cpp_pad := padarg_of norm_cpp M.

  (* cppBasicTypeMap has exactly the ten numeric keys: ty_width is defined on the same keys and
     gives the Size column (= width of the Name column's C++ type) *)
  Definition cpp_in_map (t : string) : bool :=
    match ty_width t with Some _ => true | None => false end.

  (* the method suffix emitted for type key [t]: "buf.write_" ++ t (big-endian) or
     "buf.write_" ++ cppBasicTypeMap[t].Le (little-endian), as (width, name ends in _le) *)
  Definition cpp_meth (le : bool) (t : option string) : nat * bool :=
    match t with
    | None => (0%nat, false)
    | Some t => match ty_width t with
                | Some w => (w, andb le (negb (Nat.eqb w 1)))      (* Le of i8/u8 is "i8"/"u8" *)
                | None => (0%nat, false)                            (* write_<not a method> / write_ *)
                end
    end.

  (* width of cppBasicTypeMap[t].Name as a template argument ("" when t is not a key) *)
  Definition cpp_name_w (t : option string) : nat :=
    match t with Some t => opt_w (ty_width t) | None => 0%nat end.

  (* width of static_cast<cppBasicTypeMap[t].BasicType>: int / unsigned int / float / double / "" *)
  Definition cpp_cast_w (t : option string) : nat :=
    match t with
    | Some t => if String.eqb t "f64" then 8%nat else if cpp_in_map t then 4%nat else 0%nat
    | None => 0%nat
    end.

  (* a position variable is named ToLowerCamel(field name) ++ "Pos": the member it denotes *)
  Definition cpp_lc_index (p : packet) (n : string) : nat :=
    match index_where (fun n' => String.eqb (lcamel M n') (lcamel M n)) (p_fields p) 0 with
    | Some i => i
    | None => undefined_mark
    end.

  (* is "auto <v>Pos = buf.writer_index();" emitted for one of the first [k] fields ?  (the
     LengthFieldAttribute case of the switch, which the length-of target test precedes) *)
  Fixpoint cpp_pos_defined (v : string) (fs : list field) (k : nat) : bool :=
    match k, fs with
    | S k', g :: r =>
        orb (match f_len g, f_attr g with
             | LTarget, _ => false
             | _, ALen _ _ => String.eqb (lcamel M (f_name g)) v
             | _, _ => false
             end) (cpp_pos_defined v r k')
    | _, _ => false
    end.

  (* generateEncode, "if lf, ok := f.LenAttr.(*model.LengthFieldAttribute); ok { ...; continue }" *)
  Definition cpp_enc_target (p : packet) (i : nat) (f : field) : list (nat * estep) :=
    let le := le_of M in
    (* "<f>->encode(buf)" whatever the attribute: well-typed only on the unique_ptr of a match member *)
    let inner := match f_attr f, f_rep f with
                 | AMatch _ _ _, false => EDyn
                 | _, _ => ENone "-> on a member that is not a pointer"
                 end in
    match p_lenf p, len_field_index p with
    | Some ln, Some li =>
        match nth_error (p_fields p) li with
        | Some lf =>
            (* typ = cppBasicTypeMap[lf.GetType()], lf = f.LenAttr = the attribute of p.LengthField
               (before or after the visitor replaced it: the same key up to getBasicType);
               little-endian: write_<typ.Le>_at, otherwise write_<p.LengthField.GetType()>_at *)
            let aty := attr_get_type (f_attr lf) in
            let m := if le then cpp_meth true aty else cpp_meth false (field_get_type lf) in
            (* "<ToLowerCamel(p.LengthField.Name)>Pos", defined by the placeholder of the length field
               if that was emitted earlier in the body.  ("<ToLowerCamel(lf.TragetField.Name)>Len_"
               is a local the same statement pair defines and uses.) *)
            let mark := if cpp_pos_defined (lcamel M ln) (p_fields p) i then cpp_lc_index p ln else undefined_mark in
            [(i, ESpan inner i); (i, EPatch mark i (fst m) (snd m) (cpp_cast_w aty) None)]
        | None => [(i, ENone "unresolved")]
        end
    | _, _ => [(i, ENone "unresolved")]                    (* p.LengthField.Name: nil dereference *)
    end.

  (* generateEncode, the switch on f.Attr *)
  Definition cpp_enc_field (path : string) (p : packet) (i : nat) (f : field) : list (nat * estep) :=
    let le := le_of M in
    let lw := cfg_list_w M in
    let ft := field_get_type f in
    let m := cpp_meth le ft in
    match f_len f with
    | LTarget => cpp_enc_target p i f
    | _ =>
      match f_attr f with
      | ALen _ _ =>
          (* "auto <f>Pos = buf.writer_index(); buf.write_<ty>(0);" - named after the length field itself *)
          let li := cpp_lc_index p (f_name f) in [(li, EMarkZero li (fst m) (snd m))]
      | ACheck alg _ => [(i, ECheck alg (fst m) (snd m))]           (* IsRepeat is not looked at *)
      | ABasic _ =>
          [(i, if f_rep f then EList lw le le (EInt (cpp_name_w ft) le) else EInt (fst m) (snd m))]
      | AFixed n _ =>
          let s := EFixed n (cpp_pad (f_attr f)) in
          [(i, if f_rep f then EList lw le le s else s)]
      | ADyn =>
          let s := EStr (cfg_str_w M) le le in
          [(i, if f_rep f then EList lw le le s else s)]
      | AObj _ _ _ _ =>
          [(i, match obj_path path f with
               | Some ty => if f_rep f then EList lw le le (EObj ty) else EObj ty
               | None => ENone "unresolved"
               end)]
      | AMatch _ _ _ =>
          [(i, if f_rep f then ENone "-> on a member that is not a pointer" else EDyn)]
      | ANil => [(i, ENone "unresolved")]          (* default: f.GetType() on a nil Attr panics before the marker *)
      end
    end.

  (* the Name column of cppBasicTypeMap *)
  Definition cpp_name (t : string) : string :=
    if String.eqb t "i8" then "int8_t" else if String.eqb t "i16" then "int16_t"
    else if String.eqb t "i32" then "int32_t" else if String.eqb t "i64" then "int64_t"
    else if String.eqb t "u8" then "uint8_t" else if String.eqb t "u16" then "uint16_t"
    else if String.eqb t "u32" then "uint32_t" else if String.eqb t "u64" then "uint64_t"
    else if String.eqb t "f32" then "float" else if String.eqb t "f64" then "double"
    else "".

  (* getFieldType: the declared type of a member (None = f.GetType() panics) *)
  Definition cpp_field_type (f : field) : option string :=
    let wrap := fun t => if f_rep f then ("std::vector<" ++ t ++ ">")%string else t in
    match f_attr f with
    | ABasic _ | ALen _ _ | ACheck _ _ =>
        match field_get_type f with Some t => Some (wrap (cpp_name t)) | None => None end
    | AFixed _ _ | ADyn => Some (wrap "std::string")
    | AMatch _ _ _ => Some (wrap "std::unique_ptr<codec::BinaryCodec>")
    | AObj _ _ _ _ | ANil => match field_get_type f with Some t => Some (wrap t) | None => None end
    end.

  Definition cpp_ostr_eqb (a b : option string) : bool :=
    match a, b with
    | Some x, Some y => String.eqb x y
    | None, None => true
    | _, _ => false
    end.

  (* the factory "<ToCamel(p.Name)>MessageFactory": one block per key of p.MatchFields in sorted key
     order, all of them declaring ("struct <P>Tag{}; using <P>MessageFactory = MessageFactory<key type, ...>")
     and registering into the same factory name *)
  Definition cpp_table (p : packet) : list (string * string) :=
    flat_map (fun '(_, pairs) => map (fun mp => (mp_key mp, mp_value mp)) pairs) (p_mfs p).

  (* the key types the alias is declared with: getFieldType(p.FieldMap[key]) for every key *)
  Definition cpp_factory_key_types (p : packet) : list (option string) :=
    map (fun '(k, _) => match field_map p k with Some f => cpp_field_type f | None => None end) (p_mfs p).

  (* generateDecode *)
  Definition cpp_dec_field (path : string) (p : packet) (f : field) : dstep :=
    let le := le_of M in
    let lw := cfg_list_w M in
    match f_attr f with
    | ABasic _ | ALen _ _ | ACheck _ _ =>
        match field_get_type f with
        | Some t =>
            match ty_width t with                       (* "if typ, ok := cppBasicTypeMap[f.GetType()]; ok" *)
            | Some w => if f_rep f then DList lw le false (DInt w le)
                        else let m := cpp_meth le (Some t) in DInt (fst m) (snd m)
            | None => DNone "omitted"
            end
        | None => DNone "unresolved"
        end
    | AFixed n _ =>
        let s := DFixed n (cpp_pad (f_attr f)) in
        if f_rep f then DList lw le false s else s
    | ADyn =>
        let s := DStr (cfg_str_w M) le false in
        if f_rep f then DList lw le false s else s
    | AObj _ _ _ _ =>
        (* read_object_List<P, f.GetType()> : the member's own type name *)
        match obj_path path f with
        | Some ty => if f_rep f then DList lw le false (DObj ty) else DObj ty
        | None => DNone "unresolved"
        end
    | AMatch (Some k) _ _ =>
        (* "<f> = <ToCamel(p.Name)>MessageFactory::getInstance().create(<ToLowerCamel(key)>); <f>->decode(buf);" *)
        match cpp_factory_key_types p with
        | [] => DNone "undeclared factory"              (* inline packets have no MatchFields *)
        | None :: _ => DNone "unresolved key"           (* getFieldType(nil) *)
        | kt :: kts =>
            if negb (forallb (cpp_ostr_eqb kt) kts) then DNone "conflicting declarations of the factory alias" else
            if f_rep f then DNone "-> on a member that is not a pointer" else
            match index_where (fun n => String.eqb (lcamel M n) (lcamel M k)) (p_fields p) 0 with
            | Some ki => DDispatch (cpp_table p) false ki true
            | None => DNone "unresolved key"
            end
        end
    | AMatch None _ _ => DNone "unresolved key"
    | ANil => DNone "unresolved"
    end.

  Fixpoint cpp_number {A} (i : nat) (l : list A) : list (nat * A) :=
    match l with [] => [] | x :: r => (i, x) :: cpp_number (S i) r end.

  Definition cpp_ir (path : string) (p : packet) : pkt_ir :=
    let fs := cpp_number 0 (p_fields p) in
    mkPkt (length (p_fields p))
          (flat_map (fun '(i, f) => cpp_enc_field path p i f) fs)
          (map (fun '(i, f) => (i, cpp_dec_field path p f)) fs).

  Fixpoint cpp_packet (path : string) (p : packet) {struct p} : prog :=
    match p with
    | mkPacket _ _ _ fs _ =>
        (fix inl (fs : list field) : prog :=
           match fs with
           | [] => []
           | mkField fname (AObj true _ _ (Some q)) _ _ :: r => cpp_packet (path_join path fname) q ++ inl r
           | _ :: r => inl r
           end) fs ++ [(path, cpp_ir path p)]
    end.

  Definition gen_cpp : prog :=
    match m_root M with
    | None => []                                       (* binModel.RootPacket.Name: nil dereference *)
    | Some _ => flat_map (fun p => cpp_packet (p_name p) p) (m_packets M)
    end.
End Cpp.
