(* Model of internal/parser/java_generator.go at the level of the codec IR.
   Faithful to the code, defects included.  Model only: no proofs here.

   Conventions specific to Java (see also the header of harness/extract_java.py):
   * a step is tagged with the position, in the emitted member list, of the member the emitted
     text NAMES.  The member list declares ToLowerCamel(ToCamel(name)) while most emitters name
     ToLowerCamel(name): when the two differ the step names a member that does not exist and
     is tagged 999 (undefined_mark).
   * a repeated field names two members (the list whose size is written / the list that is
     initialised, and the list whose elements are read / that is added to).  The IR has one
     index per step: when the two names do not denote the same declared member the element
     step is replaced by ENone/DNone (closest form: the prefix is still written/read, a non
     empty list cannot be encoded/decoded).
   * element code that is no element codec at all (length placeholder, checksum block,
     length-of block or match assignment inside the loop) is ENone/DNone as well.
   * EPatch has no slot for the member the size is stored in ("this.<len> = ..."): when that
     member is not declared the EPatch step is tagged 999 instead of the target's index.   *)
From FP Require Export Common.
Open Scope string_scope.
Open Scope list_scope.
Local Open Scope nat_scope.

(* ---- iancoleman/strcase v0.3.0 toCamelInitCase(s, false) = ToLowerCamel, byte by byte.
   Needed because GetFieldNameLower converts an already converted string
   (ToLowerCamel(ToCamel(name))), which the m_names table does not hold.  strings.TrimSpace
   and the acronym table are left out: the argument is a ToCamel result (letters and digits
   only) and the repository never calls ConfigureAcronym. *)
Definition asc_between (lo hi : nat) (c : ascii) : bool :=
  let n := nat_of_ascii c in andb (Nat.leb lo n) (Nat.leb n hi).
Definition asc_is_cap := asc_between 65 90.
Definition asc_is_low := asc_between 97 122.
Definition asc_is_num := asc_between 48 57.
Definition asc_up (c : ascii) : ascii := ascii_of_nat (nat_of_ascii c - 32).
Definition asc_lo (c : ascii) : ascii := ascii_of_nat (nat_of_ascii c + 32).
Definition asc_is_sep (c : ascii) : bool :=
  let n := nat_of_ascii c in
  orb (orb (Nat.eqb n 95) (Nat.eqb n 32)) (orb (Nat.eqb n 45) (Nat.eqb n 46)).   (* _ space - . *)

Fixpoint strcase_loop (s : string) (first capNext prevIsCap : bool) : string :=
  match s with
  | EmptyString => EmptyString
  | String v r =>
      let vcap := asc_is_cap v in
      let vlow := asc_is_low v in
      let v' := if capNext then (if vlow then asc_up v else v)
                else if first then (if vcap then asc_lo v else v)
                else if andb prevIsCap vcap then asc_lo v else v in
      if orb vcap vlow then String v' (strcase_loop r false false vcap)
      else if asc_is_num v then String v' (strcase_loop r false true vcap)
      else strcase_loop r false (asc_is_sep v) vcap
  end.
Definition strcase_lower_camel (s : string) : string := strcase_loop s true false false.

(* ---- javaBasicTypeMap: BasicType, BoxType, Le (a missing key is Go's zero value) ---- *)
Record jtype := mkJ { j_basic : string; j_box : string; j_le : string }.
Definition jzero : jtype := mkJ "" "" "".
Definition java_type (t : string) : jtype :=
  if str_in t ["u8"; "char"; "i8"] then mkJ "byte" "Byte" "Byte"
  else if str_in t ["u16"; "i16"] then mkJ "short" "Short" "ShortLE"
  else if str_in t ["u32"; "i32"] then mkJ "int" "Integer" "IntLE"
  else if str_in t ["u64"; "i64"] then mkJ "long" "Long" "LongLE"
  else if String.eqb t "f32" then mkJ "float" "Float" "FloatLE"
  else if String.eqb t "f64" then mkJ "double" "Double" "DoubleLE"
  else jzero.

(* what the suffix of a Netty ByteBuf write<S>/read<S>/set<S> method means: width, little-endian *)
Definition netty (m : string) : nat * bool :=
  if String.eqb m "Byte" then (1, false)
  else if String.eqb m "Short" then (2, false) else if String.eqb m "ShortLE" then (2, true)
  else if String.eqb m "Int" then (4, false) else if String.eqb m "IntLE" then (4, true)
  else if String.eqb m "Long" then (8, false) else if String.eqb m "LongLE" then (8, true)
  else if String.eqb m "Float" then (4, false) else if String.eqb m "FloatLE" then (4, true)
  else if String.eqb m "Double" then (8, false) else if String.eqb m "DoubleLE" then (8, true)
  else (0, false).

(* width of a Java primitive type named in a cast *)
Definition prim_w (t : string) : nat :=
  if String.eqb t "byte" then 1 else if String.eqb t "short" then 2
  else if str_in t ["int"; "float"] then 4 else if str_in t ["long"; "double"] then 8 else 0.

Section Java.
  Variable M : bmodel.

  Definition java_pad := padarg_of norm_java M.

  (* "if LittleEndian { typ.Le } else { strcase.ToCamel(typ.BasicType) }" *)
  Definition meth (t : jtype) : string := if le_of M then j_le t else camel M (j_basic t).
  (* the empty/null branches always use strcase.ToCamel(typ.BasicType) *)
  Definition meth_be (t : jtype) : string := camel M (j_basic t).

  (* javaBasicTypeMap[f.GetType()] *)
  Definition field_jtype (f : field) : jtype :=
    match field_get_type f with Some t => java_type t | None => jzero end.

  (* GetFieldNameLower: the name a member is declared (and decoded) under *)
  Definition decl_name (n : string) : string := strcase_lower_camel (camel M n).

  (* position of the member called [x] in the emitted member list *)
  Definition decl_index (p : packet) (x : string) : option nat :=
    index_where (fun n' => String.eqb (decl_name n') x) (p_fields p) 0.

  Definition tag_of (o : option nat) : nat := match o with Some i => i | None => undefined_mark end.

  Definition same_member (a b : option nat) : bool :=
    match a, b with Some x, Some y => Nat.eqb x y | _, _ => false end.

  (* a position variable is named after a field (ToLowerCamel): the member it denotes *)
  Definition lc_index (p : packet) (n : string) : nat :=
    match index_where (fun n' => String.eqb (lcamel M n') (lcamel M n)) (p_fields p) 0 with
    | Some i => i
    | None => undefined_mark
    end.

  (* c.RefPacket.Name *)
  Definition ref_name (f : field) : string :=
    match f_attr f with
    | AObj _ _ (Some r) _ => r
    | AObj _ pn None _ => pn
    | _ => ""
    end.

  (* "this.<x>[.get(i)].encode(byteBuf)": which member is named, and what its declared type
     (GetFieldType) makes of the call *)
  Definition codec_call (path : string) (p : packet) (x : string) (elem : bool) : option nat * estep :=
    match decl_index p x with
    | None => (None, EObj "?")
    | Some j =>
        (Some j,
         match nth_error (p_fields p) j with
         | Some fj =>
             match f_attr fj with
             | AMatch _ _ _ => if elem then ENone "get(i) on a BinaryCodec" else EDyn
             | AObj _ _ _ _ =>
                 if Bool.eqb (f_rep fj) elem
                 then match obj_path path fj with Some ty => EObj ty | None => ENone "unresolved" end
                 else ENone "List/object confusion"
             | _ => ENone "encode on a non-codec member"
             end
         | None => ENone "unreachable"
         end)
    end.

  (* GenerateEncodeField after the LenAttr test, except the length placeholder *)
  Definition java_enc_simple (path : string) (p : packet) (f : field) (elem : bool) : option nat * estep :=
    let x := lcamel M (f_name f) in
    match f_attr f with
    | ADyn =>
        let lt := java_type (c_str (m_cfg M)) in
        let '(pw, ple) := netty (meth lt) in
        (decl_index p x, EStr pw ple (snd (netty (meth_be lt))))      (* the 0 prefix of an empty string: always the big-endian method *)
    | AFixed n _ => (decl_index p x, EFixed n (java_pad (f_attr f)))
    | ABasic _ => let '(w, le) := netty (meth (field_jtype f)) in (decl_index p x, EInt w le)
    | ACheck alg _ =>
        let '(w, le) := netty (meth (field_jtype f)) in
        (decl_index p x, if elem then ENone "invalid element" else ECheck alg w le)
    | ALen _ _ => (decl_index p x, ENone "invalid element")          (* top level: java_enc_field *)
    | AObj true _ _ _ => codec_call path p (lcamel M (ref_name f)) elem
    | AObj false _ _ _ => codec_call path p x elem
    | AMatch _ _ _ => codec_call path p x elem
    | ANil => (None, ENone "marker")
    end.

  (* the variable "<v>Pos" that the encode step of a field declares in the method's scope *)
  Definition defines_pos (f : field) : option string :=
    match f_len f with
    | LTarget => None
    | _ => if f_rep f then None
           else match f_attr f with ALen _ _ => Some (lcamel M (f_name f)) | _ => None end
    end.

  Definition pos_defined_before (p : packet) (i : nat) (v : string) : bool :=
    existsb (fun f => match defines_pos f with Some v' => String.eqb v' v | None => false end)
            (firstn i (p_fields p)).

  (* GenerateEncodeField, "if _, ok := f.LenAttr.(*model.LengthFieldAttribute); ok" *)
  Definition java_enc_target (path : string) (p : packet) (i : nat) (f : field) : list (nat * estep) :=
    let '(tm, inner) := codec_call path p (lcamel M (f_name f)) false in
    let ti := tag_of tm in
    let lt := match len_field_index p with
              | Some li => match nth_error (p_fields p) li with Some g => field_jtype g | None => jzero end
              | None => jzero
              end in
    let lname := match p_lenf p with Some n => n | None => "" end in
    let l := lcamel M lname in
    let '(w, le) := netty (meth lt) in
    (* "<len>Pos" is declared by the placeholder of a length field named like that, if it came earlier *)
    let mark := if pos_defined_before p i l then lc_index p lname else undefined_mark in
    let ptag := match decl_index p l with Some _ => ti | None => undefined_mark end in
    [(ti, ESpan inner ti); (ptag, EPatch mark ti w le (prim_w (j_basic lt)) None)].

  Definition java_enc_field (path : string) (p : packet) (i : nat) (f : field) : list (nat * estep) :=
    match f_len f with
    | LTarget => java_enc_target path p i f
    | _ =>
        match f_attr f with
        | ALen _ _ =>
            let ti := lc_index p (f_name f) in                          (* "int <field>Pos = byteBuf.writerIndex()" *)
            let '(w, le) := netty (meth (field_jtype f)) in
            [(ti, EMarkZero ti w le)]
        | _ => let '(o, s) := java_enc_simple path p f false in [(tag_of o, s)]
        end
    end.

  (* GenerateEncode, "if f.IsRepeat" *)
  Definition java_enc_list (path : string) (p : packet) (f : field) : list (nat * estep) :=
    let lt := java_type (c_list (m_cfg M)) in
    let '(pw, ple) := netty (meth lt) in
    let ele := snd (netty (meth_be lt)) in                              (* "byteBuf.write<ToCamel(BasicType)>(0)" *)
    let lm := decl_index p (decl_name (f_name f)) in                    (* this.<GetFieldNameLower>.size() *)
    let '(em, es) := match f_len f with
                     | LTarget => (lm, ENone "invalid element")
                     | _ => java_enc_simple path p f true
                     end in
    let el := match es with
              | ENone _ => es
              | _ => if same_member lm em then es else ENone "wrong member"
              end in
    [(tag_of lm, EList pw ple ele el)].

  Definition java_enc_step (path : string) (p : packet) (i : nat) (f : field) : list (nat * estep) :=
    if f_rep f then java_enc_list path p f else java_enc_field path p i f.

  (* ---- decode ---- *)

  (* "if (null == this.<x>) { this.<x> = new <cls>(); } this.<x>.decode(byteBuf);" *)
  Definition java_dec_obj (path : string) (p : packet) (x cls : string) : nat * dstep :=
    match decl_index p x with
    | None => (undefined_mark, DNone "undeclared member")
    | Some j =>
        (j, match nth_error (p_fields p) j with
            | Some fj =>
                match f_attr fj with
                | AObj _ pn _ _ =>
                    if andb (negb (f_rep fj)) (String.eqb pn cls)
                    then match obj_path path fj with Some ty => DObj ty | None => DNone "unresolved" end
                    else DNone "member initialised with another class"
                | _ => DNone "member initialised with another class"
                end
            | None => DNone "unreachable"
            end)
    end.

  (* "<T> <x>_ = new <T>();<x>_.decode(byteBuf);this.<x>.add(<x>_);" *)
  Definition java_dec_obj_elem (path : string) (p : packet) (x cls : string) : option nat * dstep :=
    match decl_index p x with
    | None => (None, DNone "undeclared member")
    | Some j =>
        (Some j,
         match nth_error (p_fields p) j with
         | Some fj =>
             match f_attr fj with
             | AObj _ pn _ _ =>
                 if andb (f_rep fj) (String.eqb pn cls)
                 then match obj_path path fj with Some ty => DObj ty | None => DNone "unresolved" end
                 else DNone "not a list of that class"
             | _ => DNone "not a list of that class"
             end
         | None => DNone "unreachable"
         end)
    end.

  (* what the enums called <fac>MessageFactory of this class register, in emission order *)
  Definition java_regs (p : packet) (fac : string) : list (string * string) :=
    flat_map (fun f' => match f_attr f' with
                        | AMatch _ _ pairs =>
                            if String.eqb (camel M (f_name f')) fac
                            then map (fun mp => (mp_key mp, mp_value mp)) pairs else []
                        | _ => []
                        end) (p_fields p).

  Definition is_match_member (p : packet) (j : nat) : bool :=
    match nth_error (p_fields p) j with
    | Some fj => match f_attr fj with AMatch _ _ _ => true | _ => false end
    | None => false
    end.

  (* "this.<n> = <Camel>MessageFactory.getInstance().create(this.<key>); this.<n>.decode(byteBuf);" *)
  Definition java_dec_match (p : packet) (f : field) (key : option string) : nat * dstep :=
    match decl_index p (decl_name (f_name f)) with
    | None => (undefined_mark, DNone "unreachable")
    | Some j =>
        (j, match key with
            | None => DNone "unresolved key"
            | Some k =>
                match decl_index p (lcamel M k) with
                | Some ki => if is_match_member p j
                             then DDispatch (java_regs p (camel M (f_name f))) false ki true
                             else DNone "not a BinaryCodec member"
                | None => DNone "unresolved key"
                end
            end)
    end.

  (* GenerateDecodeField, not repeated *)
  Definition java_dec_field (path : string) (p : packet) (f : field) : nat * dstep :=
    let n := tag_of (decl_index p (decl_name (f_name f))) in
    match f_attr f with
    | ADyn => let '(pw, ple) := netty (meth (java_type (c_str (m_cfg M)))) in (n, DStr pw ple true)
    | AFixed k _ => (n, DFixed k (java_pad (f_attr f)))
    | ABasic _ | ALen _ _ | ACheck _ _ => let '(w, le) := netty (meth (field_jtype f)) in (n, DInt w le)
    | AObj true _ _ _ => java_dec_obj path p (lcamel M (ref_name f)) (f_name f)      (* new <f.Name>() *)
    | AObj false _ _ _ => java_dec_obj path p (lcamel M (f_name f)) (f_name f)
    | AMatch key _ _ => java_dec_match p f key
    | ANil => (undefined_mark, DNone "marker")
    end.

  (* GenerateDecode, "if f.IsRepeat" *)
  Definition java_dec_list (path : string) (p : packet) (f : field) : nat * dstep :=
    let '(pw, ple) := netty (meth (java_type (c_list (m_cfg M)))) in
    let n := decl_index p (decl_name (f_name f)) in
    let init := decl_index p (lcamel M (f_name f)) in                   (* this.<ToLowerCamel(f.Name)> = new ArrayList<>() *)
    let '(am, es) :=
      match f_attr f with
      | ADyn => let '(sw, sle) := netty (meth (java_type (c_str (m_cfg M)))) in (n, DStr sw sle true)
      | AFixed k _ => (n, DFixed k (java_pad (f_attr f)))
      | ABasic _ | ALen _ _ | ACheck _ _ => let '(w, le) := netty (meth (field_jtype f)) in (n, DInt w le)
      | AObj true _ _ _ => java_dec_obj_elem path p (lcamel M (ref_name f)) (ref_name f)      (* f.GetType() *)
      | AObj false _ _ _ => java_dec_obj_elem path p (lcamel M (f_name f)) (ref_name f)
      | AMatch _ _ _ => (n, DNone "invalid element")
      | ANil => (init, DNone "marker")
      end in
    let el := match es with
              | DNone _ => es
              | _ => if same_member init am then es else DNone "wrong member"
              end in
    (tag_of am, DList pw ple true el).

  Definition java_dec_step (path : string) (p : packet) (f : field) : nat * dstep :=
    if f_rep f then java_dec_list path p f else java_dec_field path p f.

  Fixpoint number {A} (i : nat) (l : list A) : list (nat * A) :=
    match l with [] => [] | x :: r => (i, x) :: number (S i) r end.

  Definition java_ir (path : string) (p : packet) : pkt_ir :=
    let fs := number 0 (p_fields p) in
    mkPkt (length (p_fields p))
          (flat_map (fun '(i, f) => java_enc_step path p i f) fs)
          (map (fun '(_, f) => java_dec_step path p f) fs).

  (* GenerateJavaClassFileForPacket: inline packets are static nested classes of their packet *)
  Fixpoint java_packet (path : string) (p : packet) {struct p} : prog :=
    match p with
    | mkPacket _ _ _ fs _ =>
        (fix inl (fs : list field) : prog :=
           match fs with
           | [] => []
           | mkField fname (AObj true _ _ (Some q)) _ _ :: r => java_packet (path_join path fname) q ++ inl r
           | _ :: r => inl r
           end) fs ++ [(path, java_ir path p)]
    end.

  Definition gen_java : prog := flat_map (fun p => java_packet (p_name p) p) (m_packets M).
End Java.
