(* Model of internal/parser/java_generator.go at the level of the codec IR.
   Faithful to the code, defects included.  Model only: no proofs here. *)
From FP Require Export Common.
Open Scope string_scope.
Open Scope list_scope.

Section Java.
  Variable M : bmodel.

  Definition gen_java : prog := [].
End Java.
