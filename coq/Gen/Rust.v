(* Model of internal/parser/rust_generator.go at the level of the codec IR.
   Faithful to the code, defects included.  Model only: no proofs here. *)
From FP Require Export Common.
Open Scope string_scope.
Open Scope list_scope.

Section Rust.
  Variable M : bmodel.

  Definition gen_rust : prog := [].
End Rust.
