(* Model of internal/parser/rust_generator.go at the level of the codec IR.
   Faithful to the code, defects included.  Model only: no proofs here.

   Conventions specific to Rust (see harness/extract_rust.py, which is the inverse):
   - a step is tagged with the index of the first member that carries the snake_case name the
     emitted text uses ([sn_index]); this is the field's own index whenever the converted names
     of a packet are pairwise different;
   - type names are resolved through the emitted declarations: structs are declared under
     ToCamel(name) but referred to by their raw names (member types, enum payloads,
     "<T>::decode"), enums are declared under <raw packet name><field>Enum, only for the
     top-level packet of a file, but referred to as <ToCamel(packet name)><field>Enum;
     a name that resolves to nothing gives EObj/DObj "?<name>";
   - the marker comments ("// unknown type for ...") name no member: tagged 999.           *)
From FP Require Export Common.
Open Scope string_scope.
Open Scope list_scope.

Section Rust.
  Variable M : bmodel.

  (* GetPadding + "!padding.IsDefault()" *)
  Definition rs_pad := padarg_of norm_rust M.

  (* width denoted by a type name appearing in a method name or a turbofish *)
  Definition rs_w (t : string) : nat := opt_w (ty_width t).

  (* ---- the types the crate declares ---- *)

  (* generateStructCode: the inline packets of a packet are emitted (recursively) before it *)
  Fixpoint rs_tree (path : string) (p : packet) {struct p} : list (string * packet) :=
    match p with
    | mkPacket _ _ _ fs _ =>
        (fix inl (fs : list field) : list (string * packet) :=
           match fs with
           | [] => []
           | mkField fname (AObj true _ _ (Some q)) _ _ :: r => rs_tree (path_join path fname) q ++ inl r
           | _ :: r => inl r
           end) fs ++ [(path, p)]
    end.

  (* "pub struct ToCamel(name)" of every file: declared name |-> packet path *)
  Definition rs_structs : list (string * string) :=
    flat_map (fun p => map (fun '(path, q) => (camel M (p_name q), path)) (rs_tree (p_name p) p)) (m_packets M).

  Definition rs_resolve (t : string) : string :=
    match filter (fun d => String.eqb (fst d) t) rs_structs with
    | [(_, path)] => path
    | _ => ("?" ++ t)%string
    end.

  (* generateMatchFieldEnumCode, called for the top-level packet of the file only:
     "pub enum <packet.Name><f.Name>Enum" *)
  Definition rs_enums (top : packet) : list string :=
    flat_map (fun f => match f_attr f with
                       | AMatch _ _ _ => [(p_name top ++ f_name f ++ "Enum")%string]
                       | _ => []
                       end) (p_fields top).

  Definition rs_enum_declared (top : packet) (n : string) : bool :=
    Nat.eqb (length (filter (String.eqb n) (rs_enums top))) 1.

  (* parentName + f.Name + "Enum" with parentName = ToCamel(p.Name) (GetFieldType, EncoderMatchField,
     DecodeMatchField) *)
  Definition rs_enum_name (p : packet) (f : field) : string := (camel M (p_name p) ++ f_name f ++ "Enum")%string.

  (* ---- members ---- *)

  (* the member a snake_case name denotes: the first one declared under it *)
  Definition sn_index (p : packet) (n : string) : nat :=
    match index_where (fun n' => String.eqb (snake M n') (snake M n)) (p_fields p) 0 with
    | Some i => i
    | None => undefined_mark
    end.

  (* the switch on f.GetType() that ends EncodeField *)
  Definition rs_enc_scalar (t : string) : option estep :=
    let le := le_of M in
    if String.eqb t "char" then Some (EInt 1 false)                                  (* put_char(buf, self.x) *)
    else if orb (String.eqb t "u8") (String.eqb t "i8") then Some (EInt 1 false)     (* buf.put_u8(self.x): never _le *)
    else if str_in t ["u16"; "u32"; "u64"; "i16"; "i32"; "i64"; "f32"; "f64"] then Some (EInt (rs_w t) le)
    else None.                                                                       (* "// unknown type for encode: " *)

  (* the switch on f.GetType() that ends DecodeField *)
  Definition rs_dec_scalar (t : string) : option dstep :=
    let le := le_of M in
    if String.eqb t "char" then Some (DInt 1 false)
    else if orb (String.eqb t "u8") (String.eqb t "i8") then Some (DInt 1 false)
    else if str_in t ["u16"; "u32"; "u64"; "i16"; "i32"; "i64"; "f32"; "f64"] then Some (DInt (rs_w t) le)
    else None.

  (* EncodeField, "if f.IsRepeat" *)
  Definition rs_enc_list (f : field) : estep :=
    let lw := cfg_list_w M in let le := le_of M in
    match field_get_type f with
    | None => ENone "panic"
    | Some t =>
      match f_attr f with
      | AFixed n _ => EList lw le le (EFixed n (rs_pad (f_attr f)))
      | ADyn => EList lw le le (EStr (cfg_str_w M) le le)
      | AObj _ _ _ _ => EList lw le le (EObj (rs_resolve t))           (* put_object_list::<RefPacket.Name, L> *)
      | _ => if String.eqb t "char"
             then EList lw false false (EInt 1 false)                  (* put_char_list::<L>: no _le variant is emitted *)
             else EList lw le le (EInt (rs_w t) le)                    (* put_list::<T, L> *)
      end
    end.

  (* is "<x>_pos" with x = snake(n) defined by the placeholder of an earlier field ? *)
  Fixpoint pos_defined (n : string) (fs : list field) (k : nat) : bool :=
    match k, fs with
    | S k', f :: r =>
        orb (match f_attr f with
             | ALen _ _ => String.eqb (snake M (f_name f)) (snake M n)
             | _ => false
             end) (pos_defined n r k')
    | _, _ => false
    end.

  (* EncodeField *)
  Definition rs_enc_step (top : packet) (p : packet) (i : nat) (f : field) : list (nat * estep) :=
    let le := le_of M in
    let mi := sn_index p (f_name f) in
    match f_attr f, field_get_type f with
    | ANil, _ => [(mi, ENone "panic")]
    | _, None => [(mi, ENone "panic")]
    (* "let <snake(f.Name)>_pos = buf.len(); buf.put_<ty>[_le](0);" - before the IsRepeat test *)
    | ALen _ _, Some t => [(mi, EMarkZero mi (rs_w t) le)]
    (* "buf.put_<ty>(val)": big-endian whatever the configuration - before the IsRepeat test *)
    | ACheck alg _, Some t => [(mi, ECheck alg (rs_w t) false)]
    | a, Some t =>
      if f_rep f then [(mi, rs_enc_list f)] else
      match a with
      | AFixed n _ => [(mi, EFixed n (rs_pad a))]
      | ADyn => [(mi, EStr (cfg_str_w M) le le)]
      | AMatch _ _ _ =>
          let en := rs_enum_name p f in
          let inner := if rs_enum_declared top en then EDyn else EObj ("?" ++ en)%string in
          match f_len f with
          | LTarget =>
              (* the patch goes through "<snake(p.LengthField.Name)>_pos" *)
              match p_lenf p with
              | None => [(mi, ENone "panic")]
              | Some ln =>
                  match len_field_index p with
                  | None => [(mi, ENone "panic")]
                  | Some li =>
                      match nth_error (p_fields p) li with
                      | None => [(mi, ENone "panic")]
                      | Some lf =>
                          match field_get_type lf with
                          | None => [(mi, ENone "panic")]
                          | Some lt =>
                              let mark := if pos_defined ln (p_fields p) i then sn_index p ln else undefined_mark in
                              (* cppBasicTypeMap[lt].Size: the ten numeric types, 0 otherwise *)
                              [(mi, ESpan inner mi); (mi, EPatch mark mi (rs_w lt) le (rs_w lt) (Some (rs_w lt)))]
                          end
                      end
                  end
              end
          | _ => [(mi, inner)]
          end
      | AObj _ _ _ _ => [(mi, EObj (rs_resolve t))]          (* no back-patch for an object target *)
      | _ => match rs_enc_scalar t with
             | Some s => [(mi, s)]
             | None => [(undefined_mark, ENone "marker")]
             end
      end
    end.

  (* DecodeField, "if f.IsRepeat" *)
  Definition rs_dec_list (f : field) : dstep :=
    let lw := cfg_list_w M in let le := le_of M in
    match field_get_type f with
    | None => DNone "panic"
    | Some t =>
      match f_attr f with
      | AFixed n _ => DList lw le false (DFixed n (rs_pad (f_attr f)))
      | ADyn => DList lw le false (DStr (cfg_str_w M) le false)
      | AObj _ _ _ _ => DList lw le false (DObj (rs_resolve t))
      | _ => if String.eqb t "char"
             then DList lw false false (DInt 1 false)                  (* get_char_list::<L> *)
             else DList lw le false (DInt (rs_w t) le)
      end
    end.

  (* DecodeMatchField: one arm per distinct key text, in order *)
  Fixpoint rs_arms (seen : list string) (pairs : list mpair) : list (string * string) :=
    match pairs with
    | [] => []
    | mp :: r => if str_in (mp_key mp) seen then rs_arms seen r
                 else (mp_key mp, rs_resolve (mp_value mp)) :: rs_arms (mp_key mp :: seen) r
    end.

  (* DecodeField *)
  Definition rs_dec_step (top : packet) (p : packet) (f : field) : list (nat * dstep) :=
    let le := le_of M in
    let mi := sn_index p (f_name f) in
    match f_attr f, field_get_type f with
    | ANil, _ => [(mi, DNone "panic")]
    | _, None => [(mi, DNone "panic")]
    | a, Some t =>
      if f_rep f then [(mi, rs_dec_list f)] else
      match a with
      | AFixed n _ => [(mi, DFixed n (rs_pad a))]
      | ADyn => [(mi, DStr (cfg_str_w M) le false)]
      | AMatch (Some k) _ pairs =>
          match pairs with
          | [] => [(mi, DNone "panic")]                       (* mfa.MatchPairs[0] *)
          | _ =>
            let en := rs_enum_name p f in
            if rs_enum_declared top en
            then [(mi, DDispatch (rs_arms [] pairs) true (sn_index p k) true)]
            else [(mi, DObj ("?" ++ en)%string)]
          end
      | AMatch None _ _ => [(mi, DNone "panic")]
      | AObj _ _ _ _ => [(mi, DObj (rs_resolve t))]           (* "<RefPacket.Name>::decode(buf)?" *)
      | _ => match rs_dec_scalar t with
             | Some s => [(mi, s)]
             | None => [(undefined_mark, DNone "marker")]
             end
      end
    end.

  Fixpoint number {A} (i : nat) (l : list A) : list (nat * A) :=
    match l with [] => [] | x :: r => (i, x) :: number (S i) r end.

  Definition rs_ir (top : packet) (p : packet) : pkt_ir :=
    let fs := number 0 (p_fields p) in
    mkPkt (length (p_fields p))
          (flat_map (fun '(i, f) => rs_enc_step top p i f) fs)
          (flat_map (fun '(_, f) => rs_dec_step top p f) fs).

  (* Generate: one file per packet of PacketsMap *)
  Definition gen_rust : prog :=
    flat_map (fun top => map (fun '(path, q) => (path, rs_ir top q)) (rs_tree (p_name top) top)) (m_packets M).
End Rust.
