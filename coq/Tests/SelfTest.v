(* The emitted unit tests (C17), at the level of the codec IR: what "encode the sample,
   decode the bytes, compare" computes when the emitted codec (an IR program, in practice the
   one extracted from the real generator's output) runs on the sample message the emitted
   scaffold builds (harness/extract_tests.py).  Model only: no proofs here.

   Three things the IR semantics of IR/Sem.v does not say are added here:

   * store-backs.  The Go, Java and Python encoders assign computed members in the object
     being encoded ("p.BodyLen = uint32(bodyEnd - bodyStart)", "this.checksum = (int)
     checksumService.calc(byteBuf)", "self.body_len = body_end - body_start"), and the tests
     of those languages compare the object AFTER encode with the decoded one.  [enc_mut] is
     [sem_enc] returning, next to the bytes, the object as the encoder leaves it; which
     members are assigned, at which step, is read off the emitted encode text by the harness
     ([store]: the step tagged [so_trig] - the back-patch of a length-of target, or a checksum
     step - assigns member [so_dest], cast to [so_cast] bytes).  Rust (&self) and C++ (const)
     encoders cannot assign: their store list is empty.
   * the equality the test uses: whole-object (Go reflect.DeepEqual, Rust derived PartialEq)
     or the member list of the emitted __eq__ / equals ([teq]; absent path = all members).
   * the members the test copies from [decoded] into [original] before comparing
     (Rust and C++ do that for the length-of and checksum members of the top-level packet). *)
From FP Require Export Oracle Typed.
Open Scope N_scope.
Open Scope list_scope.

Record store := mkStore { so_trig : nat; so_dest : nat; so_cast : option nat }.

Definition cast_to (c : option nat) (n : N) : N :=
  match c with Some w => n mod pow256 w | None => n end.

Section EncMut.
  Variable cs : string -> option (list byte -> N).
  (* open recursion: encode a message of the packet at a path, returning the object as left by the encoder *)
  Variable rec : string -> value -> list byte -> option (list byte * value).

  Fixpoint encm_list (f : value -> list byte -> option (list byte * value)) (l : list value) (buf : list byte)
           (acc : list value) : option (list byte * list value) :=
    match l with
    | [] => Some (buf, rev acc)
    | v :: r => match f v buf with Some (b, v') => encm_list f r b (v' :: acc) | None => None end
    end.

  (* steps that only append; members that hold codec objects come back as the callee left them *)
  Fixpoint encm_elem (s : estep) (v : value) (buf : list byte) : option (list byte * value) :=
    match s, v with
    | EObj ty, _ => rec ty v buf
    | EDyn, VDyn q pv => match rec q pv buf with Some (b, pv') => Some (b, VDyn q pv') | None => None end
    | EDyn, _ => None
    | EList pw ple ele elem, VList l =>
        let o := match l with [] => ele | _ => ple end in
        match encm_list (encm_elem elem) l (buf ++ enc_int pw o (N.of_nat (length l))) [] with
        | Some (b, l') => Some (b, VList l')
        | None => None
        end
    | EList _ _ _ _, _ => None
    | _, _ => match enc_elem (fun _ _ _ => None) s v buf with Some b => Some (b, v) | None => None end
    end.

  Definition apply_stores (sts : list store) (trig : nat) (x : N) (vs : list value) : list value :=
    fold_left (fun vs st => if Nat.eqb (so_trig st) trig then set_nth vs (so_dest st) (VInt (cast_to (so_cast st) x)) else vs)
              sts vs.

  Definition encm_step (sts : list store) (i : nat) (s : estep) (v : value) (vs : list value) (st : estate)
    : option (estate * list value) :=
    let buf := st_buf st in
    let plain := match enc_step cs (fun _ _ _ => None) s v st with Some st' => Some (st', vs) | None => None end in
    match s with
    | EMarkZero _ _ _ => plain
    | ENone _ => plain
    | ESpan inner sid =>
        match encm_elem inner v buf with
        | Some (b, v') => Some (mkSt b (st_marks st) ((sid, (length b - length buf)%nat) :: st_spans st), set_nth vs i v')
        | None => None
        end
    | EPatch m sid w le cw slice =>
        match plain, lookup_mark (st_spans st) sid with
        | Some (st', _), Some n => Some (st', apply_stores sts i (N.of_nat n) vs)
        | _, _ => None
        end
    | ECheck alg w le =>
        match plain with
        | Some (st', _) =>
            Some (st', match cs (unquote alg) with Some h => apply_stores sts i (h buf) vs | None => vs end)
        | None => None
        end
    | _ => match encm_elem s v buf with
           | Some (b, v') => Some (mkSt b (st_marks st) (st_spans st), set_nth vs i v')
           | None => None
           end
    end.

  Fixpoint encm_steps (sts : list store) (steps : list (nat * estep)) (vs : list value) (st : estate)
    : option (list byte * list value) :=
    match steps with
    | [] => Some (st_buf st, vs)
    | (i, s) :: r =>
        match nth_error vs i with
        | Some v => match encm_step sts i s v vs st with Some (st', vs') => encm_steps sts r vs' st' | None => None end
        | None => None
        end
    end.

  Definition encm_packet_body (sts : list store) (ir : pkt_ir) (v : value) (buf : list byte) : option (list byte * value) :=
    match v with
    | VObj vs =>
        if Nat.eqb (length vs) (ir_members ir)
        then match encm_steps sts (ir_enc ir) vs (mkSt buf [] []) with
             | Some (b, vs') => Some (b, VObj vs')
             | None => None
             end
        else None
    | _ => None
    end.
End EncMut.

Definition stores_of (S : list (string * list store)) (path : string) : list store :=
  match assoc S path with Some l => l | None => [] end.

Fixpoint enc_mut (cs : string -> option (list byte -> N)) (P : prog) (S : list (string * list store)) (fuel : nat)
  : string -> value -> list byte -> option (list byte * value) :=
  match fuel with
  | O => fun _ _ _ => None
  | S fuel' => fun name v buf =>
      match find_ir P name with
      | Some ir => encm_packet_body cs (enc_mut cs P S fuel') (stores_of S name) ir v buf
      | None => None
      end
  end.

(* ---- the test's equality ---- *)
Section TEq.
  Variable M : bmodel.
  Variable eqs : list (string * list nat).    (* packet path |-> member indices the emitted equality compares *)

  Fixpoint all2 (f : value -> value -> bool) (a b : list value) : bool :=
    match a, b with
    | [], [] => true
    | x :: r, y :: s => andb (f x y) (all2 f r s)
    | _, _ => false
    end.

  Fixpoint teq (fuel : nat) (path : string) (p : packet) (a b : value) : bool :=
    match fuel with
    | O => false
    | S fuel' =>
        let ref (name : string) (x y : value) :=
            match lookup_packet M name with Some q => teq fuel' name q x y | None => value_eqb x y end in
        let elem (f : field) (x y : value) :=
            match f_attr f, x, y with
            | AObj true _ _ (Some q), _, _ => teq fuel' (path_join path (f_name f)) q x y
            | AObj false _ (Some name) _, _, _ => ref name x y
            | AMatch _ _ _, VDyn n x', VDyn n' y' => andb (String.eqb n n') (ref n x' y')
            | _, _, _ => value_eqb x y
            end in
        match a, b with
        | VObj xs, VObj ys =>
            andb (Nat.eqb (length xs) (length ys))
                 (forallb (fun i =>
                             match nth_error (p_fields p) i, nth_error xs i, nth_error ys i with
                             | Some f, Some x, Some y =>
                                 if f_rep f
                                 then match x, y with
                                      | VList l, VList l' => all2 (elem f) l l'
                                      | _, _ => value_eqb x y
                                      end
                                 else elem f x y
                             | _, _, _ => false
                             end)
                          (match assoc eqs path with Some l => l | None => seq 0 (length xs) end))
        | _, _ => false
        end
    end.
End TEq.

Definition copy_members (post : list nat) (orig dec : value) : value :=
  match orig, dec with
  | VObj xs, VObj ys =>
      VObj (fold_left (fun xs i => match nth_error ys i with Some y => set_nth xs i y | None => xs end) post xs)
  | _, _ => orig
  end.

(* outcome of running the emitted test on its sample *)
Inductive outcome :=
| TPass
| TEncodeFails       (* the encoder faults or gets stuck on the sample *)
| TDecodeFails       (* the decoder reports an error / crashes on the encoder's own bytes *)
| TNotEqual          (* both run; the comparison fails *)
| TInternal.         (* enc_mut and sem_enc disagree on the bytes (never expected) *)

Definition selftest (registered : bool) (M : bmodel) (P : prog) (S : list (string * list store))
           (eqs : list (string * list nat)) (post : list nat) (path : string) (v : value) : outcome :=
  match packet_at M path with
  | None => TEncodeFails
  | Some p =>
      match enc_mut (cs_test registered) P S fuel0 path v [] with
      | None => TEncodeFails
      | Some (b, v1) =>
          match sem_enc (cs_test registered) P fuel0 path v [] with
          | Some b' =>
              if negb (list_eqb b b') then TInternal
              else match sem_dec P fuel0 path b with
                   | DOk (v2, _) => if teq M eqs fuel0 path p (copy_members post v1 v2) v2 then TPass else TNotEqual
                   | _ => TDecodeFails
                   end
          | None => TInternal
          end
      end
  end.

Definition outcome_code (o : outcome) : nat :=
  match o with TPass => 0 | TEncodeFails => 1 | TDecodeFails => 2 | TNotEqual => 3 | TInternal => 9 end%nat.

Definition layout_defined (registered : bool) (M : bmodel) (path : string) (v : value) : bool :=
  match packet_at M path with
  | Some p => match layout (cs_test registered) M fuel0 p v with Some _ => true | None => false end
  | None => false
  end.

Definition typed_at (M : bmodel) (path : string) (v : value) : bool :=
  match packet_at M path with Some p => typed M fuel0 p v | None => false end.
