(* C07 at the level of the codec IR: "every declared packet has its type and every declared
   field its member and its encode and decode step".  Executable definitions only (the
   theorem that validated output is complete is in Proofs/Complete.v). *)
From FP Require Export Validate.
Open Scope list_scope.

Definition is_markzero (s : estep) : bool := match s with EMarkZero _ _ _ => true | _ => false end.

(* a step that reads a member (not a no-op, not a position/patch step) *)
Definition value_step (s : estep) : bool := andb (negb (is_noop s)) (negb (e_valueless s)).

(* a (non-repeated) length-of field: its encode step is the placeholder, which the IR tags
   with the identity of its position variable, not with the field's index (IR.md) *)
Definition is_len_field (f : field) : bool :=
  match f_attr f, f_rep f with ALen _ _, false => true | _, _ => false end.

Definition enc_covers (enc : list (nat * estep)) (i : nat) (f : field) : bool :=
  if is_len_field f then existsb (fun x => is_markzero (snd x)) enc
  else existsb (fun x => andb (Nat.eqb (fst x) i) (value_step (snd x))) enc.

Definition dec_covers (dec : list (nat * dstep)) (i : nat) : bool :=
  existsb (fun x => andb (Nat.eqb (fst x) i) (negb (d_noop (snd x)))) dec.

Definition complete_pkt (ir : pkt_ir) (p : packet) : bool :=
  andb (Nat.eqb (ir_members ir) (length (p_fields p)))
       (forallb (fun x => andb (enc_covers (ir_enc ir) (fst x) (snd x)) (dec_covers (ir_dec ir) (fst x)))
                (number 0 (p_fields p))).

(* every packet of the model has an entry with one member per field and, for every field
   index, a live encode step and a live decode step *)
Definition complete_ir (M : bmodel) (O : prog) : bool :=
  forallb (fun x => match find_ir O (fst x) with Some ir => complete_pkt ir (snd x) | None => false end)
          (all_packets M).

(* what the reference compilation needs in order to emit an encode step for a field: an attribute *)
Definition field_supported (f : field) : bool :=
  orb (f_rep f) (match f_attr f with ANil => false | _ => true end).

Definition supported (M : bmodel) : bool :=
  forallb (fun x => forallb field_supported (p_fields (snd x))) (all_packets M).

(* diagnostics for the check: the (path, field index) pairs that are not covered *)
Definition incomplete_fields (M : bmodel) (O : prog) : list (string * nat) :=
  flat_map (fun x =>
              match find_ir O (fst x) with
              | Some ir =>
                  map (fun y => (fst x, fst y))
                      (filter (fun y => negb (andb (enc_covers (ir_enc ir) (fst y) (snd y)) (dec_covers (ir_dec ir) (fst y))))
                              (number 0 (p_fields (snd x))))
              | None => [(fst x, 999%nat)]
              end) (all_packets M).
