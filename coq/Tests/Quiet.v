(* "The store table does not matter for this test": an executable shadow of [enc_mut]
   (Tests/SelfTest.v) that follows the emitted encoder (the IR) through the sample and checks
   that no packet it visits has a store-back.  Go, Java and Python encoders assign computed
   members ("p.BodyLen = ...", "this.checksum = ..."), but only in the packets that HAVE such
   members: the test of any other packet never executes a store.  Model only: no proofs here
   (Proofs/SelfTestQuiet.v: under [quiet] the object-returning encoder is [sem_enc] and leaves
   the sample unchanged, so that the theorem of Proofs/SelfTestPass.v applies). *)
From FP Require Export SelfTest.
Open Scope list_scope.

Section Quiet.
  (* open recursion: the packet at a path is quiet on a message (one level less fuel) *)
  Variable recq : string -> value -> bool.

  Fixpoint quiet_elem (s : estep) (v : value) : bool :=
    match s, v with
    | EObj ty, _ => recq ty v
    | EDyn, VDyn q pv => recq q pv
    | EList _ _ _ elem, VList l => forallb (quiet_elem elem) l
    | _, _ => true
    end.

  Definition quiet_step (s : estep) (v : value) : bool :=
    match s with
    | ESpan inner _ => quiet_elem inner v
    | EMarkZero _ _ _ | EPatch _ _ _ _ _ _ | ECheck _ _ _ | ENone _ => true
    | _ => quiet_elem s v
    end.

  Definition quiet_steps (steps : list (nat * estep)) (vs : list value) : bool :=
    forallb (fun x => match nth_error vs (fst x) with Some v => quiet_step (snd x) v | None => true end) steps.
End Quiet.

Definition no_stores (S : list (string * list store)) (name : string) : bool :=
  match stores_of S name with [] => true | _ => false end.

Fixpoint quiet (P : prog) (S : list (string * list store)) (fuel : nat) : string -> value -> bool :=
  match fuel with
  | O => fun _ _ => true
  | S k => fun name v =>
      match find_ir P name with
      | Some ir =>
          andb (no_stores S name)
               (match v with VObj vs => quiet_steps (quiet P S k) (ir_enc ir) vs | _ => true end)
      | None => true
      end
  end.
