(* The reference compilation implements the wire specification (decoders): fed the
   canonical encoding of a message followed by arbitrary bytes, the reference decoder
   returns the message (up to computed members), consumes exactly the message, and the
   specification lays the returned message out to the same bytes. *)
From FP Require Import Ref Typed BytesLemmas Paths RefEnc EqvSoundDec Validate DecRepeat.
From Coq Require Import Lia.
Open Scope list_scope.

(* ---------------------------------------------------------------- small list facts *)
Lemma take_app (a b : list byte) : take (length a) (a ++ b) = Some (a, b).
Proof.
  unfold take. rewrite app_length.
  destruct (Nat.ltb_spec (length a + length b) (length a)) as [H|H]; [lia|].
  rewrite firstn_len_app, skipn_len_app. reflexivity.
Qed.

Lemma trim_stable_spec c lft s :
  trim_stable c lft s = true ->
  (if lft : bool then match s with [] => True | b :: _ => b <> c end
   else match rev s with [] => True | b :: _ => b <> c end).
Proof.
  unfold trim_stable. destruct lft.
  - destruct s as [|b r]; [trivial|]. intros H. apply negb_true_iff in H. apply N.eqb_neq in H. exact H.
  - destruct (rev s) as [|b r]; [trivial|]. intros H. apply negb_true_iff in H. apply N.eqb_neq in H. exact H.
Qed.

Lemma set_nth_app_hd {A} (l : list A) (x y : A) (r : list A) :
  set_nth (l ++ x :: r) (length l) y = l ++ y :: r.
Proof. induction l as [|a l IH]; cbn [app length set_nth]; [reflexivity|f_equal; exact IH]. Qed.

Lemma set_nth_length {A} (l : list A) i x : length (set_nth l i x) = length l.
Proof. revert i. induction l as [|a l IH]; intros [|i]; cbn [set_nth length]; try reflexivity; f_equal; apply IH. Qed.

Lemma set_nth_map_some (l : list value) i v :
  set_nth (map Some l) i (Some v) = map Some (set_nth l i v).
Proof. revert i. induction l as [|a l IH]; intros [|i]; cbn [map set_nth]; try reflexivity; f_equal; apply IH. Qed.

Lemma set_nth_app_l {A} (l r : list A) i x : (i < length l)%nat -> set_nth (l ++ r) i x = set_nth l i x ++ r.
Proof.
  revert i. induction l as [|a l IH]; intros i H; cbn [length] in H; [lia|].
  destruct i as [|i]; cbn [app set_nth]; [reflexivity|]. f_equal. apply IH. lia.
Qed.

Lemma nth_error_set_nth_other {A} (l : list A) i j x : i <> j -> nth_error (set_nth l i x) j = nth_error l j.
Proof.
  revert i j. induction l as [|a l IH]; intros [|i] [|j] H; cbn [set_nth nth_error]; try reflexivity; try congruence.
  apply IH. congruence.
Qed.

Lemma all_some_map (l : list value) : all_some (map Some l) = Some l.
Proof. induction l as [|a l IH]; cbn [map all_some]; [reflexivity|rewrite IH; reflexivity]. Qed.

Lemma index_of_name_where n fs i : index_of_name n fs i = index_where (String.eqb n) fs i.
Proof. revert i. induction fs as [|f fs IH]; intros i; cbn [index_of_name index_where]; [reflexivity|]. destruct (String.eqb n (f_name f)); [reflexivity|apply IH]. Qed.

Lemma Forall2_len {A B} (R : A -> B -> Prop) l l' : Forall2 R l l' -> length l = length l'.
Proof. intros H. induction H; cbn [length]; [reflexivity|f_equal; assumption]. Qed.

Lemma nth_error_Some_lt {A} (l : list A) i x : nth_error l i = Some x -> (i < length l)%nat.
Proof. intros H. apply nth_error_Some. rewrite H. discriminate. Qed.

Lemma combine_app {A B} (a a' : list A) (b b' : list B) :
  length a = length b -> combine (a ++ a') (b ++ b') = combine a b ++ combine a' b'.
Proof.
  revert b. induction a as [|x a IH]; intros [|y b] H; cbn [length] in H; try discriminate; [reflexivity|].
  cbn [app combine]. f_equal. apply IH. lia.
Qed.

(* patching the placeholder inside a buffer *)
Lemma patch_at_mid (a z b new : list byte) :
  length new = length z -> patch_at (a ++ z ++ b) (length a) new = a ++ new ++ b.
Proof.
  intros H. unfold patch_at. rewrite firstn_len_app.
  f_equal. f_equal. rewrite H.
  replace (length a + length z)%nat with (length (a ++ z)) by (rewrite app_length; reflexivity).
  rewrite app_assoc. apply skipn_len_app.
Qed.

(* ---------------------------------------------------------------- same-message relation and layout *)
Section UeqLay.
  Variable cs : string -> option (list byte -> N).
  Variable M : bmodel.

  Section Body.
    Variable recL : packet -> value -> list byte -> option (list byte).
    Variable recU : packet -> value -> value -> Prop.
    Hypothesis Hrec : forall q v v' buf, recU q v v' -> recL q v buf = recL q v' buf.

    Lemma ueq_elem_lay a v v' buf : ueq_elem M recU a v v' -> lay_elem M recL a v buf = lay_elem M recL a v' buf.
    Proof.
      unfold ueq_elem. destruct a as [t|len fp| |tg lt|alg t|iner pn rf inl|k ka pairs|]; try (intros ->; reflexivity).
      - destruct iner.
        + destruct inl as [q|]; [|intros ->; reflexivity]. intros H. cbn [lay_elem].
          destruct v, v'; apply Hrec; exact H.
        + destruct rf as [n|]; [|intros ->; reflexivity].
          destruct (lookup_packet M n) as [q|] eqn:E; [|intros ->; reflexivity].
          intros H. cbn [lay_elem]. unfold lay_ref. rewrite E.
          destruct v, v', inl; apply Hrec; exact H.
      - destruct v as [| | | |n pv]; destruct v' as [| | | |n' pv'];
          try (intros H; inversion H; subst; reflexivity); try (intros H; discriminate H).
        intros [Hn H]. subst n'. cbn [lay_elem]. unfold lay_ref.
        destruct (lookup_packet M n) as [q|]; [apply Hrec; exact H|reflexivity].
    Qed.

    Lemma ueq_list_lay a l l' buf :
      Forall2 (ueq_elem M recU a) l l' -> lay_list (lay_elem M recL a) l buf = lay_list (lay_elem M recL a) l' buf.
    Proof.
      intros H. revert buf. induction H as [|v v' l l' Hv Hl IH]; intros buf; cbn [lay_list]; [reflexivity|].
      rewrite (ueq_elem_lay a v v' buf Hv). destruct (lay_elem M recL a v' buf); [apply IH|reflexivity].
    Qed.

    Lemma ueq_field_lay p f v v' st :
      ueq_field cs M recU f v v' -> lay_field cs M recL p f v st = lay_field cs M recL p f v' st.
    Proof.
      unfold ueq_field, lay_field. destruct st as [buf lp]. destruct (f_rep f).
      - destruct v as [| |l| |]; destruct v' as [| |l'| |];
          try (intros H; inversion H; subst; reflexivity); try (intros H; discriminate H).
        intros H. destruct (repeatable (f_attr f)); [|reflexivity].
        destruct (list_w M) as [w|]; [|reflexivity].
        rewrite (Forall2_len _ _ _ H).
        destruct (fits w (N.of_nat (length l'))); [|reflexivity].
        rewrite (ueq_list_lay _ _ _ _ H). reflexivity.
      - destruct (f_attr f) as [t|len fp| |tg lt|alg t|iner pn rf inl|k ka pairs|] eqn:Ea;
          try (intros H; rewrite (ueq_elem_lay _ v v' buf H); reflexivity).
        + (* ALen: the caller's value is not read *)
          intros [a [b [-> ->]]]. reflexivity.
        + intros [H [a [b [-> ->]]]]. destruct (cs (unquote alg)) as [h|] eqn:Ec.
          * destruct (ty_width (get_basic_type t)); reflexivity.
          * specialize (H eq_refl). inversion H. reflexivity.
    Qed.
    Lemma ueq_fields_lay p fs : forall vs vs' st,
      Forall2 (fun fv v' => ueq_field cs M recU (fst fv) (snd fv) v') (combine fs vs) vs' ->
      length vs = length fs ->
      lay_fields cs M recL p fs vs st = lay_fields cs M recL p fs vs' st.
    Proof.
      induction fs as [|f fs IH]; intros vs vs' st H Hl; destruct vs as [|v vs]; cbn [length] in Hl; try discriminate.
      - cbn [combine] in H. inversion H. reflexivity.
      - cbn [combine] in H. inversion H as [|x y l l' Hxy Hrest]; subst. cbn [fst snd] in Hxy. cbn [lay_fields].
        rewrite (ueq_field_lay p f v y st Hxy).
        destruct (lay_field cs M recL p f y st); [|reflexivity]. apply IH; [assumption|]. injection Hl. auto.
    Qed.

    Lemma ueq_body_lay p v v' buf :
      ueq_body cs M recU p v v' -> lay_packet_body cs M recL p v buf = lay_packet_body cs M recL p v' buf.
    Proof.
      unfold ueq_body, lay_packet_body. destruct v as [| | |vs|]; try contradiction.
      destruct v' as [| | |vs'|]; try contradiction. intros [H Hl]. apply ueq_fields_lay; assumption.
    Qed.
  End Body.

  (* the specification only depends on the members the caller chooses *)
  Theorem ueq_lay : forall fuel p v v' buf,
    ueq cs M fuel p v v' -> lay_packet cs M fuel p v buf = lay_packet cs M fuel p v' buf.
  Proof.
    induction fuel as [|fuel IH]; intros p v v' buf H; cbn [ueq] in H; [contradiction|].
    cbn [lay_packet]. apply (ueq_body_lay (lay_packet cs M fuel) (ueq cs M fuel)); [|exact H].
    intros q w w' b Hq. apply IH. exact Hq.
  Qed.
End UeqLay.

(* ---------------------------------------------------------------- decoding *)

(* every length-of field of a packet has the width of the packet's length field (what the
   visitor builds: the length field IS the field carrying the length-of attribute) *)
Definition lenw_ok_packet (p : packet) : bool :=
  forallb (fun f => match f_attr f with
                    | ALen _ t => if f_rep f then true
                                  else match ty_width (get_basic_type t), len_width p with
                                       | Some a, Some b => Nat.eqb a b
                                       | None, _ => true
                                       | _, None => false
                                       end
                    | _ => true
                    end) (p_fields p).

Definition lenw_ok (M : bmodel) : bool := forallb (fun x => lenw_ok_packet (snd x)) (all_packets M).

Section RefDec.
  Variable cs : string -> option (list byte -> N).
  Variable M : bmodel.
  Variable mk : string -> packet -> nat.
  Hypothesis Hnodup : NoDup (map fst (all_packets M)).
  Hypothesis Hlenw : lenw_ok M = true.

  Let P := ref_prog M mk.

  Section Step.
    Variable recL : packet -> value -> list byte -> option (list byte).
    Variable recD : string -> list byte -> dres (value * list byte).
    Variable recT : packet -> value -> bool.
    Variable recU : packet -> value -> value -> Prop.
    Hypothesis Hrec : forall path q v pre out,
        In (path, q) (all_packets M) -> recT q v = true -> recL q v pre = Some out ->
        exists msg v', out = pre ++ msg /\ (forall rest, recD path (msg ++ rest) = DOk (v', rest)) /\ recU q v v'.

    Variable path : string.
    Variable p : packet.
    Hypothesis Hp : In (path, p) (all_packets M).

    Definition not_match (a : attr) : Prop := match a with AMatch _ _ _ => False | _ => True end.

    Lemma elem_dec f v buf out :
      In f (p_fields p) -> not_match (f_attr f) ->
      lay_elem M recL (f_attr f) v buf = Some out -> typed_elem M recT (f_attr f) v = true ->
      exists seg v', out = buf ++ seg /\
        (forall ms rest, dec_elem recD (ref_delem M path p f) ms (seg ++ rest) = DOk (v', rest)) /\
        ueq_elem M recU (f_attr f) v v'.
    Proof.
      intros Hf Hnm. destruct f as [fname a la rp]. cbn [f_attr] in *. unfold ref_delem. cbn [f_attr].
      destruct a as [t|len fp| |tg lt|alg t|iner pn rf inl|k ka pairs|]; cbn [lay_elem typed_elem ueq_elem]; try contradiction.
      - (* ABasic *) destruct v as [n| | | |]; try discriminate.
        destruct (scalar_width (get_basic_type t)) as [w|]; [|discriminate].
        destruct (fits w n) eqn:Ef; [|discriminate]. intros H _. inversion H; subst out. clear H.
        exists (enc_int w (cfg_le M) n), (VInt n). split; [reflexivity|]. split; [|reflexivity].
        intros ms rest. cbn [dec_elem opt_w]. unfold le_of, cfg_le. rewrite dec_int_enc_int.
        unfold fits in Ef. apply N.ltb_lt in Ef. rewrite N.mod_small by exact Ef. reflexivity.
      - (* AFixed *) destruct v as [|s| | |]; try discriminate.
        destruct (eff_pad M fp) as [[c l]|] eqn:E; [|discriminate].
        destruct (Nat.leb_spec (length s) len) as [Hl|Hl]; [|discriminate].
        intros H Ht. inversion H; subst out. clear H.
        exists (pad_to len c l s), (VStr s). split; [reflexivity|]. split; [|reflexivity].
        intros ms rest. cbn [dec_elem]. rewrite (ref_pad_of M fp c l E).
        pose proof (pad_to_length len c l s Hl) as Hpl.
        rewrite <- Hpl at 1. rewrite take_app.
        rewrite trim_pad_pad_to; [reflexivity|exact Hl|apply trim_stable_spec; exact Ht].
      - (* ADyn *) destruct v as [|s| | |]; try discriminate.
        unfold str_w, cfg_str_w. destruct (ty_width (c_str (m_cfg M))) as [w|]; [|discriminate].
        destruct (fits w (N.of_nat (length s))) eqn:Ef; [|discriminate].
        intros H _. inversion H; subst out. clear H.
        exists (enc_int w (cfg_le M) (N.of_nat (length s)) ++ s), (VStr s). split; [reflexivity|]. split; [|reflexivity].
        intros ms rest. cbn [dec_elem opt_w]. unfold le_of, cfg_le. rewrite <- !app_assoc, dec_int_enc_int.
        unfold fits in Ef. apply N.ltb_lt in Ef. rewrite N.mod_small by exact Ef.
        unfold guard_skips. cbn [andb]. rewrite take_n_eq, Nat2N.id, take_app. reflexivity.
      - destruct v; discriminate.
      - destruct v; discriminate.
      - (* AObj *)
        destruct iner.
        + destruct inl as [q|]; [|destruct v, rf; discriminate].
          intros H Ht. unfold ref_obj_path, obj_path. cbn [f_attr f_name].
          assert (H' : recL q v buf = Some out) by (destruct v; exact H).
          assert (Ht' : recT q v = true) by (destruct v; exact Ht).
          destruct (Hrec (path_join path fname) q v buf out) as [msg [v' [Ho [Hd Hu]]]]; [|exact Ht'|exact H'|].
          { apply (all_closed M path p); [exact Hp|]. eapply inline_child_of_field. exact Hf. }
          exists msg, v'. split; [exact Ho|]. split; [|exact Hu].
          intros ms rest. cbn [dec_elem]. apply Hd.
        + destruct rf as [name|]; [|destruct v, inl; discriminate].
          unfold lay_ref. destruct (lookup_packet M name) as [q|] eqn:E; [|destruct v, inl; discriminate].
          intros H Ht. unfold ref_obj_path, obj_path. cbn [f_attr].
          assert (H' : recL q v buf = Some out) by (destruct v, inl; exact H).
          assert (Ht' : recT q v = true) by (destruct v, inl; exact Ht).
          destruct (Hrec name q v buf out) as [msg [v' [Ho [Hd Hu]]]]; [apply lookup_in_all; exact E|exact Ht'|exact H'|].
          exists msg, v'. split; [exact Ho|]. split; [|exact Hu].
          intros ms rest. cbn [dec_elem]. apply Hd.
      - destruct v; discriminate.
    Qed.

    Lemma list_dec f l : forall buf out,
      In f (p_fields p) -> not_match (f_attr f) ->
      lay_list (lay_elem M recL (f_attr f)) l buf = Some out ->
      forallb (typed_elem M recT (f_attr f)) l = true ->
      exists seg l', out = buf ++ seg /\
        (forall ms rest acc, dec_repeat (dec_elem recD (ref_delem M path p f) ms) (length l) (seg ++ rest) acc
                             = DOk (rev acc ++ l', rest)) /\
        Forall2 (ueq_elem M recU (f_attr f)) l l'.
    Proof.
      induction l as [|v l IH]; intros buf out Hf Hnm; cbn [lay_list forallb length].
      - intros H _. inversion H; subst. exists [], []. split; [rewrite app_nil_r; reflexivity|]. split; [|constructor].
        intros ms rest acc. cbn [dec_repeat app]. rewrite app_nil_r. reflexivity.
      - destruct (lay_elem M recL (f_attr f) v buf) as [b1|] eqn:E; [|discriminate].
        intros H Ht. apply andb_prop in Ht. destruct Ht as [Htv Htl].
        destruct (elem_dec f v buf b1 Hf Hnm E Htv) as [seg1 [v' [Hb1 [Hd1 Hu1]]]].
        destruct (IH b1 out Hf Hnm H Htl) as [seg2 [l' [Ho [Hd2 Hu2]]]].
        exists (seg1 ++ seg2), (v' :: l'). split; [subst; rewrite app_assoc; reflexivity|]. split; [|constructor; assumption].
        intros ms rest acc. cbn [dec_repeat]. rewrite <- app_assoc, Hd1, Hd2. cbn [rev]. rewrite <- app_assoc. reflexivity.
    Qed.

    (* ---- all the fields of one packet ---- *)
    Variable pre : list byte.
    Variable vs : list value.
    Let n := length (p_fields p).
    Let ms0 : list (option value) := repeat None n.

    Definition members (k : nat) (vsd : list value) : list (option value) := map Some vsd ++ repeat None (n - k).

    (* continuation-style decoding claim for the steps of the fields processed so far *)
    Definition claim (stepsP : list (nat * dstep)) (B : list byte) (ms : list (option value)) : Prop :=
      forall rest R, dec_steps recD (stepsP ++ R) ms0 (B ++ rest) = dec_steps recD R ms rest.

    Definition ueq_done (k : nat) (vsd : list value) : Prop :=
      length vsd = k /\
      Forall2 (fun fv v' => ueq_field cs M recU (fst fv) (snd fv) v') (combine (firstn k (p_fields p)) (firstn k vs)) vsd.

    Definition is_len_field (li : nat) : Prop :=
      exists lf tg t, nth_error (p_fields p) li = Some lf /\ f_attr lf = ALen tg t /\ f_rep lf = false.

    Definition Inv (k : nat) (stepsP : list (nat * dstep)) (buf : list byte) (lp : option nat) (vsd : list value) : Prop :=
      ueq_done k vsd /\
      match lp with
      | None => exists B, buf = pre ++ B /\ claim stepsP B (members k vsd)
      | Some pos =>
          exists B1 B2 w m0 li,
            buf = pre ++ B1 ++ enc_int w (cfg_le M) m0 ++ B2 /\ pos = length (pre ++ B1) /\
            len_width p = Some w /\ (m0 < pow256 w)%N /\ (li < k)%nat /\
            forall m, (m < pow256 w)%N ->
              ueq_done k (set_nth vsd li (VInt m)) /\
              claim stepsP (B1 ++ enc_int w (cfg_le M) m ++ B2) (members k (set_nth vsd li (VInt m)))
      end.

    Lemma dec_steps_cons i s r ms rd :
      (forall why, s <> DNone why) ->
      dec_steps recD ((i, s) :: r) ms rd =
      match dec_elem recD s ms rd with
      | DOk (v, rd') => dec_steps recD r (set_nth ms i (Some v)) rd'
      | DErr => DErr
      | DCrash => DCrash
      end.
    Proof. intros H. destruct s; try reflexivity. exfalso. eapply H. reflexivity. Qed.

    Lemma members_snoc k vsd v :
      length vsd = k -> (k < n)%nat -> set_nth (members k vsd) k (Some v) = members (S k) (vsd ++ [v]).
    Proof.
      intros Hl Hk. unfold members. replace (n - k)%nat with (S (n - S k)) by lia. cbn [repeat].
      rewrite <- (map_length Some vsd) in Hl. rewrite <- Hl at 2. rewrite set_nth_app_hd.
      rewrite map_app. cbn [map]. rewrite <- app_assoc. reflexivity.
    Qed.

    (* extending a claim by one decoded segment *)
    Lemma claim_snoc stepsP B ms k s seg v' :
      (forall why, s <> DNone why) ->
      claim stepsP B ms ->
      (forall rest, dec_elem recD s ms (seg ++ rest) = DOk (v', rest)) ->
      claim (stepsP ++ [(k, s)]) (B ++ seg) (set_nth ms k (Some v')).
    Proof.
      intros Hs Hc Hd rest R. rewrite <- !app_assoc. cbn [app]. rewrite Hc.
      rewrite dec_steps_cons by exact Hs. rewrite Hd. reflexivity.
    Qed.

    Lemma set_nth_snoc {A} (l : list A) (x y : A) i : (i < length l)%nat -> set_nth (l ++ [x]) i y = set_nth l i y ++ [x].
    Proof. intros H. apply set_nth_app_l. exact H. Qed.

    Lemma firstn_snoc {A} (l : list A) k x : nth_error l k = Some x -> firstn (S k) l = firstn k l ++ [x].
    Proof.
      revert k. induction l as [|a l IH]; intros [|k] H; cbn [nth_error] in H; try discriminate.
      - inversion H. reflexivity.
      - change (firstn (S (S k)) (a :: l)) with (a :: firstn (S k) l).
        change (firstn (S k) (a :: l)) with (a :: firstn k l). cbn [app]. f_equal. apply IH. exact H.
    Qed.

    Lemma ueq_done_snoc k vsd f v v' :
      ueq_done k vsd -> nth_error (p_fields p) k = Some f -> nth_error vs k = Some v ->
      ueq_field cs M recU f v v' -> ueq_done (S k) (vsd ++ [v']).
    Proof.
      intros [Hl Hu] Hf Hv Hfv. split; [rewrite app_length; cbn [length]; lia|].
      rewrite (firstn_snoc _ _ _ Hf), (firstn_snoc _ _ _ Hv).
      assert (Hlf : length (firstn k (p_fields p)) = length (firstn k vs)).
      { rewrite !firstn_length. apply nth_error_Some_lt in Hf. apply nth_error_Some_lt in Hv. lia. }
      rewrite combine_app by exact Hlf. cbn [combine]. apply Forall2_app; [exact Hu|]. constructor; [exact Hfv|constructor].
    Qed.

    Lemma nth_error_firstn {A} (l : list A) k i : (i < k)%nat -> nth_error (firstn k l) i = nth_error l i.
    Proof.
      revert k i. induction l as [|a l IH]; intros k i H.
      - destruct k, i; reflexivity.
      - destruct k as [|k]; [lia|]. destruct i as [|i]; [reflexivity|].
        cbn [firstn nth_error]. apply IH. lia.
    Qed.

    Lemma forall2_combine_nth {A B C} (R : A * B -> C -> Prop) (la : list A) (lb : list B) (lc : list C) i a b :
      Forall2 R (combine la lb) lc -> nth_error la i = Some a -> nth_error lb i = Some b ->
      exists c, nth_error lc i = Some c /\ R (a, b) c.
    Proof.
      revert lb lc i. induction la as [|x la IH]; intros [|y lb] lc i H Ha Hb; destruct i; cbn [nth_error] in *; try discriminate.
      - cbn [combine] in H. inversion H; subst. inversion Ha; inversion Hb; subst. eexists. split; [reflexivity|assumption].
      - cbn [combine] in H. inversion H; subst. cbn [nth_error]. eapply IH; eassumption.
    Qed.

    Lemma nth_error_members k vsd i : (i < length vsd)%nat -> nth_error (members k vsd) i = option_map Some (nth_error vsd i).
    Proof.
      intros H. unfold members. rewrite nth_error_app1 by (rewrite map_length; exact H). apply nth_error_map.
    Qed.

    Lemma key_known k vsd ki kf kv :
      ueq_done k vsd -> (ki < k)%nat -> nth_error (p_fields p) ki = Some kf -> key_field_ok kf = true ->
      nth_error vs ki = Some kv -> nth_error (members k vsd) ki = Some (Some kv).
    Proof.
      intros [Hl Hu] Hk Hf Hok Hv.
      destruct (forall2_combine_nth _ _ _ _ ki kf kv Hu) as [c [Hc Hr]];
        [rewrite nth_error_firstn by exact Hk; exact Hf|rewrite nth_error_firstn by exact Hk; exact Hv|].
      rewrite nth_error_members by lia. rewrite Hc. cbn [option_map]. f_equal. f_equal.
      cbn [fst snd] in Hr. unfold ueq_field in Hr. unfold key_field_ok in Hok.
      apply andb_prop in Hok. destruct Hok as [Hrep Hattr]. apply negb_true_iff in Hrep. rewrite Hrep in Hr.
      destruct (f_attr kf); try discriminate; destruct (f_len kf); try discriminate; cbn [ueq_elem] in Hr; symmetry; exact Hr.
    Qed.

    (* the bytes a field appends (everything except the placeholder of a length field and the
       back-patch after a length-of target) *)
    Definition lay_app (f : field) (v : value) (buf : list byte) : option (list byte) :=
      if f_rep f then
        match v with
        | VList l =>
            if repeatable (f_attr f) then
              match list_w M with
              | Some w => if fits w (N.of_nat (length l))
                          then lay_list (lay_elem M recL (f_attr f)) l (buf ++ enc_int w (cfg_le M) (N.of_nat (length l)))
                          else None
              | None => None
              end
            else None
        | _ => None
        end
      else
        match f_attr f with
        | ALen _ _ => None
        | ACheck alg t =>
            match v, ty_width (get_basic_type t) with
            | VInt x0, Some w =>
                let x := match cs (unquote alg) with Some h => h buf | None => x0 end in
                if fits w x then Some (buf ++ enc_int w (cfg_le M) x) else None
            | _, _ => None
            end
        | a => lay_elem M recL a v buf
        end.

    Definition dstep_of (k : nat) (f : field) : dstep :=
      if f_rep f then DList (cfg_list_w M) (le_of M) false (ref_delem M path p f) else ref_delem M path p f.

    Lemma ref_dec_field_single k f : ref_dec_field M path p k f = [(k, dstep_of k f)].
    Proof. unfold ref_dec_field, dstep_of. destruct (f_rep f); reflexivity. Qed.

    Lemma field_app k f v buf b :
      nth_error (p_fields p) k = Some f -> nth_error vs k = Some v ->
      typed_field M recT p vs k f v = true ->
      lay_app f v buf = Some b ->
      exists seg v',
        b = buf ++ seg /\
        (forall why, dstep_of k f <> DNone why) /\
        (forall vsd, ueq_done k vsd -> forall rest, dec_elem recD (dstep_of k f) (members k vsd) (seg ++ rest) = DOk (v', rest)) /\
        ueq_field cs M recU f v v'.
    Proof.
      intros Hf Hv Ht. pose proof (nth_error_In _ _ Hf) as Hin.
      unfold lay_app, dstep_of, typed_field, ueq_field in *.
      destruct (f_rep f) eqn:Hrep.
      - (* repeated *)
        destruct v as [| |l| |]; try discriminate.
        destruct (repeatable (f_attr f)) eqn:Hra; [|discriminate].
        assert (Hnm : not_match (f_attr f)) by (destruct (f_attr f); try discriminate; exact I).
        unfold list_w, cfg_list_w. destruct (ty_width (c_list (m_cfg M))) as [w|]; [|discriminate].
        destruct (fits w (N.of_nat (length l))) eqn:Efit; [|discriminate].
        intros H. destruct (list_dec f l _ b Hin Hnm H Ht) as [seg [l' [Hb [Hd Hu]]]].
        exists (enc_int w (cfg_le M) (N.of_nat (length l)) ++ seg), (VList l').
        split; [rewrite Hb, <- app_assoc; reflexivity|]. split; [discriminate|]. split; [|exact Hu].
        intros vsd _ rest. cbn [dec_elem opt_w]. unfold le_of, cfg_le. rewrite <- app_assoc, dec_int_enc_int.
        unfold fits in Efit. apply N.ltb_lt in Efit. rewrite N.mod_small by exact Efit.
        unfold guard_skips. cbn [andb]. rewrite dec_repeat_n_eq, Nat2N.id, Hd. reflexivity.
      - destruct (f_attr f) as [t|len fp| |tg lt|alg t|iner pn rf inl|k0 ka pairs|] eqn:Ea; try discriminate.
        + (* ABasic *) intros H. assert (Hnm : not_match (f_attr f)) by (rewrite Ea; exact I).
          rewrite <- Ea in H, Ht. destruct (elem_dec f v buf b Hin Hnm H Ht) as [seg [v' [Hb [Hd Hu]]]].
          exists seg, v'. rewrite Ea in Hu. split; [exact Hb|]. split; [unfold ref_delem; rewrite Ea; discriminate|].
          split; [intros vsd _ rest; apply Hd|exact Hu].
        + intros H. assert (Hnm : not_match (f_attr f)) by (rewrite Ea; exact I).
          rewrite <- Ea in H, Ht. destruct (elem_dec f v buf b Hin Hnm H Ht) as [seg [v' [Hb [Hd Hu]]]].
          exists seg, v'. rewrite Ea in Hu. split; [exact Hb|]. split; [unfold ref_delem; rewrite Ea; discriminate|].
          split; [intros vsd _ rest; apply Hd|exact Hu].
        + intros H. assert (Hnm : not_match (f_attr f)) by (rewrite Ea; exact I).
          rewrite <- Ea in H, Ht. destruct (elem_dec f v buf b Hin Hnm H Ht) as [seg [v' [Hb [Hd Hu]]]].
          exists seg, v'. rewrite Ea in Hu. split; [exact Hb|]. split; [unfold ref_delem; rewrite Ea; discriminate|].
          split; [intros vsd _ rest; apply Hd|exact Hu].
        + (* ACheck *)
          destruct v as [x0| | | |]; try discriminate.
          destruct (ty_width (get_basic_type t)) as [w|] eqn:Ew; [|discriminate].
          destruct (fits w _) eqn:Efit; [|discriminate]. intros H. inversion H; subst b. clear H.
          eexists _, (VInt _). split; [reflexivity|]. split; [unfold ref_delem; rewrite Ea; discriminate|]. split.
          * intros vsd _ rest. unfold ref_delem. rewrite Ea. cbn [dec_elem]. rewrite Ew. cbn [opt_w]. unfold le_of, cfg_le.
            rewrite dec_int_enc_int. unfold fits in Efit. apply N.ltb_lt in Efit. rewrite N.mod_small by exact Efit. reflexivity.
          * split; [|eexists _, _; split; reflexivity].
            intros Hnone. rewrite Hnone. reflexivity.
        + (* AObj *) intros H. assert (Hnm : not_match (f_attr f)) by (rewrite Ea; exact I).
          rewrite <- Ea in H, Ht. destruct (elem_dec f v buf b Hin Hnm H Ht) as [seg [v' [Hb [Hd Hu]]]].
          exists seg, v'. rewrite Ea in Hu. split; [exact Hb|]. split; [unfold ref_delem; rewrite Ea; discriminate|].
          split; [intros vsd _ rest; apply Hd|exact Hu].
        + (* AMatch *)
          destruct k0 as [kname|]; [|destruct v; discriminate].
          destruct v as [| | | |name pv]; try discriminate.
          rewrite index_of_name_where in Ht.
          destruct (index_where (String.eqb kname) (p_fields p) 0) as [ki|] eqn:Eki; [|discriminate].
          apply andb_prop in Ht. destruct Ht as [Hki Ht]. apply Nat.ltb_lt in Hki.
          destruct (nth_error (p_fields p) ki) as [kf|] eqn:Ekf; [|discriminate].
          destruct (nth_error vs ki) as [kv|] eqn:Ekv; [|discriminate].
          apply andb_prop in Ht. destruct Ht as [Hkok Ht]. apply andb_prop in Ht. destruct Ht as [Hkt Ht].
          destruct (table_first (pairs_table pairs) kv) as [nm|] eqn:Etab; [|discriminate].
          destruct (lookup_packet M name) as [q|] eqn:Eq; [|discriminate].
          apply andb_prop in Ht. destruct Ht as [Hnm Htq]. apply String.eqb_eq in Hnm. subst nm.
          cbn [lay_elem]. unfold lay_ref. rewrite Eq. intros H.
          destruct (Hrec name q pv buf b) as [msg [pv' [Hb [Hd Hu]]]]; [apply lookup_in_all; exact Eq|exact Htq|exact H|].
          exists msg, (VDyn name pv'). split; [exact Hb|].
          split; [unfold ref_delem; rewrite Ea, Eki; discriminate|]. split.
          * intros vsd Hdone rest. unfold ref_delem. rewrite Ea, Eki. cbn [dec_elem].
            rewrite (key_known k vsd ki kf kv Hdone Hki Ekf Hkok Ekv).
            unfold table_lookup. fold (pairs_table pairs). rewrite Etab, Hd. reflexivity.
          * cbn [ueq_elem]. split; [reflexivity|]. rewrite Eq. exact Hu.
    Qed.

    (* lay_field in terms of lay_app *)
    Lemma lay_field_not_len f v buf lp :
      (forall tg t, f_attr f <> ALen tg t) \/ f_rep f = true ->
      lay_field cs M recL p f v (buf, lp) =
      match lay_app f v buf with
      | None => None
      | Some b =>
          if andb (negb (f_rep f)) (match f_attr f, f_len f with
                                     | ACheck _ _, _ => false
                                     | _, LTarget => true
                                     | _, _ => false
                                     end)
          then match lp, len_width p with
               | Some pos, Some w =>
                   let k := N.of_nat (length b - length buf) in
                   if fits w k then Some (patch_at b pos (enc_int w (cfg_le M) k), lp) else None
               | _, _ => None
               end
          else Some (b, lp)
      end.
    Proof.
      intros Hnl. unfold lay_field, lay_app. destruct (f_rep f) eqn:Hrep.
      - cbn [negb andb]. destruct v; try reflexivity. destruct (repeatable (f_attr f)); [|reflexivity].
        destruct (list_w M); [|reflexivity]. destruct (fits _ _); [|reflexivity].
        destruct (lay_list _ _ _); reflexivity.
      - cbn [negb andb]. destruct Hnl as [Hnl|Hnl]; [|discriminate].
        destruct (f_attr f) as [t|len fp| |tg lt|alg t|iner pn rf inl|k0 ka pairs|] eqn:Ea.
        all: try (destruct (f_len f); destruct (lay_elem M recL _ v buf); try reflexivity;
                  destruct lp; try reflexivity; destruct (len_width p); reflexivity).
        + exfalso. eapply Hnl. reflexivity.
        + destruct v; try reflexivity. destruct (ty_width (get_basic_type t)); [|reflexivity].
          destruct (fits _ _); reflexivity.
    Qed.

    Lemma inv_append k sP buf lp vsd f seg v v' :
      Inv k sP buf lp vsd -> (k < n)%nat ->
      nth_error (p_fields p) k = Some f -> nth_error vs k = Some v ->
      (forall why, dstep_of k f <> DNone why) ->
      (forall vsd0, ueq_done k vsd0 -> forall rest, dec_elem recD (dstep_of k f) (members k vsd0) (seg ++ rest) = DOk (v', rest)) ->
      ueq_field cs M recU f v v' ->
      Inv (S k) (sP ++ ref_dec_field M path p k f) (buf ++ seg) lp (vsd ++ [v']).
    Proof.
      intros [Hdone Hinv] Hk Hf Hv Hs Hd Hu. rewrite ref_dec_field_single.
      split; [eapply ueq_done_snoc; eassumption|].
      destruct lp as [pos|].
      - destruct Hinv as [B1 [B2 [w [m0 [li [Hbuf [Hpos [Hw [Hm0 [Hli Hall]]]]]]]]]].
        exists B1, (B2 ++ seg), w, m0, li.
        split; [rewrite Hbuf, <- !app_assoc; reflexivity|]. split; [exact Hpos|]. split; [exact Hw|].
        split; [exact Hm0|]. split; [lia|].
        intros m Hm. destruct (Hall m Hm) as [Hdm Hcm].
        assert (Hlen : (li < length vsd)%nat) by (destruct Hdone as [Hl _]; lia).
        rewrite (set_nth_snoc vsd v' (VInt m) li Hlen).
        split; [eapply ueq_done_snoc; eassumption|].
        pose proof (claim_snoc sP _ _ k (dstep_of k f) seg v' Hs Hcm (Hd _ Hdm)) as Hc.
        rewrite members_snoc in Hc; [|destruct Hdm as [Hl _]; exact Hl|exact Hk].
        rewrite <- ?app_assoc in Hc. rewrite <- ?app_assoc. exact Hc.
      - destruct Hinv as [B [Hbuf Hc]]. exists (B ++ seg). split; [rewrite Hbuf, <- app_assoc; reflexivity|].
        pose proof (claim_snoc sP B _ k (dstep_of k f) seg v' Hs Hc (Hd _ Hdone)) as Hc'.
        rewrite members_snoc in Hc'; [exact Hc'|destruct Hdone as [Hl _]; exact Hl|exact Hk].
    Qed.

    (* closing a pending length placeholder: its current content is as good as any *)
    Lemma inv_close k sP buf pos vsd :
      Inv k sP buf (Some pos) vsd -> exists vsd', Inv k sP buf None vsd'.
    Proof.
      intros [Hdone [B1 [B2 [w [m0 [li [Hbuf [Hpos [Hw [Hm0 [Hli Hall]]]]]]]]]]].
      destruct (Hall m0 Hm0) as [Hdm Hcm]. exists (set_nth vsd li (VInt m0)). split; [exact Hdm|].
      exists (B1 ++ enc_int w (cfg_le M) m0 ++ B2). split; [exact Hbuf|exact Hcm].
    Qed.

    Lemma lenw_of_field f tg t w :
      In f (p_fields p) -> f_attr f = ALen tg t -> f_rep f = false -> ty_width (get_basic_type t) = Some w ->
      len_width p = Some w.
    Proof.
      intros Hin Ha Hr Hw. unfold lenw_ok in Hlenw. rewrite forallb_forall in Hlenw.
      specialize (Hlenw (path, p) Hp). cbn [snd] in Hlenw. unfold lenw_ok_packet in Hlenw.
      rewrite forallb_forall in Hlenw. specialize (Hlenw f Hin). rewrite Ha, Hr, Hw in Hlenw.
      destruct (len_width p) as [b|]; [|discriminate]. apply Nat.eqb_eq in Hlenw. subst. reflexivity.
    Qed.

    Lemma step_ok k sP buf lp vsd f v buf' lp' :
      Inv k sP buf lp vsd ->
      nth_error (p_fields p) k = Some f -> nth_error vs k = Some v ->
      typed_field M recT p vs k f v = true ->
      lay_field cs M recL p f v (buf, lp) = Some (buf', lp') ->
      exists vsd', Inv (S k) (sP ++ ref_dec_field M path p k f) buf' lp' vsd'.
    Proof.
      intros HI Hf Hv Ht Hlay.
      pose proof (nth_error_Some_lt _ _ _ Hf) as Hk. fold n in Hk.
      pose proof (nth_error_In _ _ Hf) as Hin.
      destruct (f_rep f) eqn:Hrep; [|destruct (f_attr f) as [t|len fp| |tg lt|alg t|iner pn rf inl|k0 ka pairs|] eqn:Ea].
      all: try (
        (* not a length field *)
        rewrite lay_field_not_len in Hlay by (first [right; exact Hrep | left; intros tg0 t0; rewrite Ea; discriminate]);
        destruct (lay_app f v buf) as [b|] eqn:Eapp; [|discriminate];
        destruct (field_app k f v buf b Hf Hv Ht Eapp) as [seg [v' [Hb [Hs [Hd Hu]]]]];
        exists (vsd ++ [v']); subst b;
        match type of Hlay with
        | (if ?c then _ else _) = _ => destruct c eqn:Ec
        end;
        [ (* length-of target: append, then re-choose the content of the placeholder *)
          destruct lp as [pos|]; [|discriminate]; destruct (len_width p) as [w|] eqn:Ew; [|discriminate]; cbv zeta in Hlay;
          match type of Hlay with (if fits w ?kk then _ else _) = _ => destruct (fits w kk) eqn:Efit; [|discriminate] end;
          inversion Hlay; subst buf' lp'; clear Hlay;
          pose proof (inv_append k sP buf (Some pos) vsd f seg v v' HI Hk Hf Hv Hs Hd Hu) as HI';
          destruct HI' as [Hdone' [B1 [B2 [w' [m0 [li [Hbuf [Hpos [Hw' [Hm0 [Hli Hall]]]]]]]]]]];
          rewrite Ew in Hw'; inversion Hw'; subst w';
          split; [exact Hdone'|];
          exists B1, B2, w, (N.of_nat (length (buf ++ seg) - length buf)), li;
          split; [rewrite Hbuf, Hpos, app_assoc; rewrite (patch_at_mid (pre ++ B1) (enc_int w (cfg_le M) m0) B2);
                  [rewrite <- app_assoc; reflexivity|rewrite !enc_int_length; reflexivity]|];
          split; [exact Hpos|]; split; [exact Ew|];
          split; [unfold fits in Efit; apply N.ltb_lt in Efit; exact Efit|];
          split; [exact Hli|exact Hall]
        | inversion Hlay; subst buf' lp'; clear Hlay;
          exact (inv_append k sP buf lp vsd f seg v v' HI Hk Hf Hv Hs Hd Hu) ]).
      (* the length field itself: a placeholder *)
      unfold lay_field in Hlay. rewrite Hrep, Ea in Hlay.
      destruct v as [a| | | |]; try discriminate.
      destruct (ty_width (get_basic_type lt)) as [w|] eqn:Ew; [|discriminate].
      inversion Hlay; subst buf' lp'. clear Hlay.
      pose proof (lenw_of_field f tg lt w Hin Ea Hrep Ew) as Hlw.
      assert (HIn : exists vsd0, Inv k sP buf None vsd0).
      { destruct lp as [pos|]; [eapply inv_close; exact HI|exists vsd; exact HI]. }
      destruct HIn as [vsd0 [Hdone0 [B [Hbuf Hc]]]].
      assert (Hds : dstep_of k f = DInt w (le_of M)).
      { unfold dstep_of, ref_delem. rewrite Hrep, Ea, Ew. reflexivity. }
      exists (vsd0 ++ [VInt 0]).
      assert (Hu0 : ueq_field cs M recU f (VInt a) (VInt 0)).
      { unfold ueq_field. rewrite Hrep, Ea. eexists _, _. split; reflexivity. }
      split; [eapply ueq_done_snoc; [exact Hdone0|exact Hf|exact Hv|exact Hu0]|].
      exists B, [], w, 0%N, k.
      split; [rewrite Hbuf, app_nil_r, <- app_assoc; reflexivity|].
      split; [rewrite Hbuf; reflexivity|]. split; [exact Hlw|]. split; [apply pow256_pos|]. split; [lia|].
      intros m Hm.
      assert (Hl0 : length vsd0 = k) by (destruct Hdone0 as [Hl _]; exact Hl).
      assert (Hset : set_nth (vsd0 ++ [VInt 0]) k (VInt m) = vsd0 ++ [VInt m]).
      { rewrite <- Hl0. apply set_nth_app_hd. }
      rewrite Hset. split.
      - eapply ueq_done_snoc; [exact Hdone0|exact Hf|exact Hv|].
        unfold ueq_field. rewrite Hrep, Ea. eexists _, _. split; reflexivity.
      - rewrite ref_dec_field_single, Hds, app_nil_r.
        assert (Hdm : forall rest, dec_elem recD (DInt w (le_of M)) (members k vsd0) (enc_int w (cfg_le M) m ++ rest) = DOk (VInt m, rest)).
        { intros rest. cbn [dec_elem]. unfold le_of, cfg_le. rewrite dec_int_enc_int, N.mod_small by exact Hm. reflexivity. }
        pose proof (claim_snoc sP B _ k (DInt w (le_of M)) (enc_int w (cfg_le M) m) (VInt m) ltac:(discriminate) Hc Hdm) as Hc'.
        rewrite members_snoc in Hc'; [exact Hc'|exact Hl0|exact Hk].
    Qed.

    Lemma fields_ok : forall fs k sP buf lp vsd rvs out,
      (forall j f, nth_error fs j = Some f -> nth_error (p_fields p) (k + j) = Some f) ->
      (forall j v, nth_error rvs j = Some v -> nth_error vs (k + j) = Some v) ->
      Inv k sP buf lp vsd ->
      typed_fields M recT p vs k fs rvs = true ->
      lay_fields cs M recL p fs rvs (buf, lp) = Some out ->
      exists lp' vsd', Inv (k + length fs) (sP ++ flat_map (fun '(i, f) => ref_dec_field M path p i f) (number k fs)) out lp' vsd'.
    Proof.
      induction fs as [|f fs IH]; intros k sP buf lp vsd rvs out Hfs Hvs HI Ht Hlay.
      - destruct rvs; [|discriminate]. cbn [lay_fields fst] in Hlay. inversion Hlay; subst out.
        cbn [number flat_map length]. rewrite app_nil_r, Nat.add_0_r. exists lp, vsd. exact HI.
      - destruct rvs as [|v rvs]; [discriminate|]. cbn [lay_fields] in Hlay. cbn [typed_fields] in Ht.
        apply andb_prop in Ht. destruct Ht as [Htf Htr].
        destruct (lay_field cs M recL p f v (buf, lp)) as [[buf' lp']|] eqn:Ef; [|discriminate].
        assert (Hf : nth_error (p_fields p) k = Some f) by (rewrite <- (Nat.add_0_r k); apply Hfs; reflexivity).
        assert (Hv : nth_error vs k = Some v) by (rewrite <- (Nat.add_0_r k); apply Hvs; reflexivity).
        destruct (step_ok k sP buf lp vsd f v buf' lp' HI Hf Hv Htf Ef) as [vsd1 HI1].
        destruct (IH (S k) (sP ++ ref_dec_field M path p k f) buf' lp' vsd1 rvs out) as [lp2 [vsd2 HI2]];
          [intros j g Hg; replace (S k + j)%nat with (k + S j)%nat by lia; apply Hfs; exact Hg
          |intros j w Hw; replace (S k + j)%nat with (k + S j)%nat by lia; apply Hvs; exact Hw
          |exact HI1|exact Htr|exact Hlay|].
        exists lp2, vsd2. cbn [number flat_map length]. rewrite <- app_assoc in HI2.
        replace (k + S (length fs))%nat with (S k + length fs)%nat by lia. exact HI2.
    Qed.
  End Step.

  (* one packet *)
  Section Packet.
    Variable recL : packet -> value -> list byte -> option (list byte).
    Variable recD : string -> list byte -> dres (value * list byte).
    Variable recT : packet -> value -> bool.
    Variable recU : packet -> value -> value -> Prop.
    Hypothesis Hrec : forall path q v pre out,
        In (path, q) (all_packets M) -> recT q v = true -> recL q v pre = Some out ->
        exists msg v', out = pre ++ msg /\ (forall rest, recD path (msg ++ rest) = DOk (v', rest)) /\ recU q v v'.

    Lemma packet_ok path p v pre out :
      In (path, p) (all_packets M) ->
      typed_body M recT p v = true ->
      lay_packet_body cs M recL p v pre = Some out ->
      exists msg v', out = pre ++ msg /\
        (forall rest, dec_packet_body recD (ref_ir M mk path p) (msg ++ rest) = DOk (v', rest)) /\
        ueq_body cs M recU p v v'.
    Proof.
      intros Hp Ht Hlay. unfold typed_body, lay_packet_body in *. destruct v as [| | |vs|]; try discriminate.
      pose proof (lay_fields_length cs M recL p _ _ _ _ Hlay) as Hlen.
      assert (HI0 : Inv recD recU p pre vs 0 [] pre None []).
      { split; [split; [reflexivity|constructor]|]. exists []. split; [rewrite app_nil_r; reflexivity|].
        intros rest R. unfold members. rewrite Nat.sub_0_r. reflexivity. }
      destruct (fields_ok recL recD recT recU Hrec path p Hp pre vs (p_fields p) 0 [] pre None [] vs out)
        as [lp' [vsd' HI]]; [intros j f H; exact H|intros j w H; exact H|exact HI0|exact Ht|exact Hlay|].
      cbn [plus app] in HI.
      assert (HIn : exists vsd'', Inv recD recU p pre vs (length (p_fields p)) (ir_dec (ref_ir M mk path p)) out None vsd'').
      { destruct lp' as [pos|]; [eapply inv_close; exact HI|exists vsd'; exact HI]. }
      destruct HIn as [vsd'' [[Hl Hu] [B [Hout Hc]]]].
      exists B, (VObj vsd''). split; [exact Hout|]. split.
      - intros rest. unfold dec_packet_body. cbn [ir_members ref_ir].
        specialize (Hc rest []). rewrite app_nil_r in Hc. rewrite Hc. cbn [dec_steps].
        unfold members. rewrite Nat.sub_diag. cbn [repeat]. rewrite app_nil_r, all_some_map. reflexivity.
      - unfold ueq_body. split; [|exact Hlen].
        rewrite <- Hlen in Hu at 2. rewrite !firstn_all in Hu. exact Hu.
    Qed.
  End Packet.

  Lemma find_ref' path p : In (path, p) (all_packets M) -> find_ir P path = Some (ref_ir M mk path p).
  Proof. intros H. apply find_ref; assumption. Qed.

  (* the reference decoder inverts the wire specification *)
  Theorem ref_dec_correct0 : forall fuel path p v pre out,
    In (path, p) (all_packets M) -> typed M fuel p v = true ->
    lay_packet cs M fuel p v pre = Some out ->
    exists msg v',
      out = pre ++ msg /\
      (forall rest, sem_dec P fuel path (msg ++ rest) = DOk (v', rest)) /\
      ueq cs M fuel p v v'.
  Proof.
    induction fuel as [|fuel IH]; intros path p v pre out Hin Ht Hlay; cbn [typed] in Ht; [discriminate|].
    cbn [lay_packet] in Hlay.
    destruct (packet_ok (lay_packet cs M fuel) (sem_dec P fuel) (typed M fuel) (ueq cs M fuel)
                        (fun path q v pre out Hq Htq Hl => IH path q v pre out Hq Htq Hl)
                        path p v pre out Hin Ht Hlay) as [msg [v' [Ho [Hd Hu]]]].
    exists msg, v'. split; [exact Ho|]. split; [|exact Hu].
    intros rest. cbn [sem_dec]. rewrite (find_ref' path p Hin). apply Hd.
  Qed.
End RefDec.

Theorem ref_dec_correct :
  forall cs M mk, NoDup (map fst (all_packets M)) -> lenw_ok M = true ->
  forall fuel path p v pre out,
    In (path, p) (all_packets M) -> typed M fuel p v = true ->
    lay_packet cs M fuel p v pre = Some out ->
    exists msg v',
      out = pre ++ msg /\
      (forall rest, sem_dec (ref_prog M mk) fuel path (msg ++ rest) = DOk (v', rest)) /\
      ueq cs M fuel p v v' /\
      lay_packet cs M fuel p v' pre = Some out.
Proof.
  intros cs M mk Hnd Hlw fuel path p v pre out Hin Ht Hlay.
  destruct (ref_dec_correct0 cs M mk Hnd Hlw fuel path p v pre out Hin Ht Hlay) as [msg [v' [Ho [Hd Hu]]]].
  exists msg, v'. split; [exact Ho|]. split; [exact Hd|]. split; [exact Hu|].
  rewrite <- (ueq_lay cs M fuel p v v' pre Hu). exact Hlay.
Qed.
