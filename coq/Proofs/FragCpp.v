(* C++: on the fragment cpp_frag_enc / cpp_frag_dec (Gen/Frag.v) the generator model's
   output is accepted by the validator - for ALL models. *)
From FP Require Import Validate Frag BytesLemmas Paths RefEnc RefDec Validated FragCommon.
From Coq Require Import Lia.
Open Scope nat_scope.
Open Scope list_scope.

Ltac cond1 H := apply conds_ok_cons in H; destruct H as [H _].
Ltac cond2 H H1 := apply conds_ok_cons in H; destruct H as [H1 H].

Ltac get_num Hc w Hw := cond1 Hc; apply numeric_inv in Hc; destruct Hc as [w Hw].
Ltac get_obj Hc :=
  cond1 Hc; unfold obj_ok, ref_obj_path in *;
  match goal with |- context [obj_path ?pa ?f] => destruct (obj_path pa f) as [ty|]; [|discriminate] end.

Lemma cpp_meth_numeric le x w : ty_width x = Some w -> cpp_meth le (Some x) = (w, andb le (negb (Nat.eqb w 1))).
Proof. intros H. unfold cpp_meth. rewrite H. reflexivity. Qed.

Lemma cpp_name_w_numeric x w : ty_width x = Some w -> cpp_name_w (Some x) = w.
Proof. intros H. unfold cpp_name_w. rewrite H. reflexivity. Qed.

Section CppPacket.
  Variable M : bmodel.
  Variable mk : string -> packet -> nat.
  Variable path : string.
  Variable p : packet.
  Hypothesis Hmk : mk path p = cpp_pkt_mark M p.
  Let n := length (p_fields p).

  Lemma cpp_lc_index_lt t : is_some (index_where (fun n' => String.eqb (lcamel M n') (lcamel M t)) (p_fields p) 0) = true ->
    cpp_lc_index M p t < n.
  Proof.
    unfold cpp_lc_index. destruct (index_where _ (p_fields p) 0) as [i|] eqn:E; [|discriminate].
    intros _. apply index_where_lt in E. unfold n. lia.
  Qed.

  Lemma cpp_enc_field_ok i f :
    i < n -> conds_ok (cpp_enc_conds M path p i f) = true ->
    steps_ok n (cpp_enc_field M path p i f) (ref_enc_field M mk path p i f) = true.
  Proof.
    intros Hi H. unfold cpp_enc_conds in H. apply conds_ok_app in H. destruct H as [Hc H].
    unfold cpp_common_conds in Hc.
    destruct f as [fn a la rp].
    unfold cpp_enc_field, ref_enc_field. cbv zeta. cbn [f_rep f_attr f_len f_name] in *.
    destruct la.
    2: { cond2 H H1. cond2 H H2. cond2 H H3. cond2 H H4. cond2 H H5. cond1 H.
      apply andb_prop in H1. destruct H1 as [Hr Ha].
      destruct rp; [discriminate Hr|]. clear Hr.
      destruct a as [t|len fp| |tg lt|alg t|iner pn rf inl|k ka pairs|]; try discriminate Ha. clear Ha Hc.
      unfold cpp_enc_target. cbv zeta. cbn [f_attr f_rep].
      destruct (p_lenf p) as [ln|]; [|discriminate H].
      unfold len_w_agree, ref_len_w, lenf_w, len_field in *.
      destruct (len_field_index p) as [li|]; [|discriminate H2].
      destruct (nth_error (p_fields p) li) as [lf|]; [|discriminate H2].
      destruct lf as [lfn lfa lfl lfr]. cbn [f_attr] in *.
      destruct lfa as [| | |ltg lt| | | |]; try discriminate H2.
      apply numeric_inv in H2. destruct H2 as [w Hw].
      rewrite (wof_len _ _ _ _ _ _ Hw) in *. rewrite (fgt_len _ _ _ _ _ _ Hw). cbn [attr_get_type] in *.
      destruct (len_width p) as [w'|]; [|discriminate H5]. apply Nat.eqb_eq in H5. subst w'. cbn [opt_w].
      assert (Hm : (if le_of M then cpp_meth true (Some (get_basic_type lt)) else cpp_meth false (Some (get_basic_type lt)))
                   = (w, andb (le_of M) (negb (Nat.eqb w 1)))).
      { rewrite !(cpp_meth_numeric _ _ _ Hw). destruct (le_of M); reflexivity. }
      rewrite Hm. cbn [fst snd]. rewrite H4. apply Nat.eqb_eq in H. rewrite Hmk, <- H.
      apply se_target; [exact Hi|exact Hi|reflexivity|apply order_eqb_1| |reflexivity].
      rewrite H3, Nat.leb_refl. apply orb_true_r. }
    all: unfold ref_elem; cbn [f_attr];
      destruct a as [t|len fp| |tg lt|alg t|iner pn rf inl|k ka pairs|]; destruct rp;
      try (cond1 Hc; discriminate Hc).
    (* ABasic *)
    1, 2, 12, 13: get_num Hc w Hw;
      rewrite (fgt_basic _ _ _ _ _ Hw), ?(cpp_meth_numeric _ _ _ Hw), ?(cpp_name_w_numeric _ _ Hw), (scalar_width_numeric _ _ Hw);
      cbn [fst snd opt_w]; (apply se_elem; [reflexivity|]);
      first [apply eqv_list; apply eqv_int|apply eqv_int_o; apply order_eqb_1].
    (* AFixed *)
    1, 2, 10, 11: cond1 Hc; (apply se_elem; [reflexivity|]); try apply eqv_list; apply eqv_fixed;
      apply pad_ok_eqb; [exact norm_rust_good|exact Hc].
    (* ADyn *)
    1, 2, 8, 9: (apply se_elem; [reflexivity|]); try apply eqv_list; apply eqv_str.
    (* ALen *)
    1, 6: get_num Hc w Hw;
      rewrite (fgt_len _ _ _ _ _ _ Hw), (cpp_meth_numeric _ _ _ Hw), Hw; cbn [fst snd opt_w];
      cond2 H H2; cond1 H; apply Nat.eqb_eq in H; cbn [f_name] in *; rewrite Hmk, <- H;
      apply se_mark; [apply cpp_lc_index_lt; exact H2|exact Hi|apply order_eqb_1].
    (* ACheck *)
    1, 5: get_num Hc w Hw;
      rewrite (fgt_check _ _ _ _ _ _ Hw), (cpp_meth_numeric _ _ _ Hw), Hw; cbn [fst snd opt_w];
      apply se_check; apply order_eqb_1.
    (* AObj *)
    1, 2, 4, 5: get_obj Hc; (apply se_elem; [reflexivity|]); try apply eqv_list; apply eqv_obj.
    (* AMatch *)
    all: apply se_elem; reflexivity.
  Qed.
End CppPacket.

Lemma cpp_first_mark M path p i f r :
  first_mark (cpp_enc_field M path p i f ++ r) = match cpp_field_mark M p f with Some m => m | None => first_mark r end.
Proof.
  destruct f as [fn a la rp]. unfold cpp_enc_field, cpp_field_mark, cpp_enc_target. cbv zeta. cbn [f_rep f_attr f_len f_name].
  destruct la.
  2: { destruct (p_lenf p); [|reflexivity]. destruct (len_field_index p); [|reflexivity].
       destruct (nth_error (p_fields p) _); reflexivity. }
  all: destruct a as [t|len fp| |tg lt|alg t|iner pn rf inl|k ka pairs|]; cbn [app first_mark]; try reflexivity;
    try (destruct rp; reflexivity);
    destruct (obj_path path _); [destruct rp|]; reflexivity.
Qed.

Lemma onat_eqb_inv a b : onat_eqb a b = true -> exists k, a = Some k /\ b = Some k.
Proof.
  destruct a as [x|], b as [y|]; cbn [onat_eqb]; try discriminate.
  intros H. apply Nat.eqb_eq in H. subst. exists y. split; reflexivity.
Qed.

Lemma cpp_dec_field_ok M path p i f :
  conds_ok (cpp_dec_conds M path p i f) = true ->
  dsteps_ok [(i, cpp_dec_field M path p f)] (ref_dec_field M path p i f) = true.
Proof.
  intros H. unfold cpp_dec_conds in H. apply conds_ok_app in H. destruct H as [Hc H].
  unfold cpp_common_conds in Hc.
  destruct f as [fn a la rp].
  unfold cpp_dec_field, ref_dec_field. cbv zeta. cbn [f_rep f_attr f_len f_name] in *.
  unfold ref_delem. cbn [f_attr].
  destruct a as [t|len fp| |tg lt|alg t|iner pn rf inl|[k|] ka pairs|]; destruct rp;
    try (cond1 Hc; discriminate Hc); try (cond1 H; discriminate H).
  - get_num Hc w Hw. rewrite (fgt_basic _ _ _ _ _ Hw), Hw, (scalar_width_numeric _ _ Hw). cbn [opt_w].
    apply dse. apply deqv_list. apply deqv_int.
  - get_num Hc w Hw. rewrite (fgt_basic _ _ _ _ _ Hw), Hw, (cpp_meth_numeric _ _ _ Hw), (scalar_width_numeric _ _ Hw). cbn [opt_w fst snd].
    apply dse. apply deqv_int_o. apply order_eqb_1.
  - cond1 Hc. apply dse. apply deqv_list. apply deqv_fixed. apply pad_ok_eqb; [exact norm_rust_good|exact Hc].
  - cond1 Hc. apply dse. apply deqv_fixed. apply pad_ok_eqb; [exact norm_rust_good|exact Hc].
  - apply dse. apply deqv_list. apply deqv_str.
  - apply dse. apply deqv_str.
  - get_num Hc w Hw. rewrite (fgt_len _ _ _ _ _ _ Hw), Hw, (cpp_meth_numeric _ _ _ Hw). cbn [opt_w fst snd].
    apply dse. apply deqv_int_o. apply order_eqb_1.
  - get_num Hc w Hw. rewrite (fgt_check _ _ _ _ _ _ Hw), Hw, (cpp_meth_numeric _ _ _ Hw). cbn [opt_w fst snd].
    apply dse. apply deqv_int_o. apply order_eqb_1.
  - get_obj Hc. apply dse. apply deqv_list. apply deqv_obj.
  - get_obj Hc. apply dse. apply deqv_obj.
  - cond2 H H0. cond2 H H1. cond2 H H2. cond1 H.
    destruct (cpp_factory_key_types p) as [|[kt|] kts]; try discriminate H0.
    rewrite H0. cbn [negb].
    apply onat_eqb_inv in H1. destruct H1 as [ki [E1 E2]]. rewrite E1, E2.
    apply tbl_eqb_eq in H2. rewrite H2. unfold pairs_tbl in *.
    apply dse. apply deqv_dispatch. rewrite H. apply orb_true_r.
Qed.

Lemma cpp_packet_enc M mk path p :
  mk path p = first_mark (ir_enc (cpp_ir M path p)) ->
  conds_ok (fields_conds (cpp_enc_conds M) path p) = true ->
  ir_members (cpp_ir M path p) = length (p_fields p) /\
  steps_ok (length (p_fields p)) (ir_enc (cpp_ir M path p)) (ir_enc (ref_ir M mk path p)) = true.
Proof.
  intros Hmk H. split; [reflexivity|].
  unfold cpp_ir, ref_ir in *. cbn [ir_enc] in *. rewrite cpp_number_eq in *.
  rewrite (first_mark_flat (cpp_enc_field M path p) (cpp_field_mark M p)) in Hmk by (intros; apply cpp_first_mark).
  fold (cpp_pkt_mark M p) in Hmk.
  apply steps_ok_flat. intros [i f] Hin.
  destruct (number_in _ _ _ _ Hin) as [Hi _].
  apply cpp_enc_field_ok; [exact Hmk|lia|].
  exact (fields_conds_in _ _ _ _ _ H Hin).
Qed.

Lemma cpp_packet_dec M mk path p :
  conds_ok (fields_conds (cpp_dec_conds M) path p) = true ->
  ir_members (cpp_ir M path p) = length (p_fields p) /\
  dsteps_ok (ir_dec (cpp_ir M path p)) (ir_dec (ref_ir M mk path p)) = true.
Proof.
  intros H. split; [reflexivity|].
  unfold cpp_ir, ref_ir. cbn [ir_dec]. rewrite cpp_number_eq, map_as_flat_map.
  apply dsteps_ok_flat. intros [i f] Hin.
  apply cpp_dec_field_ok. exact (fields_conds_in _ _ _ _ _ H Hin).
Qed.

Lemma cpp_packet_trav M path p : cpp_packet M path p = trav pkt_ir (cpp_ir M) path p.
Proof. reflexivity. Qed.

Lemma gen_cpp_gprog M : is_some (m_root M) = true ->
  gen_cpp M = gprog (string * packet) (fun x => x) (fun x => cpp_ir M (fst x) (snd x)) (all_packets M).
Proof.
  unfold gen_cpp, gprog. destruct (m_root M); [|discriminate]. intros _.
  rewrite (flat_map_ext_in' _ (fun p => trav pkt_ir (cpp_ir M) (p_name p) p)) by (intros; apply cpp_packet_trav).
  rewrite trav_all. apply map_ext. intros [path p]. reflexivity.
Qed.

Theorem cpp_frag_enc_validates M : cpp_frag_enc M = true -> validate_enc M (gen_cpp M) = true.
Proof.
  unfold cpp_frag_enc, cpp_enc_all. intros H. cond2 H Hp. cond2 H Hr.
  rewrite (gen_cpp_gprog M Hr). apply generic_validate_enc; [symmetry; apply map_id|exact Hp|].
  intros [path p] mk Hin Hmk. cbn [fst snd] in *.
  apply cpp_packet_enc; [exact Hmk|].
  exact (packets_conds_in M _ path p H Hin).
Qed.

Theorem cpp_frag_dec_validates M : cpp_frag_dec M = true -> validate_dec M (gen_cpp M) = true.
Proof.
  unfold cpp_frag_dec, cpp_dec_all. intros H. cond2 H Hp. cond2 H Hl. cond2 H Hr.
  rewrite (gen_cpp_gprog M Hr). apply generic_validate_dec; [symmetry; apply map_id|exact Hp|].
  intros [path p] Hin. cbn [fst snd] in *.
  apply cpp_packet_dec. exact (packets_conds_in M _ path p H Hin).
Qed.

Theorem cpp_frag_dec_validates_full M : cpp_frag_dec M = true -> validate_dec_full M (gen_cpp M) = true.
Proof.
  intros H. unfold validate_dec_full. rewrite (cpp_frag_dec_validates M H). cbn [andb].
  unfold cpp_frag_dec, cpp_dec_all in H. cond2 H Hp. cond2 H Hl. rewrite <- frag_lenw_ok_eq. exact Hl.
Qed.
