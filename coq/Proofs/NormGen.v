(* C08, the step from "same normalised model" to "same generated code".

   [Spelling.same_meaning] compares the NORMALISED generators' views of two visitor results
   (type names normalised, the padding that takes effect filled in).  Here it is proved that
     1. [bmodel_eqb] is a structural equality on everything but the strcase table m_names
        (which it does not look at: the strongest true statement is proved, and the exact
        one is refuted);
     2. every codec generator model, and the Lua dissector model, is invariant under
        [norm_bmodel]:  gen_L (norm_bmodel M) = gen_L M  for ALL models M, without guard;
     3. hence two results with the same meaning give the same code for every target, for any
        strcase table given to both.
   No axiom, no admitted statement. *)
From Coq Require Import String Ascii NArith Bool Arith List Lia.
From FP Require Import BModel Common Go Py Cpp Rust Java Lua Paths Frag FragCommon FragGo FragPy FragCpp FragRust FragJava.
From FP Require Visitor VisitorShow Spelling.
Import ListNotations.
Open Scope string_scope.
Open Scope list_scope.

Import FP.VisitorShow FP.Spelling.

(* ================================================================== 1. bmodel_eqb *)

Section AttrInd.
  Variable P : attr -> Prop.
  Variable Q : packet -> Prop.
  Hypothesis HBasic : forall t, P (ABasic t).
  Hypothesis HFixed : forall n p, P (AFixed n p).
  Hypothesis HDyn : P ADyn.
  Hypothesis HLen : forall tg t, P (ALen tg t).
  Hypothesis HCheck : forall alg t, P (ACheck alg t).
  Hypothesis HObjN : forall i pn r, P (AObj i pn r None).
  Hypothesis HObjS : forall i pn r p, Q p -> P (AObj i pn r (Some p)).
  Hypothesis HMatchN : forall k ps, P (AMatch k None ps).
  Hypothesis HMatchS : forall k ka ps, P ka -> P (AMatch k (Some ka) ps).
  Hypothesis HNil : P ANil.
  Hypothesis HPacket : forall n r l fs ms, Forall (fun f => P (f_attr f)) fs -> Q (mkPacket n r l fs ms).

  Fixpoint attr_ind2 (a : attr) {struct a} : P a :=
    match a as a0 return P a0 with
    | ABasic t => HBasic t
    | AFixed n p => HFixed n p
    | ADyn => HDyn
    | ALen tg t => HLen tg t
    | ACheck alg t => HCheck alg t
    | AObj i pn r None => HObjN i pn r
    | AObj i pn r (Some p) => HObjS i pn r p (packet_ind2 p)
    | AMatch k None ps => HMatchN k ps
    | AMatch k (Some ka) ps => HMatchS k ka ps (attr_ind2 ka)
    | ANil => HNil
    end
  with packet_ind2 (p : packet) {struct p} : Q p :=
    match p as p0 return Q p0 with
    | mkPacket n r l fs ms =>
        HPacket n r l fs ms
          ((fix go (fs : list field) : Forall (fun f => P (f_attr f)) fs :=
              match fs as fs0 return Forall (fun f => P (f_attr f)) fs0 with
              | [] => Forall_nil _
              | f :: r =>
                  Forall_cons f
                    (match f as f0 return P (f_attr f0) with mkField _ a _ _ => attr_ind2 a end)
                    (go r)
              end) fs)
    end.
End AttrInd.

Lemma opt_eqb_sound {A} (e : A -> A -> bool) (a b : option A) :
  (forall x y, e x y = true -> x = y) -> opt_eqb e a b = true -> a = b.
Proof.
  intros He. destruct a as [x|], b as [y|]; cbn [opt_eqb]; try discriminate; [|reflexivity].
  intros H. f_equal. apply He. exact H.
Qed.

Lemma list_eqb_sound {A} (e : A -> A -> bool) :
  (forall x y, e x y = true -> x = y) -> forall a b, list_eqb e a b = true -> a = b.
Proof.
  intros He. induction a as [|x a IH]; intros [|y b]; cbn [list_eqb]; try discriminate; [reflexivity|].
  intros H. apply andb_prop in H. destruct H as [H1 H2]. f_equal; [apply He; exact H1|apply IH; exact H2].
Qed.

Lemma opt_eqb_refl {A} (e : A -> A -> bool) (a : option A) :
  (forall x, e x x = true) -> opt_eqb e a a = true.
Proof. intros He. destruct a; cbn [opt_eqb]; [apply He|reflexivity]. Qed.

Lemma list_eqb_refl {A} (e : A -> A -> bool) :
  (forall x, e x x = true) -> forall a, list_eqb e a a = true.
Proof. intros He. induction a as [|x a IH]; cbn [list_eqb]; [reflexivity|]. rewrite He, IH. reflexivity. Qed.

Lemma str_eqb_sound x y : String.eqb x y = true -> x = y.
Proof. apply String.eqb_eq. Qed.

Lemma pad_eqb_sound a b : pad_eqb a b = true -> a = b.
Proof.
  destruct a as [c l], b as [d r]. unfold pad_eqb. cbn [pad_char pad_left]. intros H.
  apply andb_prop in H. destruct H as [H1 H2]. apply str_eqb_sound in H1. apply Bool.eqb_prop in H2. congruence.
Qed.

Lemma pad_eqb_refl a : pad_eqb a a = true.
Proof. unfold pad_eqb. rewrite String.eqb_refl, Bool.eqb_reflx. reflexivity. Qed.

Lemma mpair_eqb_sound a b : mpair_eqb a b = true -> a = b.
Proof.
  destruct a as [k v], b as [k' v']. unfold mpair_eqb. cbn [mp_key mp_value]. intros H.
  apply andb_prop in H. destruct H as [H1 H2]. apply str_eqb_sound in H1. apply str_eqb_sound in H2. congruence.
Qed.

Lemma mpair_eqb_refl a : mpair_eqb a a = true.
Proof. unfold mpair_eqb. rewrite !String.eqb_refl. reflexivity. Qed.

Lemma lenattr_eqb_sound a b : lenattr_eqb a b = true -> a = b.
Proof. destruct a, b; cbn; intros H; try discriminate; reflexivity. Qed.

Lemma lenattr_eqb_refl a : lenattr_eqb a a = true.
Proof. destruct a; reflexivity. Qed.

(* the comparison of two field lists inside bpacket_eqb *)
Definition fields_eqb : list field -> list field -> bool :=
  fix go (x y : list field) : bool :=
    match x, y with
    | [], [] => true
    | mkField fn fa fl fr :: x', mkField gn ga gl gr :: y' =>
        String.eqb fn gn && battr_eqb fa ga && lenattr_eqb fl gl && Bool.eqb fr gr && go x' y'
    | _, _ => false
    end.

Lemma bpacket_eqb_unfold n r l fs ms m s k gs ns :
  bpacket_eqb (mkPacket n r l fs ms) (mkPacket m s k gs ns) =
  String.eqb n m && Bool.eqb r s && opt_eqb String.eqb l k && fields_eqb fs gs &&
  list_eqb (fun u v => String.eqb (fst u) (fst v) && list_eqb mpair_eqb (snd u) (snd v)) ms ns.
Proof. reflexivity. Qed.

Lemma mfs_eqb_sound (u v : string * list mpair) :
  String.eqb (fst u) (fst v) && list_eqb mpair_eqb (snd u) (snd v) = true -> u = v.
Proof.
  destruct u as [a x], v as [b y]. cbn [fst snd]. intros H. apply andb_prop in H. destruct H as [H1 H2].
  apply str_eqb_sound in H1. apply (list_eqb_sound _ mpair_eqb_sound) in H2. congruence.
Qed.

Lemma battr_bpacket_eqb_sound :
  (forall a b, battr_eqb a b = true -> a = b) /\ (forall p q, bpacket_eqb p q = true -> p = q).
Proof.
  assert (HA : forall a, (fun a => forall b, battr_eqb a b = true -> a = b) a).
  { apply (attr_ind2 (fun a => forall b, battr_eqb a b = true -> a = b)
                     (fun p => forall q, bpacket_eqb p q = true -> p = q)).
    - intros t [] H; cbn [battr_eqb] in H; try discriminate. apply str_eqb_sound in H. congruence.
    - intros n p [] H; cbn [battr_eqb] in H; try discriminate.
      apply andb_prop in H. destruct H as [H1 H2]. apply Nat.eqb_eq in H1.
      apply (opt_eqb_sound _ _ _ pad_eqb_sound) in H2. congruence.
    - intros [] H; cbn [battr_eqb] in H; try discriminate. reflexivity.
    - intros tg t [] H; cbn [battr_eqb] in H; try discriminate.
      apply andb_prop in H. destruct H as [H1 H2]. apply (opt_eqb_sound _ _ _ str_eqb_sound) in H1.
      apply str_eqb_sound in H2. congruence.
    - intros alg t [] H; cbn [battr_eqb] in H; try discriminate.
      apply andb_prop in H. destruct H as [H1 H2]. apply str_eqb_sound in H1. apply str_eqb_sound in H2. congruence.
    - intros i pn r [] H; cbn [battr_eqb] in H; try discriminate.
      apply andb_prop in H. destruct H as [H H4]. apply andb_prop in H. destruct H as [H H3].
      apply andb_prop in H. destruct H as [H1 H2].
      apply Bool.eqb_prop in H1. apply str_eqb_sound in H2. apply (opt_eqb_sound _ _ _ str_eqb_sound) in H3.
      destruct inl; [discriminate|]. congruence.
    - intros i pn r p IH [] H; cbn [battr_eqb] in H; try discriminate.
      apply andb_prop in H. destruct H as [H H4]. apply andb_prop in H. destruct H as [H H3].
      apply andb_prop in H. destruct H as [H1 H2].
      apply Bool.eqb_prop in H1. apply str_eqb_sound in H2. apply (opt_eqb_sound _ _ _ str_eqb_sound) in H3.
      destruct inl as [q|]; [|discriminate]. apply IH in H4. congruence.
    - intros k ps [] H; cbn [battr_eqb] in H; try discriminate.
      apply andb_prop in H. destruct H as [H H3]. apply andb_prop in H. destruct H as [H1 H2].
      apply (opt_eqb_sound _ _ _ str_eqb_sound) in H1. apply (list_eqb_sound _ mpair_eqb_sound) in H3.
      destruct key_attr; [discriminate|]. congruence.
    - intros k ka ps IH [] H; cbn [battr_eqb] in H; try discriminate.
      apply andb_prop in H. destruct H as [H H3]. apply andb_prop in H. destruct H as [H1 H2].
      apply (opt_eqb_sound _ _ _ str_eqb_sound) in H1. apply (list_eqb_sound _ mpair_eqb_sound) in H3.
      destruct key_attr as [kb|]; [|discriminate]. apply IH in H2. congruence.
    - intros [] H; cbn [battr_eqb] in H; try discriminate. reflexivity.
    - intros n r l fs ms HF [m s k gs ns] H. rewrite bpacket_eqb_unfold in H.
      apply andb_prop in H. destruct H as [H H5]. apply andb_prop in H. destruct H as [H H4].
      apply andb_prop in H. destruct H as [H H3]. apply andb_prop in H. destruct H as [H1 H2].
      apply str_eqb_sound in H1. apply Bool.eqb_prop in H2. apply (opt_eqb_sound _ _ _ str_eqb_sound) in H3.
      apply (list_eqb_sound _ mfs_eqb_sound) in H5.
      assert (fs = gs) as Hfs.
      { clear - HF H4. revert gs H4. induction HF as [|f fs Hf HF IH]; intros [|g gs] H4.
        - reflexivity.
        - discriminate.
        - destruct f; discriminate.
        - destruct f as [fn fa fl fr], g as [gn ga gl gr]. cbn [fields_eqb] in H4. fold fields_eqb in H4.
          apply andb_prop in H4. destruct H4 as [H H5]. apply andb_prop in H. destruct H as [H H4].
          apply andb_prop in H. destruct H as [H H3]. apply andb_prop in H. destruct H as [H1 H2].
          apply str_eqb_sound in H1. cbn [f_attr] in Hf. apply Hf in H2. apply lenattr_eqb_sound in H3.
          apply Bool.eqb_prop in H4. apply IH in H5. congruence. }
      congruence. }
  split; [exact HA|].
  intros [n r l fs ms] [m s k gs ns] H. rewrite bpacket_eqb_unfold in H.
  apply andb_prop in H. destruct H as [H H5]. apply andb_prop in H. destruct H as [H H4].
  apply andb_prop in H. destruct H as [H H3]. apply andb_prop in H. destruct H as [H1 H2].
  apply str_eqb_sound in H1. apply Bool.eqb_prop in H2. apply (opt_eqb_sound _ _ _ str_eqb_sound) in H3.
  apply (list_eqb_sound _ mfs_eqb_sound) in H5.
  assert (fs = gs) as Hfs.
  { clear - HA H4. revert gs H4. induction fs as [|f fs IH]; intros [|g gs] H4.
    - reflexivity.
    - discriminate.
    - destruct f; discriminate.
    - destruct f as [fn fa fl fr], g as [gn ga gl gr]. cbn [fields_eqb] in H4. fold fields_eqb in H4.
      apply andb_prop in H4. destruct H4 as [H H5]. apply andb_prop in H. destruct H as [H H4].
      apply andb_prop in H. destruct H as [H H3]. apply andb_prop in H. destruct H as [H1 H2].
      apply str_eqb_sound in H1. apply HA in H2. apply lenattr_eqb_sound in H3.
      apply Bool.eqb_prop in H4. apply IH in H5. congruence. }
  congruence.
Qed.

Definition battr_eqb_sound := proj1 battr_bpacket_eqb_sound.
Definition bpacket_eqb_sound := proj2 battr_bpacket_eqb_sound.

Lemma config_eqb_sound a b : config_eqb a b = true -> a = b.
Proof.
  destruct a as [a1 a2 a3 a4 a5 a6 a7], b as [b1 b2 b3 b4 b5 b6 b7]. unfold config_eqb. cbn [c_list c_str c_java_package c_go_package c_go_module c_le c_pad].
  intros H.
  apply andb_prop in H. destruct H as [H H7]. apply andb_prop in H. destruct H as [H H6].
  apply andb_prop in H. destruct H as [H H5]. apply andb_prop in H. destruct H as [H H4].
  apply andb_prop in H. destruct H as [H H3]. apply andb_prop in H. destruct H as [H1 H2].
  apply str_eqb_sound in H1, H2, H3, H4, H5. apply Bool.eqb_prop in H6.
  apply (opt_eqb_sound _ _ _ pad_eqb_sound) in H7. congruence.
Qed.

(* m_names (the strcase table) is not compared: equality of everything else *)
Definition same_but_names (a b : bmodel) : Prop :=
  m_cfg a = m_cfg b /\ m_packets a = m_packets b /\ m_map_keys a = m_map_keys b /\ m_root a = m_root b.

Theorem bmodel_eqb_sound : forall a b, bmodel_eqb a b = true -> same_but_names a b.
Proof.
  intros a b H. unfold bmodel_eqb in H.
  apply andb_prop in H. destruct H as [H H4]. apply andb_prop in H. destruct H as [H H3].
  apply andb_prop in H. destruct H as [H1 H2].
  apply config_eqb_sound in H1. apply (list_eqb_sound _ bpacket_eqb_sound) in H2.
  apply (list_eqb_sound _ str_eqb_sound) in H3. apply (opt_eqb_sound _ _ _ str_eqb_sound) in H4.
  repeat split; assumption.
Qed.

Corollary bmodel_eqb_sound_names : forall a b, bmodel_eqb a b = true -> m_names a = m_names b -> a = b.
Proof.
  intros a b H Hn. destruct (bmodel_eqb_sound a b H) as (H1 & H2 & H3 & H4).
  destruct a as [a1 a2 a3 a4 a5], b as [b1 b2 b3 b4 b5]. cbn [m_cfg m_packets m_map_keys m_root m_names] in *. congruence.
Qed.

(* the exact statement "bmodel_eqb a b = true -> a = b" is false *)
Theorem bmodel_eqb_not_exact : exists a b, bmodel_eqb a b = true /\ a <> b.
Proof.
  exists (mkModel (mkCfg "" "" "" "" "" false None) [] [] None []).
  exists (mkModel (mkCfg "" "" "" "" "" false None) [] [] None [("a", ("A", "a", "a"))]).
  split; [reflexivity|discriminate].
Qed.

(* and it is complete: bmodel_eqb is exactly "equal but for m_names" *)
Lemma battr_bpacket_eqb_refl : (forall a, battr_eqb a a = true) /\ (forall p, bpacket_eqb p p = true).
Proof.
  assert (HA : forall a, battr_eqb a a = true).
  { apply (attr_ind2 (fun a => battr_eqb a a = true) (fun p => bpacket_eqb p p = true)).
    - intros t. cbn [battr_eqb]. apply String.eqb_refl.
    - intros n p. cbn [battr_eqb]. rewrite Nat.eqb_refl, (opt_eqb_refl _ _ pad_eqb_refl). reflexivity.
    - reflexivity.
    - intros tg t. cbn [battr_eqb]. rewrite (opt_eqb_refl _ _ String.eqb_refl), String.eqb_refl. reflexivity.
    - intros alg t. cbn [battr_eqb]. rewrite !String.eqb_refl. reflexivity.
    - intros i pn r. cbn [battr_eqb]. rewrite Bool.eqb_reflx, String.eqb_refl, (opt_eqb_refl _ _ String.eqb_refl). reflexivity.
    - intros i pn r p IH. cbn [battr_eqb]. rewrite Bool.eqb_reflx, String.eqb_refl, (opt_eqb_refl _ _ String.eqb_refl), IH. reflexivity.
    - intros k ps. cbn [battr_eqb]. rewrite (opt_eqb_refl _ _ String.eqb_refl), (list_eqb_refl _ mpair_eqb_refl). reflexivity.
    - intros k ka ps IH. cbn [battr_eqb]. rewrite (opt_eqb_refl _ _ String.eqb_refl), IH, (list_eqb_refl _ mpair_eqb_refl). reflexivity.
    - reflexivity.
    - intros n r l fs ms HF. rewrite bpacket_eqb_unfold.
      rewrite String.eqb_refl, Bool.eqb_reflx, (opt_eqb_refl _ _ String.eqb_refl).
      rewrite list_eqb_refl by (intros [u v]; cbn [fst snd]; rewrite String.eqb_refl, (list_eqb_refl _ mpair_eqb_refl); reflexivity).
      rewrite andb_true_r. cbn [andb].
      induction HF as [|f fs Hf HF IH]; [reflexivity|].
      destruct f as [fn fa fl fr]. cbn [fields_eqb]. fold fields_eqb. cbn [f_attr] in Hf.
      rewrite String.eqb_refl, Hf, lenattr_eqb_refl, Bool.eqb_reflx, IH. reflexivity. }
  split; [exact HA|].
  intros [n r l fs ms]. rewrite bpacket_eqb_unfold.
  rewrite String.eqb_refl, Bool.eqb_reflx, (opt_eqb_refl _ _ String.eqb_refl).
  rewrite list_eqb_refl by (intros [u v]; cbn [fst snd]; rewrite String.eqb_refl, (list_eqb_refl _ mpair_eqb_refl); reflexivity).
  rewrite andb_true_r. cbn [andb].
  induction fs as [|f fs IH]; [reflexivity|].
  destruct f as [fn fa fl fr]. cbn [fields_eqb]. fold fields_eqb.
  rewrite String.eqb_refl, HA, lenattr_eqb_refl, Bool.eqb_reflx, IH. reflexivity.
Qed.

Theorem bmodel_eqb_complete : forall a b, same_but_names a b -> bmodel_eqb a b = true.
Proof.
  intros a b (H1 & H2 & H3 & H4). unfold bmodel_eqb. rewrite <- H1, <- H2, <- H3, <- H4.
  assert (config_eqb (m_cfg a) (m_cfg a) = true) as ->.
  { unfold config_eqb. rewrite !String.eqb_refl, Bool.eqb_reflx, (opt_eqb_refl _ _ pad_eqb_refl). reflexivity. }
  rewrite (list_eqb_refl _ (proj2 battr_bpacket_eqb_refl)), (list_eqb_refl _ String.eqb_refl),
          (opt_eqb_refl _ _ String.eqb_refl). reflexivity.
Qed.

(* ================================================================== 2. type names *)

Definition gbt_l (l t : string) : string :=
  if orb (String.eqb l "i8") (String.eqb l "int8") then "i8"
  else if orb (String.eqb l "i16") (String.eqb l "int16") then "i16"
  else if orb (String.eqb l "i32") (String.eqb l "int32") then "i32"
  else if orb (String.eqb l "i64") (String.eqb l "int64") then "i64"
  else if orb (String.eqb l "u8") (String.eqb l "uint8") then "u8"
  else if orb (String.eqb l "u16") (String.eqb l "uint16") then "u16"
  else if orb (String.eqb l "u32") (String.eqb l "uint32") then "u32"
  else if orb (String.eqb l "u64") (String.eqb l "uint64") then "u64"
  else if orb (String.eqb l "f32") (String.eqb l "float32") then "f32"
  else if orb (String.eqb l "f64") (String.eqb l "float64") then "f64"
  else t.

Definition consts : list string := ["i8"; "i16"; "i32"; "i64"; "u8"; "u16"; "u32"; "u64"; "f32"; "f64"].

Lemma gbt_eq t : get_basic_type t = gbt_l (to_lower t) t.
Proof. reflexivity. Qed.

Lemma gbt_l_cases l : (forall x, gbt_l l x = x) \/ (exists c, In c consts /\ forall x, gbt_l l x = c).
Proof.
  unfold gbt_l.
  repeat (match goal with |- context [if ?b then _ else _] => destruct b end;
          [right; eexists; split; [|intros x; reflexivity]; unfold consts; simpl; intuition|]).
  left. reflexivity.
Qed.

(* the test of the second switch of Field.GetType *)
Definition lowtest (t : string) : bool := orb (String.eqb (to_lower t) "string") (String.eqb (to_lower t) "char[]").

Lemma norm_ty_unfold t :
  norm_ty t = if lowtest (get_basic_type t) then "string" else get_basic_type (get_basic_type t).
Proof. reflexivity. Qed.

Lemma consts_fix c : In c consts -> get_basic_type c = c /\ norm_ty c = c /\ lowtest c = false.
Proof.
  unfold consts. intros H.
  repeat (destruct H as [<-|H]; [repeat split; reflexivity|]). destruct H.
Qed.

Lemma norm_ty_cases t :
  (In (get_basic_type t) consts /\ norm_ty t = get_basic_type t) \/
  (get_basic_type t = t /\ norm_ty t = t /\ lowtest t = false) \/
  (get_basic_type t = t /\ norm_ty t = "string" /\ lowtest t = true).
Proof.
  rewrite norm_ty_unfold.
  destruct (gbt_l_cases (to_lower t)) as [Hid|(c & Hin & Hc)].
  - right. rewrite gbt_eq, !Hid. destruct (lowtest t) eqn:E.
    + right. repeat split.
    + left. rewrite gbt_eq, Hid. repeat split.
  - left. rewrite gbt_eq, !Hc. destruct (consts_fix c Hin) as (H1 & H2 & H3).
    rewrite H3, H1. split; [exact Hin|reflexivity].
Qed.

Lemma norm_ty_idem t : norm_ty (norm_ty t) = norm_ty t.
Proof.
  destruct (norm_ty_cases t) as [(Hin & H)|[(H1 & H2 & H3)|(H1 & H2 & H3)]].
  - rewrite H. apply (consts_fix _ Hin).
  - rewrite !H2. reflexivity.
  - rewrite H2. reflexivity.
Qed.

Lemma ty_width_consts t w : ty_width t = Some w -> In t consts.
Proof.
  intros H. apply ty_width_cases in H. unfold consts. simpl in *. intuition.
Qed.

Lemma lowtest_no_width t : lowtest t = true -> ty_width t = None.
Proof.
  intros H. destruct (ty_width t) as [w|] eqn:E; [|reflexivity].
  apply ty_width_consts in E. apply consts_fix in E. destruct E as (_ & _ & E). congruence.
Qed.

(* the raw attribute type (Attr.GetType()) is looked at by the C++ generator: through
   getBasicType, and then only as a key of the ten numeric types *)
Lemma gbt_norm_ty t :
  get_basic_type (norm_ty t) = get_basic_type t \/
  (ty_width (get_basic_type (norm_ty t)) = None /\ ty_width (get_basic_type t) = None).
Proof.
  destruct (norm_ty_cases t) as [(Hin & H)|[(H1 & H2 & H3)|(H1 & H2 & H3)]].
  - left. rewrite H. apply (consts_fix _ Hin).
  - left. rewrite H2. reflexivity.
  - right. rewrite H2, H1. split; [reflexivity|apply lowtest_no_width; exact H3].
Qed.

Lemma fgt_basic_eq n t la rp : field_get_type (mkField n (ABasic t) la rp) = Some (norm_ty t).
Proof.
  rewrite norm_ty_unfold. unfold field_get_type, lowtest. cbn [f_attr attr_get_type].
  destruct (orb _ _); reflexivity.
Qed.
Lemma fgt_len_eq n tg t la rp : field_get_type (mkField n (ALen tg t) la rp) = Some (norm_ty t).
Proof.
  rewrite norm_ty_unfold. unfold field_get_type, lowtest. cbn [f_attr attr_get_type].
  destruct (orb _ _); reflexivity.
Qed.
Lemma fgt_check_eq n alg t la rp : field_get_type (mkField n (ACheck alg t) la rp) = Some (norm_ty t).
Proof.
  rewrite norm_ty_unfold. unfold field_get_type, lowtest. cbn [f_attr attr_get_type].
  destruct (orb _ _); reflexivity.
Qed.

(* ================================================================== 3. norm_packet, field by field *)

Definition nf (cp : option padding) (f : field) : field :=
  mkField (f_name f) (norm_attr cp (f_attr f)) (f_len f) (f_rep f).

Lemma norm_packet_eq cp p :
  norm_packet cp p = mkPacket (p_name p) (p_root p) (p_lenf p) (map (nf cp) (p_fields p)) (p_mfs p).
Proof.
  destruct p as [n r l fs ms]. cbn [norm_packet p_name p_root p_lenf p_fields p_mfs]. f_equal.
  induction fs as [|f fs IH]; [reflexivity|]. destruct f as [fn fa fl fr]. cbn [map]. rewrite IH. reflexivity.
Qed.

Lemma np_fields cp p : p_fields (norm_packet cp p) = map (nf cp) (p_fields p).
Proof. rewrite norm_packet_eq. reflexivity. Qed.
Lemma np_name cp p : p_name (norm_packet cp p) = p_name p.
Proof. rewrite norm_packet_eq. reflexivity. Qed.
Lemma np_root cp p : p_root (norm_packet cp p) = p_root p.
Proof. rewrite norm_packet_eq. reflexivity. Qed.
Lemma np_lenf cp p : p_lenf (norm_packet cp p) = p_lenf p.
Proof. rewrite norm_packet_eq. reflexivity. Qed.
Lemma np_mfs cp p : p_mfs (norm_packet cp p) = p_mfs p.
Proof. rewrite norm_packet_eq. reflexivity. Qed.

Lemma nf_name cp f : f_name (nf cp f) = f_name f. Proof. reflexivity. Qed.
Lemma nf_len cp f : f_len (nf cp f) = f_len f. Proof. reflexivity. Qed.
Lemma nf_rep cp f : f_rep (nf cp f) = f_rep f. Proof. reflexivity. Qed.
Lemma nf_attr cp f : f_attr (nf cp f) = norm_attr cp (f_attr f). Proof. reflexivity. Qed.

(* Field.GetType() does not see the spelling *)
Lemma fgt_nf cp f : field_get_type (nf cp f) = field_get_type f.
Proof.
  destruct f as [n a la rp]. unfold nf. cbn [f_name f_attr f_len f_rep].
  destruct a as [t|k pd| |tg t|alg t|i pn r o|k ka ps|]; cbn [norm_attr]; try reflexivity.
  - rewrite !fgt_basic_eq, norm_ty_idem. reflexivity.
  - rewrite !fgt_len_eq, norm_ty_idem. reflexivity.
  - rewrite !fgt_check_eq, norm_ty_idem. reflexivity.
  - destruct o; reflexivity.
  - destruct ka; reflexivity.
Qed.

Lemma wof_nf cp f : width_of_field (nf cp f) = width_of_field f.
Proof. unfold width_of_field. rewrite fgt_nf. reflexivity. Qed.

Lemma obj_path_nf cp path f : obj_path path (nf cp f) = obj_path path f.
Proof.
  destruct f as [n a la rp]. unfold obj_path, nf. cbn [f_name f_attr f_len f_rep].
  destruct a as [t|k pd| |tg t|alg t|i pn r o|k ka ps|]; cbn [norm_attr]; try reflexivity.
  - destruct o; reflexivity.
  - destruct ka; reflexivity.
Qed.

(* GetPadding: the field's own padding, else the configured one; norm_attr only writes the
   configured one where GetPadding would have fetched it *)
Lemma padarg_norm nm M a :
  padarg_of nm (norm_bmodel M) (norm_attr (c_pad (m_cfg M)) a) = padarg_of nm M a.
Proof.
  unfold padarg_of. cbn [norm_bmodel m_cfg].
  destruct a as [t|k pd| |tg t|alg t|i pn r o|k ka ps|]; cbn [norm_attr]; try reflexivity.
  - destruct pd as [pd|]; [reflexivity|]. destruct (c_pad (m_cfg M)); reflexivity.
  - destruct o; reflexivity.
  - destruct ka; reflexivity.
Qed.

Lemma padarg_fixed nm M k pd :
  padarg_of nm (norm_bmodel M) (AFixed k (match pd with Some _ => pd | None => c_pad (m_cfg M) end)) =
  padarg_of nm M (AFixed k pd).
Proof. exact (padarg_norm nm M (AFixed k pd)). Qed.

Lemma index_where_nf cp pred fs : forall i, index_where pred (map (nf cp) fs) i = index_where pred fs i.
Proof.
  induction fs as [|f fs IH]; intros i; [reflexivity|]. cbn [map index_where]. rewrite nf_name, IH. reflexivity.
Qed.

Lemma len_field_index_np cp p : len_field_index (norm_packet cp p) = len_field_index p.
Proof. unfold len_field_index. rewrite np_lenf, np_fields. destruct (p_lenf p); [apply index_where_nf|reflexivity]. Qed.

Lemma registrations_nf cp same fs : registrations same (map (nf cp) fs) = registrations same fs.
Proof.
  induction fs as [|f fs IH]; [reflexivity|]. cbn [map registrations]. rewrite nf_attr, IH.
  destruct (f_attr f) as [t|k pd| |tg t|alg t|i pn r o|k ka ps|]; cbn [norm_attr]; try reflexivity.
  - destruct o; reflexivity.
  - destruct ka; reflexivity.
Qed.

Lemma nth_error_nf cp fs i : nth_error (map (nf cp) fs) i = option_map (nf cp) (nth_error fs i).
Proof. apply nth_error_map. Qed.

(* ---- the packets of a model ---- *)

Definition npair (cp : option padding) (x : string * packet) : string * packet := (fst x, norm_packet cp (snd x)).

Lemma inline_children_nf cp fs :
  inline_children (map (nf cp) fs) = map (npair cp) (inline_children fs).
Proof.
  induction fs as [|f fs IH]; [reflexivity|]. destruct f as [n a la rp].
  destruct a as [t|k pd| |tg t|alg t|i pn r o|k ka ps|]; try exact IH.
  - destruct i; [|destruct o; exact IH]. destruct o as [q|]; [|exact IH].
    cbn [map inline_children]. unfold nf at 1. cbn [f_name f_attr f_len f_rep norm_attr inline_children].
    rewrite IH. reflexivity.
  - destruct ka; exact IH.
Qed.

Lemma packets_under_norm cp : forall k path p, psize p <= k ->
  packets_under path (norm_packet cp p) = map (npair cp) (packets_under path p).
Proof.
  induction k as [|k IH]; intros path p Hk; [destruct p; cbn [psize] in Hk; lia|].
  rewrite !packets_under_unfold, np_fields, inline_children_nf, map_app. cbn [map]. f_equal.
  rewrite map_flat_map, flat_map_concat_map, map_map, <- flat_map_concat_map.
  apply flat_map_ext_in'. intros [fname q] Hin. cbn [npair fst snd].
  apply IH. pose proof (psize_child p fname q Hin). lia.
Qed.

Lemma all_packets_norm M :
  all_packets (norm_bmodel M) = map (npair (c_pad (m_cfg M))) (all_packets M).
Proof.
  unfold all_packets. cbn [norm_bmodel m_packets].
  rewrite map_flat_map, flat_map_concat_map, map_map, <- flat_map_concat_map.
  apply flat_map_ext_in'. intros p _. rewrite np_name. apply (packets_under_norm _ (psize p)). lia.
Qed.

(* numbered lists *)
Lemma flat_map_number_map {A B C} (g : A -> B) (h : nat -> B -> list C) (h' : nat -> A -> list C) :
  (forall i x, h i (g x) = h' i x) ->
  forall l i, flat_map (fun '(i, x) => h i x) (FP.Common.number i (map g l)) =
              flat_map (fun '(i, x) => h' i x) (FP.Common.number i l).
Proof.
  intros H. induction l as [|x l IH]; intros i; [reflexivity|].
  cbn [map FP.Common.number flat_map]. rewrite H, IH. reflexivity.
Qed.

Lemma map_number_map {A B C} (g : A -> B) (h : nat -> B -> C) (h' : nat -> A -> C) :
  (forall i x, h i (g x) = h' i x) ->
  forall l i, map (fun '(i, x) => h i x) (FP.Common.number i (map g l)) =
              map (fun '(i, x) => h' i x) (FP.Common.number i l).
Proof.
  intros H. induction l as [|x l IH]; intros i; [reflexivity|].
  cbn [map FP.Common.number]. rewrite H, IH. reflexivity.
Qed.

(* ================================================================== 4. Go *)

Ltac npj M :=
  change (lcamel (norm_bmodel M)) with (lcamel M);
  change (camel (norm_bmodel M)) with (camel M);
  change (snake (norm_bmodel M)) with (snake M);
  change (le_of (norm_bmodel M)) with (le_of M);
  change (cfg_list_w (norm_bmodel M)) with (cfg_list_w M);
  change (cfg_str_w (norm_bmodel M)) with (cfg_str_w M);
  change (m_cfg (norm_bmodel M)) with (m_cfg M);
  change (m_root (norm_bmodel M)) with (m_root M);
  change (m_names (norm_bmodel M)) with (m_names M).

(* case analysis on an attribute, down to what norm_attr looks at *)
Ltac dattr a :=
  let o := fresh "o" in let ka := fresh "ka" in
  destruct a as [?t|?k ?pd| |?tg ?t|?alg ?t|?i ?pn ?r o|?k ka ?ps|];
  [ | | | | |destruct o|destruct ka| ]; cbn [norm_attr].

Ltac fin :=
  rewrite ?index_where_nf, ?registrations_nf; try reflexivity;
  repeat (match goal with |- context [match ?x with _ => _ end] => is_var x; destruct x end;
          rewrite ?index_where_nf, ?registrations_nf; try reflexivity).

Ltac fin_with tac :=
  tac; rewrite ?index_where_nf, ?registrations_nf; try reflexivity;
  repeat (match goal with |- context [match ?x with _ => _ end] => destruct x end;
          tac; rewrite ?index_where_nf, ?registrations_nf; try reflexivity).

Section GoNorm.
  Variable M : bmodel.
  Local Notation cp := (c_pad (m_cfg M)).
  Local Notation M' := (norm_bmodel M).

  Lemma go_enc_list_norm path f : go_enc_list M' path (nf cp f) = go_enc_list M path f.
  Proof.
    unfold go_enc_list, go_scalar, go_pad. rewrite nf_attr, wof_nf, obj_path_nf, padarg_norm. npj M.
    dattr (f_attr f); reflexivity.
  Qed.

  Lemma go_enc_field_norm path p i f :
    go_enc_field M' path (norm_packet cp p) i (nf cp f) = go_enc_field M path p i f.
  Proof.
    unfold go_enc_field, go_scalar, go_pad, FP.Go.lc_index.
    rewrite nf_attr, nf_len, nf_name, wof_nf, obj_path_nf, padarg_norm, len_field_index_np, np_fields. npj M.
    rewrite !index_where_nf.
    assert (match len_field_index p with
            | Some li => match nth_error (map (nf cp) (p_fields p)) li with
                         | Some lf => opt_w (width_of_field lf) | None => 0%nat end
            | None => 0%nat end =
            match len_field_index p with
            | Some li => match nth_error (p_fields p) li with
                         | Some lf => opt_w (width_of_field lf) | None => 0%nat end
            | None => 0%nat end) as ->.
    { destruct (len_field_index p) as [li|]; [|reflexivity]. rewrite nth_error_nf.
      destruct (nth_error (p_fields p) li); cbn [option_map]; [rewrite wof_nf|]; reflexivity. }
    destruct (f_len f); dattr (f_attr f); fin.
  Qed.

  Lemma go_enc_step_norm path p i f :
    go_enc_step M' path (norm_packet cp p) i (nf cp f) = go_enc_step M path p i f.
  Proof.
    unfold go_enc_step. rewrite nf_rep, go_enc_list_norm, go_enc_field_norm. reflexivity.
  Qed.

  Lemma go_dec_list_norm path f : go_dec_list M' path (nf cp f) = go_dec_list M path f.
  Proof.
    unfold go_dec_list, go_scalar, go_pad. rewrite nf_attr, wof_nf, fgt_nf, obj_path_nf, padarg_norm. npj M.
    dattr (f_attr f); reflexivity.
  Qed.

  Lemma go_dec_field_norm path p f :
    go_dec_field M' path (norm_packet cp p) (nf cp f) = go_dec_field M path p f.
  Proof.
    unfold go_dec_field, go_scalar, go_pad.
    rewrite nf_attr, nf_name, wof_nf, fgt_nf, obj_path_nf, padarg_norm, np_fields. npj M.
    dattr (f_attr f); fin.
  Qed.

  Lemma go_dec_step_norm path p f :
    go_dec_step M' path (norm_packet cp p) (nf cp f) = go_dec_step M path p f.
  Proof.
    unfold go_dec_step. rewrite nf_rep, go_dec_list_norm, go_dec_field_norm. reflexivity.
  Qed.

  Lemma go_ir_norm path p : go_ir M' path (norm_packet cp p) = go_ir M path p.
  Proof.
    unfold go_ir. rewrite np_fields, map_length. f_equal.
    - apply (flat_map_number_map (nf cp) (fun i f => go_enc_step M' path (norm_packet cp p) i f)
                                 (fun i f => go_enc_step M path p i f)).
      intros i f. apply go_enc_step_norm.
    - apply (map_number_map (nf cp) (fun i f => (i, go_dec_step M' path (norm_packet cp p) f))
                            (fun i f => (i, go_dec_step M path p f))).
      intros i f. rewrite go_dec_step_norm. reflexivity.
  Qed.

  Theorem gen_go_norm : gen_go (norm_bmodel M) = gen_go M.
  Proof.
    unfold gen_go. rewrite all_packets_norm, map_map. apply map_ext. intros [path p].
    cbn [npair fst snd]. rewrite go_ir_norm. reflexivity.
  Qed.
End GoNorm.

(* a tree walk that emits one pkt_ir per packet (FragCommon.trav) *)
Lemma trav_prog_norm M (ir ir' : string -> packet -> pkt_ir) :
  (forall path p, ir' path (norm_packet (c_pad (m_cfg M)) p) = ir path p) ->
  flat_map (fun p => trav pkt_ir ir' (p_name p) p) (m_packets (norm_bmodel M)) =
  flat_map (fun p => trav pkt_ir ir (p_name p) p) (m_packets M).
Proof.
  intros H. rewrite !trav_all.
  change (flat_map (fun p => packets_under (p_name p) p) (m_packets (norm_bmodel M))) with (all_packets (norm_bmodel M)).
  change (flat_map (fun p => packets_under (p_name p) p) (m_packets M)) with (all_packets M).
  rewrite all_packets_norm, map_map. apply map_ext. intros [path p]. cbn [npair fst snd]. rewrite H. reflexivity.
Qed.

Lemma filter_map_comm {A B} (g : B -> bool) (h : A -> B) l :
  filter g (map h l) = map h (filter (fun x => g (h x)) l).
Proof.
  induction l as [|x l IH]; [reflexivity|]. cbn [map filter]. rewrite IH. destruct (g (h x)); reflexivity.
Qed.

(* ================================================================== 5. Python *)

Section PyNorm.
  Variable M : bmodel.
  Local Notation cp := (c_pad (m_cfg M)).
  Local Notation M' := (norm_bmodel M).

  Lemma py_scalar_nf f : py_scalar M' (nf cp f) = py_scalar M f.
  Proof. unfold py_scalar. rewrite fgt_nf. reflexivity. Qed.

  Lemma py_has_member_nf f : py_has_member M' (nf cp f) = py_has_member M f.
  Proof.
    unfold py_has_member. rewrite nf_rep, nf_attr, py_scalar_nf.
    destruct (f_rep f); [reflexivity|]. dattr (f_attr f); reflexivity.
  Qed.

  Lemma py_members_np p : py_members M' (norm_packet cp p) = map (nf cp) (py_members M p).
  Proof.
    unfold py_members. rewrite np_fields, filter_map_comm. f_equal.
    apply filter_ext. intros f. apply py_has_member_nf.
  Qed.

  Lemma py_sn_index_np p n : FP.Py.sn_index M' (norm_packet cp p) n = FP.Py.sn_index M p n.
  Proof. unfold FP.Py.sn_index. rewrite py_members_np. npj M. rewrite index_where_nf. reflexivity. Qed.

  Lemma py_enc_elem_nf path f : py_enc_elem M' path (nf cp f) = py_enc_elem M path f.
  Proof.
    unfold py_enc_elem, py_pad. rewrite nf_attr, py_scalar_nf, obj_path_nf, padarg_norm. npj M.
    dattr (f_attr f); reflexivity.
  Qed.

  Lemma py_classes_unfold X path p :
    py_classes X path p =
    (flat_map (fun '(fname, q) => py_classes X (path_join path fname) q) (inline_children (p_fields p))
     ++ [(camel X (p_name p), path)])%list.
  Proof.
    destruct p as [n r l fs mfs]. cbn [py_classes p_fields p_name]. f_equal.
    induction fs as [|f fs IH]; [reflexivity|].
    destruct f as [fn a la rp].
    destruct a as [| | | | |iner pn rf inl| |]; try exact IH.
    destruct iner; [|exact IH]. destruct inl as [q|]; [|exact IH].
    cbn [inline_children flat_map]. f_equal. exact IH.
  Qed.

  Lemma py_classes_norm : forall k path p, psize p <= k ->
    py_classes M' path (norm_packet cp p) = py_classes M path p.
  Proof.
    induction k as [|k IH]; intros path p Hk; [destruct p; cbn [psize] in Hk; lia|].
    rewrite !py_classes_unfold, np_fields, np_name, inline_children_nf. npj M. f_equal.
    rewrite flat_map_concat_map, map_map, <- flat_map_concat_map.
    apply flat_map_ext_in'. intros [fname q] Hin. cbn [npair fst snd].
    apply IH. pose proof (psize_child p fname q Hin). lia.
  Qed.

  Lemma py_all_classes_norm : py_all_classes M' = py_all_classes M.
  Proof.
    unfold py_all_classes. cbn [norm_bmodel m_packets].
    rewrite flat_map_concat_map, map_map, <- flat_map_concat_map.
    apply flat_map_ext_in'. intros p _. rewrite np_name. apply (py_classes_norm (psize p)). lia.
  Qed.

  Lemma py_table_np p : py_table M' (norm_packet cp p) = py_table M p.
  Proof. unfold py_table, py_class_ref. rewrite np_mfs, py_all_classes_norm. reflexivity. Qed.

  Lemma py_enc_step_norm path p j f :
    py_enc_step M' path (norm_packet cp p) j (nf cp f) = py_enc_step M path p j f.
  Proof.
    unfold py_enc_step.
    rewrite nf_attr, nf_len, nf_name, nf_rep, py_scalar_nf, py_enc_elem_nf, obj_path_nf,
            len_field_index_np, np_fields, np_lenf, !py_sn_index_np. npj M.
    assert (match len_field_index p with Some li => nth_error (map (nf cp) (p_fields p)) li | None => None end =
            option_map (nf cp) (match len_field_index p with Some li => nth_error (p_fields p) li | None => None end)) as ->.
    { destruct (len_field_index p); [apply nth_error_nf|reflexivity]. }
    assert (match option_map (nf cp) (match len_field_index p with Some li => nth_error (p_fields p) li | None => None end) with
            | Some lf => py_scalar M' lf | None => None end =
            match (match len_field_index p with Some li => nth_error (p_fields p) li | None => None end) with
            | Some lf => py_scalar M lf | None => None end) as ->.
    { destruct (match len_field_index p with Some li => nth_error (p_fields p) li | None => None end);
        cbn [option_map]; [apply py_scalar_nf|reflexivity]. }
    destruct (f_len f); dattr (f_attr f); fin_with ltac:(rewrite ?py_sn_index_np).
  Qed.

  Lemma py_dec_elem_norm path p f :
    py_dec_elem M' path (norm_packet cp p) (nf cp f) = py_dec_elem M path p f.
  Proof.
    unfold py_dec_elem, py_pad. rewrite nf_attr, py_scalar_nf, obj_path_nf, padarg_norm, py_table_np. npj M.
    dattr (f_attr f); fin_with ltac:(rewrite ?py_sn_index_np).
  Qed.

  Lemma py_dec_step_norm path p f :
    py_dec_step M' path (norm_packet cp p) (nf cp f) = py_dec_step M path p f.
  Proof.
    unfold py_dec_step. rewrite nf_name, nf_rep, py_dec_elem_norm, py_sn_index_np. npj M. reflexivity.
  Qed.

  Lemma py_ir_norm path p : py_ir M' path (norm_packet cp p) = py_ir M path p.
  Proof.
    unfold py_ir. rewrite py_members_np, np_fields, map_length, !py_number_eq. f_equal.
    - apply (flat_map_number_map (nf cp) (fun j f => py_enc_step M' path (norm_packet cp p) j f)
                                 (fun j f => py_enc_step M path p j f)).
      intros j f. apply py_enc_step_norm.
    - rewrite map_map. apply map_ext. intros f. apply py_dec_step_norm.
  Qed.

  Theorem gen_py_norm : gen_py (norm_bmodel M) = gen_py M.
  Proof.
    unfold gen_py. npj M. destruct (m_root M); [|reflexivity].
    rewrite (flat_map_ext_in' _ (fun p => trav pkt_ir (py_ir M') (p_name p) p)) by (intros; apply py_packet_trav).
    rewrite (flat_map_ext_in' (fun p => py_packet M (p_name p) p) (fun p => trav pkt_ir (py_ir M) (p_name p) p))
      by (intros; apply py_packet_trav).
    apply trav_prog_norm. apply py_ir_norm.
  Qed.
End PyNorm.

(* ================================================================== 6. C++ *)

Lemma find_field_nf cp n fs : find_field (map (nf cp) fs) n = option_map (nf cp) (find_field fs n).
Proof.
  induction fs as [|f fs IH]; [reflexivity|]. cbn [map find_field]. rewrite nf_name, IH.
  destruct (String.eqb (f_name f) n); reflexivity.
Qed.

Lemma field_map_np cp p n : field_map (norm_packet cp p) n = option_map (nf cp) (field_map p n).
Proof. unfold field_map. rewrite np_fields, <- map_rev. apply find_field_nf. Qed.

Lemma no_width_not_f64 t : ty_width t = None -> String.eqb t "f64" = false.
Proof. intros H. destruct (String.eqb_spec t "f64") as [->|]; [discriminate H|reflexivity]. Qed.

Section CppNorm.
  Variable M : bmodel.
  Local Notation cp := (c_pad (m_cfg M)).
  Local Notation M' := (norm_bmodel M).

  (* Attr.GetType() of the length field: only the method / cast it selects matters *)
  Lemma cpp_gbt_obs le t :
    cpp_meth le (Some (get_basic_type (norm_ty t))) = cpp_meth le (Some (get_basic_type t)) /\
    cpp_cast_w (Some (get_basic_type (norm_ty t))) = cpp_cast_w (Some (get_basic_type t)).
  Proof.
    destruct (gbt_norm_ty t) as [->|[H1 H2]]; [split; reflexivity|].
    unfold cpp_meth, cpp_cast_w, cpp_in_map. rewrite H1, H2, (no_width_not_f64 _ H1), (no_width_not_f64 _ H2).
    split; reflexivity.
  Qed.

  Lemma cpp_agt_obs le a :
    cpp_meth le (attr_get_type (norm_attr cp a)) = cpp_meth le (attr_get_type a) /\
    cpp_cast_w (attr_get_type (norm_attr cp a)) = cpp_cast_w (attr_get_type a).
  Proof.
    dattr a; cbn [attr_get_type]; try (split; reflexivity); apply cpp_gbt_obs.
  Qed.

  Lemma cpp_lc_index_np p n : cpp_lc_index M' (norm_packet cp p) n = cpp_lc_index M p n.
  Proof. unfold cpp_lc_index. rewrite np_fields. npj M. rewrite index_where_nf. reflexivity. Qed.

  Lemma cpp_pos_defined_nf v fs : forall k, cpp_pos_defined M' v (map (nf cp) fs) k = cpp_pos_defined M v fs k.
  Proof.
    induction fs as [|g fs IH]; intros [|k]; try reflexivity.
    cbn [map cpp_pos_defined]. rewrite nf_len, nf_attr, nf_name, IH. npj M. f_equal.
    destruct (f_len g); dattr (f_attr g); reflexivity.
  Qed.

  Lemma cpp_enc_target_norm p i f :
    cpp_enc_target M' (norm_packet cp p) i (nf cp f) = cpp_enc_target M p i f.
  Proof.
    unfold cpp_enc_target.
    rewrite nf_attr, nf_rep, np_lenf, len_field_index_np, np_fields. npj M.
    assert (match norm_attr cp (f_attr f), f_rep f with
            | AMatch _ _ _, false => EDyn
            | _, _ => ENone "-> on a member that is not a pointer"
            end =
            match f_attr f, f_rep f with
            | AMatch _ _ _, false => EDyn
            | _, _ => ENone "-> on a member that is not a pointer"
            end) as ->.
    { dattr (f_attr f); reflexivity. }
    destruct (p_lenf p) as [ln|]; [|reflexivity].
    destruct (len_field_index p) as [li|]; [|reflexivity].
    rewrite nth_error_nf. destruct (nth_error (p_fields p) li) as [lf|]; cbn [option_map]; [|reflexivity].
    rewrite nf_attr, fgt_nf, cpp_lc_index_np, cpp_pos_defined_nf.
    destruct (cpp_agt_obs true (f_attr lf)) as [E1 E2]. rewrite E1, E2. reflexivity.
  Qed.

  Lemma cpp_enc_field_norm path p i f :
    cpp_enc_field M' path (norm_packet cp p) i (nf cp f) = cpp_enc_field M path p i f.
  Proof.
    unfold cpp_enc_field, cpp_pad.
    rewrite cpp_enc_target_norm, nf_attr, nf_len, nf_rep, nf_name, fgt_nf, obj_path_nf, padarg_norm, cpp_lc_index_np. npj M.
    destruct (f_len f); dattr (f_attr f); reflexivity.
  Qed.

  Lemma cpp_field_type_nf f : cpp_field_type (nf cp f) = cpp_field_type f.
  Proof.
    unfold cpp_field_type. rewrite nf_attr, nf_rep, fgt_nf. dattr (f_attr f); reflexivity.
  Qed.

  Lemma cpp_factory_key_types_np p : cpp_factory_key_types (norm_packet cp p) = cpp_factory_key_types p.
  Proof.
    unfold cpp_factory_key_types. rewrite np_mfs. apply map_ext. intros [k v].
    rewrite field_map_np. destruct (field_map p k); cbn [option_map]; [apply cpp_field_type_nf|reflexivity].
  Qed.

  Lemma cpp_dec_field_norm path p f :
    cpp_dec_field M' path (norm_packet cp p) (nf cp f) = cpp_dec_field M path p f.
  Proof.
    unfold cpp_dec_field, cpp_pad, cpp_table.
    rewrite nf_attr, nf_rep, fgt_nf, obj_path_nf, padarg_norm, cpp_factory_key_types_np, np_fields, np_mfs. npj M.
    dattr (f_attr f); fin.
  Qed.

  Lemma cpp_ir_norm path p : cpp_ir M' path (norm_packet cp p) = cpp_ir M path p.
  Proof.
    unfold cpp_ir. rewrite np_fields, map_length, !cpp_number_eq. f_equal.
    - apply (flat_map_number_map (nf cp) (fun i f => cpp_enc_field M' path (norm_packet cp p) i f)
                                 (fun i f => cpp_enc_field M path p i f)).
      intros i f. apply cpp_enc_field_norm.
    - apply (map_number_map (nf cp) (fun i f => (i, cpp_dec_field M' path (norm_packet cp p) f))
                            (fun i f => (i, cpp_dec_field M path p f))).
      intros i f. rewrite cpp_dec_field_norm. reflexivity.
  Qed.

  Theorem gen_cpp_norm : gen_cpp (norm_bmodel M) = gen_cpp M.
  Proof.
    unfold gen_cpp. npj M. destruct (m_root M); [|reflexivity].
    rewrite (flat_map_ext_in' _ (fun p => trav pkt_ir (cpp_ir M') (p_name p) p)) by (intros; apply cpp_packet_trav).
    rewrite (flat_map_ext_in' (fun p => cpp_packet M (p_name p) p) (fun p => trav pkt_ir (cpp_ir M) (p_name p) p))
      by (intros; apply cpp_packet_trav).
    apply trav_prog_norm. apply cpp_ir_norm.
  Qed.
End CppNorm.

(* ================================================================== 7. Rust *)

Lemma flat_map_map {A B C} (g : A -> B) (h : B -> list C) l : flat_map h (map g l) = flat_map (fun x => h (g x)) l.
Proof. induction l as [|x l IH]; [reflexivity|]. cbn [map flat_map]. rewrite IH. reflexivity. Qed.

Section RustNorm.
  Variable M : bmodel.
  Local Notation cp := (c_pad (m_cfg M)).
  Local Notation M' := (norm_bmodel M).

  Lemma rs_tree_norm path p : rs_tree path (norm_packet cp p) = map (npair cp) (rs_tree path p).
  Proof. rewrite !rs_tree_eq. apply (packets_under_norm cp (psize p)). lia. Qed.

  Lemma rs_structs_norm : rs_structs M' = rs_structs M.
  Proof.
    unfold rs_structs. cbn [norm_bmodel m_packets]. rewrite flat_map_map.
    apply flat_map_ext_in'. intros p _. rewrite np_name, rs_tree_norm, map_map.
    apply map_ext. intros [path q]. cbn [npair fst snd]. rewrite np_name. reflexivity.
  Qed.

  Lemma rs_resolve_norm t : rs_resolve M' t = rs_resolve M t.
  Proof. unfold rs_resolve. rewrite rs_structs_norm. reflexivity. Qed.

  Lemma rs_enums_np top : rs_enums (norm_packet cp top) = rs_enums top.
  Proof.
    unfold rs_enums. rewrite np_fields, np_name, flat_map_map. apply flat_map_ext_in'. intros f _.
    rewrite nf_attr, nf_name. dattr (f_attr f); reflexivity.
  Qed.

  Lemma rs_enum_declared_np top n : rs_enum_declared (norm_packet cp top) n = rs_enum_declared top n.
  Proof. unfold rs_enum_declared. rewrite rs_enums_np. reflexivity. Qed.

  Lemma rs_enum_name_np p f : rs_enum_name M' (norm_packet cp p) (nf cp f) = rs_enum_name M p f.
  Proof. unfold rs_enum_name. rewrite np_name, nf_name. reflexivity. Qed.

  Lemma rs_sn_index_np p n : FP.Rust.sn_index M' (norm_packet cp p) n = FP.Rust.sn_index M p n.
  Proof. unfold FP.Rust.sn_index. rewrite np_fields. npj M. rewrite index_where_nf. reflexivity. Qed.

  Lemma rs_pos_defined_nf n fs : forall k, pos_defined M' n (map (nf cp) fs) k = pos_defined M n fs k.
  Proof.
    induction fs as [|g fs IH]; intros [|k]; try reflexivity.
    cbn [map pos_defined]. rewrite nf_attr, nf_name, IH. npj M. f_equal.
    dattr (f_attr g); reflexivity.
  Qed.

  Lemma rs_enc_list_nf f : rs_enc_list M' (nf cp f) = rs_enc_list M f.
  Proof.
    unfold rs_enc_list, rs_pad. rewrite fgt_nf, nf_attr, padarg_norm. npj M.
    destruct (field_get_type f) as [t|]; [|reflexivity]. rewrite rs_resolve_norm.
    dattr (f_attr f); reflexivity.
  Qed.

  Lemma rs_dec_list_nf f : rs_dec_list M' (nf cp f) = rs_dec_list M f.
  Proof.
    unfold rs_dec_list, rs_pad. rewrite fgt_nf, nf_attr, padarg_norm. npj M.
    destruct (field_get_type f) as [t|]; [|reflexivity]. rewrite rs_resolve_norm.
    dattr (f_attr f); reflexivity.
  Qed.

  Lemma rs_enc_step_norm top p i f :
    rs_enc_step M' (norm_packet cp top) (norm_packet cp p) i (nf cp f) = rs_enc_step M top p i f.
  Proof.
    unfold rs_enc_step, rs_pad, rs_enc_scalar.
    rewrite nf_attr, nf_len, nf_rep, nf_name, fgt_nf, rs_enc_list_nf, rs_enum_name_np, rs_enum_declared_np,
            np_lenf, len_field_index_np, np_fields, rs_sn_index_np. npj M.
    destruct (field_get_type f) as [t|]; [|dattr (f_attr f); reflexivity].
    rewrite rs_resolve_norm.
    assert (forall mi inner,
      match p_lenf p with
      | None => [(mi, ENone "panic")]
      | Some ln =>
          match len_field_index p with
          | None => [(mi, ENone "panic")]
          | Some li =>
              match nth_error (map (nf cp) (p_fields p)) li with
              | None => [(mi, ENone "panic")]
              | Some lf =>
                  match field_get_type lf with
                  | None => [(mi, ENone "panic")]
                  | Some lt =>
                      let mark := if pos_defined M' ln (map (nf cp) (p_fields p)) i
                                  then FP.Rust.sn_index M' (norm_packet cp p) ln else undefined_mark in
                      [(mi, ESpan inner mi); (mi, EPatch mark mi (rs_w lt) (le_of M) (rs_w lt) (Some (rs_w lt)))]
                  end
              end
          end
      end =
      match p_lenf p with
      | None => [(mi, ENone "panic")]
      | Some ln =>
          match len_field_index p with
          | None => [(mi, ENone "panic")]
          | Some li =>
              match nth_error (p_fields p) li with
              | None => [(mi, ENone "panic")]
              | Some lf =>
                  match field_get_type lf with
                  | None => [(mi, ENone "panic")]
                  | Some lt =>
                      let mark := if pos_defined M ln (p_fields p) i
                                  then FP.Rust.sn_index M p ln else undefined_mark in
                      [(mi, ESpan inner mi); (mi, EPatch mark mi (rs_w lt) (le_of M) (rs_w lt) (Some (rs_w lt)))]
                  end
              end
          end
      end) as HT.
    { intros mi inner. destruct (p_lenf p) as [ln|]; [|reflexivity].
      destruct (len_field_index p) as [li|]; [|reflexivity].
      rewrite nth_error_nf. destruct (nth_error (p_fields p) li) as [lf|]; cbn [option_map]; [|reflexivity].
      rewrite fgt_nf, rs_pos_defined_nf, rs_sn_index_np. reflexivity. }
    dattr (f_attr f); rewrite ?padarg_fixed, ?HT; reflexivity.
  Qed.

  Lemma rs_dec_step_norm top p f :
    rs_dec_step M' (norm_packet cp top) (norm_packet cp p) (nf cp f) = rs_dec_step M top p f.
  Proof.
    unfold rs_dec_step, rs_pad, rs_dec_scalar.
    rewrite nf_attr, nf_rep, nf_name, fgt_nf, rs_dec_list_nf, rs_enum_name_np, rs_enum_declared_np, rs_sn_index_np. npj M.
    destruct (field_get_type f) as [t|]; [|dattr (f_attr f); reflexivity].
    rewrite rs_resolve_norm.
    assert (forall seen ps, rs_arms M' seen ps = rs_arms M seen ps) as HA.
    { intros seen ps. revert seen. induction ps as [|mp ps IH]; intros seen; [reflexivity|].
      cbn [rs_arms]. rewrite !IH, rs_resolve_norm. reflexivity. }
    dattr (f_attr f); fin_with ltac:(rewrite ?padarg_fixed, ?HA, ?rs_sn_index_np).
  Qed.

  Lemma rs_ir_norm top p : rs_ir M' (norm_packet cp top) (norm_packet cp p) = rs_ir M top p.
  Proof.
    unfold rs_ir. rewrite np_fields, map_length, !rust_number_eq. f_equal.
    - apply (flat_map_number_map (nf cp) (fun i f => rs_enc_step M' (norm_packet cp top) (norm_packet cp p) i f)
                                 (fun i f => rs_enc_step M top p i f)).
      intros i f. apply rs_enc_step_norm.
    - apply (flat_map_number_map (nf cp) (fun (_ : nat) f => rs_dec_step M' (norm_packet cp top) (norm_packet cp p) f)
                                 (fun (_ : nat) f => rs_dec_step M top p f)).
      intros i f. apply rs_dec_step_norm.
  Qed.

  Theorem gen_rust_norm : gen_rust (norm_bmodel M) = gen_rust M.
  Proof.
    unfold gen_rust. cbn [norm_bmodel m_packets]. rewrite flat_map_map.
    apply flat_map_ext_in'. intros top _. rewrite np_name, rs_tree_norm, map_map.
    apply map_ext. intros [path q]. cbn [npair fst snd]. rewrite rs_ir_norm. reflexivity.
  Qed.
End RustNorm.

(* ================================================================== 8. Java *)

Lemma existsb_map {A B} (g : B -> bool) (h : A -> B) l : existsb g (map h l) = existsb (fun x => g (h x)) l.
Proof. induction l as [|x l IH]; [reflexivity|]. cbn [map existsb]. rewrite IH. reflexivity. Qed.

Lemma existsb_ext' {A} (g h : A -> bool) l : (forall x, g x = h x) -> existsb g l = existsb h l.
Proof. intros H. induction l as [|x l IH]; [reflexivity|]. cbn [existsb]. rewrite H, IH. reflexivity. Qed.

Section JavaNorm.
  Variable M : bmodel.
  Local Notation cp := (c_pad (m_cfg M)).
  Local Notation M' := (norm_bmodel M).

  Lemma field_jtype_nf f : field_jtype (nf cp f) = field_jtype f.
  Proof. unfold field_jtype. rewrite fgt_nf. reflexivity. Qed.

  Lemma java_decl_index_np p x : decl_index M' (norm_packet cp p) x = decl_index M p x.
  Proof. unfold decl_index, decl_name. rewrite np_fields. npj M. apply index_where_nf. Qed.

  Lemma java_lc_index_np p n : FP.Java.lc_index M' (norm_packet cp p) n = FP.Java.lc_index M p n.
  Proof. unfold FP.Java.lc_index. rewrite np_fields. npj M. rewrite index_where_nf. reflexivity. Qed.

  Lemma java_ref_name_nf f : FP.Java.ref_name (nf cp f) = FP.Java.ref_name f.
  Proof. unfold FP.Java.ref_name. rewrite nf_attr. dattr (f_attr f); reflexivity. Qed.

  Lemma codec_call_norm path p x elem :
    codec_call M' path (norm_packet cp p) x elem = codec_call M path p x elem.
  Proof.
    unfold codec_call. rewrite java_decl_index_np, np_fields.
    destruct (decl_index M p x) as [j|]; [|reflexivity]. f_equal.
    rewrite nth_error_nf. destruct (nth_error (p_fields p) j) as [fj|]; cbn [option_map]; [|reflexivity].
    rewrite nf_attr, nf_rep, obj_path_nf. dattr (f_attr fj); reflexivity.
  Qed.

  Lemma java_enc_simple_norm path p f elem :
    java_enc_simple M' path (norm_packet cp p) (nf cp f) elem = java_enc_simple M path p f elem.
  Proof.
    unfold java_enc_simple, java_pad, meth, meth_be.
    rewrite nf_attr, nf_name, field_jtype_nf, java_ref_name_nf, padarg_norm, !codec_call_norm, java_decl_index_np. npj M.
    dattr (f_attr f); reflexivity.
  Qed.

  Lemma defines_pos_nf f : defines_pos M' (nf cp f) = defines_pos M f.
  Proof.
    unfold defines_pos. rewrite nf_len, nf_rep, nf_attr, nf_name. npj M.
    destruct (f_len f); destruct (f_rep f); try reflexivity; dattr (f_attr f); reflexivity.
  Qed.

  Lemma pos_defined_before_np p i v : pos_defined_before M' (norm_packet cp p) i v = pos_defined_before M p i v.
  Proof.
    unfold pos_defined_before. rewrite np_fields, firstn_map, existsb_map. apply existsb_ext'.
    intros f. rewrite defines_pos_nf. reflexivity.
  Qed.

  Lemma java_enc_target_norm path p i f :
    java_enc_target M' path (norm_packet cp p) i (nf cp f) = java_enc_target M path p i f.
  Proof.
    unfold java_enc_target, meth.
    rewrite nf_name, codec_call_norm, len_field_index_np, np_fields, np_lenf, pos_defined_before_np,
            java_lc_index_np, java_decl_index_np. npj M.
    assert (match len_field_index p with
            | Some li => match nth_error (map (nf cp) (p_fields p)) li with Some g => field_jtype g | None => jzero end
            | None => jzero end =
            match len_field_index p with
            | Some li => match nth_error (p_fields p) li with Some g => field_jtype g | None => jzero end
            | None => jzero end) as ->.
    { destruct (len_field_index p) as [li|]; [|reflexivity]. rewrite nth_error_nf.
      destruct (nth_error (p_fields p) li); cbn [option_map]; [apply field_jtype_nf|reflexivity]. }
    reflexivity.
  Qed.

  Lemma java_enc_field_norm path p i f :
    java_enc_field M' path (norm_packet cp p) i (nf cp f) = java_enc_field M path p i f.
  Proof.
    unfold java_enc_field, meth.
    rewrite nf_len, nf_attr, nf_name, java_enc_target_norm, java_enc_simple_norm, field_jtype_nf, java_lc_index_np. npj M.
    destruct (f_len f); dattr (f_attr f); reflexivity.
  Qed.

  Lemma java_enc_list_norm path p f :
    java_enc_list M' path (norm_packet cp p) (nf cp f) = java_enc_list M path p f.
  Proof.
    unfold java_enc_list, meth, meth_be, decl_name.
    rewrite nf_len, nf_name, java_enc_simple_norm, java_decl_index_np. npj M. reflexivity.
  Qed.

  Lemma java_enc_step_norm path p i f :
    java_enc_step M' path (norm_packet cp p) i (nf cp f) = java_enc_step M path p i f.
  Proof. unfold java_enc_step. rewrite nf_rep, java_enc_list_norm, java_enc_field_norm. reflexivity. Qed.

  Lemma java_dec_obj_norm path p x cls :
    java_dec_obj M' path (norm_packet cp p) x cls = java_dec_obj M path p x cls.
  Proof.
    unfold java_dec_obj. rewrite java_decl_index_np, np_fields.
    destruct (decl_index M p x) as [j|]; [|reflexivity]. f_equal.
    rewrite nth_error_nf. destruct (nth_error (p_fields p) j) as [fj|]; cbn [option_map]; [|reflexivity].
    rewrite nf_attr, nf_rep, obj_path_nf. dattr (f_attr fj); reflexivity.
  Qed.

  Lemma java_dec_obj_elem_norm path p x cls :
    java_dec_obj_elem M' path (norm_packet cp p) x cls = java_dec_obj_elem M path p x cls.
  Proof.
    unfold java_dec_obj_elem. rewrite java_decl_index_np, np_fields.
    destruct (decl_index M p x) as [j|]; [|reflexivity]. f_equal.
    rewrite nth_error_nf. destruct (nth_error (p_fields p) j) as [fj|]; cbn [option_map]; [|reflexivity].
    rewrite nf_attr, nf_rep, obj_path_nf. dattr (f_attr fj); reflexivity.
  Qed.

  Lemma java_regs_np p fac : java_regs M' (norm_packet cp p) fac = java_regs M p fac.
  Proof.
    unfold java_regs. rewrite np_fields, flat_map_map. apply flat_map_ext_in'. intros f _.
    rewrite nf_attr, nf_name. npj M. dattr (f_attr f); reflexivity.
  Qed.

  Lemma is_match_member_np p j : is_match_member (norm_packet cp p) j = is_match_member p j.
  Proof.
    unfold is_match_member. rewrite np_fields, nth_error_nf.
    destruct (nth_error (p_fields p) j) as [fj|]; cbn [option_map]; [|reflexivity].
    rewrite nf_attr. dattr (f_attr fj); reflexivity.
  Qed.

  Lemma java_dec_match_norm p f key :
    java_dec_match M' (norm_packet cp p) (nf cp f) key = java_dec_match M p f key.
  Proof.
    unfold java_dec_match, decl_name. rewrite nf_name, java_decl_index_np. npj M.
    destruct (decl_index M p (strcase_lower_camel (camel M (f_name f)))) as [j|]; [|reflexivity]. f_equal.
    destruct key as [k|]; [|reflexivity].
    rewrite java_decl_index_np, is_match_member_np, java_regs_np. reflexivity.
  Qed.

  Lemma java_dec_field_norm path p f :
    java_dec_field M' path (norm_packet cp p) (nf cp f) = java_dec_field M path p f.
  Proof.
    unfold java_dec_field, java_pad, meth, decl_name.
    rewrite nf_attr, nf_name, field_jtype_nf, java_ref_name_nf, padarg_norm, !java_dec_obj_norm,
            java_decl_index_np. npj M.
    dattr (f_attr f); rewrite ?java_dec_match_norm; reflexivity.
  Qed.

  Lemma java_dec_list_norm path p f :
    java_dec_list M' path (norm_packet cp p) (nf cp f) = java_dec_list M path p f.
  Proof.
    unfold java_dec_list, java_pad, meth, decl_name.
    rewrite nf_attr, nf_name, field_jtype_nf, java_ref_name_nf, padarg_norm, !java_dec_obj_elem_norm,
            !java_decl_index_np. npj M.
    dattr (f_attr f); reflexivity.
  Qed.

  Lemma java_dec_step_norm path p f :
    java_dec_step M' path (norm_packet cp p) (nf cp f) = java_dec_step M path p f.
  Proof. unfold java_dec_step. rewrite nf_rep, java_dec_list_norm, java_dec_field_norm. reflexivity. Qed.

  Lemma java_ir_norm path p : java_ir M' path (norm_packet cp p) = java_ir M path p.
  Proof.
    unfold java_ir. rewrite np_fields, map_length, !java_number_eq. f_equal.
    - apply (flat_map_number_map (nf cp) (fun i f => java_enc_step M' path (norm_packet cp p) i f)
                                 (fun i f => java_enc_step M path p i f)).
      intros i f. apply java_enc_step_norm.
    - apply (map_number_map (nf cp) (fun (_ : nat) f => java_dec_step M' path (norm_packet cp p) f)
                            (fun (_ : nat) f => java_dec_step M path p f)).
      intros i f. apply java_dec_step_norm.
  Qed.

  Theorem gen_java_norm : gen_java (norm_bmodel M) = gen_java M.
  Proof.
    unfold gen_java.
    rewrite (flat_map_ext_in' _ (fun p => trav pkt_ir (java_ir M') (p_name p) p)) by (intros; apply java_packet_trav).
    rewrite (flat_map_ext_in' (fun p => java_packet M (p_name p) p) (fun p => trav pkt_ir (java_ir M) (p_name p) p))
      by (intros; apply java_packet_trav).
    apply trav_prog_norm. apply java_ir_norm.
  Qed.
End JavaNorm.

(* ================================================================== 9. Lua dissector *)

Lemma find_packet_norm cp ps n :
  find_packet (map (norm_packet cp) ps) n = option_map (norm_packet cp) (find_packet ps n).
Proof.
  induction ps as [|p ps IH]; [reflexivity|]. cbn [map find_packet]. rewrite np_name, IH.
  destruct (String.eqb (p_name p) n); reflexivity.
Qed.

Section LuaNorm.
  Variable M : bmodel.
  Local Notation cp := (c_pad (m_cfg M)).
  Local Notation M' := (norm_bmodel M).

  Lemma lookup_packet_norm n : lookup_packet M' n = option_map (norm_packet cp) (lookup_packet M n).
  Proof. unfold lookup_packet. cbn [norm_bmodel m_packets]. apply find_packet_norm. Qed.

  Lemma gtype_nf f : gtype (nf cp f) = gtype f.
  Proof. unfold gtype. rewrite fgt_nf. reflexivity. Qed.

  Lemma ref_packet_norm a : ref_packet M' (norm_attr cp a) = option_map (norm_packet cp) (ref_packet M a).
  Proof.
    unfold ref_packet. dattr a; try reflexivity.
    - destruct i; [reflexivity|]. destruct r; [apply lookup_packet_norm|reflexivity].
    - destruct i; [reflexivity|]. destruct r; [apply lookup_packet_norm|reflexivity].
  Qed.

  Lemma lua_ref_name_norm a : FP.Lua.ref_name (norm_attr cp a) = FP.Lua.ref_name a.
  Proof.
    unfold FP.Lua.ref_name. dattr a; try reflexivity.
    destruct i; [rewrite np_name|]; reflexivity.
  Qed.

  Lemma lua_field_name_np p f : lua_field_name M' (norm_packet cp p) (nf cp f) = lua_field_name M p f.
  Proof. unfold lua_field_name. rewrite np_name, nf_name. reflexivity. Qed.

  Lemma field_defs_norm : forall fuel p, field_defs M' fuel (norm_packet cp p) = field_defs M fuel p.
  Proof.
    induction fuel as [|fuel IH]; intros p; [reflexivity|].
    cbn [field_defs]. rewrite np_fields, flat_map_map. apply flat_map_ext_in'. intros f _.
    rewrite lua_field_name_np, nf_attr, gtype_nf.
    assert (match ref_packet M' (norm_attr cp (f_attr f)) with Some q => field_defs M' fuel q | None => [] end =
            match ref_packet M (f_attr f) with Some q => field_defs M fuel q | None => [] end) as HR.
    { rewrite ref_packet_norm. destruct (ref_packet M (f_attr f)); cbn [option_map]; [apply IH|reflexivity]. }
    revert HR. dattr (f_attr f); intros HR; rewrite ?HR; reflexivity.
  Qed.

  Lemma prefix_stmts_nf tree prefix var label f :
    prefix_stmts M' tree prefix var label (nf cp f) = prefix_stmts M tree prefix var label f.
  Proof. unfold prefix_stmts, lua_meth. rewrite gtype_nf. npj M. reflexivity. Qed.

  Lemma local_stmts_nf f : local_stmts M' (nf cp f) = local_stmts M f.
  Proof.
    unfold local_stmts, lua_meth. rewrite nf_attr, nf_name, gtype_nf. npj M. dattr (f_attr f); reflexivity.
  Qed.

  Lemma field_stmts_norm tree p f :
    field_stmts M' tree (norm_packet cp p) (nf cp f) = field_stmts M tree p f.
  Proof.
    unfold field_stmts, len_name.
    rewrite lua_field_name_np, nf_attr, nf_name, nf_rep, gtype_nf, prefix_stmts_nf, lua_ref_name_norm. npj M.
    dattr (f_attr f); reflexivity.
  Qed.

  Lemma list_stmts_norm tree p f :
    list_stmts M' tree (norm_packet cp p) (nf cp f) = list_stmts M tree p f.
  Proof.
    unfold list_stmts, size_name.
    rewrite field_stmts_norm, lua_field_name_np, nf_attr, nf_name, prefix_stmts_nf. npj M.
    dattr (f_attr f); reflexivity.
  Qed.

  Lemma is_match_key_np f p : is_match_key (nf cp f) (norm_packet cp p) = is_match_key f p.
  Proof.
    unfold is_match_key. rewrite np_fields, existsb_map, nf_name. apply existsb_ext'. intros g.
    rewrite nf_attr. dattr (f_attr g); reflexivity.
  Qed.

  Lemma packet_stmts_norm tree p : packet_stmts M' tree (norm_packet cp p) = packet_stmts M tree p.
  Proof.
    unfold packet_stmts. rewrite np_fields, flat_map_map. apply flat_map_ext_in'. intros f _.
    rewrite is_match_key_np, gtype_nf, local_stmts_nf, nf_rep, list_stmts_norm, field_stmts_norm. reflexivity.
  Qed.

  Lemma sub_dissectors_unfold X p :
    sub_dissectors X p =
    (flat_map (fun '(_, q) => sub_dissectors X q) (inline_children (p_fields p))
     ++ [mkFun ("dissect_" ++ snake X (p_name p)) true
               (LSubtree "tree" 1 (p_name p)
                :: (match p_fields p with
                    | [] => [LAppendText "subtree"]
                    | _ => packet_stmts X "subtree" p
                    end)
                ++ [LReturnOffset])])%list.
  Proof.
    destruct p as [n r l fs mfs]. cbn [sub_dissectors p_fields p_name]. f_equal.
    induction fs as [|f fs IH]; [reflexivity|].
    destruct f as [fn a la rp].
    destruct a as [| | | | |iner pn rf inl| |]; try exact IH.
    destruct iner; [|exact IH]. destruct inl as [q|]; [|exact IH].
    cbn [inline_children flat_map]. f_equal. exact IH.
  Qed.

  Lemma sub_dissectors_norm : forall k p, psize p <= k ->
    sub_dissectors M' (norm_packet cp p) = sub_dissectors M p.
  Proof.
    induction k as [|k IH]; intros p Hk; [destruct p; cbn [psize] in Hk; lia|].
    rewrite !sub_dissectors_unfold, packet_stmts_norm, np_fields, np_name, inline_children_nf. npj M. f_equal.
    - rewrite flat_map_map. apply flat_map_ext_in'. intros [fname q] Hin. cbn [npair fst snd].
      apply IH. pose proof (psize_child p fname q Hin). lia.
    - destruct (p_fields p); reflexivity.
  Qed.

  Lemma root_inline_norm root : root_inline M' (norm_packet cp root) = root_inline M root.
  Proof.
    unfold root_inline. rewrite np_fields, flat_map_map. apply flat_map_ext_in'. intros f _.
    rewrite nf_attr. dattr (f_attr f); try reflexivity.
    destruct i; [|reflexivity]. apply (sub_dissectors_norm (psize p)). lia.
  Qed.

  Theorem gen_lua_norm : gen_lua (norm_bmodel M) = gen_lua M.
  Proof.
    unfold gen_lua, gen_lua_opt. npj M. destruct (m_root M) as [rn|]; [|reflexivity].
    rewrite lookup_packet_norm. destruct (lookup_packet M rn) as [root|]; cbn [option_map]; [|reflexivity].
    rewrite root_inline_norm, packet_stmts_norm. cbn [norm_bmodel m_packets]. rewrite !flat_map_map.
    f_equal; [|f_equal].
    - apply flat_map_ext_in'. intros p _. apply field_defs_norm.
    - apply flat_map_ext_in'. intros p _. rewrite np_root.
      destruct (p_root p); [reflexivity|]. apply (sub_dissectors_norm (psize p)). lia.
  Qed.
End LuaNorm.

(* ================================================================== 10. all targets; C08 *)

Theorem gen_norm l M : gen_of l (norm_bmodel M) = gen_of l M.
Proof.
  destruct l; cbn [gen_of];
    [apply gen_go_norm|apply gen_py_norm|apply gen_cpp_norm|apply gen_rust_norm|apply gen_java_norm].
Qed.

(* What same_meaning compares: the normalised views built with the EMPTY strcase table
   (to_bmodel = to_bmodel_names []).  bmodel_eqb does not look at m_names, and the table is an
   input given to both sides (the real strcase library applied to the identifiers of a
   model; same packets and fields, same identifiers), so the conclusion holds for every
   table [names] given to both. *)
Lemma norm_to_bmodel_names names r :
  norm_bmodel (FP.Visitor.to_bmodel_names names r) =
  mkModel (m_cfg (norm_bmodel (FP.Visitor.to_bmodel r))) (m_packets (norm_bmodel (FP.Visitor.to_bmodel r)))
          (m_map_keys (norm_bmodel (FP.Visitor.to_bmodel r))) (m_root (norm_bmodel (FP.Visitor.to_bmodel r))) names.
Proof. reflexivity. Qed.

Theorem same_meaning_same_norm names a b :
  same_meaning a b = true ->
  norm_bmodel (FP.Visitor.to_bmodel_names names a) = norm_bmodel (FP.Visitor.to_bmodel_names names b).
Proof.
  unfold same_meaning. destruct (FP.Visitor.r_diags a); [|discriminate].
  destruct (FP.Visitor.r_diags b); [|discriminate].
  intros H. apply bmodel_eqb_sound in H. destruct H as (H1 & H2 & H3 & H4).
  rewrite !norm_to_bmodel_names, H1, H2, H3, H4. reflexivity.
Qed.

(* same_meaning also says that neither side has a diagnostic *)
Lemma same_meaning_no_diags a b :
  same_meaning a b = true -> FP.Visitor.r_diags a = [] /\ FP.Visitor.r_diags b = [].
Proof.
  unfold same_meaning. destruct (FP.Visitor.r_diags a); [|discriminate].
  destruct (FP.Visitor.r_diags b); [|discriminate]. split; reflexivity.
Qed.

Theorem C08_same_meaning_same_code : forall l names a b,
  same_meaning a b = true ->
  gen_of l (FP.Visitor.to_bmodel_names names a) = gen_of l (FP.Visitor.to_bmodel_names names b).
Proof.
  intros l names a b H.
  rewrite <- (gen_norm l (FP.Visitor.to_bmodel_names names a)), <- (gen_norm l (FP.Visitor.to_bmodel_names names b)).
  rewrite (same_meaning_same_norm names a b H). reflexivity.
Qed.

Corollary C08_same_meaning_same_code_go : forall names a b, same_meaning a b = true ->
  gen_go (FP.Visitor.to_bmodel_names names a) = gen_go (FP.Visitor.to_bmodel_names names b).
Proof. intros names a b H. exact (C08_same_meaning_same_code LGo names a b H). Qed.
Corollary C08_same_meaning_same_code_py : forall names a b, same_meaning a b = true ->
  gen_py (FP.Visitor.to_bmodel_names names a) = gen_py (FP.Visitor.to_bmodel_names names b).
Proof. intros names a b H. exact (C08_same_meaning_same_code LPy names a b H). Qed.
Corollary C08_same_meaning_same_code_cpp : forall names a b, same_meaning a b = true ->
  gen_cpp (FP.Visitor.to_bmodel_names names a) = gen_cpp (FP.Visitor.to_bmodel_names names b).
Proof. intros names a b H. exact (C08_same_meaning_same_code LCpp names a b H). Qed.
Corollary C08_same_meaning_same_code_rust : forall names a b, same_meaning a b = true ->
  gen_rust (FP.Visitor.to_bmodel_names names a) = gen_rust (FP.Visitor.to_bmodel_names names b).
Proof. intros names a b H. exact (C08_same_meaning_same_code LRust names a b H). Qed.
Corollary C08_same_meaning_same_code_java : forall names a b, same_meaning a b = true ->
  gen_java (FP.Visitor.to_bmodel_names names a) = gen_java (FP.Visitor.to_bmodel_names names b).
Proof. intros names a b H. exact (C08_same_meaning_same_code LJava names a b H). Qed.

Theorem C08_same_meaning_same_code_lua : forall names a b, same_meaning a b = true ->
  gen_lua (FP.Visitor.to_bmodel_names names a) = gen_lua (FP.Visitor.to_bmodel_names names b).
Proof.
  intros names a b H.
  rewrite <- (gen_lua_norm (FP.Visitor.to_bmodel_names names a)), <- (gen_lua_norm (FP.Visitor.to_bmodel_names names b)).
  rewrite (same_meaning_same_norm names a b H). reflexivity.
Qed.

(* on visitor outcomes: same_meaning_o holds only of two runs that both end without panic *)
Corollary C08_same_meaning_o_same_code : forall l names x y,
  same_meaning_o x y = true ->
  exists a b, x = FP.Visitor.VOk a /\ y = FP.Visitor.VOk b /\
              gen_of l (FP.Visitor.to_bmodel_names names a) = gen_of l (FP.Visitor.to_bmodel_names names b) /\
              gen_lua (FP.Visitor.to_bmodel_names names a) = gen_lua (FP.Visitor.to_bmodel_names names b).
Proof.
  intros l names [a|sx] [b|sy] H; cbn [same_meaning_o] in H; try discriminate.
  exists a, b. repeat split; [apply C08_same_meaning_same_code|apply C08_same_meaning_same_code_lua]; exact H.
Qed.

Print Assumptions bmodel_eqb_sound.
Print Assumptions bmodel_eqb_sound_names.
Print Assumptions bmodel_eqb_not_exact.
Print Assumptions bmodel_eqb_complete.
Print Assumptions gen_go_norm.
Print Assumptions gen_py_norm.
Print Assumptions gen_cpp_norm.
Print Assumptions gen_rust_norm.
Print Assumptions gen_java_norm.
Print Assumptions gen_lua_norm.
Print Assumptions gen_norm.
Print Assumptions same_meaning_same_norm.
Print Assumptions C08_same_meaning_same_code.
Print Assumptions C08_same_meaning_same_code_go.
Print Assumptions C08_same_meaning_same_code_py.
Print Assumptions C08_same_meaning_same_code_cpp.
Print Assumptions C08_same_meaning_same_code_rust.
Print Assumptions C08_same_meaning_same_code_java.
Print Assumptions C08_same_meaning_same_code_lua.
Print Assumptions C08_same_meaning_o_same_code.

(* not vacuous: norm_bmodel does rewrite models (alias spelling, padding left to the default) *)
Example norm_bmodel_changes :
  let M := mkModel (mkCfg "u16" "u16" "" "" "" false (Some (mkPad "' '" false)))
                   [mkPacket "P" true None [mkField "a" (ABasic "uint16") LNone false;
                                            mkField "b" (AFixed 4 None) LNone false] []]
                   ["P"] (Some "P") [] in
  norm_bmodel M <> M /\
  m_packets (norm_bmodel M) =
    [mkPacket "P" true None [mkField "a" (ABasic "u16") LNone false;
                             mkField "b" (AFixed 4 (Some (mkPad "' '" false))) LNone false] []].
Proof. split; [intros H; apply (f_equal m_packets) in H; vm_compute in H; discriminate H|vm_compute; reflexivity]. Qed.
Print Assumptions norm_bmodel_changes.
