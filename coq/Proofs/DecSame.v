(* Decoder semantics depends only on the members count and decode steps of each packet. *)
From FP Require Import Validate EqvSoundDec DecRepeat.
Open Scope list_scope.

Definition dec_view (P : prog) := map (fun '(k, ir) => (k, (ir_members ir, ir_dec ir))) P.

Lemma find_ir_view P Q name :
  dec_view P = dec_view Q ->
  match find_ir P name, find_ir Q name with
  | Some a, Some b => ir_members a = ir_members b /\ ir_dec a = ir_dec b
  | None, None => True
  | _, _ => False
  end.
Proof.
  revert Q. induction P as [|[k a] P IH]; intros [|[k' b] Q] H; cbn [dec_view map] in H; try discriminate.
  - exact I.
  - inversion H; subst. cbn [find_ir]. destruct (String.eqb k' name).
    + split; assumption.
    + apply IH. assumption.
Qed.

Lemma sem_dec_view P Q : dec_view P = dec_view Q ->
  forall fuel name rd, sem_dec P fuel name rd = sem_dec Q fuel name rd.
Proof.
  intros H fuel. induction fuel as [|fuel IH]; intros name rd; cbn [sem_dec]; [reflexivity|].
  pose proof (find_ir_view P Q name H) as Hf.
  destruct (find_ir P name) as [a|], (find_ir Q name) as [b|]; try contradiction; [|reflexivity].
  destruct Hf as [Hm Hd]. unfold dec_packet_body. rewrite Hm, Hd.
  assert (Hs : forall steps ms r, dec_steps (sem_dec P fuel) steps ms r = dec_steps (sem_dec Q fuel) steps ms r).
  { intros steps. induction steps as [|[i s] steps IHs]; intros ms r; cbn [dec_steps]; [reflexivity|].
    assert (He : forall s ms r, dec_elem (sem_dec P fuel) s ms r = dec_elem (sem_dec Q fuel) s ms r).
    { clear - IH. intros s. induction s as [w le|n p|pw ple sg|pw ple sg e IHe|ty|tb fw k ue|why]; intros ms r; cbn [dec_elem]; try reflexivity.
      - destruct (dec_int pw ple r) as [[n r']|]; [|reflexivity]. destruct (guard_skips sg pw n); [reflexivity|].
        rewrite !dec_repeat_n_eq.
        rewrite (dec_repeat_ext (dec_elem (sem_dec P fuel) e ms) (dec_elem (sem_dec Q fuel) e ms)); [reflexivity|].
        intros r0. apply IHe.
      - apply IH.
      - destruct (nth_error ms k) as [[kv|]|]; try reflexivity.
        destruct (table_lookup tb fw kv); [|reflexivity]. rewrite IH. reflexivity. }
    destruct s; rewrite ?He; try (destruct (dec_elem (sem_dec Q fuel) _ ms r) as [[v r']| |]; try reflexivity; apply IHs).
    apply IHs. }
  rewrite Hs. reflexivity.
Qed.

Lemma ref_dec_view M mk1 mk2 : dec_view (ref_prog M mk1) = dec_view (ref_prog M mk2).
Proof.
  unfold ref_prog, dec_view. rewrite !map_map. apply map_ext. intros [path p]. reflexivity.
Qed.

(* two validated decoders behave identically on every input *)
Theorem validated_decoders_agree M O1 O2 :
  validate_dec M O1 = true -> validate_dec M O2 = true ->
  forall fuel name rd, sem_dec O1 fuel name rd = sem_dec O2 fuel name rd.
Proof.
  unfold validate_dec. intros H1 H2 fuel name rd.
  apply andb_prop in H1. destruct H1 as [_ H1]. apply andb_prop in H2. destruct H2 as [_ H2].
  rewrite (dec_prog_eqv_sound _ _ H1), (dec_prog_eqv_sound _ _ H2).
  apply sem_dec_view. apply ref_dec_view.
Qed.
