(* The lazy decoding loop and the binary take of IR/Sem.v are the unary ones. *)
From Coq Require Import String Ascii NArith PArith List Lia Arith.
From FP Require Import Bytes Sem.
Import ListNotations.
Local Open Scope nat_scope.

Lemma take_n_eq n l : take_n n l = take (N.to_nat n) l.
Proof.
  unfold take_n, take.
  destruct (N.ltb_spec (N.of_nat (length l)) n) as [H|H].
  - destruct (Nat.ltb_spec (length l) (N.to_nat n)) as [H'|H']; [reflexivity|lia].
  - reflexivity.
Qed.

Section Repeat.
  Variable f : list byte -> dres (value * list byte).

  Fixpoint iter_nat (k : nat) (s : rstate) : dres rstate :=
    match k with
    | O => DOk s
    | S k' => rbind (rstep f s) (iter_nat k')
    end.

  Lemma iter_nat_add a : forall b s, iter_nat (a + b) s = rbind (iter_nat a s) (iter_nat b).
  Proof.
    induction a as [|a IH]; intros b s; cbn [iter_nat Nat.add rbind]; [reflexivity|].
    destruct (rstep f s) as [s1| |]; cbn [rbind]; [apply IH|reflexivity|reflexivity].
  Qed.

  Lemma iter_pos_nat p : forall s, iter_pos (rstep f) p s = iter_nat (Pos.to_nat p) s.
  Proof.
    induction p as [p IH|p IH|]; intros s; cbn [iter_pos].
    - rewrite Pos2Nat.inj_xI. replace (S (2 * Pos.to_nat p))%nat with (1 + (Pos.to_nat p + Pos.to_nat p))%nat by lia.
      rewrite iter_nat_add. cbn [iter_nat]. destruct (rstep f s) as [s1| |]; cbn [rbind]; try reflexivity.
      rewrite iter_nat_add, IH. destruct (iter_nat (Pos.to_nat p) s1) as [s2| |]; cbn [rbind]; try reflexivity. apply IH.
    - rewrite Pos2Nat.inj_xO. replace (2 * Pos.to_nat p)%nat with (Pos.to_nat p + Pos.to_nat p)%nat by lia.
      rewrite iter_nat_add, IH. destruct (iter_nat (Pos.to_nat p) s) as [s2| |]; cbn [rbind]; try reflexivity. apply IH.
    - change (Pos.to_nat 1) with 1. cbn [iter_nat]. destruct (rstep f s); reflexivity.
  Qed.

  Lemma dec_repeat_iter k : forall rd acc,
    dec_repeat f k rd acc =
    match iter_nat k (acc, rd) with
    | DOk (acc', rd') => DOk (rev acc', rd')
    | DErr => DErr
    | DCrash => DCrash
    end.
  Proof.
    induction k as [|k IH]; intros rd acc; cbn [dec_repeat iter_nat]; [reflexivity|].
    unfold rstep. cbn [snd fst]. destruct (f rd) as [[v rd']| |]; cbn [rbind]; [apply IH|reflexivity|reflexivity].
  Qed.

  Lemma dec_repeat_n_eq n rd acc : dec_repeat_n f n rd acc = dec_repeat f (N.to_nat n) rd acc.
  Proof.
    rewrite dec_repeat_iter. destruct n as [|p]; cbn [dec_repeat_n N.to_nat iter_nat]; [reflexivity|].
    rewrite iter_pos_nat. reflexivity.
  Qed.
End Repeat.
