(* C08, the first half of the chain: the spelling rewrites of Model/Spelling.v preserve the visitor's result up to
   [same_meaning].  Method: an ERASURE of visitor data (documentation strings, lines, messages; type names
   normalised by [norm_ty]) such that
     - every step of the visitor depends on its inputs only through their erasure,
     - [same_meaning] follows from equal erasures of two results without diagnostics,
     - each rewrite leaves the erasure of what the visitor makes of a declaration unchanged.
   No axiom, no admitted statement. *)
From Coq Require Import String Ascii NArith Bool Arith List Lia.
From FP Require BModel NormGen Lua Frag.
From FP Require Import PT Flatten Visitor VisitorShow Faults NoPanic Spelling VisitorWitnesses VisitorProofs.
Import ListNotations.
Open Scope string_scope.
Open Scope list_scope.

(* ================================================================== induction on visitor data *)
Section VInd.
  Variable Pa : vattr -> Prop.
  Variable Pp : vpacket -> Prop.
  Hypothesis HBasic : forall t, Pa (VABasic t).
  Hypothesis HFixed : forall c, Pa (VAFixed c).
  Hypothesis HDyn : Pa VADyn.
  Hypothesis HLen : forall tg t, Pa (VALen tg t).
  Hypothesis HCheck : forall alg t, Pa (VACheck alg t).
  Hypothesis HObjN : forall i pn r, Pa (VAObj i pn r None).
  Hypothesis HObjS : forall i pn r p, Pp p -> Pa (VAObj i pn r (Some p)).
  Hypothesis HMatch : forall k ps, Pa (VAMatch k ps).
  Hypothesis HNil : Pa VANil.
  Hypothesis HPacket : forall n ro lf fs fm mf ln, Forall (fun f => Pa (vf_attr f)) fs -> Pp (mkVPacket n ro lf fs fm mf ln).

  Fixpoint vattr_ind2 (a : vattr) {struct a} : Pa a :=
    match a as a0 return Pa a0 with
    | VABasic t => HBasic t
    | VAFixed c => HFixed c
    | VADyn => HDyn
    | VALen tg t => HLen tg t
    | VACheck alg t => HCheck alg t
    | VAObj i pn r None => HObjN i pn r
    | VAObj i pn r (Some p) => HObjS i pn r p (vpacket_ind2 p)
    | VAMatch k ps => HMatch k ps
    | VANil => HNil
    end
  with vpacket_ind2 (p : vpacket) {struct p} : Pp p :=
    match p as p0 return Pp p0 with
    | mkVPacket n ro lf fs fm mf ln =>
        HPacket n ro lf fs fm mf ln
          ((fix go (fs : list vfield) : Forall (fun f => Pa (vf_attr f)) fs :=
              match fs as fs0 return Forall (fun f => Pa (vf_attr f)) fs0 with
              | [] => Forall_nil _
              | f :: r =>
                  Forall_cons f
                    (match f as f0 return Pa (vf_attr f0) with mkVField _ a _ _ _ _ _ => vattr_ind2 a end)
                    (go r)
              end) fs)
    end.
End VInd.

(* ================================================================== the erasure *)

Definition nt : string -> string := norm_ty.

Definition E_pair (p : vpair) : vpair := mkVPair (vp_key p) (vp_value p) 0.
Definition E_la (l : vlen) : vlen :=
  match l with VLNone => VLNone | VLLen _ _ => VLLen None "" | VLLenOf _ => VLLenOf "" end.
Definition E_mf (kv : string * list vpair) : string * list vpair := (fst kv, map E_pair (snd kv)).

Fixpoint E_attr (a : vattr) {struct a} : vattr :=
  match a with
  | VABasic t => VABasic (nt t)
  | VALen tg t => VALen tg (nt t)
  | VACheck alg t => VACheck alg (nt t)
  | VAObj i pn r (Some p) => VAObj i pn r (Some (E_packet p))
  | VAMatch k ps => VAMatch k (map E_pair ps)
  | a => a
  end
with E_packet (p : vpacket) {struct p} : vpacket :=
  match p with
  | mkVPacket n ro lf fs fm mf ln =>
      mkVPacket n ro lf
        ((fix go (l : list vfield) : list vfield :=
            match l with
            | [] => []
            | mkVField fn a la rep doc tag fl :: r => mkVField fn (E_attr a) (E_la la) rep "" tag 0 :: go r
            end) fs)
        fm (map E_mf mf) 0
  end.

Definition E_field (f : vfield) : vfield :=
  match f with mkVField fn a la rep doc tag fl => mkVField fn (E_attr a) (E_la la) rep "" tag 0 end.

Lemma E_packet_eq n ro lf fs fm mf ln :
  E_packet (mkVPacket n ro lf fs fm mf ln) = mkVPacket n ro lf (map E_field fs) fm (map E_mf mf) 0.
Proof.
  cbn [E_packet]. f_equal. induction fs as [|f fs IH]; [reflexivity|]. destruct f. cbn [map E_field]. rewrite IH. reflexivity.
Qed.

Definition E_meta (m : vmeta) : vmeta := mkVMeta (vm_name m) (E_attr (vm_attr m)) "" 0.
Definition E_diag (d : diag) : diag := mkDiag 0 (d_kind d) "".

(* field results of the visit of a declaration *)
Definition E_fres (x : res (vfield * list fcell * list diag)) : res (vfield * list fcell * list diag) :=
  match x with
  | ROk (f, st, ds) => ROk (E_field f, st, map E_diag ds)
  | RPanic e => RPanic e
  end.

Lemma E_name f : vf_name (E_field f) = vf_name f. Proof. destruct f; reflexivity. Qed.
Lemma E_attr_of f : vf_attr (E_field f) = E_attr (vf_attr f). Proof. destruct f; reflexivity. Qed.
Lemma E_rep f : vf_rep (E_field f) = vf_rep f. Proof. destruct f; reflexivity. Qed.
Lemma E_la_of f : vf_la (E_field f) = E_la (vf_la f). Proof. destruct f; reflexivity. Qed.
Lemma E_set_attr f a : E_field (set_attr f a) = set_attr (E_field f) (E_attr a). Proof. destruct f; reflexivity. Qed.
Lemma E_set_la f l : E_field (set_la f l) = set_la (E_field f) (E_la l). Proof. destruct f; reflexivity. Qed.
Lemma E_set_tag f t : E_field (set_tag f t) = set_tag (E_field f) t. Proof. destruct f; reflexivity. Qed.

Lemma nt_idem t : nt (nt t) = nt t. Proof. apply NormGen.norm_ty_idem. Qed.

Lemma E_pair_idem p : E_pair (E_pair p) = E_pair p. Proof. reflexivity. Qed.

Lemma map_E_pair_idem ps : map E_pair (map E_pair ps) = map E_pair ps.
Proof. rewrite map_map. reflexivity. Qed.

(* what the visitor asks of an attribute does not see the erasure *)
Lemma E_is_len a : is_len_attr (E_attr a) = is_len_attr a.
Proof. destruct a as [| | | | |i pn r [p|]| |]; reflexivity. Qed.

Lemma E_is_plain a : is_plain_object (E_attr a) = is_plain_object a.
Proof. destruct a as [| | | | |i pn r [p|]| |]; reflexivity. Qed.

Lemma fgt_nt t : field_type_norm (BModel.get_basic_type (nt t)) = nt t.
Proof. change (nt (nt t) = nt t). apply nt_idem. Qed.

Lemma E_get_type a : field_get_type (E_attr a) = field_get_type a.
Proof.
  destruct a as [t|c| |tg t|alg t|i pn r [p|]|k ps|]; cbn [E_attr field_get_type]; try reflexivity; rewrite fgt_nt; reflexivity.
Qed.

Lemma field_get_type_nt a t : field_get_type a = Some t ->
  match a with VABasic _ | VALen _ _ | VACheck _ _ => nt t = t | _ => True end.
Proof.
  destruct a; cbn [field_get_type]; auto; intros H; inversion H; apply nt_idem.
Qed.

(* ================================================================== equal erasures, same meaning *)

Definition field_to_b (store : list fcell) (ctx : list vfield) (f : vfield) : BModel.field :=
  BModel.mkField (vf_name f) (attr_to_b store ctx (vf_attr f)) (b_len (vf_la f)) (vf_rep f).

Lemma packet_to_b_eq store n ro lf fs fm mf ln :
  packet_to_b store (mkVPacket n ro lf fs fm mf ln) =
  BModel.mkPacket n ro (match lf with Some i => option_map vf_name (nth_error fs i) | None => None end)
                  (map (field_to_b store fs) fs) (map (fun kv => (fst kv, b_pairs (snd kv))) (sort_keys mf)).
Proof.
  cbn [packet_to_b]. f_equal. generalize fs at 1 3 as ctx. intros ctx.
  induction fs as [|f fs IH]; [reflexivity|]. destruct f. cbn [map]. rewrite IH. reflexivity.
Qed.

Lemma b_pairs_E ps : b_pairs (map E_pair ps) = b_pairs ps.
Proof. unfold b_pairs. rewrite map_map. reflexivity. Qed.

Lemma b_len_E l : b_len (E_la l) = b_len l. Proof. destruct l; reflexivity. Qed.

Lemma shallow_E store cp a :
  Spelling.norm_attr cp (attr_shallow store (E_attr a)) = Spelling.norm_attr cp (attr_shallow store a) /\
  (attr_shallow store (E_attr a) = BModel.ANil <-> attr_shallow store a = BModel.ANil).
Proof.
  destruct a as [t|c| |tg t|alg t|i pn r [p|]|k ps|]; cbn [E_attr attr_shallow Spelling.norm_attr]; try (split; [reflexivity|tauto]).
  - split; [|split; discriminate]. f_equal. apply nt_idem.
  - split; [|split; discriminate]. f_equal. apply nt_idem.
  - split; [|split; discriminate]. f_equal. apply nt_idem.
  - rewrite b_pairs_E. split; [reflexivity|tauto].
Qed.

Lemma insert_key_map {A B} (g : A -> B) k v (l : list (string * A)) :
  insert_key k (g v) (map (fun kv => (fst kv, g (snd kv))) l) = map (fun kv => (fst kv, g (snd kv))) (insert_key k v l).
Proof.
  induction l as [|[k' v'] l IH]; [reflexivity|]. cbn [map insert_key fst snd]. destruct (String.leb k k'); [reflexivity|].
  cbn [map fst snd]. rewrite IH. reflexivity.
Qed.

Lemma sort_keys_map {A B} (g : A -> B) (l : list (string * A)) :
  sort_keys (map (fun kv => (fst kv, g (snd kv))) l) = map (fun kv => (fst kv, g (snd kv))) (sort_keys l).
Proof.
  unfold sort_keys. induction l as [|[k v] l IH]; [reflexivity|]. cbn [map fold_right fst snd]. rewrite IH. apply insert_key_map.
Qed.

Lemma nb_E store cp :
  (forall a ctx, Spelling.norm_attr cp (attr_to_b store ctx a) = Spelling.norm_attr cp (attr_to_b store (map E_field ctx) (E_attr a))) /\
  (forall p, Spelling.norm_packet cp (packet_to_b store p) = Spelling.norm_packet cp (packet_to_b store (E_packet p))).
Proof.
  set (Pa := fun a => forall ctx, Spelling.norm_attr cp (attr_to_b store ctx a) = Spelling.norm_attr cp (attr_to_b store (map E_field ctx) (E_attr a))).
  set (Pp := fun p => Spelling.norm_packet cp (packet_to_b store p) = Spelling.norm_packet cp (packet_to_b store (E_packet p))).
  assert (H1 : forall t, Pa (VABasic t)). { intros t ctx. cbn. f_equal. symmetry. apply nt_idem. }
  assert (H2 : forall c, Pa (VAFixed c)). { intros c ctx. reflexivity. }
  assert (H3 : Pa VADyn). { intros ctx. reflexivity. }
  assert (H4 : forall tg t, Pa (VALen tg t)). { intros tg t ctx. cbn. f_equal. symmetry. apply nt_idem. }
  assert (H5 : forall alg t, Pa (VACheck alg t)). { intros alg t ctx. cbn. f_equal. symmetry. apply nt_idem. }
  assert (H6 : forall i pn r, Pa (VAObj i pn r None)). { intros i pn r ctx. reflexivity. }
  assert (H7 : forall i pn r p, Pp p -> Pa (VAObj i pn r (Some p))).
  { intros i pn r p IH ctx. unfold Pp in IH. cbn [E_attr attr_to_b Spelling.norm_attr]. rewrite IH. reflexivity. }
  assert (H8 : forall k ps, Pa (VAMatch k ps)).
  { intros k ps ctx. cbn [E_attr attr_to_b]. rewrite b_pairs_E.
    destruct k as [n|i n|]; try reflexivity. rewrite nth_error_map. destruct (nth_error ctx i) as [kf|]; [|reflexivity].
    cbn [option_map]. rewrite E_attr_of. destruct (shallow_E store cp (vf_attr kf)) as [Hn Hnil].
    destruct (attr_shallow store (vf_attr kf)) eqn:Ha; destruct (attr_shallow store (E_attr (vf_attr kf))) eqn:Hb;
      try (exfalso; destruct Hnil as [G1 G2]; (discriminate (G1 eq_refl) || discriminate (G2 eq_refl)));
      cbn [Spelling.norm_attr] in *; try reflexivity; try (rewrite <- Hn; reflexivity); try discriminate. }
  assert (H9 : Pa VANil). { intros ctx. reflexivity. }
  assert (H10 : forall n ro lf fs fm mf ln, Forall (fun f => Pa (vf_attr f)) fs -> Pp (mkVPacket n ro lf fs fm mf ln)).
  { intros n ro lf fs fm mf ln IH. unfold Pp. rewrite E_packet_eq, !packet_to_b_eq, !NormGen.norm_packet_eq.
    cbn [BModel.p_name BModel.p_root BModel.p_lenf BModel.p_fields BModel.p_mfs]. f_equal.
    + destruct lf as [i|]; [|reflexivity]. rewrite nth_error_map. destruct (nth_error fs i) as [f|]; [|reflexivity]. cbn. rewrite E_name. reflexivity.
    + rewrite !map_map.
      assert (G : forall ctx, map (fun x => NormGen.nf cp (field_to_b store ctx x)) fs =
                              map (fun x => NormGen.nf cp (field_to_b store (map E_field ctx) (E_field x))) fs).
      { intros ctx. induction IH as [|f fs Hf Hfs IHfs]; [reflexivity|]. cbn [map]. f_equal; [|exact IHfs].
        unfold NormGen.nf, field_to_b. cbn [BModel.f_name BModel.f_attr BModel.f_len BModel.f_rep].
        rewrite E_name, E_rep, E_la_of, b_len_E, E_attr_of. f_equal. apply Hf. }
      apply G.
    + unfold E_mf. rewrite (sort_keys_map (map E_pair)), map_map. apply map_ext. intros [k v]. cbn. rewrite b_pairs_E. reflexivity. }
  split; [exact (vattr_ind2 Pa Pp H1 H2 H3 H4 H5 H6 H7 H8 H9 H10)|exact (vpacket_ind2 Pa Pp H1 H2 H3 H4 H5 H6 H7 H8 H9 H10)].
Qed.

Definition E_result (r : result) : result :=
  mkResult (r_store r) (map E_meta (r_metas r)) (r_options r) (r_config r) (map E_packet (r_packets r)) (r_root r) (map E_diag (r_diags r)).

Definition E_outcome (o : outcome) : outcome := match o with VOk r => VOk (E_result r) | VPanic e => VPanic e end.

Lemma vk_name_E p : vk_name (E_packet p) = vk_name p. Proof. destruct p; reflexivity. Qed.
Lemma vk_root_E p : vk_root (E_packet p) = vk_root p. Proof. destruct p; reflexivity. Qed.

(* two results without diagnostics and with the same erasure have the same meaning *)
Theorem E_same_meaning r r' :
  r_diags r = [] -> E_result r = E_result r' -> same_meaning r r' = true.
Proof.
  intros Hd He. unfold E_result in He. inversion He as [[Hst Hme Hop Hcf Hpk Hro Hdg]].
  assert (Hd' : r_diags r' = []). { rewrite Hd in Hdg. destruct (r_diags r'); [reflexivity|discriminate]. }
  unfold same_meaning. rewrite Hd, Hd'. apply NormGen.bmodel_eqb_complete. unfold NormGen.same_but_names, norm_bmodel, to_bmodel, to_bmodel_names.
  cbn [BModel.m_cfg BModel.m_packets BModel.m_map_keys BModel.m_root]. rewrite <- Hcf, <- Hst, <- Hro. repeat split.
  - rewrite !map_map.
    transitivity (map (fun q => norm_packet (BModel.c_pad (r_config r)) (packet_to_b (r_store r) q)) (map E_packet (r_packets r))).
    + rewrite map_map. apply map_ext. intros p. apply (proj2 (nb_E _ _)).
    + rewrite Hpk, map_map. apply map_ext. intros p. symmetry. apply (proj2 (nb_E _ _)).
  - assert (Hn : forall ps, map (fun p => (vk_name p, tt)) ps = map (fun p => (vk_name p, tt)) (map E_packet ps)).
    { intros ps. rewrite map_map. apply map_ext. intros p. rewrite vk_name_E. reflexivity. }
    rewrite (Hn (r_packets r)), (Hn (r_packets r')), Hpk. reflexivity.
Qed.

(* ================================================================== the steps of the visitor see their inputs through the erasure *)

Definition Es (s : vst) : vst :=
  mkSt (s_store s) (map E_meta (s_metas s)) (s_options s) (map E_packet (s_packets s)) (s_root s) (map E_diag (s_diags s)).

Lemma E_attr_idem_packet :
  (forall a, E_attr (E_attr a) = E_attr a) /\ (forall p, E_packet (E_packet p) = E_packet p).
Proof.
  set (Pa := fun a => E_attr (E_attr a) = E_attr a). set (Pp := fun p => E_packet (E_packet p) = E_packet p).
  assert (H1 : forall t, Pa (VABasic t)). { intros t. unfold Pa. cbn. rewrite nt_idem. reflexivity. }
  assert (H2 : forall c, Pa (VAFixed c)) by reflexivity.
  assert (H3 : Pa VADyn) by reflexivity.
  assert (H4 : forall tg t, Pa (VALen tg t)). { intros tg t. unfold Pa. cbn. rewrite nt_idem. reflexivity. }
  assert (H5 : forall alg t, Pa (VACheck alg t)). { intros alg t. unfold Pa. cbn. rewrite nt_idem. reflexivity. }
  assert (H6 : forall i pn r, Pa (VAObj i pn r None)) by reflexivity.
  assert (H7 : forall i pn r p, Pp p -> Pa (VAObj i pn r (Some p))). { intros i pn r p IH. unfold Pa, Pp in *. cbn [E_attr]. rewrite IH. reflexivity. }
  assert (H8 : forall k ps, Pa (VAMatch k ps)). { intros k ps. unfold Pa. cbn [E_attr]. rewrite map_E_pair_idem. reflexivity. }
  assert (H9 : Pa VANil) by reflexivity.
  assert (H10 : forall n ro lf fs fm mf ln, Forall (fun f => Pa (vf_attr f)) fs -> Pp (mkVPacket n ro lf fs fm mf ln)).
  { intros n ro lf fs fm mf ln IH. unfold Pp. rewrite !E_packet_eq. f_equal.
    - rewrite map_map. induction IH as [|f fs Hf Hfs IHfs]; [reflexivity|]. cbn [map]. f_equal; [|exact IHfs].
      destruct f as [fn a la rep doc tag fl]. cbn [E_field vf_attr] in *. unfold Pa in Hf. rewrite Hf. destruct la; reflexivity.
    - rewrite map_map. apply map_ext. intros [k v]. unfold E_mf. cbn. rewrite map_E_pair_idem. reflexivity. }
  split; [exact (vattr_ind2 Pa Pp H1 H2 H3 H4 H5 H6 H7 H8 H9 H10)|exact (vpacket_ind2 Pa Pp H1 H2 H3 H4 H5 H6 H7 H8 H9 H10)].
Qed.

Definition E_attr_idem := proj1 E_attr_idem_packet.
Definition E_packet_idem := proj2 E_attr_idem_packet.

Lemma E_field_idem f : E_field (E_field f) = E_field f.
Proof. destruct f as [fn a la rep doc tag fl]. cbn [E_field]. rewrite E_attr_idem. destruct la; reflexivity. Qed.

Lemma E_meta_idem m : E_meta (E_meta m) = E_meta m.
Proof. unfold E_meta. cbn. rewrite E_attr_idem. reflexivity. Qed.

Lemma Es_idem s : Es (Es s) = Es s.
Proof.
  unfold Es. cbn. f_equal; rewrite map_map; apply map_ext; intros x; [apply E_meta_idem|apply E_packet_idem|reflexivity].
Qed.

(* MetaDataMap *)
Lemma find_meta_E ms n : find_meta (map E_meta ms) n = option_map E_meta (find_meta ms n).
Proof.
  induction ms as [|m ms IH]; [reflexivity|]. cbn [map find_meta E_meta vm_name]. destruct (String.eqb n (vm_name m)); [reflexivity|exact IH].
Qed.

Lemma add_diag_E s d : Es (add_diag s d) = add_diag (Es s) (E_diag d).
Proof. unfold Es, add_diag, snoc. cbn. rewrite map_app. reflexivity. Qed.

Lemma add_meta_E s m : Es (add_meta s m) = Es (add_meta (Es s) (E_meta m)).
Proof.
  unfold add_meta. cbn [s_metas Es vm_name E_meta]. rewrite find_meta_E. destruct (find_meta (s_metas s) (vm_name m)); cbn [option_map].
  - rewrite !add_diag_E, Es_idem. reflexivity.
  - unfold Es, snoc. cbn. rewrite !map_app, !map_map. cbn [map]. rewrite E_meta_idem. f_equal.
    + f_equal. apply map_ext. intros x. symmetry. apply E_meta_idem.
    + apply map_ext. intros x. symmetry. apply E_packet_idem.
Qed.

(* two-sided form *)
Lemma add_meta_sim s s' m m' : Es s = Es s' -> E_meta m = E_meta m' -> Es (add_meta s m) = Es (add_meta s' m').
Proof. intros Hs Hm. rewrite (add_meta_E s m), (add_meta_E s' m'), Hs, Hm. reflexivity. Qed.

Lemma add_option_E s n v l l' : Es (add_option s n v l) = Es (add_option (Es s) n v l').
Proof.
  unfold add_option. destruct (alookup option_table n) as [values|]; [|rewrite !add_diag_E, Es_idem; reflexivity].
  assert (H1 : Es (match values with [] => s | _ :: _ => if mem v values then s else add_diag s (mkDiag l DK_OptValue
               ("Option " ++ n ++ " is not allowed to be " ++ v ++ ", Expected one of:" ++ join "," values)%string) end) =
               Es (match values with [] => Es s | _ :: _ => if mem v values then Es s else add_diag (Es s) (mkDiag l' DK_OptValue
               ("Option " ++ n ++ " is not allowed to be " ++ v ++ ", Expected one of:" ++ join "," values)%string) end)).
  { destruct values; [rewrite Es_idem; reflexivity|]. destruct (mem v _); [rewrite Es_idem; reflexivity|]. rewrite !add_diag_E, Es_idem. reflexivity. }
  set (s1 := match values with [] => s | _ => _ end) in *. set (s1' := match values with [] => Es s | _ => _ end) in *.
  assert (Ho : s_options s1 = s_options s1'). { change (s_options s1) with (s_options (Es s1)). rewrite H1. reflexivity. }
  rewrite <- Ho. destruct (alookup (s_options s1) n).
  - rewrite !add_diag_E, H1. reflexivity.
  - assert (Hso : forall x o, Es (set_options x o) = set_options (Es x) o) by reflexivity.
    rewrite !Hso, H1. reflexivity.
Qed.

Lemma add_option_sim s s' n v l l' : Es s = Es s' -> Es (add_option s n v l) = Es (add_option s' n v l').
Proof. intros Hs. rewrite (add_option_E s n v l 0), (add_option_E s' n v l' 0), Hs. reflexivity. Qed.

(* ---- the attribute loop *)
Lemma E_diag_idem d : E_diag (E_diag d) = E_diag d. Proof. reflexivity. Qed.

Lemma apply_attr_E line line' a f store :
  E_fres (apply_attr line a f store) = E_fres (apply_attr line' a (E_field f) store).
Proof.
  destruct a as [sp l|sp c|sp tg|sp p]; cbn [apply_attr]; rewrite ?E_attr_of, ?E_is_plain, ?E_get_type, ?E_name.
  - destruct (is_plain_object (vf_attr f)); [cbn; rewrite E_field_idem; reflexivity|].
    destruct (field_get_type (vf_attr f)) as [t|] eqn:Ht; [|reflexivity]. cbn [E_fres map]. rewrite !E_set_attr, E_field_idem. reflexivity.
  - destruct (is_plain_object (vf_attr f)); [cbn; rewrite E_field_idem; reflexivity|].
    destruct (field_get_type (vf_attr f)) as [t|] eqn:Ht; [|reflexivity]. cbn [E_fres map]. rewrite !E_set_attr, E_field_idem. reflexivity.
  - cbn [E_fres map]. rewrite !E_set_tag, E_field_idem. reflexivity.
  - destruct (vf_attr f) as [| | | | |i pn r [q|]| |]; cbn [E_attr E_fres map]; rewrite E_field_idem; reflexivity.
Qed.

Lemma apply_attr_sim line line' a f f' store :
  E_field f = E_field f' -> E_fres (apply_attr line a f store) = E_fres (apply_attr line' a f' store).
Proof. intros H. rewrite (apply_attr_E line 0 a f store), (apply_attr_E line' 0 a f' store), H. reflexivity. Qed.

Lemma E_fres_inv x y : E_fres x = E_fres y ->
  (exists e, x = RPanic e /\ y = RPanic e) \/
  (exists f st ds f' ds', x = ROk (f, st, ds) /\ y = ROk (f', st, ds') /\ E_field f = E_field f' /\ map E_diag ds = map E_diag ds').
Proof.
  destruct x as [[[f st] ds]|e]; destruct y as [[[f' st'] ds']|e']; cbn [E_fres]; intros H; inversion H; subst.
  - right. exists f, st', ds, f', ds'. auto.
  - left. exists e'. auto.
Qed.

Lemma apply_attrs_sim line line' attrs : forall f f' store,
  E_field f = E_field f' -> E_fres (apply_attrs line attrs f store) = E_fres (apply_attrs line' attrs f' store).
Proof.
  induction attrs as [|a r IH]; intros f f' store H; cbn [apply_attrs]; [cbn; rewrite H; reflexivity|].
  destruct (E_fres_inv _ _ (apply_attr_sim line line' a f f' store H)) as [[e [-> ->]]|[f1 [st1 [ds1 [f1' [ds1' [-> [-> [Hf Hd]]]]]]]]]; [reflexivity|].
  destruct (E_fres_inv _ _ (IH f1 f1' st1 Hf)) as [[e [-> ->]]|[f2 [st2 [ds2 [f2' [ds2' [-> [-> [Hf2 Hd2]]]]]]]]]; [reflexivity|].
  cbn [E_fres]. rewrite !map_app, Hf2, Hd, Hd2. reflexivity.
Qed.

(* ---- VisitFieldDefinition *)

Lemma nt_gbt t : nt (BModel.get_basic_type t) = nt t.
Proof.
  unfold nt. destruct (NormGen.norm_ty_cases t) as [(Hin & H)|[(H1 & H2 & H3)|(H1 & H2 & H3)]].
  - rewrite H. apply (NormGen.consts_fix _ Hin).
  - rewrite H1. reflexivity.
  - rewrite H1. reflexivity.
Qed.

Lemma find_meta_sim metas metas' n :
  map E_meta metas = map E_meta metas' -> option_map E_meta (find_meta metas n) = option_map E_meta (find_meta metas' n).
Proof. intros H. rewrite <- !find_meta_E, H. reflexivity. Qed.

Lemma decl_type_sim metas metas' ty name :
  map E_meta metas = map E_meta metas' -> nt (decl_type metas ty name) = nt (decl_type metas' ty name).
Proof.
  intros H. pose proof (find_meta_sim _ _ name H) as Hf. unfold decl_type. destruct ty as [ty|]; [reflexivity|].
  destruct (find_meta metas name) as [m|]; destruct (find_meta metas' name) as [m'|]; cbn [option_map] in Hf; try discriminate; [|reflexivity].
  inversion Hf as [[Hn Ha]]. destruct (vm_attr m) as [t|c| |tg t|alg t|i pn r [q|]|k ps|]; destruct (vm_attr m') as [t'|c'| |tg' t'|alg' t'|i' pn' r' [q'|]|k' ps'|];
    cbn [E_attr] in Ha; try discriminate; try reflexivity.
  inversion Ha as [Ht]. rewrite !nt_gbt. exact Ht.
Qed.

(* the leaves: every field definition but the inline object *)
Definition is_inline (f : field_def) : bool := match f with InerObjectField _ _ _ _ => true | _ => false end.

Lemma visit_leaf_metas metas metas' f store :
  map E_meta metas = map E_meta metas' -> is_inline f = false ->
  E_fres (visit_field_def metas' f store) = E_fres (visit_field_def metas f store).
Proof.
  intros H Hf. destruct f as [sp rep decl comma|sp rep d|sp rep ft fn doc comma|sp d|sp d|sp d comma]; [discriminate| | | | |]; cbn [visit_field_def].
  - reflexivity.
  - pose proof (find_meta_sim _ _ (p_text ft) H) as Hm.
    destruct (find_meta metas (p_text ft)) as [m|]; destruct (find_meta metas' (p_text ft)) as [m'|]; cbn [option_map] in Hm; try discriminate; [|reflexivity].
    inversion Hm as [[Hn Ha]]. cbn [E_fres E_field map]. rewrite Ha. reflexivity.
  - unfold visit_length_field. cbn [E_fres E_field E_attr map]. rewrite (decl_type_sim _ _ (lf_type d) (p_text (lf_name d)) H). reflexivity.
  - unfold visit_checksum_field. cbn [E_fres E_field E_attr map]. rewrite (decl_type_sim _ _ (ck_type d) (p_text (ck_name d)) H). reflexivity.
  - reflexivity.
Qed.

(* the sub-fields of an inline object *)
Definition E_gres (x : res (list vfield * list fcell * list diag)) : res (list vfield * list fcell * list diag) :=
  match x with
  | ROk (vs, st, ds) => ROk (map E_field vs, st, map E_diag ds)
  | RPanic e => RPanic e
  end.

Lemma last_index_E subs k : forall i acc, last_index (map E_field subs) k i acc = last_index subs k i acc.
Proof. induction subs as [|f subs IH]; intros i acc; [reflexivity|]. cbn [map last_index]. rewrite E_name. apply IH. Qed.

Lemma link_key_E subs f : E_field (link_key subs f) = E_field (link_key (map E_field subs) (E_field f)).
Proof.
  unfold link_key. rewrite E_attr_of.
  destruct (vf_attr f) as [| | | | |i pn r [q|]|k ps|] eqn:Ha; cbn [E_attr]; try (rewrite E_field_idem; reflexivity).
  destruct (fref_name k) as [kn|]; [|rewrite E_field_idem; reflexivity]. rewrite last_index_E.
  destruct (last_index subs kn 0 None) as [j|]; [|rewrite E_field_idem; reflexivity].
  rewrite !E_set_attr, E_field_idem. cbn [E_attr]. rewrite map_E_pair_idem. reflexivity.
Qed.

Lemma link_keys_sim subs subs' :
  map E_field subs = map E_field subs' -> map E_field (map (link_key subs) subs) = map E_field (map (link_key subs') subs').
Proof.
  intros H. rewrite !map_map.
  transitivity (map (fun x => E_field (link_key (map E_field subs) x)) (map E_field subs)).
  - rewrite map_map. apply map_ext. intros x. apply link_key_E.
  - rewrite H, map_map. apply map_ext. intros x. symmetry. apply link_key_E.
Qed.

Lemma inline_key_diags_sim : forall (subs subs' : list vfield) (lines lines' : list nat) names,
  map E_field subs = map E_field subs' -> length lines = length lines' ->
  map E_diag (inline_key_diags (combine subs lines) names) = map E_diag (inline_key_diags (combine subs' lines') names).
Proof.
  induction subs as [|f subs IH]; intros subs' lines lines' names H Hl; destruct subs' as [|f' subs']; try discriminate; [reflexivity|].
  cbn [map] in H. inversion H as [[Hf Hr]]. destruct lines as [|l lines]; destruct lines' as [|l' lines']; try discriminate; [reflexivity|].
  cbn [combine inline_key_diags]. cbn in Hl. inversion Hl as [Hl'].
  assert (Ha : E_attr (vf_attr f) = E_attr (vf_attr f')) by (rewrite <- !E_attr_of, Hf; reflexivity).
  assert (Hn : vf_name f = vf_name f') by (rewrite <- (E_name f), <- (E_name f'), Hf; reflexivity).
  specialize (IH subs' lines lines' names Hr Hl').
  destruct (vf_attr f) as [| | | | |i pn r [q|]|k ps|]; destruct (vf_attr f') as [| | | | |i' pn' r' [q'|]|k' ps'|]; cbn [E_attr] in Ha; try discriminate; try exact IH.
  inversion Ha as [[Hk Hp]]. destruct (fref_name k') as [kn|]; [|exact IH]. destruct (mem kn names); [exact IH|].
  cbn [map]. rewrite IH. reflexivity.
Qed.

(* the rewrites act on field definitions through [map_fd]: at the leaves by a function g that the visit does not see,
   inline objects are kept *)
Definition leaf_ok (g : field_def -> field_def) : Prop :=
  (forall metas metas' f store, map E_meta metas = map E_meta metas' -> is_inline f = false ->
     E_fres (visit_field_def metas' (g f) store) = E_fres (visit_field_def metas f store)) /\
  (forall sp rep d c, g (InerObjectField sp rep d c) = InerObjectField sp rep d c).

Lemma inline_go_sim metas metas' pn (h : field_def -> field_def) fields :
  Forall (fun f => forall store, E_fres (visit_field_def metas' (h f) store) = E_fres (visit_field_def metas f store)) fields ->
  forall store names, E_gres (inline_go metas' pn (map h fields) store names) = E_gres (inline_go metas pn fields store names).
Proof.
  intros Hall. induction Hall as [|x fields Hx Hrest IH]; intros store names; [reflexivity|]. cbn [map inline_go].
  destruct (E_fres_inv _ _ (Hx store)) as [[e [-> ->]]|[v [st1 [ds1 [v' [ds1' [-> [-> [Hv Hd]]]]]]]]]; [reflexivity|].
  assert (Hn : vf_name v = vf_name v') by (rewrite <- (E_name v), <- (E_name v'), Hv; reflexivity). rewrite Hn.
  specialize (IH st1 (vf_name v' :: names)).
  destruct (inline_go metas' pn (map h fields) st1 (vf_name v' :: names)) as [[[vs st2] ds2]|e];
    destruct (inline_go metas pn fields st1 (vf_name v' :: names)) as [[[vs' st2'] ds2']|e']; cbn [E_gres] in IH; try discriminate; [|exact IH].
  inversion IH as [[Hvs Hst Hds]]. cbn [E_gres map]. rewrite !map_app, Hv, Hvs, Hd, Hds. f_equal. f_equal. f_equal. f_equal.
  destruct (mem (vf_name v') names); reflexivity.
Qed.

Theorem map_fd_sim g : leaf_ok g -> forall f metas metas' store,
  map E_meta metas = map E_meta metas' ->
  E_fres (visit_field_def metas' (map_fd g f) store) = E_fres (visit_field_def metas f store).
Proof.
  intros [Hleaf Hinl] f. induction f as [sp rep sp2 n o fields c comma IH|sp rep d|sp rep ft fn doc comma|sp d|sp d|sp d comma]
    using field_def_induction; intros metas metas' store Hm; try (apply Hleaf; [exact Hm|reflexivity]).
  cbn [map_fd]. rewrite Hinl, !visit_inline_unfold.
  assert (Hgo := inline_go_sim metas metas' (p_text n) (map_fd g) fields).
  assert (Hall : Forall (fun f => forall store, E_fres (visit_field_def metas' (map_fd g f) store) = E_fres (visit_field_def metas f store)) fields).
  { eapply Forall_impl; [|exact IH]. intros a Ha st0. apply Ha. exact Hm. }
  specialize (Hgo Hall store []).
  destruct (inline_go metas' (p_text n) (map (map_fd g) fields) store []) as [[[subs' st1'] ds']|e'];
    destruct (inline_go metas (p_text n) fields store []) as [[[subs st1] ds]|e]; cbn [E_gres] in Hgo; try discriminate; [|inversion Hgo; reflexivity].
  inversion Hgo as [[Hsubs Hst Hds]]. cbn [E_fres E_field E_attr]. rewrite E_packet_eq, E_packet_eq. rewrite !map_app, Hds.
  rewrite (link_keys_sim _ _ Hsubs).
  rewrite (inline_key_diags_sim subs' subs (map (fun x => start_line (fd_span x)) (map (map_fd g) fields)) (map (fun x => start_line (fd_span x)) fields)
                                (map vf_name subs') Hsubs) by (rewrite !map_length; reflexivity).
  assert (Hnames : map vf_name subs' = map vf_name subs).
  { transitivity (map vf_name (map E_field subs')); [rewrite map_map; apply map_ext; intros x; symmetry; apply E_name|].
    rewrite Hsubs, map_map. apply map_ext. intros x. apply E_name. }
  rewrite Hnames. reflexivity.
Qed.

Lemma leaf_ok_id : leaf_ok (fun f => f).
Proof. split; [intros metas metas' f store H Hf; apply visit_leaf_metas; assumption|reflexivity]. Qed.

Lemma map_fd_id f : map_fd (fun x => x) f = f.
Proof.
  induction f as [sp rep sp2 n o fields c comma IH| | | | |] using field_def_induction; try reflexivity.
  cbn [map_fd]. f_equal. f_equal. induction IH as [|x xs Hx Hxs IHx]; [reflexivity|]. cbn [map]. rewrite Hx, IHx. reflexivity.
Qed.

(* the visit of a field definition sees the MetaData entries through their erasure *)
Corollary visit_field_def_metas f metas metas' store :
  map E_meta metas = map E_meta metas' -> E_fres (visit_field_def metas' f store) = E_fres (visit_field_def metas f store).
Proof. intros H. rewrite <- (map_fd_id f) at 1. apply (map_fd_sim _ leaf_ok_id). exact H. Qed.

(* ---- the first loop of VisitPacketDefinition *)

Definition Eacc (acc : pacc) : pacc :=
  mkPacc (map E_field (pa_fields acc)) (map (fun _ => 0) (pa_lines acc)) (pa_fmap acc) (pa_lenf acc) (map E_mf (pa_mfs acc))
         (pa_store acc) (map E_diag (pa_diags acc)).

Lemma map_E_field_idem l : map E_field (map E_field l) = map E_field l.
Proof. rewrite map_map. apply map_ext. intros x. apply E_field_idem. Qed.

Lemma E_mf_idem kv : E_mf (E_mf kv) = E_mf kv.
Proof. destruct kv as [k v]. unfold E_mf. cbn. rewrite map_E_pair_idem. reflexivity. Qed.

Lemma Eacc_idem acc : Eacc (Eacc acc) = Eacc acc.
Proof.
  unfold Eacc. cbn. rewrite map_E_field_idem. f_equal; rewrite map_map; [reflexivity|apply map_ext; intros x; apply E_mf_idem|reflexivity].
Qed.

Lemma aset_E_mf m k v : map E_mf (aset m k v) = aset (map E_mf m) k (map E_pair v).
Proof.
  induction m as [|[k' v'] m IH]; [reflexivity|]. cbn [aset map E_mf fst snd]. destruct (String.eqb k k'); [reflexivity|].
  cbn [map]. rewrite IH. reflexivity.
Qed.

Lemma loop1_add_E pn is_root line line' f acc store ds :
  Eacc (loop1_add pn is_root line f acc store ds) = Eacc (loop1_add pn is_root line' (E_field f) (Eacc acc) store (map E_diag ds)).
Proof.
  unfold loop1_add. rewrite E_attr_of, E_is_len, E_name. cbn [pa_fields pa_lines pa_fmap pa_lenf pa_mfs pa_store pa_diags Eacc]. rewrite map_length.
  assert (Hkeep : forall lenf,
    Eacc (mkPacc (snoc (pa_fields acc) f) (snoc (pa_lines acc) line) (aset (pa_fmap acc) (vf_name f) (length (pa_fields acc))) lenf
            (match vf_attr f with
             | VAMatch key pairs => match fref_name key with Some k => aset (pa_mfs acc) k pairs | None => pa_mfs acc end
             | _ => pa_mfs acc end) store
            ((pa_diags acc ++ ds) ++ match alookup (pa_fmap acc) (vf_name f) with Some _ => [dup_field_diag line (vf_name f) pn] | None => [] end)) =
    Eacc (mkPacc (snoc (map E_field (pa_fields acc)) (E_field f)) (snoc (map (fun _ => 0) (pa_lines acc)) line')
            (aset (pa_fmap acc) (vf_name f) (length (pa_fields acc))) lenf
            (match E_attr (vf_attr f) with
             | VAMatch key pairs => match fref_name key with Some k => aset (map E_mf (pa_mfs acc)) k pairs | None => map E_mf (pa_mfs acc) end
             | _ => map E_mf (pa_mfs acc) end) store
            ((map E_diag (pa_diags acc) ++ map E_diag ds) ++
             match alookup (pa_fmap acc) (vf_name f) with Some _ => [dup_field_diag line' (vf_name f) pn] | None => [] end))).
  { intros lenf. unfold Eacc, snoc. cbn [pa_fields pa_lines pa_fmap pa_lenf pa_mfs pa_store pa_diags].
    rewrite !map_app, map_E_field_idem. cbn [map]. rewrite E_field_idem. f_equal.
    - rewrite !map_map. reflexivity.
    - destruct (vf_attr f) as [| | | | |i pn0 r [q|]|k ps|]; cbn [E_attr]; try (rewrite map_map; apply map_ext; intros x; symmetry; apply E_mf_idem).
      destruct (fref_name k) as [kn|]; [|rewrite map_map; apply map_ext; intros x; symmetry; apply E_mf_idem].
      rewrite !aset_E_mf, map_E_pair_idem. f_equal. rewrite map_map. apply map_ext. intros x. symmetry. apply E_mf_idem.
    - rewrite !map_map. cbn. destruct (alookup (pa_fmap acc) (vf_name f)); reflexivity. }
  destruct (is_len_attr (vf_attr f)).
  - destruct (negb is_root).
    + unfold Eacc, snoc. cbn. rewrite !map_app, map_E_field_idem, !map_map. cbn. f_equal. apply map_ext. intros x. symmetry. apply E_mf_idem.
    + destruct (pa_lenf acc).
      * unfold Eacc, snoc. cbn. rewrite !map_app, map_E_field_idem, !map_map. cbn. f_equal. apply map_ext. intros x. symmetry. apply E_mf_idem.
      * apply Hkeep.
  - apply Hkeep.
Qed.

Lemma loop1_add_sim pn is_root line line' f f' acc acc' store ds ds' :
  E_field f = E_field f' -> Eacc acc = Eacc acc' -> map E_diag ds = map E_diag ds' ->
  Eacc (loop1_add pn is_root line f acc store ds) = Eacc (loop1_add pn is_root line' f' acc' store ds').
Proof.
  intros Hf Ha Hd. rewrite (loop1_add_E pn is_root line 0 f acc store ds), (loop1_add_E pn is_root line' 0 f' acc' store ds'), Hf, Ha, Hd. reflexivity.
Qed.

Definition E_accres (x : res pacc) : res pacc := match x with ROk a => ROk (Eacc a) | RPanic e => RPanic e end.

(* the fields of a packet, rewritten one by one by h *)
Lemma loop1_sim metas metas' pn is_root (h : field_with_attr -> field_with_attr) l :
  (forall fw store, E_fres (visit_field_with_attr metas' (h fw) store) = E_fres (visit_field_with_attr metas fw store)) ->
  forall acc acc', Eacc acc = Eacc acc' ->
  E_accres (loop1 metas' pn is_root (map h l) acc') = E_accres (loop1 metas pn is_root l acc).
Proof.
  intros Hh. induction l as [|fw l IH]; intros acc acc' Ha; [cbn; rewrite Ha; reflexivity|]. cbn [map loop1].
  assert (Hst : pa_store acc' = pa_store acc). { change (pa_store (Eacc acc') = pa_store (Eacc acc)). rewrite Ha. reflexivity. }
  rewrite Hst.
  destruct (E_fres_inv _ _ (Hh fw (pa_store acc))) as [[e [-> ->]]|[f' [st [ds' [f [ds [-> [-> [Hf Hd]]]]]]]]]; [reflexivity|].
  apply IH. apply loop1_add_sim; [symmetry; exact Hf|exact Ha|symmetry; exact Hd].
Qed.

(* ---- the second loop *)

Definition E_lres (x : res (list vfield)) : res (list vfield) := match x with ROk l => ROk (map E_field l) | RPanic e => RPanic e end.
Definition E_ares (x : res (vattr * list diag)) : res (vattr * list diag) :=
  match x with ROk (a, ds) => ROk (E_attr a, map E_diag ds) | RPanic e => RPanic e end.
Definition E_l2res (x : res (list vfield * list diag)) : res (list vfield * list diag) :=
  match x with ROk (l, ds) => ROk (map E_field l, map E_diag ds) | RPanic e => RPanic e end.

Lemma map_upd_nth {A B} (g : A -> B) (l : list A) : forall i x, map g (upd_nth i x l) = upd_nth i (g x) (map g l).
Proof. induction l as [|y l IH]; intros [|i] x; cbn; try reflexivity. rewrite IH. reflexivity. Qed.

Lemma nth_error_E_eq l l' i : map E_field l = map E_field l' -> option_map E_field (nth_error l i) = option_map E_field (nth_error l' i).
Proof. intros H. rewrite <- !nth_error_map, H. reflexivity. Qed.

Lemma E_set_la_any f l l' : E_la l = E_la l' -> E_field (set_la f l) = E_field (set_la (E_field f) l').
Proof. intros H. rewrite !E_set_la, E_field_idem, H. reflexivity. Qed.

Lemma step_la_E lenf i fields f :
  E_lres (step_la lenf i fields f) = E_lres (step_la lenf i (map E_field fields) (E_field f)).
Proof.
  unfold step_la. destruct lenf as [li|]; [|cbn; rewrite map_E_field_idem; reflexivity].
  rewrite nth_error_map. destruct (nth_error fields li) as [lf|]; cbn [option_map]; [|cbn; rewrite map_E_field_idem; reflexivity].
  rewrite E_attr_of. destruct (vf_attr lf) as [| | |tgt lenty| |i0 pn r [q|]| |] eqn:Hlf; cbn [E_attr]; try reflexivity.
  destruct (fref_name tgt) as [tn|]; [|reflexivity]. rewrite !E_name.
  destruct (String.eqb (vf_name f) tn); [|cbn; rewrite map_E_field_idem; reflexivity].
  set (X := upd_nth li (set_la lf (VLLenOf (vf_name lf))) fields).
  set (X' := upd_nth li (set_la (E_field lf) (VLLenOf (vf_name lf))) (map E_field fields)).
  assert (HX : map E_field X = map E_field X').
  { subst X X'. rewrite !map_upd_nth, map_E_field_idem. f_equal. apply E_set_la_any. reflexivity. }
  pose proof (nth_error_E_eq _ _ i HX) as Hn.
  destruct (nth_error X i) as [f1|]; destruct (nth_error X' i) as [f1'|]; cbn [option_map] in Hn; try discriminate; cbn [E_lres]; [|rewrite HX; reflexivity].
  inversion Hn as [Hf1]. rewrite !map_upd_nth, HX. f_equal. f_equal. rewrite !E_set_la, Hf1. reflexivity.
Qed.

Lemma step_attr_E pmap fmap line line' fname a :
  E_ares (step_attr pmap fmap line fname a) = E_ares (step_attr pmap fmap line' fname (E_attr a)).
Proof.
  destruct a as [t|c| |tgt lenty|alg t|i pn r [q|]|key pairs|]; cbn [E_attr step_attr]; try (cbn; rewrite ?nt_idem; reflexivity).
  - destruct (fref_name tgt) as [tn|]; [|reflexivity]. cbn [field_get_type].
    change (field_type_norm (BModel.get_basic_type (nt lenty))) with (nt (nt lenty)). change (field_type_norm (BModel.get_basic_type lenty)) with (nt lenty).
    destruct (alookup fmap tn); cbn [E_ares E_attr map]; rewrite !nt_idem; reflexivity.
  - destruct i; cbn [E_ares E_attr map]; rewrite ?E_packet_idem; reflexivity.
  - destruct (fref_name key) as [kn|]; [|reflexivity]. destruct (alookup fmap kn); cbn [E_ares E_attr map]; rewrite map_E_pair_idem; reflexivity.
Qed.

Lemma loop2_step_E pmap fmap lenf lines lines' i fields :
  E_l2res (loop2_step pmap fmap lenf lines i fields) = E_l2res (loop2_step pmap fmap lenf lines' i (map E_field fields)).
Proof.
  unfold loop2_step. rewrite nth_error_map. destruct (nth_error fields i) as [f|]; cbn [option_map]; [|cbn; rewrite map_E_field_idem; reflexivity].
  pose proof (step_la_E lenf i fields f) as Hla.
  destruct (step_la lenf i fields f) as [X|e]; destruct (step_la lenf i (map E_field fields) (E_field f)) as [X'|e']; cbn [E_lres] in Hla; try discriminate;
    [|inversion Hla; reflexivity].
  inversion Hla as [HX]. pose proof (nth_error_E_eq _ _ i HX) as Hn.
  destruct (nth_error X i) as [f1|]; destruct (nth_error X' i) as [f1'|]; cbn [option_map] in Hn; try discriminate; [|cbn; rewrite HX; reflexivity].
  inversion Hn as [Hf1].
  assert (Hname : vf_name f1 = vf_name f1') by (rewrite <- (E_name f1), <- (E_name f1'), Hf1; reflexivity).
  assert (Hattr : E_attr (vf_attr f1) = E_attr (vf_attr f1')) by (rewrite <- !E_attr_of, Hf1; reflexivity).
  assert (H2 : E_ares (step_attr pmap fmap (nth i lines 0) (vf_name f1) (vf_attr f1)) =
               E_ares (step_attr pmap fmap (nth i lines' 0) (vf_name f1') (vf_attr f1'))).
  { rewrite (step_attr_E pmap fmap (nth i lines 0) 0 (vf_name f1) (vf_attr f1)),
            (step_attr_E pmap fmap (nth i lines' 0) 0 (vf_name f1') (vf_attr f1')), Hname, Hattr. reflexivity. }
  destruct (step_attr pmap fmap (nth i lines 0) (vf_name f1) (vf_attr f1)) as [[a ds]|e];
    destruct (step_attr pmap fmap (nth i lines' 0) (vf_name f1') (vf_attr f1')) as [[a' ds']|e']; cbn [E_ares] in H2; try discriminate; [|inversion H2; reflexivity].
  inversion H2 as [[Ha Hd]]. cbn [E_l2res]. rewrite !map_upd_nth, HX, !E_set_attr, Hf1, Ha, Hd. reflexivity.
Qed.

Lemma loop2_sim pmap fmap lenf lines lines' idx : forall fields fields',
  map E_field fields = map E_field fields' ->
  E_l2res (loop2 pmap fmap lenf lines idx fields) = E_l2res (loop2 pmap fmap lenf lines' idx fields').
Proof.
  induction idx as [|i r IH]; intros fields fields' H; [cbn; rewrite H; reflexivity|]. cbn [loop2].
  assert (H3 : E_l2res (loop2_step pmap fmap lenf lines i fields) = E_l2res (loop2_step pmap fmap lenf lines' i fields')).
  { rewrite (loop2_step_E pmap fmap lenf lines [] i fields), (loop2_step_E pmap fmap lenf lines' [] i fields'), H. reflexivity. }
  destruct (loop2_step pmap fmap lenf lines i fields) as [[X ds]|e]; destruct (loop2_step pmap fmap lenf lines' i fields') as [[X' ds']|e']; cbn [E_l2res] in H3; try discriminate;
    [|inversion H3; reflexivity].
  inversion H3 as [[HX Hd]]. specialize (IH X X' HX).
  destruct (loop2 pmap fmap lenf lines r X) as [[Y es]|e]; destruct (loop2 pmap fmap lenf lines' r X') as [[Y' es']|e']; cbn [E_l2res] in IH; try discriminate; [|inversion IH; reflexivity].
  inversion IH as [[HY He]]. cbn [E_l2res]. rewrite !map_app, HY, Hd, He. reflexivity.
Qed.

(* ---- VisitPacketDefinition *)
Definition E_pres (x : res (vpacket * list fcell * list diag)) : res (vpacket * list fcell * list diag) :=
  match x with ROk (p, st, ds) => ROk (E_packet p, st, map E_diag ds) | RPanic e => RPanic e end.

Lemma visit_packet_def_sim metas metas' pmap h d store :
  (forall fw st, E_fres (visit_field_with_attr metas' (h fw) st) = E_fres (visit_field_with_attr metas fw st)) ->
  E_pres (visit_packet_def metas' pmap (map_packet_fws h d) store) = E_pres (visit_packet_def metas pmap d store).
Proof.
  intros Hh. unfold visit_packet_def. cbn [map_packet_fws pd_fields pd_name pd_root pd_span].
  pose proof (loop1_sim metas metas' (p_text (pd_name d)) (is_some (pd_root d)) h (pd_fields d) Hh (mkPacc [] [] [] None [] store []) _ eq_refl) as H1.
  destruct (loop1 metas' _ _ (map h (pd_fields d)) _) as [acc'|e']; destruct (loop1 metas _ _ (pd_fields d) _) as [acc|e]; cbn [E_accres] in H1; try discriminate;
    [|inversion H1; reflexivity].
  inversion H1 as [[Hf Hl Hfm Hlf Hmf Hst Hdg]].
  assert (Hlen : length (pa_fields acc') = length (pa_fields acc)). { rewrite <- (map_length E_field (pa_fields acc')), Hf, map_length. reflexivity. }
  rewrite Hfm, Hlf, Hlen.
  pose proof (loop2_sim pmap (pa_fmap acc) (pa_lenf acc) (pa_lines acc') (pa_lines acc) (seq 0 (length (pa_fields acc))) _ _ Hf) as H2.
  destruct (loop2 pmap _ _ (pa_lines acc') _ (pa_fields acc')) as [[fs' ds2']|e']; destruct (loop2 pmap _ _ (pa_lines acc) _ (pa_fields acc)) as [[fs ds2]|e];
    cbn [E_l2res] in H2; try discriminate; [|inversion H2; reflexivity].
  inversion H2 as [[Hfs Hds]]. cbn [E_pres]. rewrite !E_packet_eq, !map_app, Hfs, Hmf, Hst, Hdg, Hds. reflexivity.
Qed.

(* ---- AddPacket and the packets of a file *)
Lemma packet_names_E ps : Visitor.packet_names (map E_packet ps) = Visitor.packet_names ps.
Proof. unfold Visitor.packet_names. rewrite map_map. apply map_ext. intros p. apply vk_name_E. Qed.

Lemma map_E_meta_idem l : map E_meta (map E_meta l) = map E_meta l.
Proof. rewrite map_map. apply map_ext. intros x. apply E_meta_idem. Qed.
Lemma map_E_packet_idem l : map E_packet (map E_packet l) = map E_packet l.
Proof. rewrite map_map. apply map_ext. intros x. apply E_packet_idem. Qed.
Lemma map_E_diag_idem l : map E_diag (map E_diag l) = map E_diag l.
Proof. rewrite map_map. reflexivity. Qed.

Lemma add_packet_E s p : Es (add_packet s p) = Es (add_packet (Es s) (E_packet p)).
Proof.
  unfold add_packet. destruct s as [st me op pk ro dg]. cbn [Es s_store s_metas s_options s_packets s_root s_diags].
  rewrite packet_names_E, vk_name_E, vk_root_E.
  destruct (mem (vk_name p) (Visitor.packet_names pk)).
  - unfold add_diag, Es, snoc. cbn. rewrite !map_app, map_E_meta_idem, map_E_packet_idem, map_E_diag_idem. reflexivity.
  - destruct (vk_root p); [destruct ro|]; unfold add_diag, Es, snoc; cbn; rewrite ?map_app, ?map_E_meta_idem, ?map_E_packet_idem, ?map_E_diag_idem; cbn;
      rewrite ?E_packet_idem, ?vk_name_E; reflexivity.
Qed.

Lemma add_packet_sim s s' p p' : Es s = Es s' -> E_packet p = E_packet p' -> Es (add_packet s p) = Es (add_packet s' p').
Proof. intros Hs Hp. rewrite (add_packet_E s p), (add_packet_E s' p'), Hs, Hp. reflexivity. Qed.

Definition E_sres (x : res vst) : res vst := match x with ROk s => ROk (Es s) | RPanic e => RPanic e end.

Lemma visit_packets_sim (gp : packet_def -> packet_def) l :
  (forall metas metas' pmap d store, map E_meta metas = map E_meta metas' ->
     E_pres (visit_packet_def metas' pmap (gp d) store) = E_pres (visit_packet_def metas pmap d store)) ->
  forall s s', Es s = Es s' -> E_sres (visit_packets (map gp l) s') = E_sres (visit_packets l s).
Proof.
  intros Hg. induction l as [|d l IH]; intros s s' Hs; [cbn; rewrite Hs; reflexivity|]. cbn [map visit_packets].
  assert (Hst : s_store s' = s_store s) by (change (s_store (Es s') = s_store (Es s)); rewrite Hs; reflexivity).
  assert (Hme : map E_meta (s_metas s) = map E_meta (s_metas s')) by (change (s_metas (Es s) = s_metas (Es s')); rewrite Hs; reflexivity).
  assert (Hpk : map E_packet (s_packets s) = map E_packet (s_packets s')) by (change (s_packets (Es s) = s_packets (Es s')); rewrite Hs; reflexivity).
  assert (Hop : s_options s = s_options s') by (change (s_options (Es s) = s_options (Es s')); rewrite Hs; reflexivity).
  assert (Hro : s_root s = s_root s') by (change (s_root (Es s) = s_root (Es s')); rewrite Hs; reflexivity).
  assert (Hdg : map E_diag (s_diags s) = map E_diag (s_diags s')) by (change (s_diags (Es s) = s_diags (Es s')); rewrite Hs; reflexivity).
  assert (Hpn : Visitor.packet_names (s_packets s') = Visitor.packet_names (s_packets s)).
  { rewrite <- (packet_names_E (s_packets s')), <- Hpk, packet_names_E. reflexivity. }
  rewrite Hpn, Hst. pose proof (Hg (s_metas s) (s_metas s') (Visitor.packet_names (s_packets s)) d (s_store s) Hme) as H1.
  destruct (visit_packet_def (s_metas s') _ (gp d) _) as [[[p' st'] ds']|e']; destruct (visit_packet_def (s_metas s) _ d _) as [[[p st] ds]|e];
    cbn [E_pres] in H1; try discriminate; [|inversion H1; reflexivity].
  inversion H1 as [[Hp Hst' Hds]]. apply IH. apply add_packet_sim; [|symmetry; exact Hp].
  unfold Es. cbn. rewrite !map_app, Hme, Hop, Hpk, Hro, Hdg, Hds. reflexivity.
Qed.

(* ---- ResolveDependencies *)
Definition Rres (x y : vfield * list diag) : Prop := E_field (fst x) = E_field (fst y) /\ map E_diag (snd x) = map E_diag (snd y).
Definition Rlres (x y : list vfield * list diag) : Prop := map E_field (fst x) = map E_field (fst y) /\ map E_diag (snd x) = map E_diag (snd y).

Lemma resolve_fields_cons pmap f fs :
  resolve_fields pmap (f :: fs) = (fst (resolve_field pmap f) :: fst (resolve_fields pmap fs), snd (resolve_field pmap f) ++ snd (resolve_fields pmap fs)).
Proof. cbn [resolve_fields]. destruct (resolve_field pmap f). destruct (resolve_fields pmap fs). reflexivity. Qed.

Lemma pair_diags_E pmap n ps : map E_diag (pair_diags pmap n (map E_pair ps)) = map E_diag (pair_diags pmap n ps).
Proof.
  unfold pair_diags. induction ps as [|p ps IH]; [reflexivity|]. cbn [map flat_map E_pair vp_value]. rewrite !map_app, IH.
  destruct (mem (vp_value p) pmap); reflexivity.
Qed.

Lemma resolve_E pmap :
  (forall a n la rep doc tag ln, Rres (resolve_field pmap (mkVField n a la rep doc tag ln)) (resolve_field pmap (E_field (mkVField n a la rep doc tag ln)))) /\
  (forall p, Rlres (resolve_fields pmap (vk_fields p)) (resolve_fields pmap (map E_field (vk_fields p)))).
Proof.
  set (Pa := fun a => forall n la rep doc tag ln, Rres (resolve_field pmap (mkVField n a la rep doc tag ln)) (resolve_field pmap (E_field (mkVField n a la rep doc tag ln)))).
  set (Pp := fun p => Rlres (resolve_fields pmap (vk_fields p)) (resolve_fields pmap (map E_field (vk_fields p)))).
  assert (Hsimple : forall a, (match a with VAObj _ _ _ _ | VAMatch _ _ => False | _ => True end) -> Pa a).
  { intros a Ha n la rep doc tag ln. destruct a; try contradiction; cbn; split; cbn; rewrite ?nt_idem; try (destruct la); reflexivity. }
  assert (H1 : forall t, Pa (VABasic t)) by (intros; apply Hsimple; exact I).
  assert (H2 : forall c, Pa (VAFixed c)) by (intros; apply Hsimple; exact I).
  assert (H3 : Pa VADyn) by (apply Hsimple; exact I).
  assert (H4 : forall tg t, Pa (VALen tg t)) by (intros; apply Hsimple; exact I).
  assert (H5 : forall alg t, Pa (VACheck alg t)) by (intros; apply Hsimple; exact I).
  assert (H6 : forall i pn r, Pa (VAObj i pn r None)).
  { intros i pn r n la rep doc tag ln. cbn [E_field E_attr resolve_field]. destruct r as [r|].
    - destruct i; split; cbn; try (destruct la); reflexivity.
    - destruct (mem pn pmap); destruct i; split; cbn; try (destruct la); reflexivity. }
  assert (H7 : forall i pn r p, Pp p -> Pa (VAObj i pn r (Some p))).
  { intros i pn r p IH n la rep doc tag ln. unfold Pp in IH. destruct p as [pn2 ro lf fs fm mf pl]. cbn [vk_fields] in IH. destruct IH as [IH1 IH2].
    cbn [E_field E_attr]. rewrite E_packet_eq. destruct r as [r|].
    - destruct i.
      + rewrite !resolve_inline_eq. split; cbn [fst snd]; [|exact IH2]. cbn [E_field E_attr]. rewrite !E_packet_eq, IH1, (map_map E_mf E_mf).
        assert (Hmf : map (fun x => E_mf (E_mf x)) mf = map E_mf mf) by (apply map_ext; intros x; apply E_mf_idem). rewrite Hmf.
        destruct la; reflexivity.
      + cbn [resolve_field]. split; cbn [fst snd]; [|reflexivity]. cbn [E_field E_attr]. rewrite !E_packet_eq, map_E_field_idem, (map_map E_mf E_mf).
        assert (Hmf : map (fun x => E_mf (E_mf x)) mf = map E_mf mf) by (apply map_ext; intros x; apply E_mf_idem). rewrite Hmf.
        destruct la; reflexivity.
    - assert (Hmf : map (fun x => E_mf (E_mf x)) mf = map E_mf mf) by (apply map_ext; intros x; apply E_mf_idem).
      cbn [resolve_field]. destruct (mem pn pmap); destruct i; split; cbn [fst snd]; try reflexivity; cbn [E_field E_attr];
        rewrite !E_packet_eq, map_E_field_idem, (map_map E_mf E_mf), Hmf; destruct la; reflexivity. }
  assert (H8 : forall k ps, Pa (VAMatch k ps)).
  { intros k ps n la rep doc tag ln. cbn [E_field E_attr resolve_field]. split; cbn [fst snd].
    - cbn [E_field E_attr]. rewrite map_E_pair_idem. destruct la; reflexivity.
    - apply eq_sym. apply pair_diags_E. }
  assert (H9 : Pa VANil) by (apply Hsimple; exact I).
  assert (H10 : forall n ro lf fs fm mf ln, Forall (fun f => Pa (vf_attr f)) fs -> Pp (mkVPacket n ro lf fs fm mf ln)).
  { intros n ro lf fs fm mf ln IH. unfold Pp. cbn [vk_fields]. induction IH as [|f fs Hf Hfs IHfs]; [split; reflexivity|].
    cbn [map]. rewrite !resolve_fields_cons. destruct IHfs as [I1 I2]. destruct f as [fn a la rep doc tag fl]. cbn [vf_attr] in Hf.
    destruct (Hf fn la rep doc tag fl) as [J1 J2]. split; cbn [fst snd map]; [rewrite J1, I1; reflexivity|rewrite !map_app, J2, I2; reflexivity]. }
  split; [exact (vattr_ind2 Pa Pp H1 H2 H3 H4 H5 H6 H7 H8 H9 H10)|exact (vpacket_ind2 Pa Pp H1 H2 H3 H4 H5 H6 H7 H8 H9 H10)].
Qed.

Lemma resolve_packets_cons pmap p ps :
  resolve_packets pmap (p :: ps) =
  (set_fields p (fst (resolve_fields pmap (vk_fields p))) :: fst (resolve_packets pmap ps),
   snd (resolve_fields pmap (vk_fields p)) ++ snd (resolve_packets pmap ps)).
Proof. cbn [resolve_packets]. destruct (resolve_fields pmap (vk_fields p)). destruct (resolve_packets pmap ps). reflexivity. Qed.

Lemma resolve_packets_E pmap ps :
  map E_packet (fst (resolve_packets pmap ps)) = map E_packet (fst (resolve_packets pmap (map E_packet ps))) /\
  map E_diag (snd (resolve_packets pmap ps)) = map E_diag (snd (resolve_packets pmap (map E_packet ps))).
Proof.
  induction ps as [|p ps [I1 I2]]; [split; reflexivity|]. cbn [map]. rewrite !resolve_packets_cons. cbn [fst snd map].
  destruct (proj2 (resolve_E pmap) p) as [J1 J2]. destruct p as [n ro lf fs fm mf ln]. rewrite E_packet_eq. cbn [vk_fields set_fields] in *.
  split; [|rewrite !map_app, J2, I2; reflexivity]. rewrite !E_packet_eq, J1, I1, (map_map E_mf E_mf).
  assert (Hmf : map (fun x => E_mf (E_mf x)) mf = map E_mf mf) by (apply map_ext; intros x; apply E_mf_idem). rewrite Hmf. reflexivity.
Qed.

Lemma finish_E s : E_result (finish s) = E_result (finish (Es s)).
Proof.
  unfold finish. cbn [Es s_packets s_store s_metas s_options s_root s_diags]. rewrite packet_names_E.
  destruct (resolve_packets_E (Visitor.packet_names (s_packets s)) (s_packets s)) as [H1 H2].
  destruct (resolve_packets _ (s_packets s)) as [ps ds]. destruct (resolve_packets _ (map E_packet (s_packets s))) as [ps' ds']. cbn [fst snd] in *.
  unfold E_result. cbn. rewrite !map_app, H1, H2, map_E_meta_idem, map_E_diag_idem. reflexivity.
Qed.

Lemma finish_sim s s' : Es s = Es s' -> E_result (finish s) = E_result (finish s').
Proof. intros H. rewrite (finish_E s), (finish_E s'), H. reflexivity. Qed.

(* ================================================================== rewrites that map over the definitions of a file *)

(* a rewrite of definitions that keeps their kind *)
Record def_map := mkDefMap {
  dm_meta : meta_def -> meta_def;
  dm_option : option_def -> option_def;
  dm_packet : packet_def -> packet_def
}.

Definition dm_apply (m : def_map) (d : definition) : definition :=
  match d with DPacket p => DPacket (dm_packet m p) | DMeta x => DMeta (dm_meta m x) | DOption o => DOption (dm_option m o) end.

Definition dm_ok (m : def_map) : Prop :=
  (forall s s' x, Es s = Es s' -> Es (visit_meta_def s' (dm_meta m x)) = Es (visit_meta_def s x)) /\
  (forall s s' o, Es s = Es s' -> Es (visit_option_def s' (dm_option m o)) = Es (visit_option_def s o)) /\
  (forall metas metas' pmap d store, map E_meta metas = map E_meta metas' ->
     E_pres (visit_packet_def metas' pmap (dm_packet m d) store) = E_pres (visit_packet_def metas pmap d store)).

Lemma fold_sim {A} (step : vst -> A -> vst) (g : A -> A) (l : list A) :
  (forall s s' x, Es s = Es s' -> Es (step s' (g x)) = Es (step s x)) ->
  forall s s', Es s = Es s' -> Es (fold_left step (map g l) s') = Es (fold_left step l s).
Proof.
  intros H. induction l as [|x l IH]; intros s s' Hs; [exact (eq_sym Hs)|]. cbn [map fold_left]. apply IH. symmetry. apply H. exact Hs.
Qed.

Lemma metas_of_map m t : metas_of (map_defs (dm_apply m) t) = map (dm_meta m) (metas_of t).
Proof.
  unfold metas_of, map_defs. cbn [pk_defs]. induction (pk_defs t) as [|d ds IH]; [reflexivity|]. cbn [map flat_map]. rewrite IH.
  destruct d; reflexivity.
Qed.
Lemma options_of_map m t : options_of (map_defs (dm_apply m) t) = map (dm_option m) (options_of t).
Proof.
  unfold options_of, map_defs. cbn [pk_defs]. induction (pk_defs t) as [|d ds IH]; [reflexivity|]. cbn [map flat_map]. rewrite IH.
  destruct d; reflexivity.
Qed.
Lemma packets_of_map m t : packets_of (map_defs (dm_apply m) t) = map (dm_packet m) (packets_of t).
Proof.
  unfold packets_of, map_defs. cbn [pk_defs]. induction (pk_defs t) as [|d ds IH]; [reflexivity|]. cbn [map flat_map]. rewrite IH.
  destruct d; reflexivity.
Qed.

(* the visit of the rewritten file has the erasure of the visit of the file *)
Theorem visit_def_map m t : dm_ok m -> E_outcome (visit (map_defs (dm_apply m) t)) = E_outcome (visit t).
Proof.
  intros [Hm [Ho Hp]]. unfold visit, phase_options, phase_metas. rewrite metas_of_map, options_of_map, packets_of_map.
  assert (H1 : Es (fold_left visit_meta_def (metas_of t) st0) = Es (fold_left visit_meta_def (map (dm_meta m) (metas_of t)) st0)).
  { symmetry. apply (fold_sim visit_meta_def (dm_meta m)); [exact Hm|reflexivity]. }
  assert (H2 : Es (fold_left visit_option_def (options_of t) (fold_left visit_meta_def (metas_of t) st0)) =
               Es (fold_left visit_option_def (map (dm_option m) (options_of t)) (fold_left visit_meta_def (map (dm_meta m) (metas_of t)) st0))).
  { symmetry. apply (fold_sim visit_option_def (dm_option m)); [exact Ho|exact H1]. }
  pose proof (visit_packets_sim (dm_packet m) (packets_of t) Hp _ _ H2) as H3.
  destruct (visit_packets (map (dm_packet m) (packets_of t)) _) as [s'|e']; destruct (visit_packets (packets_of t) _) as [s|e]; cbn [E_sres] in H3; try discriminate;
    [|inversion H3; reflexivity].
  assert (Hs : Es s' = Es s) by congruence. cbn [E_outcome]. f_equal. apply finish_sim. exact Hs.
Qed.

(* from the erasure to the statement about meanings *)
Theorem preserves_of_erasure t t' r :
  E_outcome (visit t') = E_outcome (visit t) -> visit t = VOk r -> r_diags r = [] ->
  exists r', visit t' = VOk r' /\ same_meaning r r' = true.
Proof.
  intros He Hv Hd. rewrite Hv in He. destruct (visit t') as [r'|e]; cbn [E_outcome] in He; [|discriminate]. assert (Hr : E_result r' = E_result r) by congruence.
  exists r'. split; [reflexivity|]. apply E_same_meaning; [exact Hd|symmetry; exact Hr].
Qed.

(* ---- the combinators of Model/Spelling.v as definition maps *)

Lemma map_defs_ext g g' t : (forall d, g d = g' d) -> map_defs g t = map_defs g' t.
Proof. intros H. unfold map_defs. f_equal. apply map_ext. exact H. Qed.

Definition dm_fws (h : field_with_attr -> field_with_attr) : def_map := mkDefMap (fun x => x) (fun x => x) (map_packet_fws h).
Definition fw_fields (g : field_def -> field_def) (fw : field_with_attr) : field_with_attr :=
  mkFieldWithAttr (fw_span fw) (fw_attrs fw) (map_fd g (fw_def fw)).
Definition dm_items (g : meta_item -> meta_item) : def_map :=
  mkDefMap (fun m => mkMetaDef (me_span m) (me_kw m) (me_name m) (me_open m) (map g (me_items m)) (me_close m)) (fun x => x) (fun x => x).
Definition dm_decls (g : option_decl -> option_decl) : def_map :=
  mkDefMap (fun x => x) (fun o => mkOptionDef (op_span o) (op_kw o) (op_open o) (map g (op_decls o)) (op_close o)) (fun x => x).

Lemma on_fws_dm h t : on_fws h t = map_defs (dm_apply (dm_fws h)) t.
Proof. unfold on_fws. apply map_defs_ext. intros [p|m|o]; reflexivity. Qed.
Lemma on_fields_dm g t : on_fields g t = map_defs (dm_apply (dm_fws (fw_fields g))) t.
Proof. unfold on_fields. apply on_fws_dm. Qed.
Lemma map_meta_items_dm g t : map_meta_items g t = map_defs (dm_apply (dm_items g)) t.
Proof. unfold map_meta_items. apply map_defs_ext. intros [p|m|o]; reflexivity. Qed.
Lemma map_option_decls_dm g t : map_option_decls g t = map_defs (dm_apply (dm_decls g)) t.
Proof. unfold map_option_decls. apply map_defs_ext. intros [p|m|o]; reflexivity. Qed.

(* the three kinds of steps see the state through its erasure *)
Lemma Es_parts s s' : Es s = Es s' ->
  s_store s = s_store s' /\ map E_meta (s_metas s) = map E_meta (s_metas s') /\ s_options s = s_options s'.
Proof.
  intros H. repeat split.
  - change (s_store (Es s) = s_store (Es s')). rewrite H. reflexivity.
  - change (s_metas (Es s) = s_metas (Es s')). rewrite H. reflexivity.
  - change (s_options (Es s) = s_options (Es s')). rewrite H. reflexivity.
Qed.

Lemma set_store_sim s s' st : Es s = Es s' -> Es (set_store s st) = Es (set_store s' st).
Proof.
  intros H. unfold Es, set_store. cbn.
  assert (H1 : map E_meta (s_metas s) = map E_meta (s_metas s')) by (change (s_metas (Es s) = s_metas (Es s')); rewrite H; reflexivity).
  assert (H2 : s_options s = s_options s') by (change (s_options (Es s) = s_options (Es s')); rewrite H; reflexivity).
  assert (H3 : map E_packet (s_packets s) = map E_packet (s_packets s')) by (change (s_packets (Es s) = s_packets (Es s')); rewrite H; reflexivity).
  assert (H4 : s_root s = s_root s') by (change (s_root (Es s) = s_root (Es s')); rewrite H; reflexivity).
  assert (H5 : map E_diag (s_diags s) = map E_diag (s_diags s')) by (change (s_diags (Es s) = s_diags (Es s')); rewrite H; reflexivity).
  rewrite H1, H2, H3, H4, H5. reflexivity.
Qed.

Lemma add_diag_sim s s' d d' : Es s = Es s' -> E_diag d = E_diag d' -> Es (add_diag s d) = Es (add_diag s' d').
Proof. intros Hs Hd. rewrite !add_diag_E, Hs, Hd. reflexivity. Qed.

(* a MetaData declaration, possibly respelt: same name, the attribute up to erasure, the same store *)
Lemma decl_item_sim s s' d d' :
  Es s = Es s' -> p_text (md_name d') = p_text (md_name d) ->
  (forall st, E_attr (fst (meta_decl_attr d' st)) = E_attr (fst (meta_decl_attr d st)) /\ snd (meta_decl_attr d' st) = snd (meta_decl_attr d st)) ->
  Es (visit_meta_item s' (MIDecl d')) = Es (visit_meta_item s (MIDecl d)).
Proof.
  intros Hs Hn Ha. cbn [visit_meta_item]. destruct (Es_parts _ _ Hs) as [Hst _]. rewrite <- Hst.
  destruct (Ha (s_store s)) as [H1 H2]. destruct (meta_decl_attr d' (s_store s)) as [a' st']. destruct (meta_decl_attr d (s_store s)) as [a st]. cbn [fst snd] in *. subst st'.
  apply add_meta_sim; [apply set_store_sim; symmetry; exact Hs|]. unfold E_meta. cbn. rewrite H1, Hn. reflexivity.
Qed.

Lemma ref_item_sim s s' r r' :
  Es s = Es s' -> p_text (rm_typ r') = p_text (rm_typ r) -> p_text (rm_name r') = p_text (rm_name r) ->
  Es (visit_meta_item s' (MIRef r')) = Es (visit_meta_item s (MIRef r)).
Proof.
  intros Hs Ht Hn. cbn [visit_meta_item]. rewrite Ht, Hn. destruct (Es_parts _ _ Hs) as [_ [Hme _]].
  pose proof (find_meta_sim _ _ (p_text (rm_typ r)) Hme) as Hf.
  set (a := match find_meta (s_metas s) (p_text (rm_typ r)) with Some m => vm_attr m | None => VANil end).
  set (a' := match find_meta (s_metas s') (p_text (rm_typ r)) with Some m => vm_attr m | None => VANil end).
  assert (Ha : E_attr a = E_attr a').
  { subst a a'. destruct (find_meta (s_metas s) _) as [m|]; destruct (find_meta (s_metas s') _) as [m'|]; cbn [option_map] in Hf; try discriminate; [|reflexivity].
    inversion Hf. reflexivity. }
  apply add_meta_sim; [|unfold E_meta; cbn; rewrite Ha; reflexivity].
  destruct a as [| | | | |i pn q [p|]| |]; destruct a' as [| | | | |i' pn' q' [p'|]| |]; cbn [E_attr] in Ha; try discriminate; try (symmetry; exact Hs).
  apply add_diag_sim; [symmetry; exact Hs|reflexivity].
Qed.

Lemma item_id_sim s s' i : Es s = Es s' -> Es (visit_meta_item s' i) = Es (visit_meta_item s i).
Proof.
  intros Hs. destruct i as [d|r]; [apply decl_item_sim; [exact Hs|reflexivity|intros st; split; reflexivity]|apply ref_item_sim; [exact Hs|reflexivity|reflexivity]].
Qed.

Lemma meta_def_sim g s s' x :
  (forall s s' i, Es s = Es s' -> Es (visit_meta_item s' (g i)) = Es (visit_meta_item s i)) ->
  Es s = Es s' -> Es (visit_meta_def s' (dm_meta (dm_items g) x)) = Es (visit_meta_def s x).
Proof. intros Hg Hs. unfold visit_meta_def. cbn [dm_meta dm_items me_items]. apply (fold_sim visit_meta_item g); assumption. Qed.

Lemma option_decl_id_sim s s' d : Es s = Es s' -> Es (visit_option_decl s' d) = Es (visit_option_decl s d).
Proof. intros Hs. unfold visit_option_decl. apply add_option_sim. symmetry. exact Hs. Qed.

Lemma option_def_sim g s s' o :
  (forall s s' d, Es s = Es s' -> Es (visit_option_decl s' (g d)) = Es (visit_option_decl s d)) ->
  Es s = Es s' -> Es (visit_option_def s' (dm_option (dm_decls g) o)) = Es (visit_option_def s o).
Proof. intros Hg Hs. unfold visit_option_def. cbn [dm_option dm_decls op_decls]. apply (fold_sim visit_option_decl g); assumption. Qed.

Lemma map_id {A} (l : list A) : map (fun x => x) l = l. Proof. apply map_id. Qed.

Lemma meta_def_id_sim s s' x : Es s = Es s' -> Es (visit_meta_def s' x) = Es (visit_meta_def s x).
Proof.
  intros Hs. unfold visit_meta_def. rewrite <- (map_id (me_items x)) at 1. apply (fold_sim visit_meta_item (fun i => i)); [|exact Hs].
  intros a b i. apply item_id_sim.
Qed.

Lemma option_def_id_sim s s' o : Es s = Es s' -> Es (visit_option_def s' o) = Es (visit_option_def s o).
Proof.
  intros Hs. unfold visit_option_def. rewrite <- (map_id (op_decls o)) at 1. apply (fold_sim visit_option_decl (fun d => d)); [|exact Hs].
  intros a b d. apply option_decl_id_sim.
Qed.

(* fields rewritten at the leaves *)
Lemma fw_fields_sim g metas metas' fw st :
  leaf_ok g -> map E_meta metas = map E_meta metas' ->
  E_fres (visit_field_with_attr metas' (fw_fields g fw) st) = E_fres (visit_field_with_attr metas fw st).
Proof.
  intros Hg Hm. unfold visit_field_with_attr, fw_fields. cbn [fw_def fw_attrs fw_span].
  destruct (E_fres_inv _ _ (map_fd_sim g Hg (fw_def fw) metas metas' st Hm)) as [[e [-> ->]]|[f' [st1 [ds' [f [ds [-> [-> [Hf Hd]]]]]]]]]; [reflexivity|].
  destruct (E_fres_inv _ _ (apply_attrs_sim (start_line (fw_span fw)) (start_line (fw_span fw)) (fw_attrs fw) f' f st1 Hf))
    as [[e [-> ->]]|[f2' [st2 [ds2' [f2 [ds2 [-> [-> [Hf2 Hd2]]]]]]]]]; [reflexivity|].
  cbn [E_fres]. rewrite !map_app, Hf2, Hd, Hd2. reflexivity.
Qed.

Lemma packet_def_id_sim metas metas' pmap d store :
  map E_meta metas = map E_meta metas' -> E_pres (visit_packet_def metas' pmap d store) = E_pres (visit_packet_def metas pmap d store).
Proof.
  intros Hm. assert (Hd : map_packet_fws (fun fw => fw) d = d) by (destruct d; unfold map_packet_fws; cbn; rewrite map_id; reflexivity).
  rewrite <- Hd at 1. apply visit_packet_def_sim. intros fw st.
  assert (Hfw : fw_fields (fun x => x) fw = fw) by (destruct fw; unfold fw_fields; cbn; rewrite map_fd_id; reflexivity).
  rewrite <- Hfw at 1. apply fw_fields_sim; [exact leaf_ok_id|exact Hm].
Qed.

(* the three shapes of rewrite *)
Lemma dm_ok_fields g : leaf_ok g -> dm_ok (dm_fws (fw_fields g)).
Proof.
  intros Hg. split; [|split].
  - intros s s' x. apply meta_def_id_sim.
  - intros s s' o. apply option_def_id_sim.
  - intros metas metas' pmap d store Hm. cbn [dm_packet dm_fws]. apply visit_packet_def_sim. intros fw st. apply fw_fields_sim; assumption.
Qed.

Lemma dm_ok_items g :
  (forall s s' i, Es s = Es s' -> Es (visit_meta_item s' (g i)) = Es (visit_meta_item s i)) -> dm_ok (dm_items g).
Proof.
  intros Hg. split; [|split].
  - intros s s' x. apply meta_def_sim. exact Hg.
  - intros s s' o. apply option_def_id_sim.
  - intros metas metas' pmap d store. apply packet_def_id_sim.
Qed.

Lemma dm_ok_decls g :
  (forall s s' d, Es s = Es s' -> Es (visit_option_decl s' (g d)) = Es (visit_option_decl s d)) -> dm_ok (dm_decls g).
Proof.
  intros Hg. split; [|split].
  - intros s s' x. apply meta_def_id_sim.
  - intros s s' o. apply option_def_sim. exact Hg.
  - intros metas metas' pmap d store. apply packet_def_id_sim.
Qed.

(* a leaf function that the visit does not see, MetaData entries being the same *)
Lemma leaf_ok_same_metas g :
  (forall metas f store, is_inline f = false -> E_fres (visit_field_def metas (g f) store) = E_fres (visit_field_def metas f store)) ->
  (forall f, is_inline f = false -> is_inline (g f) = false) ->
  (forall sp rep d c, g (InerObjectField sp rep d c) = InerObjectField sp rep d c) -> leaf_ok g.
Proof.
  intros H1 H2 H3. split; [|exact H3]. intros metas metas' f store Hm Hf.
  rewrite (visit_leaf_metas metas metas' (g f) store Hm (H2 f Hf)). apply H1. exact Hf.
Qed.

(* ================================================================== the rewrites *)

Ltac by_erasure := intros t r Hv Hd; eapply preserves_of_erasure; [|exact Hv|exact Hd].

(* ---- rw_drop_docs *)
Definition fd_drop_docs (f : field_def) : field_def :=
  match f with
  | MetaField sp rep d => MetaField sp rep (mkMetaDecl (md_span d) (md_type d) (md_name d) None (md_comma d))
  | ObjectField sp rep ft fn _ comma => ObjectField sp rep ft fn None comma
  | LengthField sp d =>
      LengthField sp (mkLengthFieldDecl (lf_span d) (lf_type d) (lf_name d) (lf_length_of d) None (lf_comma d))
  | CheckSumField sp d =>
      CheckSumField sp (mkChecksumFieldDecl (ck_span d) (ck_type d) (ck_name d) (ck_calculated_from d) None (ck_comma d))
  | _ => f
  end.
Definition mi_drop_docs (i : meta_item) : meta_item :=
  match i with
  | MIDecl d => MIDecl (mkMetaDecl (md_span d) (md_type d) (md_name d) None (md_comma d))
  | MIRef d => MIRef (mkRefMetaDecl (rm_span d) (rm_typ d) (rm_name d) None (rm_comma d))
  end.

Lemma rw_drop_docs_eq t : rw_drop_docs t = map_meta_items mi_drop_docs (on_fields fd_drop_docs t).
Proof. reflexivity. Qed.

Lemma leaf_drop_docs : leaf_ok fd_drop_docs.
Proof.
  apply leaf_ok_same_metas.
  - intros metas f store Hf. destruct f as [sp rep decl comma|sp rep d|sp rep ft fn doc comma|sp d|sp d|sp d comma]; try discriminate; try reflexivity.
    cbn [fd_drop_docs visit_field_def]. unfold meta_decl_field, meta_decl_attr. cbn [md_type md_name md_doc md_span].
    destruct (md_type d); reflexivity.
  - intros f Hf. destruct f; try discriminate; reflexivity.
  - reflexivity.
Qed.

Lemma items_drop_docs s s' i : Es s = Es s' -> Es (visit_meta_item s' (mi_drop_docs i)) = Es (visit_meta_item s i).
Proof.
  intros Hs. destruct i as [d|r]; cbn [mi_drop_docs].
  - apply decl_item_sim; [exact Hs|reflexivity|]. intros st. unfold meta_decl_attr. cbn [md_type]. split; reflexivity.
  - apply ref_item_sim; [exact Hs|reflexivity|reflexivity].
Qed.

Theorem rw_drop_docs_erasure t : E_outcome (visit (rw_drop_docs t)) = E_outcome (visit t).
Proof.
  rewrite rw_drop_docs_eq, map_meta_items_dm, (visit_def_map _ _ (dm_ok_items _ items_drop_docs)),
          on_fields_dm, (visit_def_map _ _ (dm_ok_fields _ leaf_drop_docs)). reflexivity.
Qed.

Theorem rw_drop_docs_preserves : forall t r, visit t = VOk r -> r_diags r = [] ->
  exists r', visit (rw_drop_docs t) = VOk r' /\ same_meaning r r' = true.
Proof. by_erasure. apply rw_drop_docs_erasure. Qed.

(* ---- rw_seps_all, rw_seps_none *)
Definition pair_set_sep (on : bool) (p : match_pair) : match_pair :=
  mkMatchPair (mp_span p) (PT.mp_key p) (mp_colon p) (mp_ident p) (if on then Some (retok (mp_colon p) T_COMMA ",") else None).
Definition fd_set_seps (on : bool) (f : field_def) : field_def :=
  match f with MatchField sp d c => MatchField sp (mf_with_pairs d (map (pair_set_sep on) (mf_pairs d))) c | _ => f end.
Definition od_set_sep (on : bool) (d : option_decl) : option_decl :=
  mkOptionDecl (od_span d) (od_name d) (od_eq d) (od_value d) (if on then Some (retok (od_eq d) T_SEMICOLON ";") else None).

Lemma set_seps_eq on t : set_seps on t = on_fields (fd_set_seps on) (map_option_decls (od_set_sep on) t).
Proof. reflexivity. Qed.

Lemma leaf_set_seps on : leaf_ok (fd_set_seps on).
Proof.
  apply leaf_ok_same_metas.
  - intros metas f store Hf. destruct f as [sp rep decl comma|sp rep d|sp rep ft fn doc comma|sp d|sp d|sp d comma]; try discriminate; try reflexivity.
    cbn [fd_set_seps visit_field_def]. unfold visit_match_field, mf_with_pairs. cbn [mf_pairs mf_name mf_key].
    assert (Hp : flat_map visit_match_pair (map (pair_set_sep on) (mf_pairs d)) = flat_map visit_match_pair (mf_pairs d)).
    { induction (mf_pairs d) as [|p ps IH]; [reflexivity|]. cbn [map flat_map]. rewrite IH. reflexivity. }
    rewrite Hp. reflexivity.
  - intros f Hf. destruct f; try discriminate; reflexivity.
  - reflexivity.
Qed.

Lemma decls_set_sep on s s' d : Es s = Es s' -> Es (visit_option_decl s' (od_set_sep on d)) = Es (visit_option_decl s d).
Proof. intros Hs. apply (option_decl_id_sim s s' d Hs). Qed.

Theorem set_seps_erasure on t : E_outcome (visit (set_seps on t)) = E_outcome (visit t).
Proof.
  rewrite set_seps_eq, on_fields_dm, (visit_def_map _ _ (dm_ok_fields _ (leaf_set_seps on))),
          map_option_decls_dm, (visit_def_map _ _ (dm_ok_decls _ (decls_set_sep on))). reflexivity.
Qed.

Theorem rw_seps_all_preserves : forall t r, visit t = VOk r -> r_diags r = [] ->
  exists r', visit (rw_seps_all t) = VOk r' /\ same_meaning r r' = true.
Proof. by_erasure. apply set_seps_erasure. Qed.

Theorem rw_seps_none_preserves : forall t r, visit t = VOk r -> r_diags r = [] ->
  exists r', visit (rw_seps_none t) = VOk r' /\ same_meaning r r' = true.
Proof. by_erasure. apply set_seps_erasure. Qed.

(* ---- guards: a rewrite that is only right on well-shaped leaves is replaced by one that leaves the others alone;
   on a tree all of whose leaves are well-shaped the two are the same function *)
Fixpoint fd_all (P : field_def -> bool) (f : field_def) {struct f} : bool :=
  match f with
  | InerObjectField _ _ (InerObjectDecl _ _ _ fields _) _ => forallb (fd_all P) fields
  | _ => P f
  end.

Definition fields_all (P : field_def -> bool) (t : pt) : bool :=
  forallb (fun d => match d with DPacket p => forallb (fun fw => fd_all P (fw_def fw)) (pd_fields p) | _ => true end) (pk_defs t).

Definition guarded (P : field_def -> bool) (g : field_def -> field_def) (f : field_def) : field_def := if P f then g f else f.

Lemma map_fd_guarded P g f :
  (forall sp rep d c, g (InerObjectField sp rep d c) = InerObjectField sp rep d c) ->
  fd_all P f = true -> map_fd (guarded P g) f = map_fd g f.
Proof.
  intros Hinl. induction f as [sp rep sp2 n o fields c comma IH|sp rep d|sp rep ft fn doc comma|sp d|sp d|sp d comma] using field_def_induction;
    cbn [fd_all map_fd]; intros HP; try (unfold guarded; rewrite HP; reflexivity).
  assert (Hm : map (map_fd (guarded P g)) fields = map (map_fd g) fields).
  { rewrite forallb_forall in HP. rewrite Forall_forall in IH. apply map_ext_in. intros x Hx. apply IH; [exact Hx|apply HP; exact Hx]. }
  rewrite Hm. unfold guarded. rewrite Hinl. destruct (P _); reflexivity.
Qed.

Lemma on_fields_guarded P g t :
  (forall sp rep d c, g (InerObjectField sp rep d c) = InerObjectField sp rep d c) ->
  fields_all P t = true -> on_fields (guarded P g) t = on_fields g t.
Proof.
  intros Hinl HP. unfold on_fields, on_fws, map_defs, fields_all in *. f_equal. rewrite forallb_forall in HP. apply map_ext_in. intros d Hd.
  destruct d as [p|m|o]; try reflexivity. f_equal. unfold map_packet_fws. f_equal. pose proof (HP _ Hd) as Hp. cbn in Hp. rewrite forallb_forall in Hp.
  apply map_ext_in. intros fw Hfw. f_equal. apply map_fd_guarded; [exact Hinl|apply Hp; exact Hfw].
Qed.

Lemma leaf_ok_guarded P g :
  (forall metas f store, is_inline f = false -> P f = true -> E_fres (visit_field_def metas (g f) store) = E_fres (visit_field_def metas f store)) ->
  (forall f, is_inline f = false -> is_inline (g f) = false) ->
  (forall sp rep d c, g (InerObjectField sp rep d c) = InerObjectField sp rep d c) -> leaf_ok (guarded P g).
Proof.
  intros H1 H2 H3. apply leaf_ok_same_metas.
  - intros metas f store Hf. unfold guarded. destruct (P f) eqn:HP; [apply H1; assumption|reflexivity].
  - intros f Hf. unfold guarded. destruct (P f); [apply H2; exact Hf|exact Hf].
  - intros sp rep d c. unfold guarded. rewrite H3. destruct (P _); reflexivity.
Qed.

(* option declarations, the same way *)
Definition decls_all (P : option_decl -> bool) (t : pt) : bool :=
  forallb (fun d => match d with DOption o => forallb P (op_decls o) | _ => true end) (pk_defs t).
Definition guarded_od (P : option_decl -> bool) (g : option_decl -> option_decl) (d : option_decl) : option_decl := if P d then g d else d.

Lemma map_option_decls_guarded P g t : decls_all P t = true -> map_option_decls (guarded_od P g) t = map_option_decls g t.
Proof.
  intros HP. unfold map_option_decls, map_defs, decls_all in *. f_equal. rewrite forallb_forall in HP. apply map_ext_in. intros d Hd.
  destruct d as [p|m|o]; try reflexivity. f_equal. f_equal. pose proof (HP _ Hd) as Ho. cbn in Ho. rewrite forallb_forall in Ho.
  apply map_ext_in. intros x Hx. unfold guarded_od. rewrite (Ho x Hx). reflexivity.
Qed.

(* ---- type aliases *)

Lemma str_app_nil (s : string) : (s ++ "")%string = s.
Proof. induction s as [|c s IH]; [reflexivity|]. cbn. rewrite IH. reflexivity. Qed.

Lemma nt_short s : nt (short_of s) = nt s. Proof. apply short_of_norm. Qed.
Lemma nt_long s : nt (long_of s) = nt s.
Proof. unfold nt, long_of. by_spelling s. reflexivity. Qed.
Lemma gbt_short s : BModel.get_basic_type (short_of s) = BModel.get_basic_type s.
Proof. unfold short_of. by_spelling s. reflexivity. Qed.
Lemma gbt_long s : BModel.get_basic_type (long_of s) = BModel.get_basic_type s.
Proof. unfold long_of. by_spelling s. reflexivity. Qed.

(* a respelling of basic type names that keeps their meaning *)
Definition basic_ok (basic : string -> string) : Prop :=
  (forall s, nt (basic s) = nt s) /\ (forall s, BModel.get_basic_type (basic s) = BModel.get_basic_type s).

Lemma basic_ok_short : basic_ok short_of. Proof. split; [exact nt_short|exact gbt_short]. Qed.
Lemma basic_ok_long : basic_ok long_of. Proof. split; [exact nt_long|exact gbt_long]. Qed.

(* the dynamic-string keyword of a length / checksum declaration is one of the two the lexer knows *)
Definition dyn_wf_ty (ty : option type_) : bool :=
  match ty with
  | Some (TyDynamic _ d) => String.eqb (p_text (ds_tok d)) "string" || String.eqb (p_text (ds_tok d)) "char[]"
  | _ => true
  end.
Definition dyn_wf (f : field_def) : bool :=
  match f with
  | LengthField _ d => dyn_wf_ty (lf_type d)
  | CheckSumField _ d => dyn_wf_ty (ck_type d)
  | _ => true
  end.

Definition fd_types (g : type_ -> type_) (f : field_def) : field_def :=
  match f with
  | MetaField sp rep d => MetaField sp rep (md_with_type d (g (md_type d)))
  | LengthField sp d =>
      LengthField sp (mkLengthFieldDecl (lf_span d) (option_map g (lf_type d)) (lf_name d) (lf_length_of d) (lf_doc d) (lf_comma d))
  | CheckSumField sp d =>
      CheckSumField sp (mkChecksumFieldDecl (ck_span d) (option_map g (ck_type d)) (ck_name d) (ck_calculated_from d) (ck_doc d) (ck_comma d))
  | _ => f
  end.
Definition mi_types (g : type_ -> type_) (i : meta_item) : meta_item :=
  match i with MIDecl d => MIDecl (md_with_type d (g (md_type d))) | _ => i end.

Lemma on_decl_types_eq g t : on_decl_types g t = map_meta_items (mi_types g) (on_fields (fd_types g) t).
Proof. reflexivity. Qed.

Lemma meta_decl_attr_respell basic dyn d st : basic_ok basic ->
  E_attr (fst (meta_decl_attr (md_with_type d (respell_type basic dyn (md_type d))) st)) = E_attr (fst (meta_decl_attr d st)) /\
  snd (meta_decl_attr (md_with_type d (respell_type basic dyn (md_type d))) st) = snd (meta_decl_attr d st).
Proof.
  intros [Hb _]. unfold meta_decl_attr, md_with_type. cbn [md_type]. destruct (md_type d) as [sp b|sp f|sp dy]; cbn [respell_type]; try (split; reflexivity).
  unfold type_text. cbn [toks_type toks_basic_type text_of fold_right bt_tok retok p_text fst snd E_attr]. rewrite !str_app_nil, Hb. split; reflexivity.
Qed.

Lemma nt_type_text_respell basic dyn ty : basic_ok basic -> dyn_wf_ty (Some ty) = true ->
  nt (type_text (respell_type basic dyn ty)) = nt (type_text ty).
Proof.
  intros [Hb _] Hwf. destruct ty as [sp b|sp f|sp dy]; cbn [respell_type]; [|reflexivity|].
  - unfold type_text. cbn [toks_type toks_basic_type text_of fold_right bt_tok retok p_text]. rewrite !str_app_nil. apply Hb.
  - cbn [dyn_wf_ty] in Hwf. unfold type_text. cbn [toks_type toks_dynamic_string text_of fold_right ds_tok]. rewrite !str_app_nil.
    apply orb_true_iff in Hwf. destruct Hwf as [H|H]; apply String.eqb_eq in H; rewrite H; destruct dyn; reflexivity.
Qed.

Lemma decl_type_respell basic dyn metas ty name : basic_ok basic -> dyn_wf_ty ty = true ->
  nt (decl_type metas (option_map (respell_type basic dyn) ty) name) = nt (decl_type metas ty name).
Proof.
  intros Hb Hwf. unfold decl_type. destruct ty as [ty|]; [|reflexivity]. cbn [option_map]. apply nt_type_text_respell; assumption.
Qed.

Lemma leaf_types basic dyn : basic_ok basic -> leaf_ok (guarded dyn_wf (fd_types (respell_type basic dyn))).
Proof.
  intros Hb. apply leaf_ok_guarded.
  - intros metas f store Hf HP. destruct f as [sp rep decl comma|sp rep d|sp rep ft fn doc comma|sp d|sp d|sp d comma]; try discriminate; try reflexivity.
    + cbn [fd_types visit_field_def]. unfold meta_decl_field. destruct (meta_decl_attr_respell basic dyn d store Hb) as [H1 H2].
      destruct (meta_decl_attr (md_with_type d _) store) as [a' st']. destruct (meta_decl_attr d store) as [a st]. cbn [fst snd] in *. subst st'.
      cbn [E_fres E_field map md_with_type md_name md_doc md_span]. rewrite H1. reflexivity.
    + cbn [fd_types visit_field_def dyn_wf] in *. unfold visit_length_field. cbn [lf_name lf_type lf_length_of lf_doc lf_span E_fres E_field E_attr map].
      rewrite (decl_type_respell basic dyn metas (lf_type d) _ Hb HP). reflexivity.
    + cbn [fd_types visit_field_def dyn_wf] in *. unfold visit_checksum_field. cbn [ck_name ck_type ck_calculated_from ck_doc ck_span E_fres E_field E_attr map].
      rewrite (decl_type_respell basic dyn metas (ck_type d) _ Hb HP). reflexivity.
  - intros f Hf. destruct f; try discriminate; reflexivity.
  - reflexivity.
Qed.

Lemma items_types basic dyn s s' i : basic_ok basic -> Es s = Es s' ->
  Es (visit_meta_item s' (mi_types (respell_type basic dyn) i)) = Es (visit_meta_item s i).
Proof.
  intros Hb Hs. destruct i as [d|r]; cbn [mi_types]; [|apply item_id_sim; exact Hs].
  apply decl_item_sim; [exact Hs|reflexivity|]. intros st. apply meta_decl_attr_respell. exact Hb.
Qed.

Theorem on_decl_types_erasure basic dyn t : basic_ok basic -> fields_all dyn_wf t = true ->
  E_outcome (visit (on_decl_types (respell_type basic dyn) t)) = E_outcome (visit t).
Proof.
  intros Hb Hwf. rewrite on_decl_types_eq, map_meta_items_dm, (visit_def_map _ _ (dm_ok_items _ (fun s s' i => items_types basic dyn s s' i Hb))).
  rewrite <- (on_fields_guarded dyn_wf) by (reflexivity || exact Hwf).
  rewrite on_fields_dm, (visit_def_map _ _ (dm_ok_fields _ (leaf_types basic dyn Hb))). reflexivity.
Qed.

(* guard: the dynamic-string keywords of length / checksum declarations are the lexer's *)
Definition alias_guard (t : pt) : bool := fields_all dyn_wf t.

Theorem rw_alias_long_preserves : forall t r, visit t = VOk r -> r_diags r = [] -> alias_guard t = true ->
  exists r', visit (rw_alias_long t) = VOk r' /\ same_meaning r r' = true.
Proof.
  intros t r Hv Hd Hg. eapply preserves_of_erasure; [|exact Hv|exact Hd]. apply on_decl_types_erasure; [exact basic_ok_long|exact Hg].
Qed.

(* option values *)
Definition od_types (g : type_ -> type_) (d : option_decl) : option_decl :=
  match od_value d with
  | VType sp ty => mkOptionDecl (od_span d) (od_name d) (od_eq d) (VType sp (g ty)) (od_semi d)
  | _ => d
  end.
Lemma on_option_types_eq g t : on_option_types g t = map_option_decls (od_types g) t.
Proof. reflexivity. Qed.

(* no option value is a dynamic-string type keyword (such a value is taken literally: GoPackage = string) *)
Definition od_no_dyn (d : option_decl) : bool := match od_value d with VType _ (TyDynamic _ _) => false | _ => true end.

Lemma option_value_respell basic dyn sp ty : basic_ok basic -> (match ty with TyDynamic _ _ => False | _ => True end) ->
  option_value (VType sp (respell_type basic dyn ty)) = option_value (VType sp ty).
Proof.
  intros [_ Hg] Hnd. destruct ty as [tsp b|tsp f|tsp dy]; [|reflexivity|contradiction]. unfold option_value, value_text.
  cbn [respell_type toks_value toks_type toks_basic_type text_of fold_right bt_tok retok p_text]. rewrite !str_app_nil, Hg. reflexivity.
Qed.

Lemma decls_types basic dyn s s' d : basic_ok basic -> Es s = Es s' ->
  Es (visit_option_decl s' (guarded_od od_no_dyn (od_types (respell_type basic dyn)) d)) = Es (visit_option_decl s d).
Proof.
  intros Hb Hs. unfold guarded_od, od_no_dyn, od_types. destruct (od_value d) as [sp ty| | | | |] eqn:Hv; try (apply option_decl_id_sim; exact Hs).
  destruct ty as [tsp b|tsp f|tsp dy]; try (apply option_decl_id_sim; exact Hs).
  - unfold visit_option_decl. cbn [od_name od_value od_span]. rewrite Hv, (option_value_respell basic dyn sp (TyBasic tsp b) Hb I).
    apply add_option_sim. symmetry. exact Hs.
  - unfold visit_option_decl. cbn [od_name od_value od_span]. rewrite Hv. apply add_option_sim. symmetry. exact Hs.
Qed.

Theorem on_option_types_erasure basic dyn t : basic_ok basic -> decls_all od_no_dyn t = true ->
  E_outcome (visit (on_option_types (respell_type basic dyn) t)) = E_outcome (visit t).
Proof.
  intros Hb Hg. rewrite on_option_types_eq, <- (map_option_decls_guarded od_no_dyn) by exact Hg.
  rewrite map_option_decls_dm, (visit_def_map _ _ (dm_ok_decls _ (fun s s' d => decls_types basic dyn s s' d Hb))). reflexivity.
Qed.

Definition alias_opts_guard (t : pt) : bool := decls_all od_no_dyn t.

Theorem rw_alias_long_opts_preserves : forall t r, visit t = VOk r -> r_diags r = [] -> alias_opts_guard t = true ->
  exists r', visit (rw_alias_long_opts t) = VOk r' /\ same_meaning r r' = true.
Proof.
  intros t r Hv Hd Hg. eapply preserves_of_erasure; [|exact Hv|exact Hd]. apply on_option_types_erasure; [exact basic_ok_long|exact Hg].
Qed.


Lemma decls_all_on_decl_types P g t : decls_all P (on_decl_types g t) = decls_all P t.
Proof.
  unfold decls_all, on_decl_types, map_meta_items, on_fields, on_fws, map_defs. cbn [pk_defs]. rewrite !map_map.
  induction (pk_defs t) as [|d ds IH]; [reflexivity|]. cbn [map forallb]. rewrite IH. destruct d; reflexivity.
Qed.

Theorem rw_alias_short_preserves : forall t r, visit t = VOk r -> r_diags r = [] -> alias_guard t = true -> alias_opts_guard t = true ->
  exists r', visit (rw_alias_short t) = VOk r' /\ same_meaning r r' = true.
Proof.
  intros t r Hv Hd Hg1 Hg2. eapply preserves_of_erasure; [|exact Hv|exact Hd]. unfold rw_alias_short.
  rewrite on_option_types_erasure; [|exact basic_ok_short|unfold alias_opts_guard in Hg2; rewrite decls_all_on_decl_types; exact Hg2].
  apply on_decl_types_erasure; [exact basic_ok_short|exact Hg1].
Qed.

(* ---- rewrites of top-level declarations *)
Definition fws_all (P : field_with_attr -> bool) (t : pt) : bool :=
  forallb (fun d => match d with DPacket p => forallb P (pd_fields p) | _ => true end) (pk_defs t).
Definition guarded_fw (P : field_with_attr -> bool) (h : field_with_attr -> field_with_attr) (fw : field_with_attr) : field_with_attr :=
  if P fw then h fw else fw.

Lemma on_fws_guarded P h t : fws_all P t = true -> on_fws (guarded_fw P h) t = on_fws h t.
Proof.
  intros HP. unfold on_fws, map_defs, fws_all in *. f_equal. rewrite forallb_forall in HP. apply map_ext_in. intros d Hd.
  destruct d as [p|m|o]; try reflexivity. f_equal. unfold map_packet_fws. f_equal. pose proof (HP _ Hd) as Hp. cbn in Hp. rewrite forallb_forall in Hp.
  apply map_ext_in. intros fw Hfw. unfold guarded_fw. rewrite (Hp fw Hfw). reflexivity.
Qed.

Lemma fw_id_sim metas metas' fw st :
  map E_meta metas = map E_meta metas' -> E_fres (visit_field_with_attr metas' fw st) = E_fres (visit_field_with_attr metas fw st).
Proof.
  intros Hm. assert (Hfw : fw_fields (fun x => x) fw = fw) by (destruct fw; unfold fw_fields; cbn; rewrite map_fd_id; reflexivity).
  rewrite <- Hfw at 1. apply fw_fields_sim; [exact leaf_ok_id|exact Hm].
Qed.

Lemma dm_ok_fws h :
  (forall metas fw st, E_fres (visit_field_with_attr metas (h fw) st) = E_fres (visit_field_with_attr metas fw st)) -> dm_ok (dm_fws h).
Proof.
  intros Hh. split; [|split].
  - intros s s' x. apply meta_def_id_sim.
  - intros s s' o. apply option_def_id_sim.
  - intros metas metas' pmap d store Hm. cbn [dm_packet dm_fws]. apply visit_packet_def_sim. intros fw st.
    rewrite (Hh metas' fw st). apply fw_id_sim. exact Hm.
Qed.

(* ---- rw_zchar *)
Definition fw_zchar (fw : field_with_attr) : field_with_attr :=
  match fw_def fw with
  | MetaField sp rep d =>
      match md_type d with
      | TyFixed tsp f =>
          if Nat.eqb (p_type (fs_open f)) T_ZCHARLB then
            let f' := mkFixedString (fs_span f) (retok (fs_open f) T_CHARLB "char[") (fs_digits f) (fs_close f) in
            mkFieldWithAttr (fw_span fw)
              (mk_pad_attr (fs_open f) "@rightPad" (Some "'\x00'") :: fw_attrs fw)
              (MetaField sp rep (md_with_type d (TyFixed tsp f')))
          else fw
      | _ => fw
      end
  | _ => fw
  end.
Lemma rw_zchar_eq t : rw_zchar t = on_fws fw_zchar t. Proof. reflexivity. Qed.

(* the tokens of a zchar type are the lexer's: the opening token reads zchar[ and the rest does not spell zchar *)
Definition zchar_wf (fw : field_with_attr) : bool :=
  match fw_def fw with
  | MetaField _ _ d =>
      match md_type d with
      | TyFixed _ f =>
          if Nat.eqb (p_type (fs_open f)) T_ZCHARLB
          then String.eqb (p_text (fs_open f)) "zchar[" &&
               negb (containsb "zchar" ("char[" ++ p_text (fs_digits f) ++ p_text (fs_close f) ++ "")%string)
          else true
      | _ => true
      end
  | _ => true
  end.

Lemma set_cell_pad_last st c p : set_cell_pad (snoc st c) (length st) p = snoc st (mkCell (fc_len c) (Some p)).
Proof.
  unfold set_cell_pad, snoc. rewrite nth_error_app2 by lia. rewrite Nat.sub_diag. cbn [nth_error].
  induction st as [|x st IH]; [reflexivity|]. cbn. f_equal. exact IH.
Qed.

Lemma fw_zchar_same metas fw st : zchar_wf fw = true -> visit_field_with_attr metas (fw_zchar fw) st = visit_field_with_attr metas fw st.
Proof.
  unfold zchar_wf, fw_zchar. destruct (fw_def fw) as [| sp rep d | | | |] eqn:Hdef; try reflexivity.
  destruct (md_type d) as [|tsp f|] eqn:Hty; try reflexivity. destruct (Nat.eqb (p_type (fs_open f)) T_ZCHARLB); [|reflexivity].
  intros Hwf. apply andb_true_iff in Hwf. destruct Hwf as [Hopen Hrest]. apply String.eqb_eq in Hopen. apply negb_true_iff in Hrest.
  unfold visit_field_with_attr. cbn [fw_def fw_attrs fw_span]. rewrite Hdef. cbn [visit_field_def]. unfold meta_decl_field, meta_decl_attr, md_with_type.
  cbn [md_type md_name md_doc md_span]. rewrite Hty. unfold type_text. cbn [toks_type toks_fixed_string text_of fold_right fs_open fs_digits fs_close retok p_text].
  rewrite Hopen, Hrest. cbn [containsb prefixb String.append]. cbn [apply_attrs apply_attr mk_pad_attr pa_padding pa_attr retok p_text vf_attr option_map].
  change (String.eqb "'\x00'" "'\x00'") with true. cbv iota. rewrite set_cell_pad_last. cbn [fc_len app].
  change (containsb "left" "@rightPad") with false.
  destruct (apply_attrs (start_line (fw_span fw)) (fw_attrs fw) _ _) as [[[f2 st2] ds2]|e]; reflexivity.
Qed.

Definition zchar_guard (t : pt) : bool := fws_all zchar_wf t.

Theorem rw_zchar_erasure t : zchar_guard t = true -> E_outcome (visit (rw_zchar t)) = E_outcome (visit t).
Proof.
  intros Hg. rewrite rw_zchar_eq, <- (on_fws_guarded zchar_wf) by exact Hg. rewrite on_fws_dm. apply visit_def_map. apply dm_ok_fws.
  intros metas fw st. unfold guarded_fw. destruct (zchar_wf fw) eqn:Hw; [rewrite fw_zchar_same by exact Hw|]; reflexivity.
Qed.

Theorem rw_zchar_preserves : forall t r, visit t = VOk r -> r_diags r = [] -> zchar_guard t = true ->
  exists r', visit (rw_zchar t) = VOk r' /\ same_meaning r r' = true.
Proof. intros t r Hv Hd Hg. eapply preserves_of_erasure; [|exact Hv|exact Hd]. apply rw_zchar_erasure. exact Hg. Qed.

(* ---- key lists *)
Definition is_digits (k : ptok) : bool := Nat.eqb (p_type k) T_DIGITS.
Definition is_string (k : ptok) : bool := Nat.eqb (p_type k) T_STRING.

(* the keys of a list are visited numbers first: the list is in that order already *)
Fixpoint keys_in_order (ks : list ptok) : bool :=
  match ks with
  | [] => true
  | k :: r => if is_digits k then keys_in_order r else forallb is_string ks
  end.

Lemma keys_in_order_filter ks : keys_in_order ks = true -> filter is_digits ks ++ filter is_string ks = ks.
Proof.
  induction ks as [|k r IH]; [reflexivity|]. cbn [keys_in_order]. destruct (is_digits k) eqn:Hd.
  - intros H. cbn [filter]. rewrite Hd. assert (Hs : is_string k = false).
    { unfold is_digits, is_string in *. apply Nat.eqb_eq in Hd. rewrite Hd. reflexivity. }
    rewrite Hs. cbn [app]. f_equal. apply IH. exact H.
  - intros H. assert (G : forall l, forallb is_string l = true -> filter is_digits l = [] /\ filter is_string l = l).
    { induction l as [|x l IHl]; [split; reflexivity|]. cbn [forallb filter]. intros Hx. apply andb_true_iff in Hx. destruct Hx as [Hx Hl].
      rewrite Hx. assert (Hxd : is_digits x = false). { unfold is_digits, is_string in *. apply Nat.eqb_eq in Hx. rewrite Hx. reflexivity. }
      rewrite Hxd. destruct (IHl Hl) as [A B]. rewrite A, B. split; reflexivity. }
    destruct (G _ H) as [A B]. rewrite A, B. reflexivity.
Qed.

Definition pair_wf (p : match_pair) : bool :=
  match PT.mp_key p with MKList l => keys_in_order (key_items l) | _ => true end.

Definition keys_wf (f : field_def) : bool :=
  match f with MatchField _ d _ => forallb pair_wf (mf_pairs d) | _ => true end.

Definition no_mixed_key_list (t : pt) : bool := fields_all keys_wf t.

Definition fd_expand_keys (f : field_def) : field_def :=
  match f with MatchField sp d c => MatchField sp (mf_with_pairs d (flat_map expand_pair (mf_pairs d))) c | _ => f end.

Lemma rw_expand_keys_eq t : rw_expand_keys t = on_fields fd_expand_keys t.
Proof. reflexivity. Qed.

Lemma expand_pair_pairs p : pair_wf p = true ->
  map E_pair (flat_map visit_match_pair (expand_pair p)) = map E_pair (visit_match_pair p).
Proof.
  unfold pair_wf, expand_pair. destruct (PT.mp_key p) as [k|k|l] eqn:Hk.
  - intros _. cbn [flat_map]. rewrite app_nil_r. reflexivity.
  - intros _. cbn [flat_map]. rewrite app_nil_r. reflexivity.
  - intros Hwf. unfold visit_match_pair at 2. rewrite Hk. fold (key_items l). rewrite <- map_app. change (fun k => Nat.eqb (p_type k) T_DIGITS) with is_digits.
    change (fun k => Nat.eqb (p_type k) T_STRING) with is_string. rewrite (keys_in_order_filter _ Hwf). clear Hwf.
    induction (key_items l) as [|k ks IH]; [reflexivity|]. cbn [map flat_map]. rewrite map_app, IH.
    unfold visit_match_pair at 1. cbn [PT.mp_key mp_ident mp_span]. destruct (Nat.eqb (p_type k) T_DIGITS); reflexivity.
Qed.

Lemma expand_pairs ps : forallb pair_wf ps = true ->
  map E_pair (flat_map visit_match_pair (flat_map expand_pair ps)) = map E_pair (flat_map visit_match_pair ps).
Proof.
  induction ps as [|p ps IH]; [reflexivity|]. cbn [forallb flat_map]. intros H. apply andb_true_iff in H. destruct H as [Hp Hps].
  rewrite flat_map_app, !map_app, (expand_pair_pairs p Hp), (IH Hps). reflexivity.
Qed.

Lemma match_dup_loop_E ps : forall m, map E_diag (match_dup_loop (map E_pair ps) m) = map E_diag (match_dup_loop ps m).
Proof.
  induction ps as [|p ps IH]; [reflexivity|]. intros m. cbn [map match_dup_loop]. change (vp_key (E_pair p)) with (vp_key p).
  destruct (mem (vp_key p) m); [cbn [map]; rewrite IH; reflexivity|apply IH].
Qed.

Lemma leaf_expand_keys : leaf_ok (guarded keys_wf fd_expand_keys).
Proof.
  apply leaf_ok_guarded.
  - intros metas f store Hf HP. destruct f as [sp rep decl comma|sp rep d|sp rep ft fn doc comma|sp d|sp d|sp d comma]; try discriminate; try reflexivity.
    cbn [fd_expand_keys visit_field_def]. unfold visit_match_field, mf_with_pairs. cbn [mf_pairs mf_name mf_key keys_wf] in *.
    pose proof (expand_pairs _ HP) as Hp. cbn [E_fres]. unfold E_field. cbn -[flat_map match_dup_loop expand_pair visit_match_pair]. rewrite Hp.
    rewrite <- (match_dup_loop_E (flat_map visit_match_pair (flat_map expand_pair (mf_pairs d)))), Hp, match_dup_loop_E. reflexivity.
  - intros f Hf. destruct f; try discriminate; reflexivity.
  - reflexivity.
Qed.

Theorem rw_expand_keys_erasure t : no_mixed_key_list t = true -> E_outcome (visit (rw_expand_keys t)) = E_outcome (visit t).
Proof.
  intros Hg. rewrite rw_expand_keys_eq, <- (on_fields_guarded keys_wf) by (reflexivity || exact Hg).
  rewrite on_fields_dm. apply visit_def_map. apply dm_ok_fields. exact leaf_expand_keys.
Qed.

Theorem rw_expand_keys_preserves : forall t r, visit t = VOk r -> r_diags r = [] -> no_mixed_key_list t = true ->
  exists r', visit (rw_expand_keys t) = VOk r' /\ same_meaning r r' = true.
Proof. intros t r Hv Hd Hg. eapply preserves_of_erasure; [|exact Hv|exact Hd]. apply rw_expand_keys_erasure. exact Hg. Qed.

(* ---- default options: the rewrite adds one options block at the end; it is visited after the written ones *)

Definition dv_text (v : defval) : string :=
  match v with DVType s _ => s | DVFalse => "false" | DVString => "" | DVPad => "' '" end.

Definition default_options_guard (t : pt) : bool :=
  negb (mem "FixedStringPadFromLeft" (declared_options t) && negb (mem "FixedStringPadChar" (declared_options t))).

Lemma same_meaning_refl r : r_diags r = [] -> same_meaning r r = true.
Proof. intros H. apply E_same_meaning; [exact H|reflexivity]. Qed.

Lemma flat_map_snoc {A B} (f : A -> list B) l x : flat_map f (l ++ [x]) = flat_map f l ++ f x.
Proof. rewrite flat_map_app. cbn. rewrite app_nil_r. reflexivity. Qed.

(* the options of a state *)
Lemma alookup_app {A} (a b : list (string * A)) k :
  alookup (a ++ b) k = match alookup a k with Some v => Some v | None => alookup b k end.
Proof. induction a as [|[k' v] a IH]; [reflexivity|]. cbn. destruct (String.eqb k k'); [reflexivity|exact IH]. Qed.

Lemma add_option_other s n v l k : String.eqb k n = false -> alookup (s_options (add_option s n v l)) k = alookup (s_options s) k.
Proof.
  intros Hk. unfold add_option. destruct (alookup option_table n) as [values|]; [|reflexivity].
  set (s1 := match values with [] => s | _ => _ end). assert (H1 : s_options s1 = s_options s).
  { subst s1. destruct values; [reflexivity|]. destruct (mem v _); reflexivity. }
  destruct (alookup (s_options s1) n); cbn [add_diag set_options s_options]; [exact (f_equal (fun o => alookup o k) H1)|].
  unfold snoc. rewrite alookup_app, H1. destruct (alookup (s_options s) k); [reflexivity|]. cbn. rewrite Hk. reflexivity.
Qed.

Lemma option_decls_other ds : forall s k, mem k (map (fun x => p_text (od_name x)) ds) = false ->
  alookup (s_options (fold_left visit_option_decl ds s)) k = alookup (s_options s) k.
Proof.
  induction ds as [|d ds IH]; [reflexivity|]. intros s k Hk. cbn [map mem] in Hk. apply orb_false_iff in Hk. destruct Hk as [H1 H2].
  cbn [fold_left]. rewrite (IH _ _ H2). unfold visit_option_decl. apply add_option_other. exact H1.
Qed.

Lemma option_defs_other os : forall s k, mem k (flat_map (fun o => map (fun x => p_text (od_name x)) (op_decls o)) os) = false ->
  alookup (s_options (fold_left visit_option_def os s)) k = alookup (s_options s) k.
Proof.
  induction os as [|o os IH]; [reflexivity|]. intros s k Hk. cbn [flat_map] in Hk. unfold mem in Hk. rewrite existsb_app in Hk.
  apply orb_false_iff in Hk. destruct Hk as [H1 H2]. cbn [fold_left]. rewrite (IH _ _ H2). unfold visit_option_def. apply option_decls_other. exact H1.
Qed.

Lemma declared_options_eq t : declared_options t = flat_map (fun o => map (fun x => p_text (od_name x)) (op_decls o)) (options_of t).
Proof.
  unfold declared_options, options_of. induction (pk_defs t) as [|d ds IH]; [reflexivity|]. cbn [flat_map]. rewrite IH, flat_map_app.
  destruct d; cbn [app flat_map]; try reflexivity. rewrite app_nil_r. reflexivity.
Qed.

Lemma add_meta_options s m : s_options (add_meta s m) = s_options s.
Proof. unfold add_meta. destruct (find_meta _ _); reflexivity. Qed.

Lemma meta_item_options s i : s_options (visit_meta_item s i) = s_options s.
Proof.
  destruct i as [d|d]; cbn [visit_meta_item].
  - destruct (meta_decl_attr d (s_store s)) as [a st]. rewrite add_meta_options. reflexivity.
  - rewrite add_meta_options. destruct (match find_meta _ _ with Some m => vm_attr m | None => VANil end); reflexivity.
Qed.

Lemma phase_metas_options t s : s_options (phase_metas t s) = s_options s.
Proof.
  unfold phase_metas. revert s. induction (metas_of t) as [|m ms IH]; [reflexivity|]. intros s. cbn [fold_left]. rewrite IH.
  unfold visit_meta_def. generalize s. induction (me_items m) as [|i is IHi]; [reflexivity|]. intros s0. cbn [fold_left]. rewrite IHi. apply meta_item_options.
Qed.

Lemma undeclared_not_set t k : mem k (declared_options t) = false ->
  alookup (s_options (phase_options t (phase_metas t st0))) k = None.
Proof.
  intros H. unfold phase_options. rewrite option_defs_other by (rewrite <- declared_options_eq; exact H). rewrite phase_metas_options. reflexivity.
Qed.

(* the added block registers its values without a diagnostic *)
Lemma default_decl_value at_ nv : In nv option_defaults -> option_value (od_value (mk_default_decl at_ nv)) = dv_text (snd nv).
Proof. intros H. cbn in H. repeat (destruct H as [H|H]; [subst nv; reflexivity|]). destruct H. Qed.

Lemma default_decl_name at_ nv : p_text (od_name (mk_default_decl at_ nv)) = fst nv.
Proof. reflexivity. Qed.

Lemma add_default s nv l : In nv option_defaults -> alookup (s_options s) (fst nv) = None ->
  add_option s (fst nv) (dv_text (snd nv)) l = set_options s (snoc (s_options s) (fst nv, dv_text (snd nv))).
Proof.
  intros H Hn. unfold add_option. cbn in H.
  repeat (destruct H as [H|H]; [subst nv; cbn [fst snd dv_text] in *; cbn [alookup option_table String.eqb Ascii.eqb Bool.eqb mem existsb orb]; rewrite Hn; reflexivity|]).
  destruct H.
Qed.

Lemma add_defaults at_ l : forall s, Forall (fun nv => In nv option_defaults) l -> NoDup (map fst l) ->
  Forall (fun nv => alookup (s_options s) (fst nv) = None) l ->
  fold_left visit_option_decl (map (mk_default_decl at_) l) s =
  set_options s (s_options s ++ map (fun nv => (fst nv, dv_text (snd nv))) l).
Proof.
  induction l as [|nv l IH]; intros s Hin Hnd Hno.
  - cbn. rewrite app_nil_r. destruct s; reflexivity.
  - inversion Hin as [|? ? Hin1 Hin2]; subst. inversion Hnd as [|? ? Hnd1 Hnd2]; subst. inversion Hno as [|? ? Hno1 Hno2]; subst.
    cbn [map fold_left]. unfold visit_option_decl at 2. rewrite default_decl_name, (default_decl_value at_ nv Hin1), (add_default _ _ _ Hin1 Hno1).
    rewrite IH; [| exact Hin2 | exact Hnd2 |].
    + cbn [set_options s_options s_store s_metas s_packets s_root s_diags]. unfold snoc. rewrite <- app_assoc. reflexivity.
    + cbn [set_options s_options]. rewrite Forall_forall in *. intros x Hx. unfold snoc. rewrite alookup_app, (Hno2 x Hx). cbn.
      destruct (String.eqb (fst x) (fst nv)) eqn:He; [|reflexivity]. apply String.eqb_eq in He. exfalso. apply Hnd1. rewrite <- He. apply in_map. exact Hx.
Qed.

(* the packets are visited without a look at the options *)
Lemma add_diag_set_options s o d : add_diag (set_options s o) d = set_options (add_diag s d) o.
Proof. reflexivity. Qed.

Lemma add_packet_set_options s o p : add_packet (set_options s o) p = set_options (add_packet s p) o.
Proof.
  destruct s as [st ms os ps ro ds]. unfold add_packet. cbn [set_options s_store s_metas s_options s_packets s_root s_diags]. destruct (mem _ _); [reflexivity|].
  destruct (vk_root p); [|reflexivity]. destruct ro; reflexivity.
Qed.

Definition res_map {A B} (f : A -> B) (x : res A) : res B := match x with ROk a => ROk (f a) | RPanic e => RPanic e end.

Lemma visit_packets_set_options l o : forall s, visit_packets l (set_options s o) = res_map (fun s' => set_options s' o) (visit_packets l s).
Proof.
  induction l as [|d l IH]; [reflexivity|]. intros s. cbn [visit_packets set_options s_metas s_packets s_store s_options s_root s_diags].
  destruct (visit_packet_def _ _ d _) as [[[p st] ds]|e]; [|reflexivity].
  change (mkSt st (s_metas s) o (s_packets s) (s_root s) (s_diags s ++ ds)) with (set_options (mkSt st (s_metas s) (s_options s) (s_packets s) (s_root s) (s_diags s ++ ds)) o).
  rewrite add_packet_set_options. apply IH.
Qed.

(* the configuration *)
Lemma alookup_missing have defs k :
  alookup (map (fun nv : string * defval => (fst nv, dv_text (snd nv))) (filter (fun nv => negb (mem (fst nv) have)) defs)) k =
  if mem k have then None else alookup (map (fun nv => (fst nv, dv_text (snd nv))) defs) k.
Proof.
  induction defs as [|[n v] defs IH]; [destruct (mem k have); reflexivity|]. cbn [filter fst map alookup snd].
  destruct (String.eqb k n) eqn:He.
  - apply String.eqb_eq in He. subst n. destruct (mem k have) eqn:Hm; cbn [negb].
    + exact IH.
    + cbn [map alookup fst snd]. rewrite String.eqb_refl. reflexivity.
  - destruct (negb (mem n have)); [cbn [map alookup fst snd]; rewrite He|]; exact IH.
Qed.

Lemma config_with_defaults opts have :
  (forall k, mem k have = false -> alookup opts k = None) ->
  negb (mem "FixedStringPadFromLeft" have && negb (mem "FixedStringPadChar" have)) = true ->
  new_configuration (opts ++ map (fun nv : string * defval => (fst nv, dv_text (snd nv))) (filter (fun nv => negb (mem (fst nv) have)) option_defaults))
  = new_configuration opts.
Proof.
  intros Hno Hg. unfold new_configuration. rewrite !alookup_app, !alookup_missing.
  cbn [option_defaults map alookup fst snd dv_text String.eqb Ascii.eqb Bool.eqb].
  assert (G : forall k d, match alookup opts k with Some v => Some v | None => if mem k have then None else Some d end =
                          match alookup opts k with Some v => Some v | None => if mem k have then None else Some d end) by reflexivity.
  destruct (mem "ArrayPrefixLenType" have) eqn:H1; [|rewrite (Hno _ H1)];
  destruct (mem "StringPrefixLenType" have) eqn:H2; [|rewrite (Hno _ H2)| |rewrite (Hno _ H2)];
  destruct (mem "JavaPackage" have) eqn:H3; try rewrite (Hno _ H3);
  destruct (mem "GoPackage" have) eqn:H4; try rewrite (Hno _ H4);
  destruct (mem "GoModule" have) eqn:H5; try rewrite (Hno _ H5);
  destruct (mem "LittleEndian" have) eqn:H6; try rewrite (Hno _ H6);
  destruct (mem "FixedStringPadFromLeft" have) eqn:H7; try rewrite (Hno _ H7);
  destruct (mem "FixedStringPadChar" have) eqn:H8; try rewrite (Hno _ H8); try discriminate Hg;
  repeat match goal with |- context [match alookup opts ?k with _ => _ end] => destruct (alookup opts k) end; reflexivity.
Qed.

Lemma NoDup_filter_fst {A} (f : string * A -> bool) l : NoDup (map fst l) -> NoDup (map fst (filter f l)).
Proof.
  induction l as [|x l IH]; [intros H; exact H|]. cbn [map filter]. intros H. inversion H as [|? ? H1 H2]; subst.
  destruct (f x); [|exact (IH H2)]. cbn [map]. constructor; [|exact (IH H2)]. intros Hin. apply H1.
  apply in_map_iff in Hin. destruct Hin as [y [Hy1 Hy2]]. apply filter_In in Hy2. apply in_map_iff. exists y. split; [exact Hy1|apply Hy2].
Qed.

Lemma option_defaults_nodup : NoDup (map fst option_defaults).
Proof. cbn. repeat (constructor; [cbn; intros H; repeat (destruct H as [H|H]; [discriminate H|]); exact H|]). constructor. Qed.

Lemma visit_packets_options l s s' : visit_packets l s = ROk s' -> s_options s' = s_options s.
Proof.
  intros H. assert (Hs : s = set_options s (s_options s)) by (destruct s; reflexivity).
  rewrite Hs, visit_packets_set_options in H. destruct (visit_packets l s) as [x|e]; [|discriminate H]. cbn in H. inversion H. reflexivity.
Qed.

Lemma same_meaning_options r o c : r_diags r = [] -> c = r_config r ->
  same_meaning r (mkResult (r_store r) (r_metas r) o c (r_packets r) (r_root r) (r_diags r)) = true.
Proof.
  intros H Hc. subst c. pose proof (same_meaning_refl r H) as Hr. unfold same_meaning, to_bmodel, to_bmodel_names in *.
  cbn [r_store r_metas r_options r_config r_packets r_root r_diags]. exact Hr.
Qed.

Theorem rw_default_options_preserves : forall t r, visit t = VOk r -> r_diags r = [] -> default_options_guard t = true ->
  exists r', visit (rw_default_options t) = VOk r' /\ same_meaning r r' = true.
Proof.
  intros t r Hv Hd Hg. unfold rw_default_options.
  set (missing := filter (fun nv => negb (mem (fst nv) (declared_options t))) option_defaults).
  destruct missing as [|m0 ms] eqn:Hmiss; [exists r; split; [exact Hv|apply same_meaning_refl; exact Hd]|]. rewrite <- Hmiss. clear Hmiss m0 ms.
  set (at_ := pk_start t). set (cl := retok at_ T_RBRACE "}").
  set (o := mkOptionDef _ _ _ _ _). set (t' := PT.mkPacket _ _ _).
  assert (Hm : metas_of t' = metas_of t). { unfold metas_of, t'. cbn [pk_defs]. rewrite flat_map_snoc. cbn. apply app_nil_r. }
  assert (Hp : packets_of t' = packets_of t). { unfold packets_of, t'. cbn [pk_defs]. rewrite flat_map_snoc. cbn. apply app_nil_r. }
  assert (Ho : options_of t' = options_of t ++ [o]). { unfold options_of, t'. cbn [pk_defs]. rewrite flat_map_snoc. reflexivity. }
  unfold visit in *. rewrite Hp. unfold phase_options, phase_metas. rewrite Ho, Hm, fold_left_app. cbn [fold_left].
  fold (phase_metas t st0). fold (phase_options t (phase_metas t st0)). set (s1 := phase_options t (phase_metas t st0)) in *.
  assert (Hno : forall k, mem k (declared_options t) = false -> alookup (s_options s1) k = None) by (intros k Hk; apply undeclared_not_set; exact Hk).
  assert (Hod : visit_option_def s1 o = set_options s1 (s_options s1 ++ map (fun nv : string * defval => (fst nv, dv_text (snd nv))) missing)).
  { unfold visit_option_def, o. cbn [op_decls]. apply add_defaults.
    - apply Forall_forall. intros x Hx. apply filter_In in Hx. apply Hx.
    - apply NoDup_filter_fst. exact option_defaults_nodup.
    - apply Forall_forall. intros x Hx. apply filter_In in Hx. destruct Hx as [_ Hx]. apply Hno. apply negb_true_iff. exact Hx. }
  rewrite Hod, visit_packets_set_options. destruct (visit_packets (packets_of t) s1) as [s'|e] eqn:Hvp; [|discriminate Hv].
  cbn [res_map]. eexists. split; [reflexivity|]. inversion Hv as [Hr]. clear Hv.
  pose proof (visit_packets_options _ _ _ Hvp) as Hso.
  unfold finish. cbn [set_options s_store s_metas s_options s_packets s_root s_diags].
  destruct (resolve_packets _ (s_packets s')) as [ps ds] eqn:Hrp.
  assert (Hc : new_configuration (s_options s1 ++ map (fun nv : string * defval => (fst nv, dv_text (snd nv))) missing) = new_configuration (s_options s')).
  { rewrite Hso. apply config_with_defaults; [exact Hno|exact Hg]. }
  set (r0 := mkResult (s_store s') (s_metas s') (s_options s') (new_configuration (s_options s')) ps (s_root s') (s_diags s' ++ ds)).
  assert (Hd0 : r_diags r0 = []). { rewrite <- Hd, <- Hr. unfold finish. rewrite Hrp. reflexivity. }
  exact (same_meaning_options r0 _ _ Hd0 Hc).
Qed.

(* ---- rewrites of the packets that are right for the MetaData of the file only: the packets are visited with
   the table the MetaData definitions of the SAME file built, which such a rewrite leaves alone *)

Lemma add_packet_metas s p : s_metas (add_packet s p) = s_metas s.
Proof.
  unfold add_packet. destruct (mem _ _); [reflexivity|]. cbn [s_root s_metas]. destruct (vk_root p); [|reflexivity]. destruct (s_root s); reflexivity.
Qed.

Lemma visit_packets_sim_at ms (gp : packet_def -> packet_def) l :
  (forall pmap d store, E_pres (visit_packet_def ms pmap (gp d) store) = E_pres (visit_packet_def ms pmap d store)) ->
  forall s s', s_metas s = ms -> s_metas s' = ms -> Es s = Es s' -> E_sres (visit_packets (map gp l) s') = E_sres (visit_packets l s).
Proof.
  intros Hg. induction l as [|d l IH]; intros s s' Hms Hms' Hs; [cbn; rewrite Hs; reflexivity|]. cbn [map visit_packets].
  assert (Hst : s_store s' = s_store s) by (change (s_store (Es s') = s_store (Es s)); rewrite Hs; reflexivity).
  assert (Hme : map E_meta (s_metas s) = map E_meta (s_metas s')) by (change (s_metas (Es s) = s_metas (Es s')); rewrite Hs; reflexivity).
  assert (Hpk : map E_packet (s_packets s) = map E_packet (s_packets s')) by (change (s_packets (Es s) = s_packets (Es s')); rewrite Hs; reflexivity).
  assert (Hop : s_options s = s_options s') by (change (s_options (Es s) = s_options (Es s')); rewrite Hs; reflexivity).
  assert (Hro : s_root s = s_root s') by (change (s_root (Es s) = s_root (Es s')); rewrite Hs; reflexivity).
  assert (Hdg : map E_diag (s_diags s) = map E_diag (s_diags s')) by (change (s_diags (Es s) = s_diags (Es s')); rewrite Hs; reflexivity).
  assert (Hpn : Visitor.packet_names (s_packets s') = Visitor.packet_names (s_packets s)).
  { rewrite <- (packet_names_E (s_packets s')), <- Hpk, packet_names_E. reflexivity. }
  rewrite Hpn, Hst, Hms, Hms'. pose proof (Hg (Visitor.packet_names (s_packets s)) d (s_store s)) as H1.
  destruct (visit_packet_def ms _ (gp d) _) as [[[p' st'] ds']|e']; destruct (visit_packet_def ms _ d _) as [[[p st] ds]|e];
    cbn [E_pres] in H1; try discriminate; [|inversion H1; reflexivity].
  inversion H1 as [[Hp Hst' Hds]]. apply IH; [rewrite add_packet_metas; reflexivity|rewrite add_packet_metas; reflexivity|].
  apply add_packet_sim; [|symmetry; exact Hp].
  unfold Es. cbn. rewrite !map_app, Hop, Hpk, Hro, Hdg, Hds. reflexivity.
Qed.

Definition file_metas (t : pt) : list vmeta := s_metas (phase_metas t st0).

Lemma option_decl_metas s d : s_metas (visit_option_decl s d) = s_metas s.
Proof.
  unfold visit_option_decl, add_option. destruct (alookup option_table _) as [values|]; [|reflexivity].
  set (s1 := match values with [] => s | _ => _ end). assert (H1 : s_metas s1 = s_metas s).
  { subst s1. destruct values; [reflexivity|]. destruct (mem _ _); reflexivity. }
  destruct (alookup (s_options s1) _); exact H1.
Qed.

Lemma phase_options_metas t s : s_metas (phase_options t s) = s_metas s.
Proof.
  unfold phase_options. revert s. induction (options_of t) as [|o os IH]; [reflexivity|]. intros s. cbn [fold_left]. rewrite IH.
  unfold visit_option_def. generalize s. induction (op_decls o) as [|d ds IHd]; [reflexivity|]. intros s0. cbn [fold_left]. rewrite IHd. apply option_decl_metas.
Qed.

Theorem visit_fws_at h t :
  (forall fw st, E_fres (visit_field_with_attr (file_metas t) (h fw) st) = E_fres (visit_field_with_attr (file_metas t) fw st)) ->
  E_outcome (visit (on_fws h t)) = E_outcome (visit t).
Proof.
  intros Hh. rewrite on_fws_dm. unfold visit, phase_options, phase_metas. rewrite metas_of_map, options_of_map, packets_of_map.
  cbn [dm_fws dm_meta dm_option dm_packet]. rewrite !map_id. fold (phase_metas t st0). fold (phase_options t (phase_metas t st0)).
  set (s1 := phase_options t (phase_metas t st0)).
  assert (Hms : s_metas s1 = file_metas t) by apply phase_options_metas.
  pose proof (visit_packets_sim_at (file_metas t) (map_packet_fws h) (packets_of t)
                (fun pmap d store => visit_packet_def_sim _ _ pmap h d store Hh) s1 s1 Hms Hms eq_refl) as H3.
  destruct (visit_packets (map (map_packet_fws h) (packets_of t)) s1) as [s'|e']; destruct (visit_packets (packets_of t) s1) as [s|e]; cbn [E_sres] in H3; try discriminate;
    [|inversion H3; reflexivity].
  assert (Hs : Es s' = Es s) by congruence. cbn [E_outcome]. f_equal. apply finish_sim. exact Hs.
Qed.

(* ---- rw_prefix_attr *)
Definition fw_prefix (fw : field_with_attr) : field_with_attr :=
  match fw_def fw with
  | LengthField sp d =>
      match lf_type d with
      | Some ty =>
          mkFieldWithAttr (fw_span fw)
            (FALengthOf (lo_span (lf_length_of d)) (lf_length_of d) :: fw_attrs fw)
            (MetaField sp None (mkMetaDecl (lf_span d) ty (lf_name d) (lf_doc d) (lf_comma d)))
      | None => fw
      end
  | CheckSumField sp d =>
      match ck_type d with
      | Some ty =>
          mkFieldWithAttr (fw_span fw)
            (FACalculatedFrom (cf_span (ck_calculated_from d)) (ck_calculated_from d) :: fw_attrs fw)
            (MetaField sp None (mkMetaDecl (ck_span d) ty (ck_name d) (ck_doc d) (ck_comma d)))
      | None => fw
      end
  | _ => fw
  end.

Lemma rw_prefix_attr_eq t : rw_prefix_attr t = on_fws fw_prefix t.
Proof. reflexivity. Qed.

(* the type the prefixed spelling gives the field: that of the written type; a char[n] makes a new string object *)
Definition prefixed_type (ty : type_) : option string :=
  match ty with TyBasic _ _ => Some (type_text ty) | TyDynamic _ _ => Some "string" | TyFixed _ _ => None end.

(* the inline spelling keeps the written type as it is written *)
Definition ty_ok (ty : type_) : bool :=
  match prefixed_type ty with Some s => String.eqb (nt (type_text ty)) (nt s) | None => false end.

Definition prefix_ok (fw : field_with_attr) : bool :=
  match fw_def fw with
  | LengthField _ d => match lf_type d with Some ty => ty_ok ty | None => true end
  | CheckSumField _ d => match ck_type d with Some ty => ty_ok ty | None => true end
  | _ => true
  end.

Definition prefix_attr_guard (t : pt) : bool := fws_all prefix_ok t.

Lemma fw_prefix_sim ms fw st : prefix_ok fw = true ->
  E_fres (visit_field_with_attr ms (fw_prefix fw) st) = E_fres (visit_field_with_attr ms fw st).
Proof.
  unfold prefix_ok, fw_prefix. destruct (fw_def fw) as [| | |sp d|sp d|] eqn:Hdef; try reflexivity.
  - destruct (lf_type d) as [ty|] eqn:Hty; [|reflexivity]. unfold ty_ok. destruct (prefixed_type ty) as [s|] eqn:Hp; [|discriminate].
    intros Hok. apply String.eqb_eq in Hok.
    unfold visit_field_with_attr. cbn [fw_def fw_attrs fw_span]. rewrite Hdef. cbn [visit_field_def is_some]. unfold meta_decl_field, meta_decl_attr.
    cbn [md_type md_name md_doc md_span]. unfold visit_length_field. rewrite Hty. unfold decl_type.
    destruct ty as [tsp b|tsp f|tsp k]; cbn [prefixed_type] in Hp; try discriminate Hp; inversion Hp; subst s;
      cbn [apply_attrs apply_attr vf_attr is_plain_object field_get_type set_attr].
    + change (field_type_norm (BModel.get_basic_type (type_text (TyBasic tsp b)))) with (nt (type_text (TyBasic tsp b))).
      set (f1 := mkVField _ (VALen _ (nt _)) _ _ _ _ _). set (f2 := mkVField _ (VALen _ (type_text _)) _ _ _ _ _).
      assert (Hf : E_field f1 = E_field f2). { unfold f1, f2. cbn [E_field E_attr]. rewrite nt_idem. reflexivity. }
      pose proof (apply_attrs_sim (start_line (fw_span fw)) (start_line (fw_span fw)) (fw_attrs fw) f1 f2 st Hf) as Hs.
      destruct (E_fres_inv _ _ Hs) as [[e [-> ->]]|[g1 [st1 [ds1 [g2 [ds2 [-> [-> [Hg Hd]]]]]]]]]; [reflexivity|].
      cbn [E_fres app map]. rewrite Hg, Hd. reflexivity.
    + set (f1 := mkVField _ (VALen _ "string") _ _ _ _ _). set (f2 := mkVField _ (VALen _ (type_text _)) _ _ _ _ _).
      assert (Hf : E_field f1 = E_field f2). { unfold f1, f2. cbn [E_field E_attr]. rewrite <- Hok. reflexivity. }
      pose proof (apply_attrs_sim (start_line (fw_span fw)) (start_line (fw_span fw)) (fw_attrs fw) f1 f2 st Hf) as Hs.
      destruct (E_fres_inv _ _ Hs) as [[e [-> ->]]|[g1 [st1 [ds1 [g2 [ds2 [-> [-> [Hg Hd]]]]]]]]]; [reflexivity|].
      cbn [E_fres app map]. rewrite Hg, Hd. reflexivity.
  - destruct (ck_type d) as [ty|] eqn:Hty; [|reflexivity]. unfold ty_ok. destruct (prefixed_type ty) as [s|] eqn:Hp; [|discriminate].
    intros Hok. apply String.eqb_eq in Hok.
    unfold visit_field_with_attr. cbn [fw_def fw_attrs fw_span]. rewrite Hdef. cbn [visit_field_def is_some]. unfold meta_decl_field, meta_decl_attr.
    cbn [md_type md_name md_doc md_span]. unfold visit_checksum_field. rewrite Hty. unfold decl_type.
    destruct ty as [tsp b|tsp f|tsp k]; cbn [prefixed_type] in Hp; try discriminate Hp; inversion Hp; subst s;
      cbn [apply_attrs apply_attr vf_attr is_plain_object field_get_type set_attr].
    + change (field_type_norm (BModel.get_basic_type (type_text (TyBasic tsp b)))) with (nt (type_text (TyBasic tsp b))).
      set (f1 := mkVField _ (VACheck _ (nt _)) _ _ _ _ _). set (f2 := mkVField _ (VACheck _ (type_text _)) _ _ _ _ _).
      assert (Hf : E_field f1 = E_field f2). { unfold f1, f2. cbn [E_field E_attr]. rewrite nt_idem. reflexivity. }
      pose proof (apply_attrs_sim (start_line (fw_span fw)) (start_line (fw_span fw)) (fw_attrs fw) f1 f2 st Hf) as Hs.
      destruct (E_fres_inv _ _ Hs) as [[e [-> ->]]|[g1 [st1 [ds1 [g2 [ds2 [-> [-> [Hg Hd]]]]]]]]]; [reflexivity|].
      cbn [E_fres app map]. rewrite Hg, Hd. reflexivity.
    + set (f1 := mkVField _ (VACheck _ "string") _ _ _ _ _). set (f2 := mkVField _ (VACheck _ (type_text _)) _ _ _ _ _).
      assert (Hf : E_field f1 = E_field f2). { unfold f1, f2. cbn [E_field E_attr]. rewrite <- Hok. reflexivity. }
      pose proof (apply_attrs_sim (start_line (fw_span fw)) (start_line (fw_span fw)) (fw_attrs fw) f1 f2 st Hf) as Hs.
      destruct (E_fres_inv _ _ Hs) as [[e [-> ->]]|[g1 [st1 [ds1 [g2 [ds2 [-> [-> [Hg Hd]]]]]]]]]; [reflexivity|].
      cbn [E_fres app map]. rewrite Hg, Hd. reflexivity.
Qed.

Theorem rw_prefix_attr_erasure t : prefix_attr_guard t = true -> E_outcome (visit (rw_prefix_attr t)) = E_outcome (visit t).
Proof.
  intros Hg. rewrite rw_prefix_attr_eq, <- (on_fws_guarded prefix_ok) by exact Hg. rewrite on_fws_dm. apply visit_def_map. apply dm_ok_fws.
  intros metas fw st. unfold guarded_fw. destruct (prefix_ok fw) eqn:Hw; [apply fw_prefix_sim; exact Hw|reflexivity].
Qed.

Theorem rw_prefix_attr_preserves : forall t r, visit t = VOk r -> r_diags r = [] -> prefix_attr_guard t = true ->
  exists r', visit (rw_prefix_attr t) = VOk r' /\ same_meaning r r' = true.
Proof. intros t r Hv Hd Hg. eapply preserves_of_erasure; [|exact Hv|exact Hd]. apply rw_prefix_attr_erasure. exact Hg. Qed.


(* ================================================================== the default padding
   When no padding option is declared the configured padding is @rightPad(' '): a string object without padding and
   one with that padding mean the same.  Pst fills the default in; the visitor never reads the padding of an object,
   so it maps stores that agree after Pst to such stores, everything else being EQUAL. *)

Definition dpad : BModel.padding := BModel.mkPad "' '" false.
Definition Pc (c : fcell) : fcell := mkCell (fc_len c) (match fc_pad c with None => Some dpad | p => p end).
Definition Pst (st : list fcell) : list fcell := map Pc st.

Definition P_fres (x : res (vfield * list fcell * list diag)) : res (vfield * list fcell * list diag) :=
  match x with ROk (f, st, ds) => ROk (f, Pst st, ds) | RPanic e => RPanic e end.

Lemma Pst_length st1 st2 : Pst st1 = Pst st2 -> length st1 = length st2.
Proof. intros H. apply (f_equal (@length _)) in H. unfold Pst in H. rewrite !map_length in H. exact H. Qed.

Lemma Pst_snoc st1 st2 c1 c2 : Pst st1 = Pst st2 -> Pc c1 = Pc c2 -> Pst (snoc st1 c1) = Pst (snoc st2 c2).
Proof. intros H1 H2. unfold Pst, snoc in *. rewrite !map_app, H1. cbn. rewrite H2. reflexivity. Qed.

Lemma set_cell_pad_P c p : forall st1 st2, Pst st1 = Pst st2 -> Pst (set_cell_pad st1 c p) = Pst (set_cell_pad st2 c p).
Proof.
  unfold set_cell_pad. induction c as [|c IH]; intros st1 st2 H; destruct st1 as [|x1 r1]; destruct st2 as [|x2 r2]; try discriminate H; try reflexivity;
    pose proof (f_equal (@hd fcell (Pc x1)) H) as Hx; pose proof (f_equal (@tl fcell) H) as Hr; cbn [Pst map hd tl] in Hx, Hr; fold (Pst r1) in Hr; fold (Pst r2) in Hr; cbn [nth_error upd_nth].
  - cbn [Pst map]. f_equal; [|exact Hr]. unfold Pc in *. cbn [fc_len fc_pad]. inversion Hx. reflexivity.
  - specialize (IH r1 r2 Hr). destruct (nth_error r1 c) as [c1|] eqn:H1; destruct (nth_error r2 c) as [c2|] eqn:H2.
    + cbn [Pst map]. f_equal; [exact Hx|exact IH].
    + exfalso. apply nth_error_None in H2. assert (nth_error r1 c <> None) by congruence. apply nth_error_Some in H0. apply Pst_length in Hr. lia.
    + exfalso. apply nth_error_None in H1. assert (nth_error r2 c <> None) by congruence. apply nth_error_Some in H0. apply Pst_length in Hr. lia.
    + cbn [Pst map]. f_equal; [exact Hx|exact Hr].
Qed.

Lemma apply_attr_P line a f st1 st2 : Pst st1 = Pst st2 -> P_fres (apply_attr line a f st1) = P_fres (apply_attr line a f st2).
Proof.
  intros H. destruct a as [sp c|sp l|sp p|sp t]; cbn [apply_attr].
  - destruct (is_plain_object _); [cbn; rewrite H; reflexivity|]. destruct (field_get_type _); cbn; [rewrite H|]; reflexivity.
  - destruct (is_plain_object _); [cbn; rewrite H; reflexivity|]. destruct (field_get_type _); cbn; [rewrite H|]; reflexivity.
  - cbn. rewrite H. reflexivity.
  - cbv zeta. destruct (vf_attr f); cbn [P_fres]; try (rewrite H; reflexivity). rewrite (set_cell_pad_P _ _ _ _ H). reflexivity.
Qed.

Lemma P_fres_inv x y : P_fres x = P_fres y ->
  (exists e, x = RPanic e /\ y = RPanic e) \/
  (exists f st ds st', x = ROk (f, st, ds) /\ y = ROk (f, st', ds) /\ Pst st = Pst st').
Proof.
  destruct x as [[[f st] ds]|e]; destruct y as [[[f' st'] ds']|e']; cbn [P_fres]; intros H; inversion H; subst.
  - right. exists f', st, ds', st'. auto.
  - left. exists e'. auto.
Qed.

Lemma apply_attrs_P line attrs : forall f st1 st2, Pst st1 = Pst st2 -> P_fres (apply_attrs line attrs f st1) = P_fres (apply_attrs line attrs f st2).
Proof.
  induction attrs as [|a r IH]; intros f st1 st2 H; cbn [apply_attrs]; [cbn; rewrite H; reflexivity|].
  destruct (P_fres_inv _ _ (apply_attr_P line a f st1 st2 H)) as [[e [-> ->]]|[f1 [s1 [ds1 [s2 [-> [-> Hs]]]]]]]; [reflexivity|].
  destruct (P_fres_inv _ _ (IH f1 s1 s2 Hs)) as [[e [-> ->]]|[f2 [t1 [ds2 [t2 [-> [-> Ht]]]]]]]; [reflexivity|]. cbn. rewrite Ht. reflexivity.
Qed.

Definition P_gres (x : res (list vfield * list fcell * list diag)) : res (list vfield * list fcell * list diag) :=
  match x with ROk (f, st, ds) => ROk (f, Pst st, ds) | RPanic e => RPanic e end.

Lemma visit_field_def_P metas f : forall st1 st2, Pst st1 = Pst st2 -> P_fres (visit_field_def metas f st1) = P_fres (visit_field_def metas f st2).
Proof.
  induction f as [sp rep sp2 n o fields c comma IH|sp rep d|sp rep ft fn doc comma|sp d|sp d|sp d comma] using field_def_induction; intros st1 st2 H.
  - rewrite !visit_inline_unfold.
    assert (G : forall names s1 s2, Pst s1 = Pst s2 -> P_gres (inline_go metas (p_text n) fields s1 names) = P_gres (inline_go metas (p_text n) fields s2 names)).
    { induction IH as [|x l Hx Hl IHl]; intros names s1 s2 Hs; [cbn; rewrite Hs; reflexivity|]. cbn [inline_go].
      destruct (P_fres_inv _ _ (Hx s1 s2 Hs)) as [[e [-> ->]]|[v [t1 [ds1 [t2 [-> [-> Ht]]]]]]]; [reflexivity|].
      specialize (IHl (vf_name v :: names) t1 t2 Ht).
      destruct (inline_go metas (p_text n) l t1 _) as [[[vs u1] ds2]|e]; destruct (inline_go metas (p_text n) l t2 _) as [[[vs' u2] ds2']|e'];
        cbn [P_gres] in IHl; try discriminate; [|exact IHl]. inversion IHl as [[Hv Hu Hd]]; subst. cbn [P_gres]. rewrite Hu. reflexivity. }
    specialize (G [] st1 st2 H).
    destruct (inline_go metas (p_text n) fields st1 []) as [[[subs u1] ds]|e]; destruct (inline_go metas (p_text n) fields st2 []) as [[[subs' u2] ds']|e'];
      cbn [P_gres] in G; try discriminate; [|inversion G; reflexivity]. inversion G as [[Hv Hu Hd]]; subst. cbn [P_fres]. rewrite Hu. reflexivity.
  - cbn [visit_field_def]. unfold meta_decl_field, meta_decl_attr. rewrite (Pst_length _ _ H).
    destruct (md_type d); cbn [P_fres]; try (rewrite H; reflexivity). rewrite (Pst_snoc st1 st2 _ _ H eq_refl). reflexivity.
  - cbn. rewrite H. reflexivity.
  - cbn. rewrite H. reflexivity.
  - cbn. rewrite H. reflexivity.
  - cbn [visit_field_def]. destruct (visit_match_field d). cbn. rewrite H. reflexivity.
Qed.

Lemma fw_P metas fw st1 st2 : Pst st1 = Pst st2 -> P_fres (visit_field_with_attr metas fw st1) = P_fres (visit_field_with_attr metas fw st2).
Proof.
  intros H. unfold visit_field_with_attr.
  destruct (P_fres_inv _ _ (visit_field_def_P metas (fw_def fw) st1 st2 H)) as [[e [-> ->]]|[f [s1 [ds [s2 [-> [-> Hs]]]]]]]; [reflexivity|].
  destruct (P_fres_inv _ _ (apply_attrs_P (start_line (fw_span fw)) (fw_attrs fw) f s1 s2 Hs)) as [[e [-> ->]]|[f1 [t1 [ds1 [t2 [-> [-> Ht]]]]]]]; [reflexivity|].
  cbn. rewrite Ht. reflexivity.
Qed.

(* ---- packets *)
Definition Pacc (acc : pacc) : pacc :=
  mkPacc (pa_fields acc) (pa_lines acc) (pa_fmap acc) (pa_lenf acc) (pa_mfs acc) (Pst (pa_store acc)) (pa_diags acc).

Lemma loop1_add_P pn ir line f acc st ds :
  Pacc (loop1_add pn ir line f acc st ds) = loop1_add pn ir line f (Pacc acc) (Pst st) ds.
Proof.
  unfold loop1_add, Pacc. cbn [pa_fields pa_lines pa_fmap pa_lenf pa_mfs pa_store pa_diags].
  destruct (is_len_attr (vf_attr f)); [destruct (negb ir); [reflexivity|destruct (pa_lenf acc); reflexivity]|reflexivity].
Qed.

Definition P_accres (x : res pacc) : res pacc := match x with ROk a => ROk (Pacc a) | RPanic e => RPanic e end.

Definition fw_P_ok (h : field_with_attr -> field_with_attr) : Prop :=
  (forall fw, fw_span (h fw) = fw_span fw) /\
  forall metas fw st1 st2, Pst st1 = Pst st2 -> P_fres (visit_field_with_attr metas (h fw) st1) = P_fres (visit_field_with_attr metas fw st2).

Lemma loop1_P metas pn ir h l : fw_P_ok h ->
  forall acc1 acc2, Pacc acc1 = Pacc acc2 -> P_accres (loop1 metas pn ir (map h l) acc1) = P_accres (loop1 metas pn ir l acc2).
Proof.
  intros [Hsp Hh]. induction l as [|fw l IH]; intros acc1 acc2 Ha; [cbn; rewrite Ha; reflexivity|]. cbn [map loop1]. rewrite Hsp.
  assert (Hst : Pst (pa_store acc1) = Pst (pa_store acc2)). { change (pa_store (Pacc acc1) = pa_store (Pacc acc2)). rewrite Ha. reflexivity. }
  destruct (P_fres_inv _ _ (Hh metas fw _ _ Hst)) as [[e [-> ->]]|[f [s1 [ds [s2 [-> [-> Hs]]]]]]]; [reflexivity|].
  apply IH. rewrite !loop1_add_P, Ha, Hs. reflexivity.
Qed.

Definition P_pres (x : res (vpacket * list fcell * list diag)) : res (vpacket * list fcell * list diag) :=
  match x with ROk (p, st, ds) => ROk (p, Pst st, ds) | RPanic e => RPanic e end.

Lemma visit_packet_def_P metas pmap h d st1 st2 : fw_P_ok h -> Pst st1 = Pst st2 ->
  P_pres (visit_packet_def metas pmap (map_packet_fws h d) st1) = P_pres (visit_packet_def metas pmap d st2).
Proof.
  intros Hh Hs. unfold visit_packet_def. cbn [map_packet_fws pd_fields pd_name pd_root pd_span].
  assert (Ha : Pacc (mkPacc [] [] [] None [] st1 []) = Pacc (mkPacc [] [] [] None [] st2 [])) by (unfold Pacc; cbn [pa_fields pa_lines pa_fmap pa_lenf pa_mfs pa_store pa_diags]; rewrite Hs; reflexivity).
  pose proof (loop1_P metas (p_text (pd_name d)) (is_some (pd_root d)) h (pd_fields d) Hh _ _ Ha) as H1.
  destruct (loop1 metas _ _ (map h (pd_fields d)) _) as [a1|e1]; destruct (loop1 metas _ _ (pd_fields d) _) as [a2|e2]; cbn [P_accres] in H1; try discriminate;
    [|inversion H1; reflexivity].
  inversion H1 as [[Hf Hl Hm Hle Hmf Hst Hdg]]. rewrite Hf, Hl, Hm, Hle.
  destruct (loop2 pmap _ _ _ _ _) as [[fields ds2]|e]; [|reflexivity]. cbn [P_pres]. rewrite Hmf, Hst, Hdg. reflexivity.
Qed.

Definition Ps (s : vst) : vst := mkSt (Pst (s_store s)) (s_metas s) (s_options s) (s_packets s) (s_root s) (s_diags s).
Definition P_sres (x : res vst) : res vst := match x with ROk s => ROk (Ps s) | RPanic e => RPanic e end.

Lemma add_packet_P s p : Ps (add_packet s p) = add_packet (Ps s) p.
Proof.
  destruct s as [st ms os ps ro ds]. unfold add_packet, Ps. cbn [s_store s_metas s_options s_packets s_root s_diags]. destruct (mem _ _); [reflexivity|].
  destruct (vk_root p); [|reflexivity]. destruct ro; reflexivity.
Qed.

Lemma visit_packets_P h l : fw_P_ok h -> forall s1 s2, Ps s1 = Ps s2 ->
  P_sres (visit_packets (map (map_packet_fws h) l) s1) = P_sres (visit_packets l s2).
Proof.
  intros Hh. induction l as [|d l IH]; intros s1 s2 Hs; [cbn; rewrite Hs; reflexivity|]. cbn [map visit_packets].
  destruct s1 as [st1 ms1 os1 ps1 ro1 dg1]; destruct s2 as [st2 ms2 os2 ps2 ro2 dg2]. unfold Ps in Hs. cbn [s_store s_metas s_options s_packets s_root s_diags] in *.
  injection Hs as Hst Hme Hop Hpk Hro Hdg. subst ms2 os2 ps2 ro2 dg2.
  pose proof (visit_packet_def_P ms1 (Visitor.packet_names ps1) h d _ _ Hh Hst) as H1.
  destruct (visit_packet_def _ _ (map_packet_fws h d) _) as [[[p1 t1] ds1]|e1]; destruct (visit_packet_def _ _ d _) as [[[p2 t2] ds2]|e2];
    cbn [P_pres] in H1; try discriminate; [|inversion H1; reflexivity].
  injection H1 as Hp Ht Hd. subst p2 ds2. apply IH. rewrite !add_packet_P. f_equal. unfold Ps. cbn [s_store s_metas s_options s_packets s_root s_diags].
  rewrite Ht. reflexivity.
Qed.

Definition P_result (r : result) : result :=
  mkResult (Pst (r_store r)) (r_metas r) (r_options r) (r_config r) (r_packets r) (r_root r) (r_diags r).
Definition P_outcome (o : outcome) : outcome := match o with VOk r => VOk (P_result r) | VPanic e => VPanic e end.

Lemma finish_P s : P_result (finish s) = finish (Ps s).
Proof. unfold finish, Ps. cbn [s_store s_metas s_options s_packets s_root s_diags]. destruct (resolve_packets _ _). reflexivity. Qed.

Theorem visit_fws_P h t : fw_P_ok h -> P_outcome (visit (on_fws h t)) = P_outcome (visit t).
Proof.
  intros Hh. rewrite on_fws_dm. unfold visit, phase_options, phase_metas. rewrite metas_of_map, options_of_map, packets_of_map.
  cbn [dm_fws dm_meta dm_option dm_packet]. rewrite !map_id.
  pose proof (visit_packets_P h (packets_of t) Hh _ _ (eq_refl (Ps (fold_left visit_option_def (options_of t) (fold_left visit_meta_def (metas_of t) st0))))) as H3.
  destruct (visit_packets (map (map_packet_fws h) (packets_of t)) _) as [s'|e']; destruct (visit_packets (packets_of t) _) as [s|e]; cbn [P_sres] in H3; try discriminate;
    [|inversion H3; reflexivity].
  assert (Hs : Ps s' = Ps s) by congruence. cbn [P_outcome]. rewrite !finish_P, Hs. reflexivity.
Qed.

(* ---- stores that agree after Pst give the same normalised model when the configured padding is the default *)
Lemma nth_error_P st1 st2 c : Pst st1 = Pst st2 -> option_map Pc (nth_error st1 c) = option_map Pc (nth_error st2 c).
Proof. intros H. unfold Pst in H. rewrite <- !nth_error_map, H. reflexivity. Qed.

Lemma cell_attr_P st1 st2 c : Pst st1 = Pst st2 ->
  Spelling.norm_attr (Some dpad) (cell_attr st1 c) = Spelling.norm_attr (Some dpad) (cell_attr st2 c) /\
  (cell_attr st1 c = BModel.ANil <-> cell_attr st2 c = BModel.ANil).
Proof.
  intros H. pose proof (nth_error_P st1 st2 c H) as Hn. unfold cell_attr.
  destruct (nth_error st1 c) as [c1|]; destruct (nth_error st2 c) as [c2|]; cbn [option_map] in Hn; try discriminate; [|split; [reflexivity|tauto]].
  injection Hn as Hl Hp. split; [|split; discriminate]. cbn [Spelling.norm_attr]. rewrite Hl. f_equal.
  destruct (fc_pad c1); destruct (fc_pad c2); congruence.
Qed.

Lemma shallow_P st1 st2 a : Pst st1 = Pst st2 ->
  Spelling.norm_attr (Some dpad) (attr_shallow st1 a) = Spelling.norm_attr (Some dpad) (attr_shallow st2 a) /\
  (attr_shallow st1 a = BModel.ANil <-> attr_shallow st2 a = BModel.ANil).
Proof.
  intros H. destruct a as [t|c| |tg t|alg t|i pn r p|k ps|]; cbn [attr_shallow]; try (split; [reflexivity|tauto]). apply cell_attr_P. exact H.
Qed.

Lemma nb_P st1 st2 : Pst st1 = Pst st2 ->
  (forall a ctx, Spelling.norm_attr (Some dpad) (attr_to_b st1 ctx a) = Spelling.norm_attr (Some dpad) (attr_to_b st2 ctx a)) /\
  (forall p, Spelling.norm_packet (Some dpad) (packet_to_b st1 p) = Spelling.norm_packet (Some dpad) (packet_to_b st2 p)).
Proof.
  intros H. set (cp := Some dpad).
  set (Pa := fun a => forall ctx, Spelling.norm_attr cp (attr_to_b st1 ctx a) = Spelling.norm_attr cp (attr_to_b st2 ctx a)).
  set (Pp := fun p => Spelling.norm_packet cp (packet_to_b st1 p) = Spelling.norm_packet cp (packet_to_b st2 p)).
  assert (H1 : forall t, Pa (VABasic t)) by (intros t ctx; reflexivity).
  assert (H2 : forall c, Pa (VAFixed c)). { intros c ctx. cbn [attr_to_b attr_shallow]. apply cell_attr_P. exact H. }
  assert (H3 : Pa VADyn) by (intros ctx; reflexivity).
  assert (H4 : forall tg t, Pa (VALen tg t)) by (intros tg t ctx; reflexivity).
  assert (H5 : forall alg t, Pa (VACheck alg t)) by (intros alg t ctx; reflexivity).
  assert (H6 : forall i pn r, Pa (VAObj i pn r None)) by (intros i pn r ctx; reflexivity).
  assert (H7 : forall i pn r p, Pp p -> Pa (VAObj i pn r (Some p))).
  { intros i pn r p IH ctx. unfold Pp in IH. cbn [attr_to_b Spelling.norm_attr]. rewrite IH. reflexivity. }
  assert (H8 : forall k ps, Pa (VAMatch k ps)).
  { intros k ps ctx. unfold cp. cbn [attr_to_b]. destruct k as [n|i n|]; try reflexivity. destruct (nth_error ctx i) as [kf|]; [|reflexivity].
    destruct (shallow_P st1 st2 (vf_attr kf) H) as [Hn Hnil].
    destruct (attr_shallow st1 (vf_attr kf)) eqn:Ha; destruct (attr_shallow st2 (vf_attr kf)) eqn:Hb;
      try (exfalso; destruct Hnil as [G1 G2]; (discriminate (G1 eq_refl) || discriminate (G2 eq_refl)));
      cbn [Spelling.norm_attr] in *; try reflexivity; try (rewrite <- Hn; reflexivity); try (rewrite Hn; reflexivity); try discriminate Hn. }
  assert (H9 : Pa VANil) by (intros ctx; reflexivity).
  assert (H10 : forall n ro lf fs fm mf ln, Forall (fun f => Pa (vf_attr f)) fs -> Pp (mkVPacket n ro lf fs fm mf ln)).
  { intros n ro lf fs fm mf ln IH. unfold Pp. rewrite !packet_to_b_eq, !NormGen.norm_packet_eq.
    cbn [BModel.p_name BModel.p_root BModel.p_lenf BModel.p_fields BModel.p_mfs]. f_equal. rewrite !map_map.
    assert (G : forall ctx, map (fun x => NormGen.nf cp (field_to_b st1 ctx x)) fs = map (fun x => NormGen.nf cp (field_to_b st2 ctx x)) fs).
    { intros ctx. induction IH as [|f fs Hf Hfs IHfs]; [reflexivity|]. cbn [map]. f_equal; [|exact IHfs].
      unfold NormGen.nf, field_to_b. cbn [BModel.f_name BModel.f_attr BModel.f_len BModel.f_rep]. f_equal. apply Hf. }
    apply G. }
  split; [exact (vattr_ind2 Pa Pp H1 H2 H3 H4 H5 H6 H7 H8 H9 H10)|exact (vpacket_ind2 Pa Pp H1 H2 H3 H4 H5 H6 H7 H8 H9 H10)].
Qed.

Theorem P_same_meaning r r' :
  r_diags r = [] -> BModel.c_pad (r_config r) = Some dpad -> P_result r' = P_result r -> same_meaning r r' = true.
Proof.
  intros Hd Hc He. unfold P_result in He. injection He as Hst Hme Hop Hcf Hpk Hro Hdg.
  unfold same_meaning. rewrite Hdg, Hd. apply NormGen.bmodel_eqb_complete. unfold NormGen.same_but_names, norm_bmodel, to_bmodel, to_bmodel_names.
  cbn [BModel.m_cfg BModel.m_packets BModel.m_map_keys BModel.m_root]. rewrite Hcf, Hro, Hpk, Hc. repeat split.
  rewrite !map_map. apply map_ext. intros p. apply (proj2 (nb_P _ _ (eq_sym Hst))).
Qed.

(* ---- no padding option: the configured padding is the default *)
Lemma padding_option_unset t : padding_option_set t = false ->
  mem "FixedStringPadChar" (declared_options t) = false /\ mem "FixedStringPadFromLeft" (declared_options t) = false.
Proof.
  unfold padding_option_set, declared_options. induction (pk_defs t) as [|d ds IH]; [split; reflexivity|]. cbn [existsb flat_map]. intros H.
  apply orb_false_iff in H. destruct H as [Hd Hds]. destruct (IH Hds) as [I1 I2]. unfold mem in *. rewrite !existsb_app, I1, I2, !orb_false_r.
  destruct d as [p|m|o]; try (split; reflexivity). clear - Hd. induction (op_decls o) as [|x xs IHx]; [split; reflexivity|]. cbn [existsb map] in *.
  apply orb_false_iff in Hd. destruct Hd as [Hx Hxs]. apply orb_false_iff in Hx. destruct Hx as [Hx1 Hx2]. destruct (IHx Hxs) as [J1 J2].
  rewrite J1, J2, !orb_false_r. rewrite String.eqb_sym, Hx1. rewrite (String.eqb_sym "FixedStringPadFromLeft"), Hx2. split; reflexivity.
Qed.

Lemma default_config t r : padding_option_set t = false -> visit t = VOk r -> BModel.c_pad (r_config r) = Some dpad.
Proof.
  intros Hp Hv. destruct (padding_option_unset t Hp) as [H1 H2]. unfold visit in Hv.
  destruct (visit_packets (packets_of t) _) as [s|e] eqn:Hvp; [|discriminate]. injection Hv as Hr. subst r.
  pose proof (visit_packets_options _ _ _ Hvp) as Hso. unfold finish. destruct (resolve_packets _ _) as [ps ds]. cbn [r_config].
  unfold new_configuration. cbn [BModel.c_pad]. rewrite Hso, (undeclared_not_set t _ H1), (undeclared_not_set t _ H2). reflexivity.
Qed.

Theorem preserves_of_P t t' r : padding_option_set t = false -> P_outcome (visit t') = P_outcome (visit t) ->
  visit t = VOk r -> r_diags r = [] -> exists r', visit t' = VOk r' /\ same_meaning r r' = true.
Proof.
  intros Hp He Hv Hd. rewrite Hv in He. destruct (visit t') as [r'|e]; [|discriminate]. exists r'. split; [reflexivity|].
  cbn [P_outcome] in He. assert (He' : P_result r' = P_result r) by congruence. clear He. rename He' into He. apply P_same_meaning; [exact Hd|exact (default_config t r Hp Hv)|exact He].
Qed.

(* ---- the attributes of a char[n] field *)
Definition pad_val (p : padding_attr) : BModel.padding :=
  let pc := match pa_padding p with Some t => p_text t | None => "' '" end in
  let pc := if String.eqb pc "'\x00'" then nul_pad_char else pc in
  BModel.mkPad pc (containsb "left" (p_text (pa_attr p))).
Definition is_tag (a : field_attribute) : bool := match a with FATag _ _ => true | _ => false end.
Definition pad_or_tag (a : field_attribute) : bool := is_pad a || is_tag a.
Definition final_pad (attrs : list field_attribute) (pad : option BModel.padding) : option BModel.padding :=
  fold_left (fun acc a => match a with FAPadding _ p => Some (pad_val p) | _ => acc end) attrs pad.
Definition tagged (attrs : list field_attribute) (f : vfield) : vfield :=
  fold_left (fun f a => match a with FATag _ t => set_tag f (atoi (p_text (ta_digits t))) | _ => f end) attrs f.

Lemma set_tag_attr f t : vf_attr (set_tag f t) = vf_attr f. Proof. destruct f; reflexivity. Qed.

Lemma apply_pads_tags line st n : forall attrs f pad, vf_attr f = VAFixed (length st) -> forallb pad_or_tag attrs = true ->
  apply_attrs line attrs f (snoc st (mkCell n pad)) = ROk (tagged attrs f, snoc st (mkCell n (final_pad attrs pad)), []).
Proof.
  induction attrs as [|a r IH]; intros f pad Hf Hall; [reflexivity|]. cbn [forallb] in Hall. apply andb_true_iff in Hall. destruct Hall as [Ha Hr].
  cbn [apply_attrs]. destruct a as [sp l|sp c|sp t|sp p]; try discriminate Ha.
  - cbn [apply_attr]. rewrite (IH _ pad (eq_trans (set_tag_attr _ _) Hf) Hr). reflexivity.
  - cbn [apply_attr]. cbv zeta. rewrite Hf, set_cell_pad_last. cbn [fc_len]. rewrite (IH f _ Hf Hr). reflexivity.
Qed.

Definition non_pad (x : field_attribute) : bool := negb (is_pad x).

Lemma tagged_filter attrs : forall f, tagged (filter non_pad attrs) f = tagged attrs f.
Proof. induction attrs as [|a r IH]; intros f; [reflexivity|]. destruct a; cbn [filter non_pad is_pad negb tagged fold_left]; apply IH. Qed.
Lemma final_pad_filter attrs : forall pad, final_pad (filter non_pad attrs) pad = pad.
Proof. induction attrs as [|a r IH]; intros pad; [reflexivity|]. destruct a; cbn [filter non_pad is_pad negb final_pad fold_left]; apply IH. Qed.
Lemma pad_or_tag_filter attrs : forallb pad_or_tag attrs = true -> forallb pad_or_tag (filter non_pad attrs) = true.
Proof.
  induction attrs as [|a r IH]; [reflexivity|]. cbn [forallb]. intros H. apply andb_true_iff in H. destruct H as [Ha Hr].
  destruct a; cbn [filter non_pad is_pad negb forallb pad_or_tag is_tag orb andb] in *; try discriminate Ha; apply IH; exact Hr.
Qed.

Lemma last_some {A} (l : list A) : last (map Some l) None = match l with [] => None | x :: _ => Some (last l x) end.
Proof.
  induction l as [|x l IH]; [reflexivity|]. cbn [map]. destruct l as [|y l]; [reflexivity|]. change (last (Some x :: map Some (y :: l)) None) with (last (map Some (y :: l)) None).
  rewrite IH. cbn [last]. f_equal. destruct l; [reflexivity|]. clear. revert y. generalize a. induction l as [|z l IHl]; intros b y; [reflexivity|]. apply (IHl z).
Qed.

Lemma last_pad_cons a r : last_pad (a :: r) = if is_pad a then match last_pad r with Some x => Some x | None => Some a end else last_pad r.
Proof.
  unfold last_pad. cbn [filter]. destruct (is_pad a); [|reflexivity]. rewrite !last_some. destruct (filter is_pad r) as [|y l]; [reflexivity|].
  f_equal. cbn [last]. destruct l; [reflexivity|]. clear. revert y. generalize f. induction l as [|z l IHl]; intros b y; [reflexivity|]. apply (IHl z).
Qed.

Lemma last_pad_none attrs : last_pad attrs = None -> forall pad, final_pad attrs pad = pad.
Proof.
  induction attrs as [|a r IH]; intros H pad; [reflexivity|]. rewrite last_pad_cons in H. destruct a; cbn [is_pad] in H; cbn [final_pad fold_left];
    try (apply IH; exact H). destruct (last_pad r); discriminate H.
Qed.

Lemma default_pad_val sp p : is_default_pad (FAPadding sp p) = true -> pad_val p = dpad.
Proof.
  cbn [is_default_pad]. intros H. apply andb_true_iff in H. destruct H as [Ha Hc]. apply String.eqb_eq in Ha. unfold pad_val. rewrite Ha.
  destruct (pa_padding p) as [c|]; [apply String.eqb_eq in Hc; rewrite Hc|]; reflexivity.
Qed.

Lemma final_pad_default attrs : forall a pad, last_pad attrs = Some a -> is_default_pad a = true -> final_pad attrs pad = Some dpad.
Proof.
  induction attrs as [|a0 r IH]; intros a pad H Hd; [discriminate H|]. rewrite last_pad_cons in H. cbn [final_pad fold_left].
  destruct (last_pad r) as [x|] eqn:Hl.
  - assert (Hx : x = a) by (destruct (is_pad a0); congruence). subst x. apply (IH a _ eq_refl Hd).
  - destruct a0 as [sp l|sp c|sp t|sp p]; cbn [is_pad] in H; try discriminate H. injection H as H. subst a.
    fold (final_pad r (Some (pad_val p))). rewrite (last_pad_none r Hl), (default_pad_val sp p Hd). reflexivity.
Qed.

(* ---- rw_drop_default_pad, rw_add_default_pad *)
Definition char_wf (f : field_def) : bool :=
  match f with MetaField _ _ d => negb (containsb "zchar" (type_text (md_type d))) | _ => true end.

Definition h_drop (fw : field_with_attr) : field_with_attr :=
  if is_char_field (fw_def fw) then
    match last_pad (fw_attrs fw) with
    | Some a => if is_default_pad a
                then mkFieldWithAttr (fw_span fw) (filter (fun x => negb (is_pad x)) (fw_attrs fw)) (fw_def fw)
                else fw
    | None => fw
    end
  else fw.

Definition h_add (fw : field_with_attr) : field_with_attr :=
  if is_char_field (fw_def fw) && negb (existsb is_pad (fw_attrs fw))
  then mkFieldWithAttr (fw_span fw) (mk_pad_attr (first_tok_fd (fw_def fw)) "@rightPad" (Some "' '") :: fw_attrs fw) (fw_def fw)
  else fw.

Lemma rw_drop_default_pad_eq t : rw_drop_default_pad t = if padding_option_set t then t else on_fws h_drop t.
Proof. reflexivity. Qed.
Lemma rw_add_default_pad_eq t : rw_add_default_pad t = if padding_option_set t then t else on_fws h_add t.
Proof. reflexivity. Qed.

(* the field is a char[n] whose text does not say zchar, and (drop) its attributes are paddings and tags only: a padding
   written after @lengthOf/@calculatedFrom is refused with a diagnostic, which the rewrite would remove *)
Definition drop_ok (fw : field_with_attr) : bool :=
  if is_char_field (fw_def fw) then
    match last_pad (fw_attrs fw) with
    | Some a => if is_default_pad a then char_wf (fw_def fw) && forallb pad_or_tag (fw_attrs fw) else true
    | None => true
    end
  else true.

Definition add_ok (fw : field_with_attr) : bool :=
  if is_char_field (fw_def fw) && negb (existsb is_pad (fw_attrs fw)) then char_wf (fw_def fw) else true.

Lemma char_field_visit metas sp rep d (st : list fcell) : is_char_field (MetaField sp rep d) = true -> char_wf (MetaField sp rep d) = true ->
  exists n f, (forall st' : list fcell, length st' = length st -> visit_field_def metas (MetaField sp rep d) st' = ROk (f, snoc st' (mkCell n None), [])) /\
              vf_attr f = VAFixed (length st).
Proof.
  cbn [is_char_field char_wf]. intros Hc Hw. apply negb_true_iff in Hw. destruct (md_type d) as [|tsp fx|] eqn:Hty; try discriminate Hc.
  eexists. eexists. split.
  - intros st' Hl. cbn [visit_field_def]. unfold meta_decl_field, meta_decl_attr. rewrite Hty, Hw, Hl. reflexivity.
  - reflexivity.
Qed.

Lemma drop_P_ok : fw_P_ok (guarded_fw drop_ok h_drop).
Proof.
  split.
  - intros fw. unfold guarded_fw, h_drop. destruct (drop_ok fw); [|reflexivity]. destruct (is_char_field _); [|reflexivity].
    destruct (last_pad _) as [a|]; [|reflexivity]. destruct (is_default_pad a); reflexivity.
  - intros metas fw st1 st2 H. unfold guarded_fw. destruct (drop_ok fw) eqn:Hok; [|apply fw_P; exact H]. unfold drop_ok, h_drop in *.
    destruct (is_char_field (fw_def fw)) eqn:Hc; [|apply fw_P; exact H]. destruct (last_pad (fw_attrs fw)) as [a|] eqn:Hl; [|apply fw_P; exact H].
    destruct (is_default_pad a) eqn:Hd; [|apply fw_P; exact H]. apply andb_true_iff in Hok. destruct Hok as [Hw Hall].
    destruct (fw_def fw) as [| sp rep d | | | |] eqn:Hdef; try discriminate Hc.
    destruct (char_field_visit metas sp rep d st2 Hc Hw) as [n [f [Hv Hf]]].
    unfold visit_field_with_attr. cbn [fw_def fw_attrs fw_span]. rewrite Hdef, (Hv st1 (Pst_length _ _ H)), (Hv st2 eq_refl).
    change (fun x => negb (is_pad x)) with non_pad.
    rewrite (apply_pads_tags _ st1 n _ f None (eq_trans Hf (f_equal VAFixed (eq_sym (Pst_length _ _ H)))) (pad_or_tag_filter _ Hall)).
    rewrite (apply_pads_tags _ st2 n _ f None Hf Hall).
    cbn [P_fres app]. rewrite tagged_filter, final_pad_filter, (final_pad_default _ a None Hl Hd), (Pst_snoc st1 st2 (mkCell n None) (mkCell n (Some dpad)) H eq_refl).
    reflexivity.
Qed.

Lemma add_P_ok : fw_P_ok (guarded_fw add_ok h_add).
Proof.
  split.
  - intros fw. unfold guarded_fw, h_add. destruct (add_ok fw); [|reflexivity]. destruct (_ && _); reflexivity.
  - intros metas fw st1 st2 H. unfold guarded_fw. destruct (add_ok fw) eqn:Hok; [|apply fw_P; exact H]. unfold add_ok, h_add in *.
    destruct (is_char_field (fw_def fw) && negb (existsb is_pad (fw_attrs fw))) eqn:Hc; [|apply fw_P; exact H].
    apply andb_true_iff in Hc. destruct Hc as [Hc _].
    destruct (fw_def fw) as [| sp rep d | | | |] eqn:Hdef; try discriminate Hc.
    destruct (char_field_visit metas sp rep d st2 Hc Hok) as [n [f [Hv Hf]]].
    unfold visit_field_with_attr. cbn [fw_def fw_attrs fw_span]. rewrite Hdef, (Hv st1 (Pst_length _ _ H)), (Hv st2 eq_refl).
    cbn [apply_attrs]. unfold mk_pad_attr. cbn [apply_attr pa_padding pa_attr option_map retok p_text]. cbv zeta.
    rewrite Hf, <- (Pst_length _ _ H), set_cell_pad_last. cbn [fc_len].
    assert (Hs : Pst (snoc st1 (mkCell n (Some (BModel.mkPad (if String.eqb "' '" "'\x00'" then nul_pad_char else "' '") (containsb "left" "@rightPad"))))) =
                 Pst (snoc st2 (mkCell n None))) by (apply Pst_snoc; [exact H|reflexivity]).
    destruct (P_fres_inv _ _ (apply_attrs_P (start_line (fw_span fw)) (fw_attrs fw) f _ _ Hs)) as [[e [-> ->]]|[f1 [t1 [ds1 [t2 [-> [-> Ht]]]]]]]; [reflexivity|].
    cbn [P_fres app]. rewrite Ht. reflexivity.
Qed.

Definition drop_default_pad_guard (t : pt) : bool := padding_option_set t || fws_all drop_ok t.
Definition add_default_pad_guard (t : pt) : bool := padding_option_set t || fws_all add_ok t.

Theorem rw_drop_default_pad_preserves : forall t r, visit t = VOk r -> r_diags r = [] -> drop_default_pad_guard t = true ->
  exists r', visit (rw_drop_default_pad t) = VOk r' /\ same_meaning r r' = true.
Proof.
  intros t r Hv Hd Hg. rewrite rw_drop_default_pad_eq. unfold drop_default_pad_guard in Hg. destruct (padding_option_set t) eqn:Hp.
  - exists r. split; [exact Hv|apply same_meaning_refl; exact Hd].
  - cbn [orb] in Hg. apply (preserves_of_P t _ r Hp); [|exact Hv|exact Hd]. rewrite <- (on_fws_guarded drop_ok) by exact Hg. apply visit_fws_P. exact drop_P_ok.
Qed.

Theorem rw_add_default_pad_preserves : forall t r, visit t = VOk r -> r_diags r = [] -> add_default_pad_guard t = true ->
  exists r', visit (rw_add_default_pad t) = VOk r' /\ same_meaning r r' = true.
Proof.
  intros t r Hv Hd Hg. rewrite rw_add_default_pad_eq. unfold add_default_pad_guard in Hg. destruct (padding_option_set t) eqn:Hp.
  - exists r. split; [exact Hv|apply same_meaning_refl; exact Hd].
  - cbn [orb] in Hg. apply (preserves_of_P t _ r Hp); [|exact Hv|exact Hd]. rewrite <- (on_fws_guarded add_ok) by exact Hg. apply visit_fws_P. exact add_P_ok.
Qed.



(* ------------------------------------------------------------------ witnesses (from the real parser, through the hook) *)
(* options { StringPrefixLenType = u16; LittleEndian = true } MetaData M { uint16 T `doc`, char[4] S, } packet B { T `d`, float64 x, } root packet A { u16 len @lengthOf(body) `l`, u8 k, zchar[3] z, @rightPad(' ') char[2] p, S s, match k as body { 1 : B [2,3] : B, }, uint32 crc @calculatedFrom('CRC32'), } *)
Definition w_spelling : pt :=
  (mkPacket (mkPtok 1 "options" 1 0 0) (Some (mkPtok 3 "}" 1 301 88)) [(DOption (mkOptionDef (mkSpan (mkPtok 1 "options" 1 0 0) (mkPtok 3 "}" 1 57 9)) (mkPtok 1 "options" 1 0 0) (mkPtok 2 "{" 1 8 1) [(mkOptionDecl (mkSpan (mkPtok 42 "StringPrefixLenType" 1 10 2) (mkPtok 41 ";" 1 35 5)) (mkPtok 42 "StringPrefixLenType" 1 10 2) (mkPtok 4 "=" 1 30 3) (VType (mkSpan (mkPtok 21 "u16" 1 32 4) (mkPtok 21 "u16" 1 32 4)) (TyBasic (mkSpan (mkPtok 21 "u16" 1 32 4) (mkPtok 21 "u16" 1 32 4)) (mkBasicType (mkSpan (mkPtok 21 "u16" 1 32 4) (mkPtok 21 "u16" 1 32 4)) (mkPtok 21 "u16" 1 32 4)))) (Some (mkPtok 41 ";" 1 35 5))); (mkOptionDecl (mkSpan (mkPtok 42 "LittleEndian" 1 37 6) (mkPtok 10 "true" 1 52 8)) (mkPtok 42 "LittleEndian" 1 37 6) (mkPtok 4 "=" 1 50 7) (VTrue (mkSpan (mkPtok 10 "true" 1 52 8) (mkPtok 10 "true" 1 52 8)) (mkPtok 10 "true" 1 52 8)) None)] (mkPtok 3 "}" 1 57 9))); (DMeta (mkMetaDef (mkSpan (mkPtok 37 "MetaData" 1 59 10) (mkPtok 3 "}" 1 99 22)) (mkPtok 37 "MetaData" 1 59 10) (mkPtok 42 "M" 1 68 11) (mkPtok 2 "{" 1 70 12) [(MIDecl (mkMetaDecl (mkSpan (mkPtok 21 "uint16" 1 72 13) (mkPtok 40 "," 1 86 16)) (TyBasic (mkSpan (mkPtok 21 "uint16" 1 72 13) (mkPtok 21 "uint16" 1 72 13)) (mkBasicType (mkSpan (mkPtok 21 "uint16" 1 72 13) (mkPtok 21 "uint16" 1 72 13)) (mkPtok 21 "uint16" 1 72 13))) (mkPtok 42 "T" 1 79 14) (Some (mkPtok 43 "`doc`" 1 81 15)) (mkPtok 40 "," 1 86 16))); (MIDecl (mkMetaDecl (mkSpan (mkPtok 12 "char[" 1 88 17) (mkPtok 40 "," 1 97 21)) (TyFixed (mkSpan (mkPtok 12 "char[" 1 88 17) (mkPtok 13 "]" 1 94 19)) (mkFixedString (mkSpan (mkPtok 12 "char[" 1 88 17) (mkPtok 13 "]" 1 94 19)) (mkPtok 12 "char[" 1 88 17) (mkPtok 30 "4" 1 93 18) (mkPtok 13 "]" 1 94 19))) (mkPtok 42 "S" 1 96 20) None (mkPtok 40 "," 1 97 21)))] (mkPtok 3 "}" 1 99 22))); (DPacket (mkPacketDef (mkSpan (mkPtok 35 "packet" 1 101 23) (mkPtok 3 "}" 1 130 32)) None (mkPtok 35 "packet" 1 101 23) (mkPtok 42 "B" 1 108 24) (mkPtok 2 "{" 1 110 25) [(mkFieldWithAttr (mkSpan (mkPtok 42 "T" 1 112 26) (mkPtok 40 "," 1 117 28)) [] (ObjectField (mkSpan (mkPtok 42 "T" 1 112 26) (mkPtok 40 "," 1 117 28)) None (mkPtok 42 "T" 1 112 26) None (Some (mkPtok 43 "`d`" 1 114 27)) (mkPtok 40 "," 1 117 28))); (mkFieldWithAttr (mkSpan (mkPtok 29 "float64" 1 119 29) (mkPtok 40 "," 1 128 31)) [] (MetaField (mkSpan (mkPtok 29 "float64" 1 119 29) (mkPtok 40 "," 1 128 31)) None (mkMetaDecl (mkSpan (mkPtok 29 "float64" 1 119 29) (mkPtok 40 "," 1 128 31)) (TyBasic (mkSpan (mkPtok 29 "float64" 1 119 29) (mkPtok 29 "float64" 1 119 29)) (mkBasicType (mkSpan (mkPtok 29 "float64" 1 119 29) (mkPtok 29 "float64" 1 119 29)) (mkPtok 29 "float64" 1 119 29))) (mkPtok 42 "x" 1 127 30) None (mkPtok 40 "," 1 128 31))))] (mkPtok 3 "}" 1 130 32))); (DPacket (mkPacketDef (mkSpan (mkPtok 34 "root" 1 132 33) (mkPtok 3 "}" 1 301 88)) (Some (mkPtok 34 "root" 1 132 33)) (mkPtok 35 "packet" 1 137 34) (mkPtok 42 "A" 1 144 35) (mkPtok 2 "{" 1 146 36) [(mkFieldWithAttr (mkSpan (mkPtok 21 "u16" 1 148 37) (mkPtok 40 "," 1 175 43)) [] (LengthField (mkSpan (mkPtok 21 "u16" 1 148 37) (mkPtok 40 "," 1 175 43)) (mkLengthFieldDecl (mkSpan (mkPtok 21 "u16" 1 148 37) (mkPtok 40 "," 1 175 43)) (Some (TyBasic (mkSpan (mkPtok 21 "u16" 1 148 37) (mkPtok 21 "u16" 1 148 37)) (mkBasicType (mkSpan (mkPtok 21 "u16" 1 148 37) (mkPtok 21 "u16" 1 148 37)) (mkPtok 21 "u16" 1 148 37)))) (mkPtok 42 "len" 1 152 38) (mkLengthOf (mkSpan (mkPtok 7 "@lengthOf(" 1 156 39) (mkPtok 6 ")" 1 170 41)) (mkPtok 7 "@lengthOf(" 1 156 39) (mkPtok 42 "body" 1 166 40) (mkPtok 6 ")" 1 170 41)) (Some (mkPtok 43 "`l`" 1 172 42)) (mkPtok 40 "," 1 175 43)))); (mkFieldWithAttr (mkSpan (mkPtok 20 "u8" 1 177 44) (mkPtok 40 "," 1 181 46)) [] (MetaField (mkSpan (mkPtok 20 "u8" 1 177 44) (mkPtok 40 "," 1 181 46)) None (mkMetaDecl (mkSpan (mkPtok 20 "u8" 1 177 44) (mkPtok 40 "," 1 181 46)) (TyBasic (mkSpan (mkPtok 20 "u8" 1 177 44) (mkPtok 20 "u8" 1 177 44)) (mkBasicType (mkSpan (mkPtok 20 "u8" 1 177 44) (mkPtok 20 "u8" 1 177 44)) (mkPtok 20 "u8" 1 177 44))) (mkPtok 42 "k" 1 180 45) None (mkPtok 40 "," 1 181 46)))); (mkFieldWithAttr (mkSpan (mkPtok 14 "zchar[" 1 183 47) (mkPtok 40 "," 1 193 51)) [] (MetaField (mkSpan (mkPtok 14 "zchar[" 1 183 47) (mkPtok 40 "," 1 193 51)) None (mkMetaDecl (mkSpan (mkPtok 14 "zchar[" 1 183 47) (mkPtok 40 "," 1 193 51)) (TyFixed (mkSpan (mkPtok 14 "zchar[" 1 183 47) (mkPtok 13 "]" 1 190 49)) (mkFixedString (mkSpan (mkPtok 14 "zchar[" 1 183 47) (mkPtok 13 "]" 1 190 49)) (mkPtok 14 "zchar[" 1 183 47) (mkPtok 30 "3" 1 189 48) (mkPtok 13 "]" 1 190 49))) (mkPtok 42 "z" 1 192 50) None (mkPtok 40 "," 1 193 51)))); (mkFieldWithAttr (mkSpan (mkPtok 32 "@rightPad" 1 195 52) (mkPtok 40 "," 1 219 60)) [(FAPadding (mkSpan (mkPtok 32 "@rightPad" 1 195 52) (mkPtok 6 ")" 1 208 55)) (mkPaddingAttr (mkSpan (mkPtok 32 "@rightPad" 1 195 52) (mkPtok 6 ")" 1 208 55)) (mkPtok 32 "@rightPad" 1 195 52) (mkPtok 8 "(" 1 204 53) (Some (mkPtok 33 "' '" 1 205 54)) (mkPtok 6 ")" 1 208 55)))] (MetaField (mkSpan (mkPtok 12 "char[" 1 210 56) (mkPtok 40 "," 1 219 60)) None (mkMetaDecl (mkSpan (mkPtok 12 "char[" 1 210 56) (mkPtok 40 "," 1 219 60)) (TyFixed (mkSpan (mkPtok 12 "char[" 1 210 56) (mkPtok 13 "]" 1 216 58)) (mkFixedString (mkSpan (mkPtok 12 "char[" 1 210 56) (mkPtok 13 "]" 1 216 58)) (mkPtok 12 "char[" 1 210 56) (mkPtok 30 "2" 1 215 57) (mkPtok 13 "]" 1 216 58))) (mkPtok 42 "p" 1 218 59) None (mkPtok 40 "," 1 219 60)))); (mkFieldWithAttr (mkSpan (mkPtok 42 "S" 1 221 61) (mkPtok 40 "," 1 224 63)) [] (ObjectField (mkSpan (mkPtok 42 "S" 1 221 61) (mkPtok 40 "," 1 224 63)) None (mkPtok 42 "S" 1 221 61) (Some (mkPtok 42 "s" 1 223 62)) None (mkPtok 40 "," 1 224 63))); (mkFieldWithAttr (mkSpan (mkPtok 38 "match" 1 226 64) (mkPtok 40 "," 1 262 81)) [] (MatchField (mkSpan (mkPtok 38 "match" 1 226 64) (mkPtok 40 "," 1 262 81)) (mkMatchFieldDecl (mkSpan (mkPtok 38 "match" 1 226 64) (mkPtok 3 "}" 1 261 80)) (mkPtok 38 "match" 1 226 64) (mkPtok 42 "k" 1 232 65) (mkPtok 17 "as" 1 234 66) (mkPtok 42 "body" 1 237 67) (mkPtok 2 "{" 1 242 68) [(mkMatchPair (mkSpan (mkPtok 30 "1" 1 244 69) (mkPtok 42 "B" 1 248 71)) (MKDigits (mkPtok 30 "1" 1 244 69)) (mkPtok 39 ":" 1 246 70) (mkPtok 42 "B" 1 248 71) None); (mkMatchPair (mkSpan (mkPtok 18 "[" 1 250 72) (mkPtok 40 "," 1 259 79)) (MKList (mkKeyList (mkSpan (mkPtok 18 "[" 1 250 72) (mkPtok 13 "]" 1 254 76)) (mkPtok 18 "[" 1 250 72) (mkPtok 30 "2" 1 251 73) [((mkPtok 40 "," 1 252 74), (mkPtok 30 "3" 1 253 75))] (mkPtok 13 "]" 1 254 76))) (mkPtok 39 ":" 1 256 77) (mkPtok 42 "B" 1 258 78) (Some (mkPtok 40 "," 1 259 79)))] (mkPtok 3 "}" 1 261 80)) (mkPtok 40 "," 1 262 81))); (mkFieldWithAttr (mkSpan (mkPtok 22 "uint32" 1 264 82) (mkPtok 40 "," 1 299 87)) [] (CheckSumField (mkSpan (mkPtok 22 "uint32" 1 264 82) (mkPtok 40 "," 1 299 87)) (mkChecksumFieldDecl (mkSpan (mkPtok 22 "uint32" 1 264 82) (mkPtok 40 "," 1 299 87)) (Some (TyBasic (mkSpan (mkPtok 22 "uint32" 1 264 82) (mkPtok 22 "uint32" 1 264 82)) (mkBasicType (mkSpan (mkPtok 22 "uint32" 1 264 82) (mkPtok 22 "uint32" 1 264 82)) (mkPtok 22 "uint32" 1 264 82)))) (mkPtok 42 "crc" 1 271 83) (mkCalculatedFrom (mkSpan (mkPtok 5 "@calculatedFrom(" 1 275 84) (mkPtok 6 ")" 1 298 86)) (mkPtok 5 "@calculatedFrom(" 1 275 84) (mkPtok 31 """CRC32""" 1 291 85) (mkPtok 6 ")" 1 298 86)) None (mkPtok 40 "," 1 299 87))))] (mkPtok 3 "}" 1 301 88)))]).

(* options { GoPackage = string; } *)
Definition w_dyn_option : pt :=
  (mkPacket (mkPtok 1 "options" 1 0 0) (Some (mkPtok 3 "}" 1 30 6)) [(DOption (mkOptionDef (mkSpan (mkPtok 1 "options" 1 0 0) (mkPtok 3 "}" 1 30 6)) (mkPtok 1 "options" 1 0 0) (mkPtok 2 "{" 1 8 1) [(mkOptionDecl (mkSpan (mkPtok 42 "GoPackage" 1 10 2) (mkPtok 41 ";" 1 28 5)) (mkPtok 42 "GoPackage" 1 10 2) (mkPtok 4 "=" 1 20 3) (VType (mkSpan (mkPtok 15 "string" 1 22 4) (mkPtok 15 "string" 1 22 4)) (TyDynamic (mkSpan (mkPtok 15 "string" 1 22 4) (mkPtok 15 "string" 1 22 4)) (mkDynamicString (mkSpan (mkPtok 15 "string" 1 22 4) (mkPtok 15 "string" 1 22 4)) (mkPtok 15 "string" 1 22 4)))) (Some (mkPtok 41 ";" 1 28 5)))] (mkPtok 3 "}" 1 30 6)))]).

(* MetaData M { u32 len, } root packet A { u16 len @lengthOf(x), u8 x, } *)
Definition w_len_named_like_meta : pt :=
  (mkPacket (mkPtok 37 "MetaData" 1 0 0) (Some (mkPtok 3 "}" 1 68 20)) [(DMeta (mkMetaDef (mkSpan (mkPtok 37 "MetaData" 1 0 0) (mkPtok 3 "}" 1 22 6)) (mkPtok 37 "MetaData" 1 0 0) (mkPtok 42 "M" 1 9 1) (mkPtok 2 "{" 1 11 2) [(MIDecl (mkMetaDecl (mkSpan (mkPtok 22 "u32" 1 13 3) (mkPtok 40 "," 1 20 5)) (TyBasic (mkSpan (mkPtok 22 "u32" 1 13 3) (mkPtok 22 "u32" 1 13 3)) (mkBasicType (mkSpan (mkPtok 22 "u32" 1 13 3) (mkPtok 22 "u32" 1 13 3)) (mkPtok 22 "u32" 1 13 3))) (mkPtok 42 "len" 1 17 4) None (mkPtok 40 "," 1 20 5)))] (mkPtok 3 "}" 1 22 6))); (DPacket (mkPacketDef (mkSpan (mkPtok 34 "root" 1 24 7) (mkPtok 3 "}" 1 68 20)) (Some (mkPtok 34 "root" 1 24 7)) (mkPtok 35 "packet" 1 29 8) (mkPtok 42 "A" 1 36 9) (mkPtok 2 "{" 1 38 10) [(mkFieldWithAttr (mkSpan (mkPtok 21 "u16" 1 40 11) (mkPtok 40 "," 1 60 16)) [] (LengthField (mkSpan (mkPtok 21 "u16" 1 40 11) (mkPtok 40 "," 1 60 16)) (mkLengthFieldDecl (mkSpan (mkPtok 21 "u16" 1 40 11) (mkPtok 40 "," 1 60 16)) (Some (TyBasic (mkSpan (mkPtok 21 "u16" 1 40 11) (mkPtok 21 "u16" 1 40 11)) (mkBasicType (mkSpan (mkPtok 21 "u16" 1 40 11) (mkPtok 21 "u16" 1 40 11)) (mkPtok 21 "u16" 1 40 11)))) (mkPtok 42 "len" 1 44 12) (mkLengthOf (mkSpan (mkPtok 7 "@lengthOf(" 1 48 13) (mkPtok 6 ")" 1 59 15)) (mkPtok 7 "@lengthOf(" 1 48 13) (mkPtok 42 "x" 1 58 14) (mkPtok 6 ")" 1 59 15)) None (mkPtok 40 "," 1 60 16)))); (mkFieldWithAttr (mkSpan (mkPtok 20 "u8" 1 62 17) (mkPtok 40 "," 1 66 19)) [] (MetaField (mkSpan (mkPtok 20 "u8" 1 62 17) (mkPtok 40 "," 1 66 19)) None (mkMetaDecl (mkSpan (mkPtok 20 "u8" 1 62 17) (mkPtok 40 "," 1 66 19)) (TyBasic (mkSpan (mkPtok 20 "u8" 1 62 17) (mkPtok 20 "u8" 1 62 17)) (mkBasicType (mkSpan (mkPtok 20 "u8" 1 62 17) (mkPtok 20 "u8" 1 62 17)) (mkPtok 20 "u8" 1 62 17))) (mkPtok 42 "x" 1 65 18) None (mkPtok 40 "," 1 66 19))))] (mkPtok 3 "}" 1 68 20)))]).

(* packet A { char[4] c @calculatedFrom('X'), } *)
Definition w_fixed_checksum : pt :=
  (mkPacket (mkPtok 35 "packet" 1 0 0) (Some (mkPtok 3 "}" 1 43 11)) [(DPacket (mkPacketDef (mkSpan (mkPtok 35 "packet" 1 0 0) (mkPtok 3 "}" 1 43 11)) None (mkPtok 35 "packet" 1 0 0) (mkPtok 42 "A" 1 7 1) (mkPtok 2 "{" 1 9 2) [(mkFieldWithAttr (mkSpan (mkPtok 12 "char[" 1 11 3) (mkPtok 40 "," 1 41 10)) [] (CheckSumField (mkSpan (mkPtok 12 "char[" 1 11 3) (mkPtok 40 "," 1 41 10)) (mkChecksumFieldDecl (mkSpan (mkPtok 12 "char[" 1 11 3) (mkPtok 40 "," 1 41 10)) (Some (TyFixed (mkSpan (mkPtok 12 "char[" 1 11 3) (mkPtok 13 "]" 1 17 5)) (mkFixedString (mkSpan (mkPtok 12 "char[" 1 11 3) (mkPtok 13 "]" 1 17 5)) (mkPtok 12 "char[" 1 11 3) (mkPtok 30 "4" 1 16 4) (mkPtok 13 "]" 1 17 5)))) (mkPtok 42 "c" 1 19 6) (mkCalculatedFrom (mkSpan (mkPtok 5 "@calculatedFrom(" 1 21 7) (mkPtok 6 ")" 1 40 9)) (mkPtok 5 "@calculatedFrom(" 1 21 7) (mkPtok 31 """X""" 1 37 8) (mkPtok 6 ")" 1 40 9)) None (mkPtok 40 "," 1 41 10))))] (mkPtok 3 "}" 1 43 11)))]).

(* ------------------------------------------------------------------ same meaning => same code, for every proved rewrite *)

Definition preserves (g : pt -> bool) (rw : pt -> pt) : Prop :=
  forall t r, visit t = VOk r -> r_diags r = [] -> g t = true -> exists r', visit (rw t) = VOk r' /\ same_meaning r r' = true.

Lemma same_code_of_preserves g rw : preserves g rw ->
  forall l names t r, visit t = VOk r -> r_diags r = [] -> g t = true ->
  exists r', visit (rw t) = VOk r' /\ Frag.gen_of l (to_bmodel_names names r) = Frag.gen_of l (to_bmodel_names names r').
Proof.
  intros H l names t r Hv Hd Hg. destruct (H t r Hv Hd Hg) as [r' [Hv' Hs]]. exists r'. split; [exact Hv'|].
  exact (NormGen.C08_same_meaning_same_code l names r r' Hs).
Qed.

Lemma same_lua_of_preserves g rw : preserves g rw ->
  forall names t r, visit t = VOk r -> r_diags r = [] -> g t = true ->
  exists r', visit (rw t) = VOk r' /\ Lua.gen_lua (to_bmodel_names names r) = Lua.gen_lua (to_bmodel_names names r').
Proof.
  intros H names t r Hv Hd Hg. destruct (H t r Hv Hd Hg) as [r' [Hv' Hs]]. exists r'. split; [exact Hv'|].
  exact (NormGen.C08_same_meaning_same_code_lua names r r' Hs).
Qed.

Definition no_guard (_ : pt) : bool := true.
Definition alias_short_guard (t : pt) : bool := alias_guard t && alias_opts_guard t.

Lemma preserves_drop_docs : preserves no_guard rw_drop_docs.
Proof. intros t r Hv Hd _. exact (rw_drop_docs_preserves t r Hv Hd). Qed.
Lemma preserves_seps_all : preserves no_guard rw_seps_all.
Proof. intros t r Hv Hd _. exact (rw_seps_all_preserves t r Hv Hd). Qed.
Lemma preserves_seps_none : preserves no_guard rw_seps_none.
Proof. intros t r Hv Hd _. exact (rw_seps_none_preserves t r Hv Hd). Qed.
Lemma preserves_alias_long : preserves alias_guard rw_alias_long.
Proof. exact rw_alias_long_preserves. Qed.
Lemma preserves_alias_long_opts : preserves alias_opts_guard rw_alias_long_opts.
Proof. exact rw_alias_long_opts_preserves. Qed.
Lemma preserves_alias_short : preserves alias_short_guard rw_alias_short.
Proof. intros t r Hv Hd Hg. apply andb_true_iff in Hg. destruct Hg as [H1 H2]. exact (rw_alias_short_preserves t r Hv Hd H1 H2). Qed.
Lemma preserves_zchar : preserves zchar_guard rw_zchar.
Proof. exact rw_zchar_preserves. Qed.

Theorem rw_drop_docs_same_code : forall l names t r, visit t = VOk r -> r_diags r = [] ->
  exists r', visit (rw_drop_docs t) = VOk r' /\ Frag.gen_of l (to_bmodel_names names r) = Frag.gen_of l (to_bmodel_names names r').
Proof. intros l names t r Hv Hd. exact (same_code_of_preserves _ _ preserves_drop_docs l names t r Hv Hd eq_refl). Qed.
Theorem rw_seps_all_same_code : forall l names t r, visit t = VOk r -> r_diags r = [] ->
  exists r', visit (rw_seps_all t) = VOk r' /\ Frag.gen_of l (to_bmodel_names names r) = Frag.gen_of l (to_bmodel_names names r').
Proof. intros l names t r Hv Hd. exact (same_code_of_preserves _ _ preserves_seps_all l names t r Hv Hd eq_refl). Qed.
Theorem rw_seps_none_same_code : forall l names t r, visit t = VOk r -> r_diags r = [] ->
  exists r', visit (rw_seps_none t) = VOk r' /\ Frag.gen_of l (to_bmodel_names names r) = Frag.gen_of l (to_bmodel_names names r').
Proof. intros l names t r Hv Hd. exact (same_code_of_preserves _ _ preserves_seps_none l names t r Hv Hd eq_refl). Qed.
Theorem rw_alias_long_same_code : forall l names t r, visit t = VOk r -> r_diags r = [] -> alias_guard t = true ->
  exists r', visit (rw_alias_long t) = VOk r' /\ Frag.gen_of l (to_bmodel_names names r) = Frag.gen_of l (to_bmodel_names names r').
Proof. exact (same_code_of_preserves _ _ preserves_alias_long). Qed.
Theorem rw_alias_long_opts_same_code : forall l names t r, visit t = VOk r -> r_diags r = [] -> alias_opts_guard t = true ->
  exists r', visit (rw_alias_long_opts t) = VOk r' /\ Frag.gen_of l (to_bmodel_names names r) = Frag.gen_of l (to_bmodel_names names r').
Proof. exact (same_code_of_preserves _ _ preserves_alias_long_opts). Qed.
Theorem rw_alias_short_same_code : forall l names t r, visit t = VOk r -> r_diags r = [] -> alias_short_guard t = true ->
  exists r', visit (rw_alias_short t) = VOk r' /\ Frag.gen_of l (to_bmodel_names names r) = Frag.gen_of l (to_bmodel_names names r').
Proof. exact (same_code_of_preserves _ _ preserves_alias_short). Qed.
Theorem rw_zchar_same_code : forall l names t r, visit t = VOk r -> r_diags r = [] -> zchar_guard t = true ->
  exists r', visit (rw_zchar t) = VOk r' /\ Frag.gen_of l (to_bmodel_names names r) = Frag.gen_of l (to_bmodel_names names r').
Proof. exact (same_code_of_preserves _ _ preserves_zchar). Qed.

(* ------------------------------------------------------------------ the statements are not vacuous *)

(* the hypotheses hold of w_spelling and the rewrite changes its tokens *)
Definition nonvacuous (g : pt -> bool) (rw : pt -> pt) (w : pt) : Prop :=
  (exists r, visit w = VOk r /\ r_diags r = []) /\ g w = true /\ same_tokens (rw w) w = false.

Ltac nonvac := split; [eexists; split; [vm_compute; reflexivity|reflexivity]|split; vm_compute; reflexivity].

Example rw_drop_docs_example : nonvacuous no_guard rw_drop_docs w_spelling. Proof. nonvac. Qed.
Example rw_seps_all_example : nonvacuous no_guard rw_seps_all w_spelling. Proof. nonvac. Qed.
Example rw_seps_none_example : nonvacuous no_guard rw_seps_none w_spelling. Proof. nonvac. Qed.
Example rw_alias_long_example : nonvacuous alias_guard rw_alias_long w_spelling. Proof. nonvac. Qed.
Example rw_alias_long_opts_example : nonvacuous alias_opts_guard rw_alias_long_opts w_spelling. Proof. nonvac. Qed.
Example rw_alias_short_example : nonvacuous alias_short_guard rw_alias_short w_spelling. Proof. nonvac. Qed.
Example rw_zchar_example : nonvacuous zchar_guard rw_zchar w_spelling. Proof. nonvac. Qed.

(* ------------------------------------------------------------------ the guards are needed / unproved rewrites that are false as stated *)

(* `options { GoPackage = string; }`: a free-form option value that happens to be the dynamic-string keyword is respelled
   `char[]` by the alias rewrites of option values, and the value is taken literally *)
Lemma alias_long_opts_unguarded_refuted :
  (exists r, visit w_dyn_option = VOk r /\ r_diags r = []) /\ alias_opts_guard w_dyn_option = false /\
  same_meaning_o (visit w_dyn_option) (visit (rw_alias_long_opts w_dyn_option)) = false.
Proof. split; [eexists; split; [vm_compute; reflexivity|reflexivity]|split; vm_compute; reflexivity]. Qed.

(* `MetaData M { u32 len, } root packet A { u16 len @lengthOf(x), u8 x, }`: the written type of the inline length declaration
   is kept although a MetaData entry has the name of the field (it was not: recorded as fixed) *)
Lemma prefix_attr_name_like_meta :
  (exists r, visit w_len_named_like_meta = VOk r /\ r_diags r = []) /\ prefix_attr_guard w_len_named_like_meta = true /\
  same_meaning_o (visit w_len_named_like_meta) (visit (rw_prefix_attr w_len_named_like_meta)) = true.
Proof. split; [eexists; split; [vm_compute; reflexivity|reflexivity]|split; vm_compute; reflexivity]. Qed.

(* `packet A { char[4] c @calculatedFrom("X"), }`: inline, the checksum field has type "char[4]"; prefixed, "string" *)
Lemma prefix_attr_refuted_fixed_string :
  (exists r, visit w_fixed_checksum = VOk r /\ r_diags r = []) /\
  same_meaning_o (visit w_fixed_checksum) (visit (rw_prefix_attr w_fixed_checksum)) = false.
Proof. split; [eexists; split; [vm_compute; reflexivity|reflexivity]|vm_compute; reflexivity]. Qed.

Lemma preserves_expand_keys : preserves no_mixed_key_list rw_expand_keys.
Proof. exact rw_expand_keys_preserves. Qed.
Theorem rw_expand_keys_same_code : forall l names t r, visit t = VOk r -> r_diags r = [] -> no_mixed_key_list t = true ->
  exists r', visit (rw_expand_keys t) = VOk r' /\ Frag.gen_of l (to_bmodel_names names r) = Frag.gen_of l (to_bmodel_names names r').
Proof. exact (same_code_of_preserves _ _ preserves_expand_keys). Qed.
Example rw_expand_keys_example : nonvacuous no_mixed_key_list rw_expand_keys w_spelling. Proof. nonvac. Qed.

Lemma preserves_default_options : preserves default_options_guard rw_default_options.
Proof. exact rw_default_options_preserves. Qed.
Theorem rw_default_options_same_code : forall l names t r, visit t = VOk r -> r_diags r = [] -> default_options_guard t = true ->
  exists r', visit (rw_default_options t) = VOk r' /\ Frag.gen_of l (to_bmodel_names names r) = Frag.gen_of l (to_bmodel_names names r').
Proof. exact (same_code_of_preserves _ _ preserves_default_options). Qed.
Example rw_default_options_example : nonvacuous default_options_guard rw_default_options w_spelling. Proof. nonvac. Qed.

Lemma preserves_prefix_attr : preserves prefix_attr_guard rw_prefix_attr.
Proof. exact rw_prefix_attr_preserves. Qed.
Theorem rw_prefix_attr_same_code : forall l names t r, visit t = VOk r -> r_diags r = [] -> prefix_attr_guard t = true ->
  exists r', visit (rw_prefix_attr t) = VOk r' /\ Frag.gen_of l (to_bmodel_names names r) = Frag.gen_of l (to_bmodel_names names r').
Proof. exact (same_code_of_preserves _ _ preserves_prefix_attr). Qed.
Example rw_prefix_attr_example : nonvacuous prefix_attr_guard rw_prefix_attr w_spelling. Proof. nonvac. Qed.
Lemma prefix_attr_guard_excludes_refuted : prefix_attr_guard w_fixed_checksum = false.
Proof. vm_compute; reflexivity. Qed.

Lemma preserves_drop_default_pad : preserves drop_default_pad_guard rw_drop_default_pad.
Proof. exact rw_drop_default_pad_preserves. Qed.
Theorem rw_drop_default_pad_same_code : forall l names t r, visit t = VOk r -> r_diags r = [] -> drop_default_pad_guard t = true ->
  exists r', visit (rw_drop_default_pad t) = VOk r' /\ Frag.gen_of l (to_bmodel_names names r) = Frag.gen_of l (to_bmodel_names names r').
Proof. exact (same_code_of_preserves _ _ preserves_drop_default_pad). Qed.
Example rw_drop_default_pad_example : nonvacuous drop_default_pad_guard rw_drop_default_pad w_spelling. Proof. nonvac. Qed.

Lemma preserves_add_default_pad : preserves add_default_pad_guard rw_add_default_pad.
Proof. exact rw_add_default_pad_preserves. Qed.
Theorem rw_add_default_pad_same_code : forall l names t r, visit t = VOk r -> r_diags r = [] -> add_default_pad_guard t = true ->
  exists r', visit (rw_add_default_pad t) = VOk r' /\ Frag.gen_of l (to_bmodel_names names r) = Frag.gen_of l (to_bmodel_names names r').
Proof. exact (same_code_of_preserves _ _ preserves_add_default_pad). Qed.
(* w_spelling has no char[n] field without padding: its form without the default padding has (char[2] p) *)
Definition w_spelling_unpadded : pt := rw_drop_default_pad w_spelling.
Example rw_add_default_pad_example : nonvacuous add_default_pad_guard rw_add_default_pad w_spelling_unpadded. Proof. nonvac. Qed.
