(* C11 (format part) on the model: FormatPacketDsl never panics, and its error path.

   PROVED (no hypothesis left, Print Assumptions: closed):
     format_never_panics : forall s site, format_res s <> FPanic site
     format_total        : forall s, exists r, format_res s = FOk r \/ format_res s = FErr (string_of_runes s)
     format_error_path   : lex s = None \/ (exists ts, lex s = Some ts /\ parse ts = None)
                           -> format_text s = (string_of_runes s, false)
     format_error_only_then : the converse (the input comes back with an error ONLY on a syntax error)

   The content of the first theorem is not totality (every Gallina function is total) but
   that the explicit Panic results of the model are unreachable from [format_res]:
     (1) every dereference of an optional child ([deref site o], Panic when o = None) sits
         behind its guard ([non_nil o]).  The guarded sites, as in the Go source:
           VisitPaddingAttribute          PADDING_CHAR            formattor.go:219
           VisitFieldDefinition           ObjectField fname       formattor.go:267
           VisitFieldDefinition           ObjectField STRING_LITERAL  formattor.go:270
           VisitLengthFieldDeclaration    STRING_LITERAL          formattor.go:355
           VisitCheckSumFieldDeclaration  STRING_LITERAL          formattor.go:369
           VisitMetaDataDeclaration       STRING_LITERAL          formattor.go:389
           VisitRefMetaDataDeclaration    STRING_LITERAL          formattor.go:406
           getHiddenLeft / getHiddenRightAtSameLine / getHiddenRight   token == nil (GetStop() of an
                                          empty program)          formattor.go:45, 67, 93
         (optional children that are only TESTED, never dereferenced: ROOT :157, REPEAT :263
         :282 :303, SEMICOLON :249, the type of a length / checksum field :359 :373);
     (2) ANTLR's GetHiddenTokensToLeft/Right panic on a token index outside the token
         list; every token the formatter passes is a start/stop token of a rule context
         of the tree (packet, the three definitions, option declarations, field
         definitions, field attributes, nested object declarations, match declarations and
         pairs, the entries of a MetaData block), and [parse] only puts tokens of the list
         into the tree ([parse_ok], an invariant proved through all rules of the parser model).
   Removing a guard from the model (or from the Go code, which the correspondence check
   would then force into the model) makes [safe_*] below fail. *)
From FP Require Import Formatter.
From Coq Require Import Lia.
Open Scope string_scope.

(* ------------------------------------------------------------------ the monad *)
Definition safe {A : Type} (m : M A) : Prop := forall sn, exists a sn', m sn = Ok (a, sn').

Lemma safe_ret {A : Type} (a : A) : safe (ret a).
Proof. intro sn. exists a, sn. reflexivity. Qed.

Lemma safe_bind {A B : Type} (m : M A) (f : A -> M B) :
  safe m -> (forall a, safe (f a)) -> safe (bind m f).
Proof.
  intros Hm Hf sn. destruct (Hm sn) as [a [sn' E]]. unfold bind. rewrite E. apply Hf.
Qed.

Lemma safe_if {A : Type} (b : bool) (m1 m2 : M A) :
  (b = true -> safe m1) -> (b = false -> safe m2) -> safe (if b then m1 else m2).
Proof. destruct b; auto. Qed.

(* a guarded dereference: the shape "if x != nil { x.GetText() }" *)
Lemma safe_guarded {A : Type} (site : string) (o : option ptok) (f : string -> M A) (e : M A) :
  (forall x, safe (f x)) -> safe e ->
  safe (if non_nil o then (do x <- deref site o; f x) else e).
Proof.
  intros Hf He. destruct o as [k|]; cbn [non_nil]; [|exact He].
  apply safe_bind; [|exact Hf]. cbn [deref]. apply safe_ret.
Qed.

Lemma safe_guarded_ret (site : string) (o : option ptok) (e : M string) :
  safe e -> safe (if non_nil o then deref site o else e).
Proof. intro He. destruct o as [k|]; cbn [non_nil deref]; [apply safe_ret|exact He]. Qed.

(* ------------------------------------------------------------------ hidden tokens *)
Lemma safe_get_hidden_left ts k : p_idx k < length ts -> safe (get_hidden_left ts (Some k)).
Proof.
  intros Hk sn. unfold get_hidden_left, hidden_left.
  destruct (Nat.ltb_spec (p_idx k) (length ts)) as [_|Hge]; [|lia].
  destruct (left_loop _ sn) as [s sn'] eqn:E. exists s, sn'. reflexivity.
Qed.

Lemma safe_get_hidden_right ts k : p_idx k < length ts -> safe (get_hidden_right ts (Some k)).
Proof.
  intros Hk sn. unfold get_hidden_right, hidden_right.
  destruct (Nat.ltb_spec (p_idx k) (length ts)) as [_|Hge]; [|lia].
  destruct (right_loop _ _ sn) as [s sn'] eqn:E. exists (trim_right_nl s), sn'. reflexivity.
Qed.

Lemma safe_get_hidden_right_nil ts : safe (get_hidden_right ts None).
Proof. intro sn. exists EmptyString, sn. reflexivity. Qed.

Lemma safe_get_hidden_right_all ts k : p_idx k < length ts -> safe (get_hidden_right_all ts (Some k)).
Proof.
  intros Hk sn. unfold get_hidden_right_all, hidden_right.
  destruct (Nat.ltb_spec (p_idx k) (length ts)) as [_|Hge]; [|lia].
  destruct (right_all_loop _ sn) as [s sn'] eqn:E. exists s, sn'. reflexivity.
Qed.

Lemma safe_get_hidden_right_all_nil ts : safe (get_hidden_right_all ts None).
Proof. intro sn. exists EmptyString, sn. reflexivity. Qed.

Lemma safe_get_hidden_before_close ts k : p_idx k < length ts -> safe (get_hidden_before_close ts (Some k)).
Proof.
  intro Hk. unfold get_hidden_before_close. apply safe_bind; [apply safe_get_hidden_left; exact Hk|intro c; apply safe_ret].
Qed.

(* ------------------------------------------------------------------ index checker *)
Definition inr (n : nat) (k : ptok) : bool := Nat.ltb (p_idx k) n.
Definition span_ok (n : nat) (sp : span) : bool := inr n (sp_start sp) && inr n (sp_stop sp).

(* the items of a key list are DIGITS or STRING tokens (the formatter prints the items of these
   two types only, formattor.go:431-440) *)
Definition item_ok (k : ptok) : bool := Nat.eqb (p_type k) T_DIGITS || Nat.eqb (p_type k) T_STRING.
Definition key_list_ok (l : key_list) : bool := item_ok (li_first l) && forallb (fun p => item_ok (snd p)) (li_rest l).
Definition key_ok (k : match_key) : bool := match k with MKList l => key_list_ok l | _ => true end.

Definition ok_match_pair (n : nat) (p : match_pair) : bool := span_ok n (mp_span p) && key_ok (mp_key p).

Definition ok_match_decl (n : nat) (d : match_field_decl) : bool :=
  span_ok n (mf_span d) && forallb (ok_match_pair n) (mf_pairs d).

Fixpoint ok_field_def (n : nat) (f : field_def) : bool :=
  span_ok n (fd_span f) &&
  match f with
  | InerObjectField _ _ (InerObjectDecl isp _ _ fs _) _ => span_ok n isp && forallb (ok_field_def n) fs
  | MatchField _ d _ => ok_match_decl n d
  | _ => true
  end.

Definition ok_field_with_attr (n : nat) (f : field_with_attr) : bool :=
  forallb (fun a => span_ok n (fa_span a)) (fw_attrs f) && ok_field_def n (fw_def f).

Definition ok_packet_def (n : nat) (d : packet_def) : bool :=
  span_ok n (pd_span d) && forallb (ok_field_with_attr n) (pd_fields d).
Definition ok_meta_def (n : nat) (d : meta_def) : bool :=
  span_ok n (me_span d) && forallb (fun i => span_ok n (meta_item_span i)) (me_items d).
Definition ok_option_decl (n : nat) (d : option_decl) : bool := span_ok n (od_span d).
Definition ok_option_def (n : nat) (d : option_def) : bool :=
  span_ok n (op_span d) && forallb (ok_option_decl n) (op_decls d).
Definition ok_definition (n : nat) (d : definition) : bool :=
  match d with
  | DPacket x => ok_packet_def n x
  | DMeta x => ok_meta_def n x
  | DOption x => ok_option_def n x
  end.
Definition ok_pt (n : nat) (t : pt) : bool :=
  inr n (pk_start t) && match pk_stop t with Some k => inr n k | None => true end
  && forallb (ok_definition n) (pk_defs t).

Lemma inr_lt n k : inr n k = true -> p_idx k < n.
Proof. unfold inr. intro H. apply Nat.ltb_lt. exact H. Qed.

Lemma span_ok_lt n sp : span_ok n sp = true -> p_idx (sp_start sp) < n /\ p_idx (sp_stop sp) < n.
Proof. unfold span_ok. intro H. apply andb_true_iff in H. destruct H as [H1 H2]. split; apply inr_lt; assumption. Qed.

(* induction on field_def through the list of a nested object *)
Section FieldDefInd.
  Variable P : field_def -> Prop.
  Hypothesis HIner : forall sp rep sp' name open fields close comma,
      Forall P fields -> P (InerObjectField sp rep (InerObjectDecl sp' name open fields close) comma).
  Hypothesis HMeta : forall sp rep d, P (MetaField sp rep d).
  Hypothesis HObj : forall sp rep ft fn doc comma, P (ObjectField sp rep ft fn doc comma).
  Hypothesis HLen : forall sp d, P (LengthField sp d).
  Hypothesis HCk : forall sp d, P (CheckSumField sp d).
  Hypothesis HMatch : forall sp d comma, P (MatchField sp d comma).

  Fixpoint field_def_ind' (f : field_def) : P f :=
    match f with
    | InerObjectField sp rep (InerObjectDecl sp' name open fields close) comma =>
        HIner sp rep sp' name open fields close comma
          ((fix go (l : list field_def) : Forall P l :=
              match l with
              | [] => Forall_nil P
              | x :: r => Forall_cons x (field_def_ind' x) (go r)
              end) fields)
    | MetaField sp rep d => HMeta sp rep d
    | ObjectField sp rep ft fn doc comma => HObj sp rep ft fn doc comma
    | LengthField sp d => HLen sp d
    | CheckSumField sp d => HCk sp d
    | MatchField sp d comma => HMatch sp d comma
    end.
End FieldDefInd.

(* ------------------------------------------------------------------ the visit functions are safe *)
Lemma safe_visit_padding_attr a : safe (visit_padding_attr a).
Proof.
  unfold visit_padding_attr. apply safe_bind; [|intro; apply safe_ret].
  apply safe_guarded_ret. apply safe_ret.
Qed.

Lemma safe_visit_field_attribute a : safe (visit_field_attribute a).
Proof. destruct a; cbn [visit_field_attribute]; try apply safe_ret. apply safe_visit_padding_attr. Qed.

Lemma safe_visit_field_attributes ts l :
  forallb (fun a => span_ok (length ts) (fa_span a)) l = true -> safe (visit_field_attributes ts l).
Proof.
  induction l as [|a r IH]; cbn [visit_field_attributes forallb]; intro H; [apply safe_ret|].
  apply andb_true_iff in H. destruct H as [Ha Hr]. apply span_ok_lt in Ha. destruct Ha as [H1 _].
  apply safe_bind; [apply safe_get_hidden_left; exact H1|intro].
  apply safe_bind; [apply safe_visit_field_attribute|intro]. apply safe_bind; [apply IH; exact Hr|intro; apply safe_ret].
Qed.

Lemma safe_visit_length_field_decl d : safe (visit_length_field_decl d).
Proof.
  unfold visit_length_field_decl. apply safe_bind; [|intro; apply safe_ret].
  apply safe_guarded; [intro; apply safe_ret|apply safe_ret].
Qed.

Lemma safe_visit_checksum_field_decl d : safe (visit_checksum_field_decl d).
Proof.
  unfold visit_checksum_field_decl. apply safe_bind; [|intro; apply safe_ret].
  apply safe_guarded; [intro; apply safe_ret|apply safe_ret].
Qed.

Lemma safe_visit_meta_decl d : safe (visit_meta_decl d).
Proof.
  unfold visit_meta_decl. apply safe_bind; [|intro; apply safe_ret].
  apply safe_guarded_ret. apply safe_ret.
Qed.

Lemma safe_visit_ref_meta_decl d : safe (visit_ref_meta_decl d).
Proof.
  unfold visit_ref_meta_decl. apply safe_bind; [|intro; apply safe_ret].
  apply safe_guarded; [intro; apply safe_ret|apply safe_ret].
Qed.

Lemma safe_visit_match_pair ts p : ok_match_pair (length ts) p = true -> safe (visit_match_pair ts p).
Proof.
  intro H. unfold ok_match_pair in H. apply andb_true_iff in H. destruct H as [H _].
  apply span_ok_lt in H. destruct H as [H1 H2]. unfold visit_match_pair.
  apply safe_bind; [apply safe_get_hidden_left; exact H1|intro c1].
  apply safe_bind; [apply safe_get_hidden_right; exact H2|intro c2]. apply safe_ret.
Qed.

Lemma safe_visit_match_pairs ts ps : forallb (ok_match_pair (length ts)) ps = true -> safe (visit_match_pairs ts ps).
Proof.
  induction ps as [|p r IH]; cbn [visit_match_pairs forallb]; intro H; [apply safe_ret|].
  apply andb_true_iff in H. destruct H as [Hp Hr].
  apply safe_bind; [apply safe_visit_match_pair; exact Hp|intro]. apply safe_bind; [apply IH; exact Hr|intro; apply safe_ret].
Qed.

Lemma safe_visit_match_field_decl ts d :
  ok_match_decl (length ts) d = true -> safe (visit_match_field_decl ts d).
Proof.
  unfold ok_match_decl. intro H. apply andb_true_iff in H. destruct H as [Hsp H]. apply span_ok_lt in Hsp. destruct Hsp as [_ H2].
  unfold visit_match_field_decl. apply safe_bind; [apply safe_visit_match_pairs; exact H|intro].
  apply safe_bind; [apply safe_get_hidden_before_close; exact H2|intro; apply safe_ret].
Qed.

(* the two mutually recursive functions, unfolded once *)
Definition field_body (ts : list tok) (f : field_def) : M string :=
  match f with
  | ObjectField _ rep ftype fname doc _ =>
      let field0 := (if non_nil rep then "repeat " else EmptyString) ++ p_text ftype in
      do field1 <- (if non_nil fname then
                      do x <- deref "VisitFieldDefinition: ObjectField fname" fname; ret (field0 ++ " " ++ x)
                    else ret field0);
      do field2 <- (if non_nil doc then
                      do x <- deref "VisitFieldDefinition: ObjectField STRING_LITERAL" doc; ret (field1 ++ " " ++ x)
                    else ret field1);
      ret (field2 ++ ",")
  | InerObjectField _ rep decl _ => visit_iner_object_field ts rep decl
  | LengthField _ d => visit_length_field_decl d
  | CheckSumField _ d => visit_checksum_field_decl d
  | MetaField _ rep d =>
      do s <- visit_meta_decl d;
      ret ((if non_nil rep then "repeat " else EmptyString) ++ s)
  | MatchField _ d _ =>
      do code <- visit_match_field_decl ts d;
      ret (code ++ ",")
  end.

Lemma visit_field_def_eq ts f :
  visit_field_def ts f =
  (do left <- get_hidden_left ts (Some (sp_start (fd_span f)));
   do body <- field_body ts f;
   do right <- get_hidden_right ts (Some (sp_stop (fd_span f)));
   ret (left ++ body ++ right)).
Proof. destruct f; reflexivity. Qed.

Fixpoint visit_field_defs (ts : list tok) (fs : list field_def) : M string :=
  match fs with
  | [] => ret EmptyString
  | f :: r =>
      do result <- visit_field_def ts f;
      do rest <- visit_field_defs ts r;
      ret (add_indent4ln result ++ rest)
  end.

Lemma visit_iner_object_field_eq ts rep sp name open fields close :
  visit_iner_object_field ts rep (InerObjectDecl sp name open fields close) =
  (do body <- visit_field_defs ts fields;
   do close <- get_hidden_before_close ts (Some (sp_stop sp));
   ret (((if non_nil rep then "repeat " else EmptyString) ++ p_text name ++ " " ++ "{" ++ nl) ++ body ++ close ++ "},")).
Proof.
  cbn [visit_iner_object_field]. f_equal.
  induction fields as [|f r IH]; [reflexivity|]. cbn [visit_field_defs]. rewrite <- IH. reflexivity.
Qed.

Lemma safe_visit_field_def ts f : ok_field_def (length ts) f = true -> safe (visit_field_def ts f).
Proof.
  induction f as [sp rep sp' name open fields close comma IH|sp rep d|sp rep ft fn doc comma|sp d|sp d|sp d comma]
    using field_def_ind'; intro H; rewrite visit_field_def_eq; cbn [ok_field_def] in H;
    apply andb_true_iff in H; destruct H as [Hsp Hin]; apply span_ok_lt in Hsp; destruct Hsp as [H1 H2];
    (apply safe_bind; [apply safe_get_hidden_left; exact H1|intro left]);
    (apply safe_bind; [|intro body; apply safe_bind; [apply safe_get_hidden_right; exact H2|intro; apply safe_ret]]);
    cbn [field_body].
  - apply andb_true_iff in Hin. destruct Hin as [Hisp Hin]. apply span_ok_lt in Hisp. destruct Hisp as [_ Hc].
    rewrite visit_iner_object_field_eq.
    apply safe_bind; [|intro; apply safe_bind; [apply safe_get_hidden_before_close; exact Hc|intro; apply safe_ret]].
    clear H1 H2 Hc. induction fields as [|f r IHr]; cbn [visit_field_defs]; [apply safe_ret|].
    cbn [forallb] in Hin. apply andb_true_iff in Hin. destruct Hin as [Hf Hr].
    inversion IH as [|x l Hx Hl]; subst.
    apply safe_bind; [apply Hx; exact Hf|intro]. apply safe_bind; [apply IHr; assumption|intro; apply safe_ret].
  - apply safe_bind; [apply safe_visit_meta_decl|intro; apply safe_ret].
  - apply safe_bind; [apply safe_guarded; [intro; apply safe_ret|apply safe_ret]|intro f1].
    apply safe_bind; [apply safe_guarded; [intro; apply safe_ret|apply safe_ret]|intro f2]. apply safe_ret.
  - apply safe_visit_length_field_decl.
  - apply safe_visit_checksum_field_decl.
  - apply safe_bind; [apply safe_visit_match_field_decl; exact Hin|intro; apply safe_ret].
Qed.

Lemma safe_visit_field_with_attr ts f : ok_field_with_attr (length ts) f = true -> safe (visit_field_with_attr ts f).
Proof.
  unfold ok_field_with_attr. intro H. apply andb_true_iff in H. destruct H as [Ha H].
  unfold visit_field_with_attr. apply safe_bind; [apply safe_visit_field_attributes; exact Ha|intro].
  apply safe_bind; [apply safe_visit_field_def; exact H|intro; apply safe_ret].
Qed.

Lemma safe_visit_fields_with_attr ts fs :
  forallb (ok_field_with_attr (length ts)) fs = true -> safe (visit_fields_with_attr ts fs).
Proof.
  induction fs as [|f r IH]; cbn [visit_fields_with_attr forallb]; intro H; [apply safe_ret|].
  apply andb_true_iff in H. destruct H as [Hf Hr].
  apply safe_bind; [apply safe_visit_field_with_attr; exact Hf|intro]. apply safe_bind; [apply IH; exact Hr|intro; apply safe_ret].
Qed.

Lemma safe_visit_packet_def ts d : ok_packet_def (length ts) d = true -> safe (visit_packet_def ts d).
Proof.
  unfold ok_packet_def. intro H. apply andb_true_iff in H. destruct H as [Hsp Hf]. apply span_ok_lt in Hsp. destruct Hsp as [H1 H2].
  unfold visit_packet_def. apply safe_bind; [apply safe_get_hidden_left; exact H1|intro].
  apply safe_bind; [apply safe_visit_fields_with_attr; exact Hf|intro].
  apply safe_bind; [apply safe_get_hidden_before_close; exact H2|intro].
  apply safe_bind; [apply safe_get_hidden_right; exact H2|intro; apply safe_ret].
Qed.

Lemma safe_visit_option_decl ts d : ok_option_decl (length ts) d = true -> safe (visit_option_decl ts d).
Proof.
  unfold ok_option_decl. intro H. apply span_ok_lt in H. destruct H as [H1 H2]. unfold visit_option_decl.
  apply safe_bind; [apply safe_get_hidden_left; exact H1|intro].
  apply safe_bind; [apply safe_get_hidden_right; exact H2|intro; apply safe_ret].
Qed.

Lemma safe_visit_option_decls ts ds : forallb (ok_option_decl (length ts)) ds = true -> safe (visit_option_decls ts ds).
Proof.
  induction ds as [|d r IH]; cbn [visit_option_decls forallb]; intro H; [apply safe_ret|].
  apply andb_true_iff in H. destruct H as [Hd Hr].
  apply safe_bind; [apply safe_visit_option_decl; exact Hd|intro]. apply safe_bind; [apply IH; exact Hr|intro; apply safe_ret].
Qed.

Lemma safe_visit_option_def ts d : ok_option_def (length ts) d = true -> safe (visit_option_def ts d).
Proof.
  unfold ok_option_def. intro H. apply andb_true_iff in H. destruct H as [Hsp Hd]. apply span_ok_lt in Hsp. destruct Hsp as [H1 H2].
  unfold visit_option_def. apply safe_bind; [apply safe_get_hidden_left; exact H1|intro].
  apply safe_bind; [apply safe_visit_option_decls; exact Hd|intro].
  apply safe_bind; [apply safe_get_hidden_before_close; exact H2|intro].
  apply safe_bind; [apply safe_get_hidden_right; exact H2|intro; apply safe_ret].
Qed.

Lemma safe_visit_meta_items ts items :
  forallb (fun i => span_ok (length ts) (meta_item_span i)) items = true -> safe (visit_meta_items ts items).
Proof.
  induction items as [|i r IH]; cbn [visit_meta_items forallb]; intro H; [apply safe_ret|].
  apply andb_true_iff in H. destruct H as [Hi Hr]. apply span_ok_lt in Hi. destruct Hi as [H1 H2].
  apply safe_bind; [apply safe_get_hidden_left; exact H1|intro].
  apply safe_bind; [destruct i; [apply safe_visit_meta_decl|apply safe_visit_ref_meta_decl]|intro].
  apply safe_bind; [apply safe_get_hidden_right; exact H2|intro].
  apply safe_bind; [apply IH; exact Hr|intro; apply safe_ret].
Qed.

Lemma safe_visit_meta_def ts d : ok_meta_def (length ts) d = true -> safe (visit_meta_def ts d).
Proof.
  unfold ok_meta_def. intro H. apply andb_true_iff in H. destruct H as [Hsp Hi]. apply span_ok_lt in Hsp. destruct Hsp as [H1 H2].
  unfold visit_meta_def. apply safe_bind; [apply safe_get_hidden_left; exact H1|intro].
  apply safe_bind; [apply safe_visit_meta_items; exact Hi|intro].
  apply safe_bind; [apply safe_get_hidden_before_close; exact H2|intro].
  apply safe_bind; [apply safe_get_hidden_right; exact H2|intro; apply safe_ret].
Qed.

Lemma safe_visit_definitions ts ds : forallb (ok_definition (length ts)) ds = true -> safe (visit_definitions ts ds).
Proof.
  induction ds as [|d r IH]; cbn [visit_definitions forallb]; intro H; [apply safe_ret|].
  apply andb_true_iff in H. destruct H as [Hd Hr].
  apply safe_bind; [|intro; apply safe_bind; [apply IH; exact Hr|intro; apply safe_ret]].
  destruct d as [x|x|x]; cbn [ok_definition] in Hd;
    [apply safe_visit_packet_def; exact Hd|apply safe_visit_meta_def; exact Hd|apply safe_visit_option_def; exact Hd].
Qed.

Lemma safe_visit_packet ts t : ok_pt (length ts) t = true -> safe (visit_packet ts t).
Proof.
  unfold ok_pt. intro H. apply andb_true_iff in H. destruct H as [H Hd]. apply andb_true_iff in H. destruct H as [H1 H2].
  unfold visit_packet. apply safe_bind; [apply safe_get_hidden_left; apply inr_lt; exact H1|intro].
  apply safe_bind; [apply safe_visit_definitions; exact Hd|intro].
  destruct (pk_stop t) as [k|].
  - apply safe_bind; [apply safe_get_hidden_right; apply inr_lt; exact H2|intro].
    apply safe_bind; [apply safe_get_hidden_right_all; apply inr_lt; exact H2|intro; apply safe_ret].
  - apply safe_bind; [apply safe_get_hidden_right_nil|intro].
    apply safe_bind; [apply safe_get_hidden_right_all_nil|intro; apply safe_ret].
Qed.

Theorem fmt_pt_res_no_panic ts t : ok_pt (length ts) t = true -> exists s, fmt_pt_res ts t = Ok s.
Proof.
  intro H. destruct (safe_visit_packet ts t H []) as [s [sn E]]. unfold fmt_pt_res. rewrite E.
  exists (trim_right_nl s). reflexivity.
Qed.

(* ------------------------------------------------------------------ the parser only puts tokens of the list into the tree *)
Section ParserInvariant.
  Variable n : nat.
  Hypothesis Hn : 0 < n.

  Definition st_ok (s : pst) : Prop :=
    Forall (fun k => p_idx k < n) (st_rest s) /\ (forall k, st_prev s = Some k -> p_idx k < n).

  Lemma expect_ok ty s k s' : st_ok s -> expect ty s = Some (k, s') -> st_ok s'.
  Proof.
    intros [Hr Hp] H. unfold expect in H. destruct (st_rest s) as [|t r] eqn:E; [discriminate|].
    destruct (Nat.eqb (p_type t) ty && negb (Nat.eqb ty T_EOF)); [|discriminate].
    inversion H; subst. inversion Hr as [|x l Hx Hl]; subst. split; cbn [st_rest st_prev]; [exact Hl|].
    intros k0 Hk0. inversion Hk0; subst. exact Hx.
  Qed.

  Lemma accept_ok ty s o s' : st_ok s -> accept ty s = (o, s') -> st_ok s'.
  Proof.
    intros Hs H. unfold accept in H. destruct (expect ty s) as [[k s1]|] eqn:E.
    - inversion H; subst. eapply expect_ok; eassumption.
    - inversion H; subst. exact Hs.
  Qed.

  Lemma lt1_ok s : st_ok s -> p_idx (lt1 s) < n.
  Proof.
    intros [Hr _]. unfold lt1. destruct (st_rest s) as [|t r]; cbn [hd]; [exact Hn|]. inversion Hr; assumption.
  Qed.

  Lemma stop_of_ok s : st_ok s -> p_idx (stop_of s) < n.
  Proof.
    intros [_ Hp]. unfold stop_of. destruct (st_prev s) as [k|]; [apply Hp; reflexivity|exact Hn].
  Qed.

  Lemma span_of_ok s0 s1 : st_ok s0 -> st_ok s1 -> span_ok n (span_of s0 s1) = true.
  Proof.
    intros Hrun H1. unfold span_ok, span_of, inr. cbn [sp_start sp_stop].
    apply andb_true_iff. split; apply Nat.ltb_lt; [apply lt1_ok|apply stop_of_ok]; assumption.
  Qed.

  (* a rule keeps the invariant and gives a value with property Q *)
  Definition pres {A : Type} (Q : A -> Prop) (p : pst -> option (A * pst)) : Prop :=
    forall s x s', st_ok s -> p s = Some (x, s') -> st_ok s' /\ Q x.

  Lemma many_pres {A : Type} (Q : A -> Prop) fuel first (p : pst -> option (A * pst)) :
    pres Q p -> pres (Forall Q) (many fuel first p).
  Proof.
    intro Hp. induction fuel as [|f IH]; intros s x s' Hs H; cbn [many] in H; [discriminate|].
    destruct (mem (la 0 s) first).
    - destruct (p s) as [[y s1]|] eqn:E1; [|discriminate].
      destruct (many f first p s1) as [[ys s2]|] eqn:E2; [|discriminate].
      inversion H; subst. destruct (Hp _ _ _ Hs E1) as [Hs1 Hy]. destruct (IH _ _ _ Hs1 E2) as [Hs2 Hys].
      split; [exact Hs2|constructor; assumption].
    - inversion H; subst. split; [exact Hs|constructor].
  Qed.

  Lemma many1_pres {A : Type} (Q : A -> Prop) fuel first (p : pst -> option (A * pst)) :
    pres Q p -> pres (Forall Q) (many1 fuel first p).
  Proof.
    intros Hp s x s' Hs H. unfold many1 in H.
    destruct (p s) as [[y s1]|] eqn:E1; [|discriminate].
    destruct (many fuel first p s1) as [[ys s2]|] eqn:E2; [|discriminate].
    inversion H; subst. destruct (Hp _ _ _ Hs E1) as [Hs1 Hy].
    destruct (many_pres Q fuel first p Hp _ _ _ Hs1 E2) as [Hs2 Hys]. split; [exact Hs2|constructor; assumption].
  Qed.

  Definition any {A : Type} (_ : A) : Prop := True.

  Lemma Forall_forallb {A : Type} (f : A -> bool) l : Forall (fun x => f x = true) l -> forallb f l = true.
  Proof. induction 1 as [|x r Hx Hr IH]; cbn [forallb]; [reflexivity|]. rewrite Hx, IH. reflexivity. Qed.

  (* one step through the body of a rule: case analysis on the next test or call *)
  Ltac step_any :=
    match goal with
    | H : ?lhs = Some _ |- _ =>
        match lhs with
        | context [match ?e with _ => _ end] => destruct e eqn:?; try discriminate H
        end
    | H : Some _ = Some _ |- _ => inversion H; subst; clear H
    end.
  Ltac steps H := repeat step_any.

  (* st_ok propagates along the calls found in the context *)
  Ltac ok_chain :=
    repeat match goal with
    | Hs : st_ok ?s, E : expect _ ?s = Some (_, ?s') |- _ =>
        lazymatch goal with
        | _ : st_ok s' |- _ => fail
        | _ => pose proof (expect_ok _ _ _ _ Hs E)
        end
    | Hs : st_ok ?s, E : accept _ ?s = (_, ?s') |- _ =>
        lazymatch goal with
        | _ : st_ok s' |- _ => fail
        | _ => pose proof (accept_ok _ _ _ _ Hs E)
        end
    | Hs : st_ok ?s, E : ?f ?s = Some (_, ?s'), L : pres _ ?f |- _ =>
        lazymatch goal with
        | _ : st_ok s' |- _ => fail
        | _ => let Hx := fresh "Hx" in destruct (L _ _ _ Hs E) as [? Hx]
        end
    end.

  Ltac simple_rule f :=
    let s := fresh "s" in let x := fresh "x" in let s' := fresh "s'" in let Hs := fresh "Hs" in let H := fresh "H" in
    intros s x s' Hs H; unfold f in H; steps H; ok_chain; (split; [assumption|exact I]).

  Lemma r_basic_type_pres : pres any r_basic_type.
  Proof. simple_rule r_basic_type. Qed.
  Lemma r_fixed_string_pres : pres any r_fixed_string.
  Proof. simple_rule r_fixed_string. Qed.
  Lemma r_dynamic_string_pres : pres any r_dynamic_string.
  Proof. simple_rule r_dynamic_string. Qed.

  Lemma r_type_pres : pres any r_type.
  Proof.
    pose proof r_basic_type_pres. pose proof r_fixed_string_pres. pose proof r_dynamic_string_pres.
    simple_rule r_type.
  Qed.

  Lemma r_opt_type_pres : pres any r_opt_type.
  Proof. pose proof r_type_pres. simple_rule r_opt_type. Qed.

  Lemma r_value_pres : pres any r_value.
  Proof. pose proof r_type_pres. simple_rule r_value. Qed.

  Lemma r_calculated_from_pres : pres any r_calculated_from.
  Proof. simple_rule r_calculated_from. Qed.
  Lemma r_length_of_pres : pres any r_length_of.
  Proof. simple_rule r_length_of. Qed.
  Lemma r_padding_attr_pres : pres any r_padding_attr.
  Proof. simple_rule r_padding_attr. Qed.
  Lemma r_tag_attr_pres : pres any r_tag_attr.
  Proof. simple_rule r_tag_attr. Qed.

  Definition Qattr (a : field_attribute) : Prop := span_ok n (fa_span a) = true.

  Lemma r_field_attribute_pres : pres Qattr r_field_attribute.
  Proof.
    pose proof r_calculated_from_pres. pose proof r_length_of_pres. pose proof r_padding_attr_pres. pose proof r_tag_attr_pres.
    intros s x s' Hs Hrun. unfold r_field_attribute in Hrun. steps Hrun; ok_chain;
      (split; [assumption|unfold Qattr; cbn [fa_span]; apply span_of_ok; assumption]).
  Qed.

  Definition Qmd (d : meta_decl) : Prop := span_ok n (md_span d) = true.
  Definition Qrm (d : ref_meta_decl) : Prop := span_ok n (rm_span d) = true.

  Lemma r_meta_decl_pres : pres Qmd r_meta_decl.
  Proof.
    pose proof r_type_pres.
    intros s x s' Hs Hrun. unfold r_meta_decl in Hrun. steps Hrun; ok_chain;
      (split; [assumption|unfold Qmd; cbn [md_span]; apply span_of_ok; assumption]).
  Qed.
  Lemma r_ref_meta_decl_pres : pres Qrm r_ref_meta_decl.
  Proof.
    intros s x s' Hs Hrun. unfold r_ref_meta_decl in Hrun. steps Hrun; ok_chain;
      (split; [assumption|unfold Qrm; cbn [rm_span]; apply span_of_ok; assumption]).
  Qed.
  Lemma r_length_field_decl_pres : pres any r_length_field_decl.
  Proof. pose proof r_opt_type_pres. pose proof r_length_of_pres. simple_rule r_length_field_decl. Qed.
  Lemma r_checksum_field_decl_pres : pres any r_checksum_field_decl.
  Proof. pose proof r_opt_type_pres. pose proof r_calculated_from_pres. simple_rule r_checksum_field_decl. Qed.

  Lemma expect_type ty s k s' : expect ty s = Some (k, s') -> p_type k = ty.
  Proof.
    unfold expect. destruct (st_rest s) as [|t r]; [discriminate|].
    destruct (Nat.eqb (p_type t) ty) eqn:E; cbn [andb]; [|discriminate].
    destruct (negb (Nat.eqb ty T_EOF)); [|discriminate]. intro H. inversion H; subst. apply Nat.eqb_eq. exact E.
  Qed.

  Definition Qitem (k : ptok) : Prop := item_ok k = true.

  Lemma r_list_item_pres : pres Qitem r_list_item.
  Proof.
    intros s x s' Hs Hrun. unfold r_list_item in Hrun. destruct (mem (la 0 s) [T_DIGITS; T_STRING]) eqn:Em; [|discriminate].
    split; [eapply expect_ok; eassumption|]. unfold Qitem, item_ok. rewrite (expect_type _ _ _ _ Hrun).
    unfold mem in Em. cbn [existsb] in Em. rewrite orb_false_r in Em. exact Em.
  Qed.

  Definition Qmore (p : ptok * ptok) : Prop := item_ok (snd p) = true.

  Lemma r_list_more_pres : pres Qmore r_list_more.
  Proof.
    pose proof r_list_item_pres.
    intros s x s' Hs Hrun. unfold r_list_more in Hrun. steps Hrun. ok_chain. split; [assumption|]. unfold Qmore. cbn [snd]. assumption.
  Qed.

  Definition Qkeys (l : key_list) : Prop := key_list_ok l = true.

  Lemma r_key_list_pres fuel : pres Qkeys (r_key_list fuel).
  Proof.
    pose proof r_list_item_pres. pose proof (many_pres Qmore fuel [T_COMMA] r_list_more r_list_more_pres).
    intros s x s' Hs Hrun. unfold r_key_list in Hrun. steps Hrun. ok_chain. split; [assumption|].
    unfold Qkeys, key_list_ok. cbn [li_first li_rest]. apply andb_true_iff. split; [assumption|].
    apply Forall_forallb. assumption.
  Qed.

  Definition Qpair (p : match_pair) : Prop := ok_match_pair n p = true.

  Lemma r_match_pair_pres fuel : pres Qpair (r_match_pair fuel).
  Proof.
    pose proof (r_key_list_pres fuel).
    intros s x s' Hs Hrun. unfold r_match_pair in Hrun. steps Hrun; ok_chain;
      (split; [assumption|unfold Qpair, ok_match_pair; cbn [mp_span mp_key]; apply andb_true_iff; split;
                          [apply span_of_ok; assumption|cbn [key_ok]; try reflexivity; assumption]]).
  Qed.

  Definition Qmatch (d : match_field_decl) : Prop := ok_match_decl n d = true.

  Lemma r_match_field_decl_pres fuel : pres Qmatch (r_match_field_decl fuel).
  Proof.
    pose proof (many1_pres Qpair fuel match_pair_first (r_match_pair fuel) (r_match_pair_pres fuel)).
    intros s x s' Hs Hrun. unfold r_match_field_decl in Hrun. steps Hrun. ok_chain.
    split; [assumption|]. unfold Qmatch, ok_match_decl. cbn [mf_span mf_pairs].
    apply andb_true_iff. split; [apply span_of_ok; assumption|apply Forall_forallb; assumption].
  Qed.

  Definition Qfd (f : field_def) : Prop := ok_field_def n f = true.

  Lemma r_field_def_pres fuel : pres Qfd (r_field_def fuel).
  Proof.
    induction fuel as [|f IH]; intros s x s' Hs Hrun; cbn [r_field_def] in Hrun; [discriminate|].
    pose proof (many1_pres Qfd f field_def_first (r_field_def f) IH).
    pose proof r_meta_decl_pres. pose proof r_length_field_decl_pres. pose proof r_checksum_field_decl_pres.
    pose proof (r_match_field_decl_pres f).
    steps Hrun; ok_chain; (split; [assumption|]); unfold Qfd; cbn [ok_field_def fd_span];
      (apply andb_true_iff; split; [apply span_of_ok; assumption|]); try reflexivity.
    all: try (apply andb_true_iff; split; [apply span_of_ok; assumption|]); try (apply Forall_forallb; assumption); try assumption.
  Qed.

  Definition Qfw (f : field_with_attr) : Prop := ok_field_with_attr n f = true.

  Lemma r_field_with_attr_pres fuel : pres Qfw (r_field_with_attr fuel).
  Proof.
    pose proof (many_pres Qattr fuel attr_first r_field_attribute r_field_attribute_pres).
    pose proof (r_field_def_pres fuel).
    intros s x s' Hs Hrun. unfold r_field_with_attr in Hrun. steps Hrun. ok_chain. split; [assumption|].
    unfold Qfw, ok_field_with_attr. cbn [fw_attrs fw_def]. apply andb_true_iff. split; [apply Forall_forallb; assumption|assumption].
  Qed.

  Definition Qpd (d : packet_def) : Prop := ok_packet_def n d = true.

  Lemma r_packet_def_pres fuel : pres Qpd (r_packet_def fuel).
  Proof.
    pose proof (many_pres Qfw fuel field_with_attr_first (r_field_with_attr fuel) (r_field_with_attr_pres fuel)).
    intros s x s' Hs Hrun. unfold r_packet_def in Hrun. steps Hrun; ok_chain; (split; [assumption|]);
      unfold Qpd, ok_packet_def; cbn [pd_span pd_fields];
      (apply andb_true_iff; split; [apply span_of_ok; assumption|apply Forall_forallb; assumption]).
  Qed.

  Definition Qmi (i : meta_item) : Prop := span_ok n (meta_item_span i) = true.

  Lemma r_meta_item_pres : pres Qmi r_meta_item.
  Proof.
    pose proof r_meta_decl_pres. pose proof r_ref_meta_decl_pres.
    intros s x s' Hs Hrun. unfold r_meta_item in Hrun. steps Hrun; ok_chain; (split; [assumption|]);
      unfold Qmi; cbn [meta_item_span]; assumption.
  Qed.

  Definition Qmeta (d : meta_def) : Prop := ok_meta_def n d = true.

  Lemma r_meta_def_pres fuel : pres Qmeta (r_meta_def fuel).
  Proof.
    pose proof (many_pres Qmi fuel meta_item_first r_meta_item r_meta_item_pres).
    intros s x s' Hs Hrun. unfold r_meta_def in Hrun. steps Hrun. ok_chain. split; [assumption|].
    unfold Qmeta, ok_meta_def. cbn [me_span me_items].
    apply andb_true_iff; split; [apply span_of_ok; assumption|apply Forall_forallb; assumption].
  Qed.

  Definition Qod (d : option_decl) : Prop := ok_option_decl n d = true.

  Lemma r_option_decl_pres : pres Qod r_option_decl.
  Proof.
    pose proof r_value_pres.
    intros s x s' Hs Hrun. unfold r_option_decl in Hrun. steps Hrun; ok_chain;
      (split; [assumption|unfold Qod, ok_option_decl; cbn [od_span]; apply span_of_ok; assumption]).
  Qed.

  Definition Qopd (d : option_def) : Prop := ok_option_def n d = true.

  Lemma r_option_def_pres fuel : pres Qopd (r_option_def fuel).
  Proof.
    pose proof (many_pres Qod fuel [T_IDENTIFIER] r_option_decl r_option_decl_pres).
    intros s x s' Hs Hrun. unfold r_option_def in Hrun. steps Hrun. ok_chain. split; [assumption|].
    unfold Qopd, ok_option_def. cbn [op_span op_decls].
    apply andb_true_iff; split; [apply span_of_ok; assumption|apply Forall_forallb; assumption].
  Qed.

  Definition Qdef (d : definition) : Prop := ok_definition n d = true.

  Lemma r_definition_pres fuel : pres Qdef (r_definition fuel).
  Proof.
    pose proof (r_packet_def_pres fuel). pose proof (r_meta_def_pres fuel). pose proof (r_option_def_pres fuel).
    intros s x s' Hs Hrun. unfold r_definition in Hrun. steps Hrun; ok_chain; (split; [assumption|]);
      unfold Qdef; cbn [ok_definition]; assumption.
  Qed.

  Lemma r_packet_ok fuel s t s' : st_ok s -> r_packet fuel s = Some (t, s') -> ok_pt n t = true.
  Proof.
    pose proof (many_pres Qdef fuel definition_first (r_definition fuel) (r_definition_pres fuel)).
    intros Hs Hrun. unfold r_packet in Hrun. steps Hrun. ok_chain. unfold ok_pt. cbn [pk_start pk_stop pk_defs].
    apply andb_true_iff. split; [apply andb_true_iff; split|apply Forall_forallb; assumption].
    - apply Nat.ltb_lt. apply lt1_ok. assumption.
    - match goal with Hs1 : st_ok ?s1 |- context [st_prev ?s1] => destruct Hs1 as [_ Hp]; destruct (st_prev s1) as [k|]; [|reflexivity];
        apply Nat.ltb_lt; apply Hp; reflexivity end.
  Qed.
End ParserInvariant.

Lemma index_from_range ts : forall i, Forall (fun k => i <= p_idx k < i + length ts) (index_from i ts).
Proof.
  induction ts as [|t r IH]; intro i; cbn [index_from]; [constructor|].
  assert (Hr : Forall (fun k => i <= p_idx k < i + length (t :: r)) (index_from (S i) r)).
  { eapply Forall_impl; [|apply IH]. cbn [length]. intros k Hk. cbv beta in Hk. lia. }
  destruct (hidden t); [exact Hr|]. constructor; [cbn [p_idx length]; lia|exact Hr].
Qed.

Theorem parse_ok ts t : parse ts = Some t -> ok_pt (length ts) t = true.
Proof.
  unfold parse, parse_ptoks. intro H.
  destruct (r_packet (S (length (index_from 0 ts))) (mkSt None (index_from 0 ts))) as [[t0 s1]|] eqn:E; [|discriminate].
  assert (Hn : 0 < length ts).
  { destruct ts as [|t1 r]; [|cbn [length]; lia]. cbn in E. inversion E; subst. cbn in H. discriminate. }
  destruct (st_rest s1) as [|e [|e2 r2]]; try discriminate. destruct (Nat.eqb (p_type e) T_EOF); [|discriminate].
  inversion H; subst. eapply r_packet_ok; [exact Hn| |exact E].
  split; cbn [st_rest st_prev]; [|intros k Hk; discriminate].
  eapply Forall_impl; [|apply (index_from_range ts 0)]. intros k Hk. cbv beta in Hk. lia.
Qed.

(* ------------------------------------------------------------------ C11 and the error path *)
Theorem format_never_panics : forall s site, format_res s <> FPanic site.
Proof.
  intros s site. unfold format_res. destruct (lex s) as [ts|]; [|discriminate].
  destruct (parse ts) as [t|] eqn:E; [|discriminate].
  destruct (fmt_pt_res_no_panic ts t (parse_ok ts t E)) as [r Hr]. rewrite Hr. discriminate.
Qed.

Theorem format_total : forall s, exists r, format_res s = FOk r \/ format_res s = FErr (string_of_runes s).
Proof.
  intro s. unfold format_res. destruct (lex s) as [ts|]; [|exists EmptyString; right; reflexivity].
  destruct (parse ts) as [t|] eqn:E; [|exists EmptyString; right; reflexivity].
  destruct (fmt_pt_res_no_panic ts t (parse_ok ts t E)) as [r Hr]. rewrite Hr. exists r. left. reflexivity.
Qed.

(* C09, last sentence: on a syntax error (of the lexer or of the parser) the input text is
   returned and an error is reported *)
Theorem format_error_path : forall s,
  lex s = None \/ (exists ts, lex s = Some ts /\ parse ts = None) ->
  format_text s = (string_of_runes s, false).
Proof.
  intros s [H|[ts [H1 H2]]]; unfold format_text, format_res; [rewrite H|rewrite H1, H2]; reflexivity.
Qed.

(* ... and only then *)
Theorem format_error_only_then : forall s r,
  format_text s = (r, false) ->
  r = string_of_runes s /\ (lex s = None \/ (exists ts, lex s = Some ts /\ parse ts = None)).
Proof.
  intros s r H. unfold format_text in H. destruct (format_res s) as [x|x|x] eqn:E.
  - inversion H.
  - inversion H; subst. unfold format_res in E. destruct (lex s) as [ts|] eqn:El.
    + destruct (parse ts) as [t|] eqn:Ep.
      * destruct (fmt_pt_res ts t); discriminate.
      * inversion E; subst. split; [reflexivity|]. right. exists ts. split; [reflexivity|exact Ep].
    + inversion E; subst. split; [reflexivity|]. left. reflexivity.
  - exfalso. exact (format_never_panics s x E).
Qed.

(* the formatted text is returned exactly when lexer and parser accept *)
Theorem format_ok_iff : forall s,
  (exists r, format_text s = (r, true)) <-> (exists ts t, lex s = Some ts /\ parse ts = Some t).
Proof.
  intro s. split.
  - intros [r H]. unfold format_text in H. destruct (format_res s) as [x|x|x] eqn:E; try discriminate.
    unfold format_res in E. destruct (lex s) as [ts|]; [|discriminate]. destruct (parse ts) as [t|] eqn:Ep; [|discriminate].
    exists ts, t. split; [reflexivity|exact Ep].
  - intros [ts [t [H1 H2]]]. unfold format_text, format_res. rewrite H1, H2.
    destruct (fmt_pt_res_no_panic ts t (parse_ok ts t H2)) as [r Hr]. rewrite Hr. exists r. reflexivity.
Qed.
