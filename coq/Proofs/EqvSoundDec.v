(* Soundness of the boolean IR equivalence for decoders. *)
From FP Require Import Eqv BytesLemmas EqvSoundEnc DecRepeat.
From Coq Require Import Lia.
Open Scope list_scope.

Lemma order_eqb_dec w a b rd : order_eqb w a b = true -> dec_int w a rd = dec_int w b rd.
Proof.
  unfold order_eqb. intros H. apply orb_prop in H. destruct H as [H|H].
  - apply Bool.eqb_prop in H. subst. reflexivity.
  - apply Nat.leb_le in H. unfold dec_int. destruct (Nat.ltb (length rd) w); [reflexivity|].
    destruct w as [|[|w]]; [| |lia].
    + cbn [firstn]. destruct a, b; reflexivity.
    + destruct rd as [|x rd]; cbn [firstn]; destruct a, b; reflexivity.
Qed.

Lemma table_eqb_eq (t t' : list (string * string)) :
  forall2b (fun a b => andb (String.eqb (fst a) (fst b)) (String.eqb (snd a) (snd b))) t t' = true -> t = t'.
Proof.
  revert t'. induction t as [|[k p] t IH]; intros [|[k' p'] t'] H; cbn [forall2b] in H; try discriminate; [reflexivity|].
  cbn [fst snd] in H. bool_hyps. f_equal. apply IH. assumption.
Qed.

Lemma list_eqb_eq a b : list_eqb a b = true -> a = b.
Proof.
  revert b. induction a as [|x a IH]; intros [|y b] H; cbn [list_eqb] in H; try discriminate; [reflexivity|].
  apply andb_prop in H. destruct H as [Hx Hr]. apply N.eqb_eq in Hx. subst. f_equal. apply IH. exact Hr.
Qed.

Lemma list_eqb_refl a : list_eqb a a = true.
Proof. induction a as [|x a IH]; cbn [list_eqb]; [reflexivity|]. rewrite N.eqb_refl. exact IH. Qed.

Lemma both_match_same k k' v : key_matches k v = true -> key_matches k' v = true -> same_key k k' = true.
Proof.
  unfold key_matches, same_key, key_norm. destruct v as [n|s| | |]; try discriminate.
  - destruct (is_quoted k); [discriminate|]. destruct (is_quoted k'); [discriminate|].
    destruct k as [|c k]; [discriminate|]. destruct k' as [|c' k']; [discriminate|].
    destruct (digits_val 0 (String c k)) as [a|]; [|discriminate].
    destruct (digits_val 0 (String c' k')) as [b|]; [|discriminate].
    intros Ha Hb. apply N.eqb_eq in Ha. apply N.eqb_eq in Hb. subst. apply N.eqb_refl.
  - destruct (is_quoted k); [|discriminate]. destruct (is_quoted k'); [|discriminate].
    intros Ha Hb. apply list_eqb_eq in Ha. apply list_eqb_eq in Hb. rewrite Ha, Hb. apply list_eqb_refl.
Qed.

Lemma table_first_app a b v :
  table_first (a ++ b) v = match table_first a v with Some p => Some p | None => table_first b v end.
Proof.
  induction a as [|[k p] a IH]; cbn [app table_first]; [reflexivity|].
  destruct (key_matches k v); [reflexivity|exact IH].
Qed.

Lemma table_first_none_iff t v : table_first t v = None <-> forall k p, In (k, p) t -> key_matches k v = false.
Proof.
  induction t as [|[k p] t IH]; cbn [table_first].
  - split; [intros _ k p []|reflexivity].
  - destruct (key_matches k v) eqn:E.
    + split; [discriminate|]. intros H. rewrite (H k p) in E by (left; reflexivity). discriminate.
    + rewrite IH. split.
      * intros H k' p' [Hin|Hin]; [inversion Hin; subst; exact E|eapply H; exact Hin].
      * intros H k' p' Hin. eapply H. right. exact Hin.
Qed.

Lemma table_first_rev t v : keys_distinct t = true -> table_first (rev t) v = table_first t v.
Proof.
  induction t as [|[k p] t IH]; cbn [keys_distinct]; [reflexivity|].
  intros H. apply andb_prop in H. destruct H as [Hk Ht].
  cbn [rev table_first]. rewrite table_first_app. cbn [table_first].
  destruct (key_matches k v) eqn:E.
  - assert (Hn : table_first (rev t) v = None).
    { apply table_first_none_iff. intros k' p' Hin. apply in_rev in Hin.
      destruct (key_matches k' v) eqn:E'; [|reflexivity].
      pose proof (both_match_same k k' v E E') as Hs.
      apply negb_true_iff in Hk. rewrite <- Hk. symmetry. apply existsb_exists.
      exists (k', p'). split; [exact Hin|exact Hs]. }
    rewrite Hn. reflexivity.
  - rewrite (IH Ht). destruct (table_first t v); reflexivity.
Qed.

Lemma table_lookup_fw t fw fw' v :
  orb (Bool.eqb fw fw') (keys_distinct t) = true -> table_lookup t fw v = table_lookup t fw' v.
Proof.
  intros H. apply orb_prop in H. destruct H as [H|H].
  - apply Bool.eqb_prop in H. subst. reflexivity.
  - unfold table_lookup. destruct fw, fw'; try reflexivity; [symmetry|]; apply table_first_rev; exact H.
Qed.

Section Ext.
  Variables rec1 rec2 : string -> list byte -> dres (value * list byte).
  Hypothesis Hrec : forall n rd, rec1 n rd = rec2 n rd.

  Lemma dec_repeat_ext f g k rd acc :
    (forall rd, f rd = g rd) -> dec_repeat f k rd acc = dec_repeat g k rd acc.
  Proof.
    intros H. revert rd acc. induction k as [|k IH]; intros rd acc; cbn [dec_repeat]; [reflexivity|].
    rewrite H. destruct (g rd) as [[v rd']| |]; [apply IH|reflexivity|reflexivity].
  Qed.

  Lemma dec_elem_eqv s : forall t members rd,
    delem_eqvb s t = true -> dec_elem rec1 s members rd = dec_elem rec2 t members rd.
  Proof.
    induction s as [w le|n p|pw ple sg|pw ple sg e IHe|ty|tb fw k ue|why];
      intros t members rd H; destruct t as [w' le'|n' p'|pw' ple' sg'|pw' ple' sg' e'|ty'|tb' fw' k' ue'|why'];
      cbn [delem_eqvb] in H; try discriminate; bool_hyps.
    - cbn [dec_elem]. match goal with Ho : order_eqb _ _ _ = true |- _ => rewrite (order_eqb_dec _ _ _ rd Ho) end. reflexivity.
    - cbn [dec_elem]. match goal with Hp : pad_eqb _ _ = true |- _ => rewrite (pad_eqb_of _ _ Hp) end. reflexivity.
    - cbn [dec_elem]. match goal with Ho : order_eqb _ _ _ = true |- _ => rewrite (order_eqb_dec _ _ _ rd Ho) end. reflexivity.
    - cbn [dec_elem]. match goal with Ho : order_eqb _ _ _ = true |- _ => rewrite (order_eqb_dec _ _ _ rd Ho) end.
      destruct (dec_int _ _ rd) as [[n rd']|]; [|reflexivity].
      destruct (guard_skips _ _ n); [reflexivity|].
      rewrite !dec_repeat_n_eq.
      rewrite (dec_repeat_ext (dec_elem rec1 e members) (dec_elem rec2 e' members)); [reflexivity|].
      intros rd0. apply IHe. assumption.
    - cbn [dec_elem]. apply Hrec.
    - cbn [dec_elem].
      match goal with Ht : forall2b _ _ _ = true |- _ => apply table_eqb_eq in Ht; subst end.
      destruct (nth_error members _) as [[kv|]|]; try reflexivity.
      match goal with Hf : orb _ _ = true |- _ => rewrite (table_lookup_fw _ _ _ kv Hf) end.
      destruct (table_lookup _ _ kv) as [q|]; [|reflexivity]. rewrite Hrec. reflexivity.
  Qed.

  Lemma dec_steps_eqv a b : forall members rd,
    dec_eqvb a b = true -> dec_steps rec1 a members rd = dec_steps rec2 b members rd.
  Proof.
    unfold dec_eqvb. revert b. induction a as [|[i s] a IH]; intros b members rd H;
      apply andb_prop in H; destruct H as [H Hf]; apply andb_prop in H; destruct H as [Ha Hb];
      destruct b as [|[j t] b]; cbn [forall2b] in Hf; try discriminate; [reflexivity|].
    apply andb_prop in Hf. destruct Hf as [Hst Hab].
    unfold dstep_eqvb in Hst. cbn [fst snd] in Hst. apply andb_prop in Hst. destruct Hst as [Hij Hst].
    apply Nat.eqb_eq in Hij. subst j.
    cbn [forallb snd] in Ha, Hb. apply andb_prop in Ha. destruct Ha as [Hs Ha]. apply andb_prop in Hb. destruct Hb as [Ht Hb].
    pose proof (dec_elem_eqv s t members rd Hst) as He.
    assert (Hrest : forall m r, dec_steps rec1 a m r = dec_steps rec2 b m r).
    { intros m r. apply IH. rewrite Ha, Hb, Hab. reflexivity. }
    destruct s; destruct t; cbn [d_noop negb] in Hs, Ht; try discriminate; cbn [delem_eqvb] in Hst; try discriminate;
      cbn [dec_steps]; rewrite He;
      match goal with |- context [dec_elem rec2 ?t members rd] => destruct (dec_elem rec2 t members rd) as [[v rd']| |] end;
      try reflexivity; apply Hrest.
  Qed.

  Lemma dec_packet_body_eqv a b rd :
    ir_members a = ir_members b -> dec_eqvb (ir_dec a) (ir_dec b) = true ->
    dec_packet_body rec1 a rd = dec_packet_body rec2 b rd.
  Proof.
    intros Hm He. unfold dec_packet_body. rewrite Hm. rewrite (dec_steps_eqv _ _ _ _ He). reflexivity.
  Qed.
End Ext.

Lemma find_ir_deqv P Q name :
  dec_prog_eqvb P Q = true ->
  match find_ir P name, find_ir Q name with
  | Some a, Some b => ir_members a = ir_members b /\ dec_eqvb (ir_dec a) (ir_dec b) = true
  | None, None => True
  | _, _ => False
  end.
Proof.
  unfold dec_prog_eqvb. revert Q. induction P as [|[k a] P IH]; intros Q H; destruct Q as [|[k' b] Q]; cbn [forall2b] in H; try discriminate.
  - exact I.
  - apply andb_prop in H. destruct H as [Hp HPQ].
    unfold pkt_eqvb in Hp. cbn [fst snd] in Hp. bool_hyps.
    cbn [find_ir]. destruct (String.eqb k' name).
    + split; assumption.
    + apply IH. exact HPQ.
Qed.

Theorem dec_prog_eqv_sound P Q :
  dec_prog_eqvb P Q = true ->
  forall fuel name rd, sem_dec P fuel name rd = sem_dec Q fuel name rd.
Proof.
  intros H fuel. induction fuel as [|fuel IH]; intros name rd; cbn [sem_dec]; [reflexivity|].
  pose proof (find_ir_deqv P Q name H) as Hf.
  destruct (find_ir P name) as [a|], (find_ir Q name) as [b|]; try contradiction; [|reflexivity].
  destruct Hf as [Hm He]. apply dec_packet_body_eqv; assumption.
Qed.
