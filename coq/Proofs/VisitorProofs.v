(* C12 / C11 / C08 on the visitor model (Model/Visitor.v): what holds is proved, what does not
   is refuted by a concrete parse tree (Proofs/VisitorWitnesses.v: the real parser's trees of
   the witness texts) evaluated with vm_compute.

   Conventions: [faults] (Model/Faults.v) is the specification; [has_diag r k l] says that the
   result carries a diagnostic of call-site kind k on line l. *)
From Coq Require Import String Ascii NArith Bool Arith List Lia.
From FP Require BModel.
From FP Require Import PT Flatten Visitor VisitorShow Faults NoPanic Spelling VisitorWitnesses.
Import ListNotations.
Open Scope string_scope.

Definition has_diag (r : result) (k : dkind) (l : nat) : Prop :=
  exists d, In d (r_diags r) /\ d_kind d = k /\ d_line d = l.

Definition no_diag_of (r : result) (k : dkind) : Prop := forall d, In d (r_diags r) -> d_kind d <> k.

(* ================================================================== (b) refuted: findings *)

Ltac by_compute := vm_compute; repeat split; auto; try discriminate.

(* the visitor accepts the tree: it returns a result without any diagnostic *)
Definition accepted (t : pt) : Prop := exists r, visit t = VOk r /\ r_diags r = [].

Ltac accept := eexists; split; [vm_compute; reflexivity | reflexivity].

(* the result carries exactly one diagnostic, of that kind, on that line *)
Definition only_diag (t : pt) (k : dkind) (l : nat) : Prop :=
  exists r d, visit t = VOk r /\ r_diags r = [d] /\ d_kind d = k /\ d_line d = l.

Ltac one_diag := eexists; eexists; split; [vm_compute; reflexivity|split; [reflexivity|split; reflexivity]].

(* length-of field in an inline object *)
Lemma len_in_inline_refuted : In (FLenOutsideRoot, 1) (faults w_len_in_inline) /\ accepted w_len_in_inline.
Proof. split; [by_compute | accept]. Qed.

(* @lengthOf followed by @calculatedFrom on the same field of a non-root packet: the length attribute is gone
   before VisitPacketDefinition looks at it *)
Lemma len_then_calc_refuted : In (FLenOutsideRoot, 1) (faults w_len_then_calc) /\ accepted w_len_then_calc.
Proof. split; [by_compute | accept]. Qed.

(* @lengthOf before an object field of a non-root packet: refused as an attribute (rightly), but not as a misplaced
   length-of field *)
Lemma lengthof_on_object_nonroot_refuted :
  In (FLenOutsideRoot, 1) (faults w_lengthof_on_object_nonroot) /\ only_diag w_lengthof_on_object_nonroot DK_AttrOnObject 1.
Proof. split; [by_compute | one_diag]. Qed.

(* undeclared packet in a packet that is itself rejected as a duplicate: only the duplicate is reported *)
Lemma undeclared_packet_in_dup_packet_refuted :
  In (FUndeclaredPacket, 1) (faults w_undeclared_in_dup_packet) /\
  exists r, visit w_undeclared_in_dup_packet = VOk r /\ no_diag_of r DK_UnknownPacket.
Proof.
  split; [by_compute|]. eexists; split; [vm_compute; reflexivity|].
  intros d Hd. vm_compute in Hd. destruct Hd as [Hd|[]]. subst d. discriminate.
Qed.

(* the diagnostic of an undeclared packet names the line of the field definition, not of its first attribute *)
Lemma undeclared_packet_line_refuted :
  In (FUndeclaredPacket, 1) (faults w_undeclared_packet_line) /\
  exists r, visit w_undeclared_packet_line = VOk r /\ ~ has_diag r DK_UnknownPacket 1 /\ has_diag r DK_UnknownPacket 2.
Proof.
  split; [by_compute|]. eexists; split; [vm_compute; reflexivity|]. split.
  - intros [d [Hd [_ Hl]]]. vm_compute in Hd. destruct Hd as [Hd|[]]. subst d. discriminate.
  - eexists; split; [vm_compute; left; reflexivity|split; reflexivity].
Qed.

(* the packet of a match pair whose key list starts on a later line than its bracket: reported on the lines of the
   keys (one diagnostic per key), not on the line of the pair *)
Lemma undeclared_packet_in_list_pair_line_refuted :
  In (FUndeclaredPacket, 1) (faults w_undeclared_in_list_pair) /\
  exists r, visit w_undeclared_in_list_pair = VOk r /\ ~ has_diag r DK_UnknownPacket 1 /\ has_diag r DK_UnknownPacket 2.
Proof.
  split; [by_compute|]. eexists; split; [vm_compute; reflexivity|]. split.
  - intros [d [Hd [_ Hl]]]. vm_compute in Hd. destruct Hd as [Hd|[Hd|[]]]; subst d; discriminate.
  - eexists; split; [vm_compute; left; reflexivity|split; reflexivity].
Qed.

(* a duplicate of a length field that was itself refused is not a duplicate for the visitor *)
Lemma dup_field_after_dropped_len_refuted :
  In (FDupField, 1) (faults w_dup_field_after_dropped_len) /\
  exists r, visit w_dup_field_after_dropped_len = VOk r /\ no_diag_of r DK_DupField.
Proof.
  split; [by_compute|]. eexists; split; [vm_compute; reflexivity|].
  intros d Hd. vm_compute in Hd. destruct Hd as [Hd|[]]; subst d; discriminate.
Qed.

(* the target of a length field that is itself refused is not looked at *)
Lemma len_target_of_dropped_len_refuted :
  In (FUndeclaredLenTarget, 1) (faults w_len_target_of_dropped_len) /\ only_diag w_len_target_of_dropped_len DK_LenNotRoot 1.
Proof. split; [by_compute | one_diag]. Qed.

(* @calculatedFrom before a match field: the field is a checksum field of type "match" afterwards, its key is not looked at *)
Lemma match_key_after_calc_refuted : In (FUndeclaredMatchKey, 1) (faults w_match_after_calc) /\ accepted w_match_after_calc.
Proof. split; [by_compute | accept]. Qed.

(* a repeated unknown option is reported as unknown twice, never as a duplicate *)
Lemma dup_unknown_option_refuted :
  In (FDupOption, 1) (faults w_dup_unknown_option) /\
  exists r, visit w_dup_unknown_option = VOk r /\ no_diag_of r DK_OptDup.
Proof.
  split; [by_compute|]. eexists; split; [vm_compute; reflexivity|].
  intros d Hd. vm_compute in Hd. destruct Hd as [Hd|[Hd|[]]]; subst d; discriminate.
Qed.

(* a second root that is also a duplicate packet is only reported as a duplicate *)
Lemma second_root_dup_refuted :
  In (FSecondRoot, 1) (faults w_second_root_dup) /\
  exists r, visit w_second_root_dup = VOk r /\ no_diag_of r DK_MultiRoot.
Proof.
  split; [by_compute|]. eexists; split; [vm_compute; reflexivity|].
  intros d Hd. vm_compute in Hd. destruct Hd as [Hd|[]]; subst d; discriminate.
Qed.

(* a root packet rejected as a duplicate does not count: the next root is accepted as THE root *)
Lemma root_after_rejected_root_refuted :
  In (FSecondRoot, 1) (faults w_root_after_rejected_root) /\
  exists r, visit w_root_after_rejected_root = VOk r /\ no_diag_of r DK_MultiRoot /\ r_root r = Some "B".
Proof.
  split; [by_compute|]. eexists; split; [vm_compute; reflexivity|]. split; [|reflexivity].
  intros d Hd. vm_compute in Hd. destruct Hd as [Hd|[]]; subst d; discriminate.
Qed.

(* quoted option values lose their quotes before the check: "u16" is accepted, and "yes" for a boolean is
   reported (correctly) *)
Lemma quoted_option_value_refuted :
  In (FIllegalOptionValue, 1) (faults w_quoted_option) /\
  exists r, visit w_quoted_option = VOk r /\
            r_diags r = [mkDiag 1 DK_OptValue "Option LittleEndian is not allowed to be yes, Expected one of:true,false"].
Proof. split; [by_compute|]. eexists; split; [vm_compute; reflexivity|reflexivity]. Qed.

(* ---- repaired: the witnesses of the former findings are now answered *)

Lemma dup_field_witness : only_diag w_dup_field DK_DupField 1.
Proof. one_diag. Qed.

Lemma undeclared_match_key_witness : only_diag w_undeclared_match_key DK_UnknownMatchKey 1.
Proof. one_diag. Qed.

Lemma undeclared_len_target_witness :
  only_diag w_undeclared_len_target DK_UnknownLenTarget 1 /\ only_diag w_undeclared_len_target_panic DK_UnknownLenTarget 1.
Proof. split; one_diag. Qed.

Lemma undeclared_packet_in_pair_witness : only_diag w_undeclared_in_pair DK_UnknownPacket 1.
Proof. one_diag. Qed.

Lemma undeclared_packet_in_inline_witness : only_diag w_undeclared_in_inline DK_UnknownPacket 1.
Proof. one_diag. Qed.

(* attribute misuse has no fault class in the specification; it is refused with a diagnostic of its own *)
Lemma attribute_misuse_diagnosed :
  only_diag w_pad_on_basic DK_PadNotFixed 1 /\ only_diag w_lengthof_on_object DK_AttrOnObject 1 /\
  only_diag w_len_named_nil_meta DK_UnknownMeta 1 /\ only_diag w_sum_named_nil_meta DK_UnknownMeta 1.
Proof. repeat split; one_diag. Qed.

(* the documented option values that used to be refused are accepted, and mean what their other spelling means *)
Lemma padchar_nul_accepted : faults w_padchar_nul = [] /\ accepted w_padchar_nul.
Proof. split; [reflexivity | accept]. Qed.

Lemma alias_option_value_accepted :
  faults w_alias_option = [] /\ accepted w_alias_option /\
  exists r1 r2, visit w_alias_option = VOk r1 /\ visit w_short_option = VOk r2 /\
                r_options r1 = r_options r2 /\ r_config r1 = r_config r2.
Proof.
  split; [reflexivity|]. split; [accept|]. eexists; eexists. split; [vm_compute; reflexivity|]. split; [vm_compute; reflexivity|].
  split; reflexivity.
Qed.

(* the NUL pad character of the option is the NUL pad character of the padding attribute *)
Lemma nul_option_is_nul_attr :
  exists r1 r2 c, visit w_nul_option = VOk r1 /\ visit w_nul_attr = VOk r2 /\
                  nth_error (r_store r2) 0 = Some c /\ BModel.c_pad (r_config r1) = fc_pad c.
Proof. eexists; eexists; eexists. split; [vm_compute; reflexivity|]. split; [vm_compute; reflexivity|]. split; reflexivity. Qed.

(* a well-formed program that IS accepted, with everything in it (sanity of the witnesses' set-up) *)
Lemma small_program_accepted : faults w_ok_small = [] /\ accepted w_ok_small.
Proof. split; [reflexivity | accept]. Qed.

(* ================================================================== (d) C08: attribute locality is false *)

(* "an attribute applies only to the field it is written on": the padding written on field a of
   w_shared_pad reaches field b (and the MetaData entry), because the three hold the same
   FixedStringFieldAttribute object.  b is the second field of the only packet. *)
Definition field_b_attr (t : pt) : option BModel.attr :=
  match visit t with
  | VOk r => match BModel.m_packets (to_bmodel r) with
             | p :: _ => option_map BModel.f_attr (nth_error (BModel.p_fields p) 1)
             | [] => None
             end
  | VPanic _ => None
  end.

Lemma attribute_locality_refuted :
  field_b_attr w_shared_pad = Some (BModel.AFixed 4 (Some (BModel.mkPad "'0'" true))) /\
  field_b_attr w_shared_pad_without = Some (BModel.AFixed 4 None) /\
  (* the inlined spelling of the same declarations keeps the attribute local *)
  field_b_attr w_shared_pad_inlined = Some (BModel.AFixed 4 None).
Proof. repeat split; reflexivity. Qed.

(* hence "a MetaData-typed field versus the inlined type" is not meaning-preserving *)
Lemma inline_meta_not_same_meaning :
  same_meaning_o (visit w_shared_pad) (visit (rw_inline_meta w_shared_pad)) = false /\
  same_tokens (rw_inline_meta w_shared_pad) w_shared_pad_inlined = true.
Proof. split; reflexivity. Qed.

Open Scope list_scope.

(* ================================================================== (a) what the visitor does diagnose *)

(* ---- lists *)

Lemma In_snoc {A} (l : list A) (x y : A) : In x (snoc l y) <-> In x l \/ x = y.
Proof.
  unfold snoc. rewrite in_app_iff. cbn [In]. intuition.
Qed.

Lemma incl_snoc {A} (l : list A) (y : A) : incl l (snoc l y).
Proof. intros x Hx. apply In_snoc. left. exact Hx. Qed.

Lemma fold_left_flat_map {A B S} (f : S -> B -> S) (g : A -> list B) (l : list A) (s : S) :
  fold_left f (flat_map g l) s = fold_left (fun s a => fold_left f (g a) s) l s.
Proof.
  revert s. induction l as [|a l IH]; intros s; cbn [flat_map fold_left]; [reflexivity|].
  rewrite fold_left_app. apply IH.
Qed.

(* a monotone step function keeps what an earlier step has added *)
Lemma fold_left_mono {A S D} (f : S -> A -> S) (dg : S -> list D)
      (Hmono : forall s a, incl (dg s) (dg (f s a))) (l : list A) (s : S) :
  incl (dg s) (dg (fold_left f l s)).
Proof.
  revert s. induction l as [|a l IH]; intros s; cbn [fold_left]; [apply incl_refl|].
  eapply incl_tran; [apply Hmono|apply IH].
Qed.

(* ---- the specification: which component a fault comes from *)

Lemma In_tag k k' l ls : In (k, l) (tag k' ls) <-> k = k' /\ In l ls.
Proof.
  unfold tag. rewrite in_map_iff. split.
  - intros [x [Hx Hin]]. inversion Hx; subst. auto.
  - intros [Hk Hin]. subst. exists l. auto.
Qed.

Lemma option_fault_kind k l d : In (k, l) (option_fault d) -> k = FUnknownOption \/ k = FIllegalOptionValue.
Proof.
  unfold option_fault. destruct (lookup documented_options (p_text (od_name d))) as [vs|].
  - destruct vs as [|v vs]; [intros []|].
    destruct (name_in _ _); [intros []|]. intros [H|[]]. inversion H. auto.
  - intros [H|[]]. inversion H. auto.
Qed.

Definition scope_kind (k : fault_kind) : bool :=
  match k with
  | FDupField | FDupMatchKey | FSecondLen | FLenOutsideRoot | FUndeclaredPacket | FUndeclaredMatchKey
  | FUndeclaredLenTarget => true
  | _ => false
  end.

Lemma scope_faults_kind pn mn s k l : In (k, l) (scope_faults pn mn s) -> scope_kind k = true.
Proof.
  unfold scope_faults. rewrite !in_app_iff. intros [H|[H|[H|H]]].
  - apply In_tag in H. destruct H as [-> _]. reflexivity.
  - apply in_flat_map in H. destruct H as [e [_ H]]. destruct (e_def e); try contradiction.
    apply In_tag in H. destruct H as [-> _]. reflexivity.
  - destruct (sc_top s && sc_root s); apply In_tag in H; destruct H as [-> _]; reflexivity.
  - apply in_flat_map in H. destruct H as [e [_ H]]. rewrite in_app_iff in H. destruct H as [H|H].
    + destruct (e_def e); try contradiction.
      * destruct (_ || _); [contradiction|]. destruct H as [H|[]]. inversion H. reflexivity.
      * rewrite in_app_iff in H. destruct H as [H|H].
        -- destruct (name_in _ _); [contradiction|]. destruct H as [H|[]]. inversion H. reflexivity.
        -- apply in_flat_map in H. destruct H as [p [_ H]]. destruct (name_in _ _); [contradiction|].
           destruct H as [H|[]]. inversion H. reflexivity.
    + destruct (forallb _ _); [contradiction|]. destruct H as [H|[]]. inversion H. reflexivity.
Qed.

(* the components of [faults] *)
Lemma faults_inv t k l :
  In (k, l) (faults t) ->
  (k = FDupPacket /\ In l (later_dups [] (map (fun p => (p_text (pd_name p), line_of (pd_span p))) (packet_defs t)))) \/
  (k = FDupMeta /\ In l (later_dups [] (map (fun i => (meta_item_name i, meta_item_line i)) (meta_items t)))) \/
  (k = FDupOption /\ In l (later_dups [] (map (fun d => (p_text (od_name d), line_of (od_span d))) (option_decls t)))) \/
  (k = FSecondRoot /\ In l (map (fun p => line_of (pd_span p)) (tl (root_defs t)))) \/
  (exists d, In d (option_decls t) /\ In (k, l) (option_fault d)) \/
  (exists s, In s (scopes t) /\ In (k, l) (scope_faults (Faults.packet_names t) (meta_names t) s)).
Proof.
  unfold faults. rewrite !in_app_iff. intros [H|[H|[H|[H|[H|H]]]]].
  - left. apply In_tag in H. exact H.
  - right; left. apply In_tag in H. exact H.
  - right; right; left. apply In_tag in H. exact H.
  - right; right; right; left. apply In_tag in H. exact H.
  - right; right; right; right; left. apply in_flat_map in H. exact H.
  - right; right; right; right; right. apply in_flat_map in H. exact H.
Qed.

(* what [later_dups] finds: an entry whose name occurred before *)
Lemma later_dups_spec (xs : list (string * nat)) : forall seen l,
  In l (later_dups seen xs) ->
  exists a n b, xs = a ++ (n, l) :: b /\ (name_in n seen = true \/ exists l', In (n, l') a).
Proof.
  induction xs as [|[n ln] xs IH]; intros seen l H; cbn [later_dups] in H; [contradiction|].
  destruct (name_in n seen) eqn:Hn.
  - destruct H as [H|H].
    + subst. exists [], n, xs. split; [reflexivity|]. left. exact Hn.
    + destruct (IH _ _ H) as [a [m [b [Hx Hc]]]]. exists ((n, ln) :: a), m, b. split; [rewrite Hx; reflexivity|].
      destruct Hc as [Hc|[l' Hc]]; [left; exact Hc|right; exists l'; right; exact Hc].
  - destruct (IH _ _ H) as [a [m [b [Hx Hc]]]]. exists ((n, ln) :: a), m, b. split; [rewrite Hx; reflexivity|].
    destruct Hc as [Hc|[l' Hc]].
    + cbn [name_in existsb] in Hc. apply orb_true_iff in Hc. destruct Hc as [Hc|Hc].
      * apply String.eqb_eq in Hc. subst. right. exists ln. left. reflexivity.
      * left. exact Hc.
    + right. exists l'. right. exact Hc.
Qed.

Lemma later_dups_nil_spec (xs : list (string * nat)) l :
  In l (later_dups [] xs) -> exists a n b l', xs = a ++ (n, l) :: b /\ In (n, l') a.
Proof.
  intros H. destruct (later_dups_spec _ _ _ H) as [a [n [b [Hx [Hc|[l' Hc]]]]]]; [discriminate|].
  exists a, n, b, l'. auto.
Qed.

(* a split of [map f xs] is the image of a split of xs *)
Lemma map_split {A B} (f : A -> B) (xs : list A) (a b : list B) (y : B) :
  map f xs = a ++ y :: b -> exists xa x xb, xs = xa ++ x :: xb /\ map f xa = a /\ f x = y /\ map f xb = b.
Proof.
  revert a. induction xs as [|x xs IH]; intros a H.
  - destruct a; discriminate.
  - destruct a as [|a0 a]; cbn in H; inversion H; subst.
    + exists [], x, xs. auto.
    + destruct (IH _ H2) as [xa [x' [xb [Hx [Ha [Hy Hb]]]]]]. exists (x :: xa), x', xb. subst. auto.
Qed.

(* ---- the diagnostics list only grows *)

Lemma add_diag_mono s d : incl (s_diags s) (s_diags (add_diag s d)).
Proof. cbn. apply incl_snoc. Qed.

Lemma add_meta_mono s m : incl (s_diags s) (s_diags (add_meta s m)).
Proof.
  unfold add_meta. destruct (find_meta (s_metas s) (vm_name m)); [apply add_diag_mono|cbn; apply incl_refl].
Qed.

(* every MetaData item is handed to AddMetaData with its name and line (a ref-declaration of an unknown type
   after one more diagnostic) *)
Lemma visit_meta_item_shape s i :
  exists s' m, visit_meta_item s i = add_meta s' m /\ s_metas s' = s_metas s /\ incl (s_diags s) (s_diags s') /\
               vm_name m = meta_item_name i /\ vm_line m = meta_item_line i /\
               s_packets s' = s_packets s /\ s_root s' = s_root s.
Proof.
  destruct i as [d|d]; cbn [visit_meta_item].
  - destruct (meta_decl_attr d (s_store s)) as [a st]. eexists; eexists; split; [reflexivity|]. cbn.
    repeat split; auto. apply incl_refl.
  - eexists; eexists; split; [reflexivity|]. cbn [vm_name vm_line meta_item_name meta_item_line].
    destruct (match find_meta (s_metas s) (p_text (rm_typ d)) with Some m => vm_attr m | None => VANil end); cbn;
      repeat split; auto; try apply incl_refl; apply incl_snoc.
Qed.

Lemma visit_meta_item_mono s i : incl (s_diags s) (s_diags (visit_meta_item s i)).
Proof.
  destruct (visit_meta_item_shape s i) as [s' [m [-> [_ [Hd _]]]]]. eapply incl_tran; [exact Hd|apply add_meta_mono].
Qed.

Lemma find_meta_snoc ms m n :
  find_meta (snoc ms m) n =
  match find_meta ms n with Some x => Some x | None => if String.eqb n (vm_name m) then Some m else None end.
Proof.
  unfold snoc. induction ms as [|x ms IH]; cbn [app find_meta]; [reflexivity|].
  destruct (String.eqb n (vm_name x)); [reflexivity|apply IH].
Qed.

Definition registered (s : vst) (n : string) : Prop := find_meta (s_metas s) n <> None.

Lemma add_meta_registers s m : registered (add_meta s m) (vm_name m).
Proof.
  unfold registered, add_meta. destruct (find_meta (s_metas s) (vm_name m)) eqn:H.
  - cbn. rewrite H. discriminate.
  - cbn. rewrite find_meta_snoc, H, String.eqb_refl. discriminate.
Qed.

Lemma add_meta_keeps s m n : registered s n -> registered (add_meta s m) n.
Proof.
  unfold registered, add_meta. intros Hn. destruct (find_meta (s_metas s) (vm_name m)); cbn; [exact Hn|].
  rewrite find_meta_snoc. destruct (find_meta (s_metas s) n); [discriminate|contradiction].
Qed.

Lemma visit_meta_item_registers s i : registered (visit_meta_item s i) (meta_item_name i).
Proof.
  destruct (visit_meta_item_shape s i) as [s' [m [-> [_ [_ [Hn _]]]]]]. rewrite <- Hn. apply add_meta_registers.
Qed.

Lemma visit_meta_item_keeps s i n : registered s n -> registered (visit_meta_item s i) n.
Proof.
  destruct (visit_meta_item_shape s i) as [s' [m [-> [Hm _]]]]. intros H. apply add_meta_keeps.
  unfold registered. rewrite Hm. exact H.
Qed.

Lemma fold_meta_items_keeps l : forall s n, registered s n -> registered (fold_left visit_meta_item l s) n.
Proof.
  induction l as [|i l IH]; intros s n H; cbn [fold_left]; [exact H|]. apply IH. apply visit_meta_item_keeps. exact H.
Qed.

Lemma fold_meta_items_registers l : forall s i, In i l -> registered (fold_left visit_meta_item l s) (meta_item_name i).
Proof.
  induction l as [|x l IH]; intros s i Hin; [contradiction|]. cbn [fold_left]. destruct Hin as [->|Hin].
  - apply fold_meta_items_keeps. apply visit_meta_item_registers.
  - apply IH. exact Hin.
Qed.

(* a registered name makes AddMetaData report the duplicate, on the line of the item *)
Lemma visit_meta_item_dup s i :
  registered s (meta_item_name i) ->
  exists d, In d (s_diags (visit_meta_item s i)) /\ d_kind d = DK_DupMeta /\ d_line d = meta_item_line i.
Proof.
  destruct (visit_meta_item_shape s i) as [s' [m [-> [Hm [_ [Hn [Hl _]]]]]]]. unfold registered. rewrite <- Hm, <- Hn. intros H.
  unfold add_meta. destruct (find_meta (s_metas s') (vm_name m)); [|contradiction].
  eexists. split; [cbn; apply In_snoc; right; reflexivity|]. cbn. auto.
Qed.

Lemma phase_metas_items t s : phase_metas t s = fold_left visit_meta_item (meta_items t) s.
Proof.
  unfold phase_metas, metas_of, meta_items. revert s. induction (pk_defs t) as [|d ds IH]; intros s; [reflexivity|].
  cbn [flat_map]. rewrite !fold_left_app. destruct d; cbn [fold_left app]; apply IH.
Qed.

Lemma fold_meta_items_mono l s : incl (s_diags s) (s_diags (fold_left visit_meta_item l s)).
Proof. apply fold_left_mono. apply visit_meta_item_mono. Qed.

(* options *)
Lemma add_option_mono s n v l : incl (s_diags s) (s_diags (add_option s n v l)).
Proof.
  unfold add_option. destruct (alookup option_table n) as [values|]; [|apply add_diag_mono].
  set (s1 := match values with [] => s | _ => _ end).
  assert (H1 : incl (s_diags s) (s_diags s1)).
  { subst s1. destruct values; [apply incl_refl|]. destruct (mem v _); [apply incl_refl|apply add_diag_mono]. }
  destruct (alookup (s_options s1) n); [eapply incl_tran; [exact H1|apply add_diag_mono]|exact H1].
Qed.

Lemma visit_option_decl_mono s d : incl (s_diags s) (s_diags (visit_option_decl s d)).
Proof. unfold visit_option_decl. apply add_option_mono. Qed.

Lemma phase_options_decls t s : phase_options t s = fold_left visit_option_decl (option_decls t) s.
Proof.
  unfold phase_options, options_of, option_decls. revert s. induction (pk_defs t) as [|d ds IH]; intros s; [reflexivity|].
  cbn [flat_map]. rewrite !fold_left_app. destruct d; cbn [fold_left app]; apply IH.
Qed.

Lemma fold_option_decls_mono l s : incl (s_diags s) (s_diags (fold_left visit_option_decl l s)).
Proof. apply fold_left_mono. apply visit_option_decl_mono. Qed.

Lemma phase_options_mono t s : incl (s_diags s) (s_diags (phase_options t s)).
Proof. rewrite phase_options_decls. apply fold_option_decls_mono. Qed.

(* packets *)
Lemma add_packet_mono s p : incl (s_diags s) (s_diags (add_packet s p)).
Proof.
  unfold add_packet. destruct (mem _ _); [apply add_diag_mono|]. destruct (vk_root p); [|cbn; apply incl_refl].
  cbn. destruct (s_root s); cbn; [apply incl_snoc|apply incl_refl].
Qed.

Lemma visit_packets_mono l : forall s s', visit_packets l s = ROk s' -> incl (s_diags s) (s_diags s').
Proof.
  induction l as [|d l IH]; intros s s' H; cbn [visit_packets] in H.
  - inversion H. apply incl_refl.
  - destruct (visit_packet_def _ _ d _) as [[[p st] ds]|e]; [|discriminate].
    apply IH in H. eapply incl_tran; [|exact H]. eapply incl_tran; [|apply add_packet_mono]. cbn.
    apply incl_appl. apply incl_refl.
Qed.

(* ResolveDependencies only adds *)
Lemma finish_diags s :
  r_diags (finish s) = s_diags s ++ snd (resolve_packets (Visitor.packet_names (s_packets s)) (s_packets s)).
Proof. unfold finish. destruct (resolve_packets _ _) as [ps ds]. reflexivity. Qed.

Lemma finish_mono s : incl (s_diags s) (r_diags (finish s)).
Proof. rewrite finish_diags. apply incl_appl. apply incl_refl. Qed.

(* the phases of [visit] *)
Lemma visit_ok_inv t r :
  visit t = VOk r ->
  exists s, visit_packets (packets_of t) (phase_options t (phase_metas t st0)) = ROk s /\ r = finish s.
Proof.
  unfold visit. destruct (visit_packets _ _) as [s|e]; [|discriminate]. intros H. inversion H. exists s. auto.
Qed.

(* a diagnostic of the MetaData phase / of the options phase reaches the result *)
Lemma metas_diag_reaches t r d : visit t = VOk r -> In d (s_diags (phase_metas t st0)) -> In d (r_diags r).
Proof.
  intros Hv Hd. destruct (visit_ok_inv _ _ Hv) as [s [Hs ->]]. apply finish_mono.
  eapply visit_packets_mono; [exact Hs|]. apply phase_options_mono. exact Hd.
Qed.

Lemma options_diag_reaches t r d : visit t = VOk r -> In d (s_diags (phase_options t (phase_metas t st0))) -> In d (r_diags r).
Proof.
  intros Hv Hd. destruct (visit_ok_inv _ _ Hv) as [s [Hs ->]]. apply finish_mono.
  eapply visit_packets_mono; [exact Hs|]. exact Hd.
Qed.

(* ---- C12, duplicate MetaData entry (also through a ref-declaration): diagnosed on the line of the later entry *)
Theorem dup_meta_diagnosed t l r :
  In (FDupMeta, l) (faults t) -> visit t = VOk r -> has_diag r DK_DupMeta l.
Proof.
  intros Hf Hv. apply faults_inv in Hf.
  destruct Hf as [[Hk _]|[[_ Hl]|[[Hk _]|[[Hk _]|[[d [_ Hd]]|[s [_ Hs]]]]]]]; try discriminate.
  - destruct (later_dups_nil_spec _ _ Hl) as [a [n [b [l' [Hx Ha]]]]].
    destruct (map_split _ _ _ _ _ Hx) as [xa [i [xb [Hitems [Hxa [Hi _]]]]]]. injection Hi as Hn Hl2. subst n l a.
    apply in_map_iff in Ha. destruct Ha as [i0 [Hi0 Hin0]]. injection Hi0 as Hname _.
    assert (Hreg : registered (fold_left visit_meta_item xa st0) (meta_item_name i)).
    { rewrite <- Hname. apply fold_meta_items_registers. exact Hin0. }
    destruct (visit_meta_item_dup _ _ Hreg) as [d [Hd [Hk Hl']]].
    exists d. split; [|auto]. eapply metas_diag_reaches; [exact Hv|].
    rewrite phase_metas_items, Hitems, fold_left_app. cbn [fold_left]. apply fold_meta_items_mono. exact Hd.
  - apply option_fault_kind in Hd. destruct Hd; discriminate.
  - apply scope_faults_kind in Hs. discriminate.
Qed.

(* ---- options: the documented names are the names of the table of model.go *)

Ltac case_name n :=
  repeat match goal with
         | |- context [String.eqb n ?k] => destruct (String.eqb_spec n k) as [?|?]; [subst n; cbn in *|]
         | H : context [String.eqb n ?k] |- _ => destruct (String.eqb_spec n k) as [?|?]; [subst n; cbn in *|]
         end.

Lemma undocumented_unknown n : lookup documented_options n = None -> alookup option_table n = None.
Proof.
  cbn [lookup alookup documented_options option_table]. intros H. case_name n; try discriminate; reflexivity.
Qed.

Lemma documented_known n vs : lookup documented_options n = Some vs -> exists ws, alookup option_table n = Some ws.
Proof.
  cbn [lookup alookup documented_options option_table]. intros H. case_name n; try discriminate; eexists; reflexivity.
Qed.

Lemma mem_In v l : mem v l = true <-> In v l.
Proof.
  unfold mem. rewrite existsb_exists. split.
  - intros [x [Hx He]]. apply String.eqb_eq in He. subst. exact Hx.
  - intros H. exists v. split; [exact H|apply String.eqb_refl].
Qed.

Lemma name_in_In v l : name_in v l = true <-> In v l.
Proof. apply mem_In. Qed.

(* a value the table of model.go accepts is a documented value, or the 3-byte string quote-NUL-quote
   (which no token text can be) *)
Lemma table_values_documented n vs ws v :
  lookup documented_options n = Some vs -> alookup option_table n = Some ws -> ws <> [] ->
  In v ws -> v = nul_pad_char \/ In v vs.
Proof.
  cbn [lookup alookup documented_options option_table]. intros H1 H2 Hne Hin.
  case_name n; try discriminate; inversion H1; inversion H2; subst; try (exfalso; apply Hne; reflexivity);
    cbn in Hin |- *; intuition.
Qed.

Lemma restricted_restricted n vs : lookup documented_options n = Some vs -> vs <> [] ->
  exists ws, alookup option_table n = Some ws /\ ws <> [].
Proof.
  cbn [lookup alookup documented_options option_table]. intros H Hne.
  case_name n; try discriminate; inversion H; subst; try (exfalso; apply Hne; reflexivity);
    eexists; (split; [reflexivity|discriminate]).
Qed.

Lemma In_option_fault k l d :
  In (k, l) (option_fault d) ->
  l = line_of (od_span d) /\
  ((k = FUnknownOption /\ lookup documented_options (p_text (od_name d)) = None) \/
   (k = FIllegalOptionValue /\ exists vs, lookup documented_options (p_text (od_name d)) = Some vs /\ vs <> [] /\
                                            ~ In (text_of (toks_value (od_value d))) vs)).
Proof.
  unfold option_fault. destruct (lookup documented_options (p_text (od_name d))) as [vs|].
  - destruct vs as [|v0 vs]; [intros []|]. destruct (name_in _ _) eqn:Hn; [intros []|].
    intros [H|[]]. inversion H. split; [reflexivity|]. right. split; [reflexivity|]. eexists. split; [reflexivity|].
    split; [discriminate|]. intros Hin. apply name_in_In in Hin. rewrite Hin in Hn. discriminate.
  - intros [H|[]]. inversion H. split; [reflexivity|]. left. auto.
Qed.

Lemma In_fold_split {A} (l : list A) (x : A) : In x l -> exists a b, l = a ++ x :: b.
Proof. apply in_split. Qed.

(* ---- C12, unknown option *)
Theorem unknown_option_diagnosed t l r :
  In (FUnknownOption, l) (faults t) -> visit t = VOk r -> has_diag r DK_OptUnknown l.
Proof.
  intros Hf Hv. apply faults_inv in Hf.
  destruct Hf as [[Hk _]|[[Hk _]|[[Hk _]|[[Hk _]|[[d [Hin Hd]]|[s [_ Hs]]]]]]]; try discriminate.
  - apply In_option_fault in Hd. destruct Hd as [Hl [[_ Hnone]|[Hk _]]]; [|discriminate].
    destruct (in_split _ _ Hin) as [a [b Hsplit]].
    eexists. split.
    + eapply options_diag_reaches; [exact Hv|]. rewrite phase_options_decls, Hsplit, fold_left_app. cbn [fold_left].
      apply fold_option_decls_mono. unfold visit_option_decl at 1, add_option. rewrite (undocumented_unknown _ Hnone).
      cbn. apply In_snoc. right. reflexivity.
    + cbn. split; [reflexivity|]. symmetry. exact Hl.
  - apply scope_faults_kind in Hs. discriminate.
Qed.

(* ---- C12, illegal option value.  The visitor strips the quotes of a STRING value before the check, so
   the theorem is about unquoted values (quoted_option_value_refuted is the counterexample otherwise); a basic type is
   one of the spellings of the lexer *)
Definition basic_spellings : list string :=
  ["char"; "uint8"; "u8"; "uint16"; "u16"; "uint32"; "u32"; "uint64"; "u64"; "int8"; "i8"; "int16"; "i16"; "int32"; "i32";
   "int64"; "i64"; "float32"; "f32"; "float64"; "f64"].

Definition plain_value (d : option_decl) : Prop :=
  match od_value d with
  | VString _ _ => False
  | VType _ (TyBasic _ _) => In (value_text (od_value d)) basic_spellings
  | _ => value_text (od_value d) <> nul_pad_char
  end.

(* the short name of a basic type is in the table only when the spelling is documented *)
Lemma basic_value_documented n vs ws t :
  lookup documented_options n = Some vs -> alookup option_table n = Some ws -> ws <> [] ->
  In t basic_spellings -> In (BModel.get_basic_type t) ws -> In t vs.
Proof.
  cbn [lookup alookup documented_options option_table]. intros H1 H2 Hne Hs Hin.
  case_name n; try discriminate; inversion H1; inversion H2; subst; try (exfalso; apply Hne; reflexivity);
    cbn [basic_spellings In] in Hs;
    repeat (destruct Hs as [<-|Hs]; [vm_compute in Hin |- *; intuition discriminate|]); contradiction.
Qed.

Lemma nul_value_documented n vs ws :
  lookup documented_options n = Some vs -> alookup option_table n = Some ws -> ws <> [] ->
  In nul_pad_char ws -> In "'\x00'" vs.
Proof.
  cbn [lookup alookup documented_options option_table]. intros H1 H2 Hne Hin.
  case_name n; try discriminate; inversion H1; inversion H2; subst; try (exfalso; apply Hne; reflexivity);
    vm_compute in Hin |- *; intuition discriminate.
Qed.

(* what AddOption is given, for a plain value that the table accepts, is spelled as documented *)
Lemma option_value_documented n vs ws d :
  lookup documented_options n = Some vs -> alookup option_table n = Some ws -> ws <> [] -> plain_value d ->
  In (option_value (od_value d)) ws -> In (value_text (od_value d)) vs.
Proof.
  intros H1 H2 Hne Hp Hin. unfold plain_value in Hp. unfold option_value in Hin.
  destruct (od_value d) as [sp ty|sp tk|sp tk|sp tk|sp tk|sp tk] eqn:Hv; try contradiction.
  - destruct ty as [tsp b|tsp fx|tsp dy].
    + (* a basic type: its short name is never the NUL spelling *)
      assert (Hno : String.eqb (BModel.get_basic_type (value_text (VType sp (TyBasic tsp b)))) "'\x00'" = false).
      { cbn [basic_spellings In] in Hp. repeat (destruct Hp as [<-|Hp]; [reflexivity|]). contradiction. }
      rewrite Hno in Hin. eapply basic_value_documented; eassumption.
    + destruct (String.eqb_spec (value_text (VType sp (TyFixed tsp fx))) "'\x00'") as [He|_].
      * rewrite He. eapply nul_value_documented; eassumption.
      * destruct (table_values_documented _ _ _ _ H1 H2 Hne Hin) as [Hx|Hx]; [contradiction|exact Hx].
    + destruct (String.eqb_spec (value_text (VType sp (TyDynamic tsp dy))) "'\x00'") as [He|_].
      * rewrite He. eapply nul_value_documented; eassumption.
      * destruct (table_values_documented _ _ _ _ H1 H2 Hne Hin) as [Hx|Hx]; [contradiction|exact Hx].
  - destruct (String.eqb_spec (value_text (VDigits sp tk)) "'\x00'") as [He|_].
    + rewrite He. eapply nul_value_documented; eassumption.
    + destruct (table_values_documented _ _ _ _ H1 H2 Hne Hin) as [Hx|Hx]; [contradiction|exact Hx].
  - destruct (String.eqb_spec (value_text (VPaddingChar sp tk)) "'\x00'") as [He|_].
    + rewrite He. eapply nul_value_documented; eassumption.
    + destruct (table_values_documented _ _ _ _ H1 H2 Hne Hin) as [Hx|Hx]; [contradiction|exact Hx].
  - destruct (String.eqb_spec (value_text (VTrue sp tk)) "'\x00'") as [He|_].
    + rewrite He. eapply nul_value_documented; eassumption.
    + destruct (table_values_documented _ _ _ _ H1 H2 Hne Hin) as [Hx|Hx]; [contradiction|exact Hx].
  - destruct (String.eqb_spec (value_text (VFalse sp tk)) "'\x00'") as [He|_].
    + rewrite He. eapply nul_value_documented; eassumption.
    + destruct (table_values_documented _ _ _ _ H1 H2 Hne Hin) as [Hx|Hx]; [contradiction|exact Hx].
Qed.

Theorem illegal_option_value_diagnosed t l r :
  In (FIllegalOptionValue, l) (faults t) -> visit t = VOk r ->
  (forall d, In d (option_decls t) -> plain_value d) ->
  has_diag r DK_OptValue l.
Proof.
  intros Hf Hv Hq. apply faults_inv in Hf.
  destruct Hf as [[Hk _]|[[Hk _]|[[Hk _]|[[Hk _]|[[d [Hin Hd]]|[s [_ Hs]]]]]]]; try discriminate.
  - apply In_option_fault in Hd. destruct Hd as [Hl [[Hk _]|[_ [vs [Hvs [Hne Hnot]]]]]]; [discriminate|].
    pose proof (Hq d Hin) as Hplain.
    destruct (restricted_restricted _ _ Hvs Hne) as [ws [Hws Hwne]].
    destruct (in_split _ _ Hin) as [a [b Hsplit]].
    set (s0 := fold_left visit_option_decl a (phase_metas t st0)).
    assert (Hmem : mem (option_value (od_value d)) ws = false).
    { destruct (mem (option_value (od_value d)) ws) eqn:Hm; [|reflexivity]. apply mem_In in Hm.
      exfalso. apply Hnot. eapply option_value_documented; eassumption. }
    eexists. split.
    + eapply options_diag_reaches; [exact Hv|]. rewrite phase_options_decls, Hsplit, fold_left_app. cbn [fold_left].
      apply fold_option_decls_mono. fold s0. unfold visit_option_decl, add_option. rewrite Hws.
      destruct ws as [|w ws]; [exfalso; apply Hwne; reflexivity|]. rewrite Hmem.
      match goal with |- In _ (s_diags (match alookup (s_options ?x) _ with _ => _ end)) => set (s1 := x) end.
      assert (H1 : In (mkDiag (start_line (od_span d)) DK_OptValue
                              ("Option " ++ p_text (od_name d) ++ " is not allowed to be " ++ option_value (od_value d) ++
                               ", Expected one of:" ++ join "," (w :: ws))%string) (s_diags s1)).
      { subst s1. cbn. apply In_snoc. right. reflexivity. }
      destruct (alookup (s_options s1) (p_text (od_name d))); [apply add_diag_mono; exact H1|exact H1].
    + cbn. split; [reflexivity|]. symmetry. exact Hl.
  - apply scope_faults_kind in Hs. discriminate.
Qed.

(* ---- C12, duplicate option (of a documented name; dup_unknown_option_refuted is the counterexample otherwise) *)
Lemma alookup_snoc {A} (l : list (string * A)) k v n :
  alookup (snoc l (k, v)) n = match alookup l n with Some x => Some x | None => if String.eqb n k then Some v else None end.
Proof.
  unfold snoc. induction l as [|[k' v'] l IH]; cbn [app alookup]; [reflexivity|]. destruct (String.eqb n k'); [reflexivity|apply IH].
Qed.

Definition opt_set (s : vst) (n : string) : Prop := alookup (s_options s) n <> None.

Lemma add_option_options s n v l :
  s_options (add_option s n v l) = s_options s \/ s_options (add_option s n v l) = snoc (s_options s) (n, v).
Proof.
  unfold add_option. destruct (alookup option_table n) as [values|]; [|left; reflexivity].
  set (s1 := match values with [] => s | _ => _ end).
  assert (H1 : s_options s1 = s_options s).
  { subst s1. destruct values; [reflexivity|]. destruct (mem v _); reflexivity. }
  destruct (alookup (s_options s1) n); cbn; rewrite H1; auto.
Qed.

Lemma add_option_keeps s n v l m : opt_set s m -> opt_set (add_option s n v l) m.
Proof.
  unfold opt_set. intros H. destruct (add_option_options s n v l) as [->| ->]; [exact H|].
  rewrite alookup_snoc. destruct (alookup (s_options s) m); [discriminate|contradiction].
Qed.

Lemma add_option_sets s n v l ws : alookup option_table n = Some ws -> opt_set (add_option s n v l) n.
Proof.
  unfold opt_set, add_option. intros ->.
  set (s1 := match ws with [] => s | _ => _ end).
  destruct (alookup (s_options s1) n) eqn:H; cbn; [rewrite H; discriminate|].
  rewrite alookup_snoc, H, String.eqb_refl. discriminate.
Qed.

Lemma add_option_dup s n v l ws :
  alookup option_table n = Some ws -> opt_set s n ->
  exists d, In d (s_diags (add_option s n v l)) /\ d_kind d = DK_OptDup /\ d_line d = l.
Proof.
  unfold opt_set, add_option. intros -> H.
  set (s1 := match ws with [] => s | _ => _ end).
  assert (H1 : s_options s1 = s_options s).
  { subst s1. destruct ws; [reflexivity|]. destruct (mem v _); reflexivity. }
  rewrite H1. destruct (alookup (s_options s) n); [|contradiction].
  eexists. split; [cbn; apply In_snoc; right; reflexivity|]. cbn. auto.
Qed.

Lemma fold_option_decls_keeps l : forall s m, opt_set s m -> opt_set (fold_left visit_option_decl l s) m.
Proof.
  induction l as [|d l IH]; intros s m H; cbn [fold_left]; [exact H|]. apply IH. apply add_option_keeps. exact H.
Qed.

Lemma fold_option_decls_sets l : forall s d ws, In d l -> alookup option_table (p_text (od_name d)) = Some ws ->
  opt_set (fold_left visit_option_decl l s) (p_text (od_name d)).
Proof.
  induction l as [|x l IH]; intros s d ws Hin Hws; [contradiction|]. cbn [fold_left]. destruct Hin as [->|Hin].
  - apply fold_option_decls_keeps. eapply add_option_sets. exact Hws.
  - eapply IH; eassumption.
Qed.

Theorem dup_option_diagnosed t l r :
  In (FDupOption, l) (faults t) -> visit t = VOk r ->
  (forall d, In d (option_decls t) -> lookup documented_options (p_text (od_name d)) <> None) ->
  has_diag r DK_OptDup l.
Proof.
  intros Hf Hv Hdoc. apply faults_inv in Hf.
  destruct Hf as [[Hk _]|[[Hk _]|[[_ Hl]|[[Hk _]|[[d [_ Hd]]|[s [_ Hs]]]]]]]; try discriminate.
  - destruct (later_dups_nil_spec _ _ Hl) as [a [n [b [l' [Hx Ha]]]]].
    destruct (map_split _ _ _ _ _ Hx) as [xa [d [xb [Hdecls [Hxa [Hd _]]]]]]. injection Hd as Hn Hl2. subst n l a.
    apply in_map_iff in Ha. destruct Ha as [d0 [Hd0 Hin0]]. injection Hd0 as Hname _.
    assert (Hind : In d (option_decls t)) by (rewrite Hdecls; apply in_or_app; right; left; reflexivity).
    destruct (lookup documented_options (p_text (od_name d))) as [vs|] eqn:Hvs; [|exfalso; eapply Hdoc; eassumption].
    destruct (documented_known _ _ Hvs) as [ws Hws].
    assert (Hset : opt_set (fold_left visit_option_decl xa (phase_metas t st0)) (p_text (od_name d))).
    { rewrite <- Hname. eapply fold_option_decls_sets; [exact Hin0|]. rewrite Hname. exact Hws. }
    destruct (add_option_dup _ _ (option_value (od_value d)) (start_line (od_span d)) _ Hws Hset) as [dg [Hdg [Hk Hln]]].
    exists dg. split; [|split; [exact Hk|exact Hln]].
    eapply options_diag_reaches; [exact Hv|]. rewrite phase_options_decls, Hdecls, fold_left_app. cbn [fold_left].
    apply fold_option_decls_mono. exact Hdg.
  - apply option_fault_kind in Hd. destruct Hd; discriminate.
  - apply scope_faults_kind in Hs. discriminate.
Qed.

(* ---- packets *)

Definition pd_name_text (d : packet_def) : string := p_text (pd_name d).

Lemma visit_packet_def_shape metas pmap d store p st ds :
  visit_packet_def metas pmap d store = ROk (p, st, ds) ->
  vk_name p = pd_name_text d /\ vk_line p = start_line (pd_span d) /\ vk_root p = is_some (pd_root d).
Proof.
  unfold visit_packet_def. destruct (loop1 _ _ _ _ _) as [acc|e]; [|discriminate].
  destruct (loop2 _ _ _ _ _ _) as [[fields ds2]|e]; [|discriminate]. intros H. inversion H. cbn. auto.
Qed.

Lemma add_packet_packets s p :
  s_packets (add_packet s p) =
  if mem (vk_name p) (Visitor.packet_names (s_packets s)) then s_packets s else snoc (s_packets s) p.
Proof.
  unfold add_packet. destruct (mem _ _); [reflexivity|]. destruct (vk_root p); [|reflexivity]. cbn. destruct (s_root s); reflexivity.
Qed.

Lemma packet_names_snoc ps p : Visitor.packet_names (snoc ps p) = snoc (Visitor.packet_names ps) (vk_name p).
Proof. unfold Visitor.packet_names, snoc. rewrite map_app. reflexivity. Qed.

Lemma add_packet_names s p n :
  In n (Visitor.packet_names (s_packets (add_packet s p))) <-> In n (Visitor.packet_names (s_packets s)) \/ n = vk_name p.
Proof.
  rewrite add_packet_packets. destruct (mem (vk_name p) _) eqn:Hm.
  - apply mem_In in Hm. split; [auto|]. intros [H|H]; [exact H|subst; exact Hm].
  - rewrite packet_names_snoc. apply In_snoc.
Qed.

Lemma visit_packets_cons d l s s' :
  visit_packets (d :: l) s = ROk s' ->
  exists p st ds, visit_packet_def (s_metas s) (Visitor.packet_names (s_packets s)) d (s_store s) = ROk (p, st, ds) /\
                  visit_packets l (add_packet (mkSt st (s_metas s) (s_options s) (s_packets s) (s_root s) (s_diags s ++ ds)) p) = ROk s'.
Proof.
  cbn [visit_packets]. destruct (visit_packet_def _ _ d _) as [[[p st] ds]|e]; [|discriminate]. intros H. exists p, st, ds. auto.
Qed.

Lemma visit_packets_app a : forall b s s',
  visit_packets (a ++ b) s = ROk s' -> exists s1, visit_packets a s = ROk s1 /\ visit_packets b s1 = ROk s'.
Proof.
  induction a as [|d a IH]; intros b s s' H.
  - exists s. auto.
  - cbn [app] in H. destruct (visit_packets_cons _ _ _ _ H) as [p [st [ds [Hd Hr]]]].
    destruct (IH _ _ _ Hr) as [s1 [H1 H2]]. exists s1. split; [|exact H2]. cbn [visit_packets]. rewrite Hd. exact H1.
Qed.

Lemma visit_packets_names l : forall s s' n,
  visit_packets l s = ROk s' ->
  (In n (Visitor.packet_names (s_packets s')) <-> In n (Visitor.packet_names (s_packets s)) \/ In n (map pd_name_text l)).
Proof.
  induction l as [|d l IH]; intros s s' n H.
  - inversion H. cbn. intuition.
  - destruct (visit_packets_cons _ _ _ _ H) as [p [st [ds [Hd Hr]]]]. rewrite (IH _ _ n Hr), add_packet_names. cbn [s_packets map In].
    destruct (visit_packet_def_shape _ _ _ _ _ _ _ Hd) as [Hn _]. rewrite Hn. intuition.
Qed.

Lemma phases_no_packets t : s_packets (phase_options t (phase_metas t st0)) = [] /\ s_root (phase_options t (phase_metas t st0)) = None.
Proof.
  rewrite phase_options_decls, phase_metas_items.
  assert (H1 : forall l s, s_packets (fold_left visit_meta_item l s) = s_packets s /\ s_root (fold_left visit_meta_item l s) = s_root s).
  { induction l as [|i l IH]; intros s; cbn [fold_left]; [auto|]. destruct (IH (visit_meta_item s i)) as [-> ->].
    destruct (visit_meta_item_shape s i) as [s' [m [-> [_ [_ [_ [_ [Hp Hr]]]]]]]]. rewrite <- Hp, <- Hr.
    unfold add_meta. destruct (find_meta _ _); cbn; auto. }
  assert (H2 : forall l s, s_packets (fold_left visit_option_decl l s) = s_packets s /\ s_root (fold_left visit_option_decl l s) = s_root s).
  { induction l as [|d l IH]; intros s; cbn [fold_left]; [auto|]. destruct (IH (visit_option_decl s d)) as [-> ->].
    unfold visit_option_decl, add_option. destruct (alookup option_table _) as [vs|]; [|cbn; auto].
    match goal with |- context [alookup (s_options ?x) _] => set (s1 := x) end.
    assert (Hs1 : s_packets s1 = s_packets s /\ s_root s1 = s_root s).
    { subst s1. destruct vs; [auto|]. destruct (mem _ _); cbn; auto. }
    destruct (alookup (s_options s1) _); cbn; exact Hs1. }
  destruct (H2 (option_decls t) (fold_left visit_meta_item (meta_items t) st0)) as [-> ->]. apply H1.
Qed.

Lemma packets_of_defs t : packets_of t = packet_defs t.
Proof. reflexivity. Qed.

Lemma packets_diag_reaches t r s d :
  visit_packets (packets_of t) (phase_options t (phase_metas t st0)) = ROk s -> r = finish s -> In d (s_diags s) -> In d (r_diags r).
Proof. intros _ -> Hd. apply finish_mono. exact Hd. Qed.

(* AddPacket on a registered name reports the duplicate on the packet's line *)
Lemma add_packet_dup s p :
  In (vk_name p) (Visitor.packet_names (s_packets s)) ->
  exists d, In d (s_diags (add_packet s p)) /\ d_kind d = DK_DupPacket /\ d_line d = vk_line p.
Proof.
  intros H. apply mem_In in H. unfold add_packet. rewrite H.
  eexists. split; [cbn; apply In_snoc; right; reflexivity|]. cbn. auto.
Qed.

(* ---- C12, duplicate packet: diagnosed on the line of the later packetDefinition *)
Theorem dup_packet_diagnosed t l r :
  In (FDupPacket, l) (faults t) -> visit t = VOk r -> has_diag r DK_DupPacket l.
Proof.
  intros Hf Hv. apply faults_inv in Hf.
  destruct Hf as [[_ Hl]|[[Hk _]|[[Hk _]|[[Hk _]|[[d [_ Hd]]|[s [_ Hs]]]]]]]; try discriminate.
  - destruct (later_dups_nil_spec _ _ Hl) as [a [n [b [l' [Hx Ha]]]]].
    destruct (map_split _ _ _ _ _ Hx) as [xa [d [xb [Hdefs [Hxa [Hd _]]]]]]. injection Hd as Hn Hl2. subst n l a.
    apply in_map_iff in Ha. destruct Ha as [d0 [Hd0 Hin0]]. injection Hd0 as Hname _.
    destruct (visit_ok_inv _ _ Hv) as [s [Hs Hr]]. pose proof Hs as Hs0.
    rewrite packets_of_defs, Hdefs in Hs. destruct (visit_packets_app _ _ _ _ Hs) as [s1 [H1 H2]].
    destruct (visit_packets_cons _ _ _ _ H2) as [p [st [ds [Hp Hrest]]]].
    destruct (visit_packet_def_shape _ _ _ _ _ _ _ Hp) as [Hpn [Hpl _]].
    assert (Hreg : In (vk_name p) (Visitor.packet_names (s_packets s1))).
    { rewrite (visit_packets_names _ _ _ (vk_name p) H1). right. rewrite Hpn. unfold pd_name_text. rewrite <- Hname.
      apply in_map_iff. exists d0. auto. }
    destruct (add_packet_dup (mkSt st (s_metas s1) (s_options s1) (s_packets s1) (s_root s1) (s_diags s1 ++ ds)) p Hreg)
      as [dg [Hdg [Hk Hln]]].
    exists dg. split; [|split; [exact Hk|rewrite Hln, Hpl; reflexivity]].
    eapply packets_diag_reaches; [exact Hs0|exact Hr|]. eapply visit_packets_mono; [exact Hrest|exact Hdg].
  - apply option_fault_kind in Hd. destruct Hd; discriminate.
  - apply scope_faults_kind in Hs. discriminate.
Qed.

(* ---- C12, more than one root packet.  Guard: the packet names are pairwise different (a root that is
   also a duplicate is only reported as a duplicate: second_root_dup_refuted, root_after_rejected_root_refuted) *)
Lemma filter_tl_split {A} (f : A -> bool) (l : list A) x rest y :
  filter f l = x :: rest -> In y rest ->
  exists a m b, l = a ++ x :: m ++ y :: b /\ f x = true /\ f y = true.
Proof.
  revert x rest. induction l as [|z l IH]; intros x rest Hf Hy; [discriminate|]. cbn [filter] in Hf.
  destruct (f z) eqn:Hz.
  - inversion Hf; subst z rest. assert (Hy' : In y (filter f l)) by exact Hy. apply filter_In in Hy'. destruct Hy' as [Hin Hfy].
    destruct (in_split _ _ Hin) as [m [b ->]]. exists [], m, b. auto.
  - destruct (IH _ _ Hf Hy) as [a [m [b [-> [Hx Hfy]]]]]. exists (z :: a), m, b. auto.
Qed.

Lemma add_packet_root_keeps s p : s_root s <> None -> s_root (add_packet s p) <> None.
Proof.
  intros H. unfold add_packet. destruct (mem _ _); [exact H|]. destruct (vk_root p); [|exact H]. cbn.
  destruct (s_root s); [cbn; discriminate|contradiction].
Qed.

Lemma visit_packets_root_keeps l : forall s s', visit_packets l s = ROk s' -> s_root s <> None -> s_root s' <> None.
Proof.
  induction l as [|d l IH]; intros s s' H Hr.
  - inversion H. subst. exact Hr.
  - destruct (visit_packets_cons _ _ _ _ H) as [p [st [ds [_ Hrest]]]]. eapply IH; [exact Hrest|].
    apply add_packet_root_keeps. exact Hr.
Qed.

Lemma add_packet_new_root s p :
  ~ In (vk_name p) (Visitor.packet_names (s_packets s)) -> vk_root p = true ->
  s_root (add_packet s p) <> None /\
  (s_root s <> None -> exists d, In d (s_diags (add_packet s p)) /\ d_kind d = DK_MultiRoot /\ d_line d = vk_line p).
Proof.
  intros Hn Hr. unfold add_packet. destruct (mem _ _) eqn:Hm; [apply mem_In in Hm; contradiction|]. rewrite Hr.
  destruct s as [st me op pk ro dg]. cbn. destruct ro as [x|]; cbn.
  - split; [discriminate|]. intros _. eexists. split; [apply In_snoc; right; reflexivity|]. cbn. auto.
  - split; [discriminate|]. intros H. contradiction.
Qed.

Lemma NoDup_mid {A} (xs ys : list A) (y : A) : NoDup (xs ++ y :: ys) -> ~ In y xs /\ ~ In y ys.
Proof.
  intros H. apply NoDup_remove_2 in H. split; intros Hin; apply H; apply in_or_app; auto.
Qed.

Theorem second_root_diagnosed t l r :
  In (FSecondRoot, l) (faults t) -> visit t = VOk r ->
  NoDup (map pd_name_text (packet_defs t)) ->
  has_diag r DK_MultiRoot l.
Proof.
  intros Hf Hv Hnd. apply faults_inv in Hf.
  destruct Hf as [[Hk _]|[[Hk _]|[[Hk _]|[[_ Hl]|[[d [_ Hd]]|[s [_ Hs]]]]]]]; try discriminate.
  - apply in_map_iff in Hl. destruct Hl as [d2 [Hline Hin2]].
    unfold root_defs in Hin2. destruct (filter _ (packet_defs t)) as [|d1 rest] eqn:Hfilt; [contradiction|]. cbn [tl] in Hin2.
    destruct (filter_tl_split _ _ _ _ _ Hfilt Hin2) as [a [m [b [Hdefs [Hr1 Hr2]]]]].
    destruct (visit_ok_inv _ _ Hv) as [s [Hs Hr]]. pose proof Hs as Hs0.
    rewrite packets_of_defs, Hdefs in Hs.
    destruct (phases_no_packets t) as [Hnop Hnoroot].
    destruct (visit_packets_app _ _ _ _ Hs) as [sa [Ha Hrest]].
    destruct (visit_packets_cons _ _ _ _ Hrest) as [p1 [st1 [ds1 [Hp1 Hrest1]]]].
    destruct (visit_packets_app _ _ _ _ Hrest1) as [sm [Hm Hrest2]].
    destruct (visit_packets_cons _ _ _ _ Hrest2) as [p2 [st2 [ds2 [Hp2 Hrest3]]]].
    destruct (visit_packet_def_shape _ _ _ _ _ _ _ Hp1) as [Hn1 [_ Hroot1]].
    destruct (visit_packet_def_shape _ _ _ _ _ _ _ Hp2) as [Hn2 [Hl2 Hroot2]].
    (* the names before d1 do not contain d1's, those before d2 do not contain d2's *)
    assert (Hnd1 : ~ In (pd_name_text d1) (map pd_name_text a)).
    { rewrite Hdefs, map_app in Hnd. cbn [map] in Hnd. apply NoDup_mid in Hnd. apply Hnd. }
    assert (Hnd2 : ~ In (pd_name_text d2) (map pd_name_text (a ++ d1 :: m))).
    { rewrite Hdefs in Hnd. replace (a ++ d1 :: m ++ d2 :: b) with ((a ++ d1 :: m) ++ d2 :: b) in Hnd
        by (rewrite <- app_assoc; reflexivity).
      rewrite map_app in Hnd. cbn [map] in Hnd. apply NoDup_mid in Hnd. apply Hnd. }
    assert (Hfresh1 : ~ In (vk_name p1) (Visitor.packet_names (s_packets sa))).
    { rewrite (visit_packets_names _ _ _ (vk_name p1) Ha), Hnop, Hn1. cbn. intros [[]|Hin]. contradiction. }
    assert (Hfresh2 : ~ In (vk_name p2) (Visitor.packet_names (s_packets sm))).
    { rewrite (visit_packets_names _ _ _ (vk_name p2) Hm), add_packet_names. cbn [s_packets].
      rewrite (visit_packets_names _ _ _ (vk_name p2) Ha), Hnop, Hn2, Hn1. cbn [Visitor.packet_names map In].
      intros Hin. apply Hnd2. rewrite map_app. cbn [map]. apply in_or_app. cbn [In].
      destruct Hin as [[[[]|Hin]|Heq]|Hin]; [left; exact Hin|right; left; symmetry; exact Heq|right; right; exact Hin]. }
    assert (Hp1root : vk_root p1 = true).
    { rewrite Hroot1. destruct (pd_root d1); [reflexivity|discriminate]. }
    assert (Hp2root : vk_root p2 = true).
    { rewrite Hroot2. destruct (pd_root d2); [reflexivity|discriminate]. }
    set (s1 := mkSt st1 (s_metas sa) (s_options sa) (s_packets sa) (s_root sa) (s_diags sa ++ ds1)) in *.
    destruct (add_packet_new_root s1 p1 Hfresh1 Hp1root) as [Hrootset _].
    pose proof (visit_packets_root_keeps _ _ _ Hm Hrootset) as Hrootsm.
    set (s2 := mkSt st2 (s_metas sm) (s_options sm) (s_packets sm) (s_root sm) (s_diags sm ++ ds2)) in *.
    destruct (add_packet_new_root s2 p2 Hfresh2 Hp2root) as [_ Hdiag].
    destruct (Hdiag Hrootsm) as [dg [Hdg [Hk Hln]]].
    exists dg. split; [|split; [exact Hk|rewrite Hln, Hl2; exact Hline]].
    eapply packets_diag_reaches; [exact Hs0|exact Hr|]. eapply visit_packets_mono; [exact Hrest3|exact Hdg].
  - apply option_fault_kind in Hd. destruct Hd; discriminate.
  - apply scope_faults_kind in Hs. discriminate.
Qed.

(* ---- induction on field definitions (nested through the list of an inline object) *)
Section FieldDefInd.
  Variable P : field_def -> Prop.
  Hypothesis H_inline : forall sp rep sp2 n o fields c comma,
      Forall P fields -> P (InerObjectField sp rep (InerObjectDecl sp2 n o fields c) comma).
  Hypothesis H_meta : forall sp rep d, P (MetaField sp rep d).
  Hypothesis H_object : forall sp rep ft fn doc comma, P (ObjectField sp rep ft fn doc comma).
  Hypothesis H_length : forall sp d, P (LengthField sp d).
  Hypothesis H_checksum : forall sp d, P (CheckSumField sp d).
  Hypothesis H_match : forall sp d comma, P (MatchField sp d comma).

  Fixpoint field_def_induction (f : field_def) : P f :=
    match f with
    | InerObjectField sp rep (InerObjectDecl sp2 n o fields c) comma =>
        H_inline sp rep sp2 n o fields c comma
          ((fix go (l : list field_def) : Forall P l :=
              match l with
              | [] => Forall_nil P
              | x :: r => Forall_cons x (field_def_induction x) (go r)
              end) fields)
    | MetaField sp rep d => H_meta sp rep d
    | ObjectField sp rep ft fn doc comma => H_object sp rep ft fn doc comma
    | LengthField sp d => H_length sp d
    | CheckSumField sp d => H_checksum sp d
    | MatchField sp d comma => H_match sp d comma
    end.
End FieldDefInd.

Lemma inline_scopes_not_top f : forall s, In s (inline_scopes f) -> sc_top s = false.
Proof.
  induction f as [sp rep sp2 n o fields c comma IH| | | | |] using field_def_induction; intros s Hs; cbn [inline_scopes] in Hs;
    try contradiction.
  destruct Hs as [<-|Hs]; [reflexivity|]. apply in_flat_map in Hs. destruct Hs as [x [Hx Hs]].
  rewrite Forall_forall in IH. exact (IH x Hx s Hs).
Qed.

(* a top scope is the body of a packet definition *)
Lemma top_scope_inv t s :
  In s (scopes t) -> sc_top s = true ->
  exists d, In d (packet_defs t) /\ s = mkScope true (is_some (pd_root d)) (map top_entry (pd_fields d)).
Proof.
  unfold scopes. intros Hs Htop. apply in_flat_map in Hs. destruct Hs as [d [Hd Hs]]. exists d. split; [exact Hd|].
  unfold packet_scopes in Hs. destruct Hs as [<-|Hs].
  - unfold is_some. destruct (pd_root d); reflexivity.
  - apply in_flat_map in Hs. destruct Hs as [fw [_ Hs]]. apply inline_scopes_not_top in Hs. rewrite Hs in Htop. discriminate.
Qed.

(* where a length-placement fault comes from *)
Lemma len_fault_inv pn mn s k l :
  In (k, l) (scope_faults pn mn s) -> k = FLenOutsideRoot \/ k = FSecondLen ->
  In (k, l) (if sc_top s && sc_root s
             then tag FSecondLen (map e_line (tl (filter is_len_entry (sc_entries s))))
             else tag FLenOutsideRoot (map e_line (filter is_len_entry (sc_entries s)))).
Proof.
  unfold scope_faults. rewrite !in_app_iff. intros [H|[H|[H|H]]] Hk.
  - apply In_tag in H. destruct H as [-> _]. destruct Hk; discriminate.
  - apply in_flat_map in H. destruct H as [e [_ H]]. destruct (e_def e); try contradiction.
    apply In_tag in H. destruct H as [-> _]. destruct Hk; discriminate.
  - exact H.
  - apply in_flat_map in H. destruct H as [e [_ H]]. rewrite in_app_iff in H. destruct H as [H|H].
    + destruct (e_def e); try contradiction.
      * destruct (_ || _); [contradiction|]. destruct H as [H|[]]. inversion H. subst. destruct Hk; discriminate.
      * rewrite in_app_iff in H. destruct H as [H|H].
        -- destruct (name_in _ _); [contradiction|]. destruct H as [H|[]]. inversion H. subst. destruct Hk; discriminate.
        -- apply in_flat_map in H. destruct H as [p [_ H]]. destruct (name_in _ _); [contradiction|].
           destruct H as [H|[]]. inversion H. subst. destruct Hk; discriminate.
    + destruct (forallb _ _); [contradiction|]. destruct H as [H|[]]. inversion H. subst. destruct Hk; discriminate.
Qed.

(* ---- the attribute a top-level field ends up with: is it a length attribute? *)

(* MetaData entries carry a basic, fixed-string or dynamic-string attribute, or none *)
Definition meta_kind (a : vattr) : bool :=
  match a with VABasic _ | VAFixed _ | VADyn | VANil => true | _ => false end.

Definition metas_ok (ms : list vmeta) : Prop := forall m, In m ms -> meta_kind (vm_attr m) = true.

Lemma meta_kind_not_len a : meta_kind a = true -> is_len_attr a = false.
Proof. destruct a; cbn; auto; discriminate. Qed.

Lemma find_meta_In ms n m : find_meta ms n = Some m -> In m ms.
Proof.
  induction ms as [|x ms IH]; cbn [find_meta]; [discriminate|]. destruct (String.eqb n (vm_name x)).
  - intros H. inversion H. left. reflexivity.
  - intros H. right. apply IH. exact H.
Qed.

Lemma meta_decl_attr_kind d store :
  meta_kind (fst (meta_decl_attr d store)) = true /\ fst (meta_decl_attr d store) <> VANil.
Proof. unfold meta_decl_attr. destruct (md_type d); cbn; split; (reflexivity || discriminate). Qed.

Lemma add_meta_ok s m : metas_ok (s_metas s) -> meta_kind (vm_attr m) = true -> metas_ok (s_metas (add_meta s m)).
Proof.
  intros H Hm. unfold add_meta. destruct (find_meta _ _); [exact H|]. cbn. intros x Hx. apply In_snoc in Hx.
  destruct Hx as [Hx| ->]; [apply H; exact Hx|exact Hm].
Qed.

Lemma visit_meta_item_ok s i : metas_ok (s_metas s) -> metas_ok (s_metas (visit_meta_item s i)).
Proof.
  intros H. destruct i as [d|d]; cbn [visit_meta_item].
  - destruct (meta_decl_attr_kind d (s_store s)) as [Ha _]. destruct (meta_decl_attr d (s_store s)) as [a st]. cbn in Ha.
    apply add_meta_ok; [exact H|exact Ha].
  - assert (Hk : meta_kind (match find_meta (s_metas s) (p_text (rm_typ d)) with Some m => vm_attr m | None => VANil end) = true).
    { destruct (find_meta _ _) as [m|] eqn:Hm; [|reflexivity]. apply H. eapply find_meta_In. exact Hm. }
    apply add_meta_ok; [|exact Hk].
    destruct (match find_meta (s_metas s) (p_text (rm_typ d)) with Some m => vm_attr m | None => VANil end); exact H.
Qed.

Lemma phase_metas_ok t : metas_ok (s_metas (phase_metas t st0)).
Proof.
  rewrite phase_metas_items. assert (H : forall l s, metas_ok (s_metas s) -> metas_ok (s_metas (fold_left visit_meta_item l s))).
  { induction l as [|i l IH]; intros s Hs; cbn [fold_left]; [exact Hs|]. apply IH. apply visit_meta_item_ok. exact Hs. }
  apply H. intros m [].
Qed.

Lemma add_option_metas s n v l : s_metas (add_option s n v l) = s_metas s.
Proof.
  unfold add_option. destruct (alookup option_table n) as [vs|]; [|reflexivity].
  match goal with |- context [alookup (s_options ?x) _] => set (s1 := x) end.
  assert (H1 : s_metas s1 = s_metas s). { subst s1. destruct vs; [reflexivity|]. destruct (mem _ _); reflexivity. }
  destruct (alookup _ _); cbn; exact H1.
Qed.

Lemma phase_options_metas t s : s_metas (phase_options t s) = s_metas s.
Proof.
  rewrite phase_options_decls. revert s. induction (option_decls t) as [|d l IH]; intros s; cbn [fold_left]; [reflexivity|].
  rewrite IH. apply add_option_metas.
Qed.

Lemma add_packet_metas s p : s_metas (add_packet s p) = s_metas s.
Proof.
  unfold add_packet. destruct (mem _ _); [reflexivity|]. destruct (vk_root p); [|reflexivity]. cbn. destruct (s_root s); reflexivity.
Qed.

Lemma visit_packets_metas l : forall s s', visit_packets l s = ROk s' -> s_metas s' = s_metas s.
Proof.
  induction l as [|d l IH]; intros s s' H.
  - inversion H. reflexivity.
  - destruct (visit_packets_cons _ _ _ _ H) as [p [st [ds [_ Hr]]]]. rewrite (IH _ _ Hr), add_packet_metas. reflexivity.
Qed.

(* the last @lengthOf / @calculatedFrom of an attribute list decides; without one, the declaration does *)
Fixpoint final_len (attrs : list field_attribute) (init : bool) : bool :=
  match attrs with
  | [] => init
  | FALengthOf _ _ :: r => final_len r true
  | FACalculatedFrom _ _ :: r => final_len r false
  | _ :: r => final_len r init
  end.

Definition is_length_field (f : field_def) : bool := match f with LengthField _ _ => true | _ => false end.
Definition final_is_len (fw : field_with_attr) : bool := final_len (fw_attrs fw) (is_length_field (fw_def fw)).

Lemma attr_set_la f l : vf_attr (set_la f l) = vf_attr f. Proof. destruct f; reflexivity. Qed.
Lemma attr_set_attr f a : vf_attr (set_attr f a) = a. Proof. destruct f; reflexivity. Qed.
Lemma attr_set_tag f t : vf_attr (set_tag f t) = vf_attr f. Proof. destruct f; reflexivity. Qed.
Lemma name_set_attr f a : vf_name (set_attr f a) = vf_name f. Proof. destruct f; reflexivity. Qed.
Lemma name_set_tag f t : vf_name (set_tag f t) = vf_name f. Proof. destruct f; reflexivity. Qed.
Lemma line_set_attr f a : vf_line (set_attr f a) = vf_line f. Proof. destruct f; reflexivity. Qed.
Lemma line_set_tag f t : vf_line (set_tag f t) = vf_line f. Proof. destruct f; reflexivity. Qed.

Lemma apply_attrs_cons line a r f store f' st ds :
  apply_attrs line (a :: r) f store = ROk (f', st, ds) ->
  exists f1 st1 ds1 ds2, apply_attr line a f store = ROk (f1, st1, ds1) /\ apply_attrs line r f1 st1 = ROk (f', st, ds2) /\ ds = ds1 ++ ds2.
Proof.
  cbn [apply_attrs]. destruct (apply_attr line a f store) as [[[f1 st1] ds1]|e] eqn:H1; [|discriminate].
  destruct (apply_attrs line r f1 st1) as [[[f2 st2] ds2]|e] eqn:H2; [|discriminate]. intros H. inversion H. subst.
  exists f1, st1, ds1, ds2. split; [reflexivity|]. split; [exact H2|reflexivity].
Qed.

(* on a field whose type can be taken the written attributes decide *)
Lemma apply_attrs_len line attrs : forall f store f' st ds,
  apply_attrs line attrs f store = ROk (f', st, ds) -> is_plain_object (vf_attr f) = false ->
  is_len_attr (vf_attr f') = final_len attrs (is_len_attr (vf_attr f)) /\ is_plain_object (vf_attr f') = false.
Proof.
  induction attrs as [|a attrs IH]; intros f store f' st ds H Hnp.
  - cbn in H. inversion H. subst. auto.
  - destruct (apply_attrs_cons _ _ _ _ _ _ _ _ H) as [f1 [st1 [ds1 [ds2 [Ha [Hr _]]]]]].
    destruct a as [sp x|sp x|sp x|sp x]; cbn [apply_attr] in Ha; rewrite ?Hnp in Ha; cbn [final_len].
    + destruct (field_get_type (vf_attr f)); [|discriminate]. inversion Ha. subst.
      destruct (IH _ _ _ _ _ Hr) as [H1 H2]; [rewrite attr_set_attr; reflexivity|]. rewrite attr_set_attr in H1. auto.
    + destruct (field_get_type (vf_attr f)); [|discriminate]. inversion Ha. subst.
      destruct (IH _ _ _ _ _ Hr) as [H1 H2]; [rewrite attr_set_attr; reflexivity|]. rewrite attr_set_attr in H1. auto.
    + inversion Ha. subst. destruct (IH _ _ _ _ _ Hr) as [H1 H2]; [rewrite attr_set_tag; exact Hnp|]. rewrite attr_set_tag in H1. auto.
    + assert (Hf1 : f1 = f) by (destruct (vf_attr f); inversion Ha; reflexivity). subst f1. exact (IH _ _ _ _ _ Hr Hnp).
Qed.

(* an object field keeps its attribute: @lengthOf and @calculatedFrom are refused, padding too *)
Lemma apply_attrs_plain line attrs : forall f store f' st ds,
  apply_attrs line attrs f store = ROk (f', st, ds) -> is_plain_object (vf_attr f) = true ->
  vf_attr f' = vf_attr f /\ vf_line f' = vf_line f /\ vf_name f' = vf_name f.
Proof.
  induction attrs as [|a attrs IH]; intros f store f' st ds H Hp.
  - cbn in H. inversion H. subst. auto.
  - destruct (apply_attrs_cons _ _ _ _ _ _ _ _ H) as [f1 [st1 [ds1 [ds2 [Ha [Hr _]]]]]].
    destruct a as [sp x|sp x|sp x|sp x]; cbn [apply_attr] in Ha; rewrite ?Hp in Ha.
    + inversion Ha. subst. exact (IH _ _ _ _ _ Hr Hp).
    + inversion Ha. subst. exact (IH _ _ _ _ _ Hr Hp).
    + inversion Ha. subst. destruct (IH _ _ _ _ _ Hr) as [H1 [H2 H3]]; [rewrite attr_set_tag; exact Hp|].
      rewrite H1, H2, H3, attr_set_tag, line_set_tag, name_set_tag. auto.
    + assert (Hf1 : f1 = f) by (destruct (vf_attr f); inversion Ha; reflexivity). subst f1. exact (IH _ _ _ _ _ Hr Hp).
Qed.

Definition is_object_field (f : field_def) : bool := match f with ObjectField _ _ _ _ _ _ => true | _ => false end.

Lemma visit_field_def_len metas f store v st ds :
  metas_ok metas -> visit_field_def metas f store = ROk (v, st, ds) ->
  is_len_attr (vf_attr v) = is_length_field f /\ (NoPanic.is_object_field f = false -> is_plain_object (vf_attr v) = false).
Proof.
  intros Hm H. destruct f as [sp rep decl comma|sp rep d|sp rep ft fn doc comma|sp d|sp d|sp d comma]; cbn [visit_field_def] in H.
  - destruct decl as [sp2 n o fields c].
    match type of H with match ?X with _ => _ end = _ => destruct X as [[[subs st1] ds1]|e] end; [|discriminate].
    inversion H. cbn. auto.
  - destruct (meta_decl_attr_kind d store) as [Ha Hn]. unfold meta_decl_field in H.
    destruct (meta_decl_attr d store) as [a st']. inversion H. cbn in *. split; [apply meta_kind_not_len; exact Ha|].
    intros _. destruct a; cbn in *; try reflexivity; try discriminate. contradiction.
  - inversion H. cbn. split; [|discriminate]. destruct (find_meta metas (p_text ft)) as [m|] eqn:Hf; [|reflexivity].
    apply meta_kind_not_len. apply Hm. eapply find_meta_In. exact Hf.
  - inversion H. cbn. auto.
  - inversion H. cbn. auto.
  - unfold visit_match_field in H. inversion H. cbn. auto.
Qed.

Lemma visit_field_with_attr_inv metas fw store v st ds :
  visit_field_with_attr metas fw store = ROk (v, st, ds) ->
  exists f st1 ds1 ds2, visit_field_def metas (fw_def fw) store = ROk (f, st1, ds1) /\
                        apply_attrs (start_line (fw_span fw)) (fw_attrs fw) f st1 = ROk (v, st, ds2) /\ ds = ds1 ++ ds2.
Proof.
  unfold visit_field_with_attr. destruct (visit_field_def metas (fw_def fw) store) as [[[f st1] ds1]|e] eqn:H1; [|discriminate].
  destruct (apply_attrs _ _ f st1) as [[[f1 st2] ds2]|e] eqn:H2; [|discriminate]. intros H. inversion H. subst.
  exists f, st1, ds1, ds2. split; [reflexivity|]. split; [exact H2|reflexivity].
Qed.

Lemma visit_field_with_attr_len metas fw store v st ds :
  metas_ok metas -> visit_field_with_attr metas fw store = ROk (v, st, ds) -> NoPanic.is_object_field (fw_def fw) = false ->
  is_len_attr (vf_attr v) = final_is_len fw.
Proof.
  intros Hm H Hno. destruct (visit_field_with_attr_inv _ _ _ _ _ _ H) as [f [st1 [ds1 [ds2 [Hd [Ha _]]]]]].
  destruct (visit_field_def_len _ _ _ _ _ _ Hm Hd) as [Hl Hnp].
  destruct (apply_attrs_len _ _ _ _ _ _ _ Ha (Hnp Hno)) as [H1 _]. rewrite H1, Hl. reflexivity.
Qed.

(* ---- the first loop of VisitPacketDefinition *)

Lemma loop1_add_mono pname is_root line f acc store ds :
  incl (pa_diags acc ++ ds) (pa_diags (loop1_add pname is_root line f acc store ds)).
Proof.
  unfold loop1_add. destruct (is_len_attr (vf_attr f)).
  - destruct (negb is_root); [cbn; apply incl_snoc|]. destruct (pa_lenf acc); cbn; [apply incl_snoc|apply incl_appl; apply incl_refl].
  - cbn. apply incl_appl. apply incl_refl.
Qed.

Lemma loop1_cons metas pname is_root fw l acc acc' :
  loop1 metas pname is_root (fw :: l) acc = ROk acc' ->
  exists f st ds, visit_field_with_attr metas fw (pa_store acc) = ROk (f, st, ds) /\
                  loop1 metas pname is_root l (loop1_add pname is_root (start_line (fw_span fw)) f acc st ds) = ROk acc'.
Proof.
  cbn [loop1]. destruct (visit_field_with_attr _ _ _) as [[[f st] ds]|e]; [|discriminate]. intros H. exists f, st, ds. auto.
Qed.

Lemma loop1_app metas pname is_root a : forall b acc acc',
  loop1 metas pname is_root (a ++ b) acc = ROk acc' ->
  exists acc1, loop1 metas pname is_root a acc = ROk acc1 /\ loop1 metas pname is_root b acc1 = ROk acc'.
Proof.
  induction a as [|fw a IH]; intros b acc acc' H.
  - exists acc. auto.
  - cbn [app] in H. destruct (loop1_cons _ _ _ _ _ _ _ H) as [f [st [ds [Hf Hr]]]].
    destruct (IH _ _ _ Hr) as [acc1 [H1 H2]]. exists acc1. split; [|exact H2]. cbn [loop1]. rewrite Hf. exact H1.
Qed.

Lemma loop1_mono metas pname is_root l : forall acc acc', loop1 metas pname is_root l acc = ROk acc' -> incl (pa_diags acc) (pa_diags acc').
Proof.
  induction l as [|fw l IH]; intros acc acc' H.
  - inversion H. apply incl_refl.
  - destruct (loop1_cons _ _ _ _ _ _ _ H) as [f [st [ds [_ Hr]]]]. apply IH in Hr. eapply incl_tran; [|exact Hr].
    eapply incl_tran; [|apply loop1_add_mono]. apply incl_appl. apply incl_refl.
Qed.

(* a length field in a non-root packet is reported on its first line *)
Lemma loop1_len_not_root metas pname a fw b acc acc' :
  metas_ok metas -> final_is_len fw = true -> NoPanic.is_object_field (fw_def fw) = false ->
  loop1 metas pname false (a ++ fw :: b) acc = ROk acc' ->
  exists d, In d (pa_diags acc') /\ d_kind d = DK_LenNotRoot /\ d_line d = start_line (fw_span fw).
Proof.
  intros Hm Hfin Hno H. destruct (loop1_app _ _ _ _ _ _ _ H) as [acc1 [_ H2]].
  destruct (loop1_cons _ _ _ _ _ _ _ H2) as [f [st [ds [Hf Hr]]]].
  pose proof (visit_field_with_attr_len _ _ _ _ _ _ Hm Hf Hno) as Hlen. rewrite Hfin in Hlen.
  eexists. split; [eapply loop1_mono; [exact Hr|]|].
  - unfold loop1_add. rewrite Hlen. cbn. apply In_snoc. right. reflexivity.
  - cbn. auto.
Qed.

Lemma loop1_add_lenf_keeps pname is_root line f acc store ds :
  pa_lenf acc <> None -> pa_lenf (loop1_add pname is_root line f acc store ds) <> None.
Proof.
  intros H. unfold loop1_add. destruct (is_len_attr (vf_attr f)).
  - destruct (negb is_root); [exact H|]. destruct (pa_lenf acc); [exact H|contradiction].
  - exact H.
Qed.

Lemma loop1_lenf_keeps metas pname is_root l : forall acc acc',
  loop1 metas pname is_root l acc = ROk acc' -> pa_lenf acc <> None -> pa_lenf acc' <> None.
Proof.
  induction l as [|fw l IH]; intros acc acc' H Hl.
  - inversion H. subst. exact Hl.
  - destruct (loop1_cons _ _ _ _ _ _ _ H) as [f [st [ds [_ Hr]]]]. eapply IH; [exact Hr|]. apply loop1_add_lenf_keeps. exact Hl.
Qed.

(* the second length field of a root packet is reported on its first line *)
Lemma loop1_len_dup metas pname a fw1 m fw2 b acc acc' :
  metas_ok metas -> final_is_len fw1 = true -> final_is_len fw2 = true ->
  NoPanic.is_object_field (fw_def fw1) = false -> NoPanic.is_object_field (fw_def fw2) = false ->
  loop1 metas pname true (a ++ fw1 :: m ++ fw2 :: b) acc = ROk acc' ->
  exists d, In d (pa_diags acc') /\ d_kind d = DK_LenDup /\ d_line d = start_line (fw_span fw2).
Proof.
  intros Hm Hfin1 Hfin2 Hno1 Hno2 H. destruct (loop1_app _ _ _ _ _ _ _ H) as [acc1 [_ H2]].
  destruct (loop1_cons _ _ _ _ _ _ _ H2) as [f1 [st1 [ds1 [Hf1 Hr1]]]].
  pose proof (visit_field_with_attr_len _ _ _ _ _ _ Hm Hf1 Hno1) as Hlen1. rewrite Hfin1 in Hlen1.
  destruct (loop1_app _ _ _ _ _ _ _ Hr1) as [acc2 [Hmid H3]].
  destruct (loop1_cons _ _ _ _ _ _ _ H3) as [f2 [st2 [ds2 [Hf2 Hr2]]]].
  pose proof (visit_field_with_attr_len _ _ _ _ _ _ Hm Hf2 Hno2) as Hlen2. rewrite Hfin2 in Hlen2.
  assert (Hset : pa_lenf acc2 <> None).
  { eapply loop1_lenf_keeps; [exact Hmid|]. unfold loop1_add. rewrite Hlen1. cbn. destruct (pa_lenf acc1); cbn; discriminate. }
  eexists. split; [eapply loop1_mono; [exact Hr2|]|].
  - unfold loop1_add. rewrite Hlen2. cbn. destruct (pa_lenf acc2); [|contradiction]. cbn. apply In_snoc. right. reflexivity.
  - cbn. auto.
Qed.

Lemma visit_packet_def_inv metas pmap d store p st ds :
  visit_packet_def metas pmap d store = ROk (p, st, ds) ->
  exists acc fields ds2,
    loop1 metas (p_text (pd_name d)) (is_some (pd_root d)) (pd_fields d) (mkPacc [] [] [] None [] store []) = ROk acc /\
    loop2 pmap (pa_fmap acc) (pa_lenf acc) (pa_lines acc) (seq 0 (length (pa_fields acc))) (pa_fields acc) = ROk (fields, ds2) /\
    p = mkVPacket (p_text (pd_name d)) (is_some (pd_root d)) (pa_lenf acc) fields (pa_fmap acc) (pa_mfs acc) (start_line (pd_span d)) /\
    st = pa_store acc /\ ds = pa_diags acc ++ ds2.
Proof.
  unfold visit_packet_def. destruct (loop1 _ _ _ _ _) as [acc|e] eqn:H1; [|discriminate].
  destruct (loop2 _ _ _ _ _ _) as [[fields ds2]|e] eqn:H2; [|discriminate]. intros H. inversion H. exists acc, fields, ds2.
  split; [reflexivity|]. split; [exact H2|]. auto.
Qed.

(* the diagnostics of one packet definition reach the result *)
Lemma packet_def_diag_reaches t r d :
  visit t = VOk r -> In d (packet_defs t) ->
  exists metas pmap store p st ds,
    metas_ok metas /\ visit_packet_def metas pmap d store = ROk (p, st, ds) /\ incl ds (r_diags r).
Proof.
  intros Hv Hd. destruct (visit_ok_inv _ _ Hv) as [s [Hs Hr]]. pose proof Hs as Hs0.
  rewrite packets_of_defs in Hs. destruct (in_split _ _ Hd) as [a [b Hsplit]]. rewrite Hsplit in Hs.
  destruct (visit_packets_app _ _ _ _ Hs) as [sa [Ha Hrest]].
  destruct (visit_packets_cons _ _ _ _ Hrest) as [p [st [ds [Hp Hrest2]]]].
  exists (s_metas sa), (Visitor.packet_names (s_packets sa)), (s_store sa), p, st, ds. split; [|split; [exact Hp|]].
  - rewrite (visit_packets_metas _ _ _ Ha), phase_options_metas. apply phase_metas_ok.
  - subst r. eapply incl_tran; [|apply finish_mono]. eapply incl_tran; [|eapply visit_packets_mono; exact Hrest2].
    eapply incl_tran; [|apply add_packet_mono]. cbn. apply incl_appr. apply incl_refl.
Qed.

(* ---- C12, length-of field outside the root packet / second length-of field.
   Guards: on every top-level field with a length-of the length attribute is the one that takes effect
   (len_then_calc_refuted is the counterexample otherwise) and the field is not an object field (there the attribute is
   refused as such: lengthof_on_object_nonroot_refuted), and - for placement - no inline object declares a
   length-of field (len_in_inline_refuted). *)
Definition len_final (t : pt) : Prop :=
  forall d fw, In d (packet_defs t) -> In fw (pd_fields d) -> is_len_entry (top_entry fw) = true ->
               final_is_len fw = true /\ NoPanic.is_object_field (fw_def fw) = false.

Definition no_inline_len (t : pt) : Prop :=
  forall s, In s (scopes t) -> sc_top s = false -> filter is_len_entry (sc_entries s) = [].

Lemma is_some_root d : (match pd_root d with Some _ => true | None => false end) = is_some (pd_root d).
Proof. destruct (pd_root d); reflexivity. Qed.

Theorem len_outside_root_diagnosed t l r :
  In (FLenOutsideRoot, l) (faults t) -> visit t = VOk r -> len_final t -> no_inline_len t ->
  has_diag r DK_LenNotRoot l.
Proof.
  intros Hf Hv Hfinal Hnoinl. apply faults_inv in Hf.
  destruct Hf as [[Hk _]|[[Hk _]|[[Hk _]|[[Hk _]|[[d [_ Hd]]|[s [Hs Hsf]]]]]]]; try discriminate.
  - apply option_fault_kind in Hd. destruct Hd; discriminate.
  - apply len_fault_inv in Hsf; [|left; reflexivity].
    destruct (sc_top s) eqn:Htop.
    + destruct (top_scope_inv _ _ Hs Htop) as [d [Hd ->]]. cbn [sc_top sc_root sc_entries andb] in Hsf.
      destruct (is_some (pd_root d)) eqn:Hroot; [apply In_tag in Hsf; destruct Hsf; discriminate|].
      apply In_tag in Hsf. destruct Hsf as [_ Hl]. apply in_map_iff in Hl. destruct Hl as [e [Hline He]].
      apply filter_In in He. destruct He as [He Hlen]. apply in_map_iff in He. destruct He as [fw [<- Hfw]].
      destruct (Hfinal _ _ Hd Hfw Hlen) as [Hfin Hno].
      destruct (packet_def_diag_reaches _ _ _ Hv Hd) as [metas [pmap [store [p [st [ds [Hm [Hp Hincl]]]]]]]].
      destruct (visit_packet_def_inv _ _ _ _ _ _ _ Hp) as [acc [fields [ds2 [Hloop [_ [_ [_ ->]]]]]]]. rewrite Hroot in Hloop.
      destruct (in_split _ _ Hfw) as [a [b Hsplit]]. rewrite Hsplit in Hloop.
      destruct (loop1_len_not_root _ _ _ _ _ _ _ Hm Hfin Hno Hloop) as [dg [Hdg [Hk Hln]]].
      exists dg. split; [apply Hincl; apply in_or_app; left; exact Hdg|]. split; [exact Hk|]. rewrite Hln. exact Hline.
    + cbn [andb] in Hsf. apply In_tag in Hsf. destruct Hsf as [_ Hl]. rewrite (Hnoinl _ Hs Htop) in Hl. contradiction.
Qed.

Theorem second_len_diagnosed t l r :
  In (FSecondLen, l) (faults t) -> visit t = VOk r -> len_final t ->
  has_diag r DK_LenDup l.
Proof.
  intros Hf Hv Hfinal. apply faults_inv in Hf.
  destruct Hf as [[Hk _]|[[Hk _]|[[Hk _]|[[Hk _]|[[d [_ Hd]]|[s [Hs Hsf]]]]]]]; try discriminate.
  - apply option_fault_kind in Hd. destruct Hd; discriminate.
  - apply len_fault_inv in Hsf; [|right; reflexivity].
    destruct (sc_top s) eqn:Htop; [|cbn [andb] in Hsf; apply In_tag in Hsf; destruct Hsf; discriminate].
    destruct (top_scope_inv _ _ Hs Htop) as [d [Hd ->]]. cbn [sc_top sc_root sc_entries andb] in Hsf.
    destruct (is_some (pd_root d)) eqn:Hroot; [|apply In_tag in Hsf; destruct Hsf; discriminate].
    apply In_tag in Hsf. destruct Hsf as [_ Hl]. apply in_map_iff in Hl. destruct Hl as [e2 [Hline He2]].
    destruct (filter is_len_entry (map top_entry (pd_fields d))) as [|e1 rest] eqn:Hfilt; [contradiction|]. cbn [tl] in He2.
    destruct (filter_tl_split _ _ _ _ _ Hfilt He2) as [A [M [B [Hmap [Hlen1 Hlen2]]]]].
    destruct (map_split _ _ _ _ _ Hmap) as [a [fw1 [rest1 [Hfields [_ [Hfw1 Hrest1]]]]]].
    destruct (map_split _ _ _ _ _ Hrest1) as [m [fw2 [b [Hrest2 [_ [Hfw2 _]]]]]]. subst rest1 e1 e2.
    assert (Hin1 : In fw1 (pd_fields d)) by (rewrite Hfields; apply in_or_app; right; left; reflexivity).
    assert (Hin2 : In fw2 (pd_fields d)).
    { rewrite Hfields. apply in_or_app. right. right. apply in_or_app. right. left. reflexivity. }
    destruct (Hfinal _ _ Hd Hin1 Hlen1) as [Hfin1 Hno1]. destruct (Hfinal _ _ Hd Hin2 Hlen2) as [Hfin2 Hno2].
    destruct (packet_def_diag_reaches _ _ _ Hv Hd) as [metas [pmap [store [p [st [ds [Hm [Hp Hincl]]]]]]]].
    destruct (visit_packet_def_inv _ _ _ _ _ _ _ Hp) as [acc [fields [ds2 [Hloop [_ [_ [_ ->]]]]]]]. rewrite Hroot, Hfields in Hloop.
    destruct (loop1_len_dup _ _ _ _ _ _ _ _ _ Hm Hfin1 Hfin2 Hno1 Hno2 Hloop) as [dg [Hdg [Hk Hln]]].
    exists dg. split; [apply Hincl; apply in_or_app; left; exact Hdg|]. split; [exact Hk|]. rewrite Hln. exact Hline.
Qed.

(* ---- the second loop of VisitPacketDefinition *)

Lemma length_upd_nth {A} (l : list A) : forall i x, length (upd_nth i x l) = length l.
Proof. induction l as [|y l IH]; intros [|i] x; cbn; auto. Qed.

Lemma nth_error_upd_nth_eq {A} (l : list A) : forall i x, i < length l -> nth_error (upd_nth i x l) i = Some x.
Proof.
  induction l as [|y l IH]; intros [|i] x H; cbn in *; try lia; [reflexivity|]. apply IH. lia.
Qed.

Lemma nth_error_upd_nth_neq {A} (l : list A) : forall i j x, i <> j -> nth_error (upd_nth i x l) j = nth_error l j.
Proof.
  induction l as [|y l IH]; intros [|i] [|j] x H; cbn; try reflexivity; try congruence. apply IH. congruence.
Qed.

Lemma nth_error_Some_lt {A} (l : list A) i x : nth_error l i = Some x -> i < length l.
Proof. intros H. apply nth_error_Some. rewrite H. discriminate. Qed.

(* name and line of a field: what the second loop never changes *)
Definition skel (f : vfield) : string * nat := (vf_name f, vf_line f).

Lemma skel_set_la f l : skel (set_la f l) = skel f. Proof. destruct f; reflexivity. Qed.
Lemma skel_set_attr f a : skel (set_attr f a) = skel f. Proof. destruct f; reflexivity. Qed.

Lemma skel_upd_nth fields i f g j :
  nth_error fields i = Some f -> skel g = skel f ->
  option_map skel (nth_error (upd_nth i g fields) j) = option_map skel (nth_error fields j).
Proof.
  intros Hf Hs. destruct (Nat.eq_dec i j) as [<-|Hn].
  - rewrite nth_error_upd_nth_eq by (eapply nth_error_Some_lt; exact Hf). rewrite Hf. cbn. rewrite Hs. reflexivity.
  - rewrite nth_error_upd_nth_neq by exact Hn. reflexivity.
Qed.

Lemma attr_upd_nth_la fields i f l j :
  nth_error fields i = Some f ->
  option_map vf_attr (nth_error (upd_nth i (set_la f l) fields) j) = option_map vf_attr (nth_error fields j).
Proof.
  intros Hf. destruct (Nat.eq_dec i j) as [<-|Hn].
  - rewrite nth_error_upd_nth_eq by (eapply nth_error_Some_lt; exact Hf). rewrite Hf. cbn. rewrite attr_set_la. reflexivity.
  - rewrite nth_error_upd_nth_neq by exact Hn. reflexivity.
Qed.

(* the LenAttr assignments change no Attr, no name, no line *)
Lemma step_la_keeps lenf i fields f fields1 :
  step_la lenf i fields f = ROk fields1 ->
  length fields1 = length fields /\
  forall j, option_map skel (nth_error fields1 j) = option_map skel (nth_error fields j) /\
            option_map vf_attr (nth_error fields1 j) = option_map vf_attr (nth_error fields j).
Proof.
  unfold step_la. destruct lenf as [li|]; [|intros H; inversion H; auto].
  destruct (nth_error fields li) as [lf|] eqn:Hlf; [|intros H; inversion H; auto].
  destruct (vf_attr lf) eqn:Ha; try discriminate. destruct (fref_name target) as [tn|]; [|discriminate].
  destruct (String.eqb (vf_name f) tn); [|intros H; inversion H; auto].
  set (fields0 := upd_nth li (set_la lf (VLLenOf (vf_name lf))) fields).
  assert (H0 : length fields0 = length fields /\
               forall j, option_map skel (nth_error fields0 j) = option_map skel (nth_error fields j) /\
                         option_map vf_attr (nth_error fields0 j) = option_map vf_attr (nth_error fields j)).
  { subst fields0. split; [apply length_upd_nth|]. intros j. split.
    - apply (skel_upd_nth _ _ lf); [exact Hlf|apply skel_set_la].
    - apply attr_upd_nth_la. exact Hlf. }
  destruct H0 as [Hlen0 Hk0].
  destruct (nth_error fields0 i) as [f1|] eqn:Hf1; intros H; inversion H; subst fields1.
  - split; [rewrite length_upd_nth; exact Hlen0|]. intros j. destruct (Hk0 j) as [Hs Hat]. rewrite <- Hs, <- Hat. split.
    + apply (skel_upd_nth _ _ f1); [exact Hf1|apply skel_set_la].
    + apply attr_upd_nth_la. exact Hf1.
  - split; [exact Hlen0|exact Hk0].
Qed.

Lemma option_map_Some_inv {A B} (g : A -> B) (o : option A) (x : A) :
  option_map g o = option_map g (Some x) -> exists y, o = Some y /\ g y = g x.
Proof. destruct o as [y|]; cbn; intros H; [inversion H; exists y; auto|discriminate]. Qed.

(* one iteration: lengths, names and lines stay; the Attr of the i-th field becomes what [step_attr] says, the others stay *)
Lemma loop2_step_spec pmap fmap lenf lines i fields fields' ds :
  loop2_step pmap fmap lenf lines i fields = ROk (fields', ds) ->
  length fields' = length fields /\
  (forall j, option_map skel (nth_error fields' j) = option_map skel (nth_error fields j)) /\
  (forall j, j <> i -> option_map vf_attr (nth_error fields' j) = option_map vf_attr (nth_error fields j)) /\
  (forall f, nth_error fields i = Some f ->
     exists a, step_attr pmap fmap (nth i lines 0) (vf_name f) (vf_attr f) = ROk (a, ds) /\
               option_map vf_attr (nth_error fields' i) = Some a) /\
  (nth_error fields i = None -> ds = []).
Proof.
  unfold loop2_step. destruct (nth_error fields i) as [f|] eqn:Hf.
  2:{ intros H. inversion H. subst. repeat split; auto. intros f Hx. discriminate. }
  destruct (step_la lenf i fields f) as [fields1|e] eqn:Hla; [|discriminate].
  destruct (step_la_keeps _ _ _ _ _ Hla) as [Hlen1 Hk1].
  destruct (Hk1 i) as [Hsi Hai]. rewrite Hf in Hsi, Hai.
  destruct (option_map_Some_inv _ _ _ Hsi) as [f1 [Hf1 Hskel1]]. rewrite Hf1 in Hai. cbn in Hai. inversion Hai as [Hattr1].
  rewrite Hf1. assert (Hname1 : vf_name f1 = vf_name f) by (unfold skel in Hskel1; inversion Hskel1; reflexivity).
  rewrite Hname1, Hattr1.
  destruct (step_attr pmap fmap (nth i lines 0) (vf_name f) (vf_attr f)) as [[a ds0]|e] eqn:Hst; [|discriminate].
  intros H. inversion H. subst. split; [rewrite length_upd_nth; exact Hlen1|]. split; [|split; [|split]].
  - intros j. destruct (Hk1 j) as [Hs _]. rewrite <- Hs. apply (skel_upd_nth _ _ f1); [exact Hf1|apply skel_set_attr].
  - intros j Hj. destruct (Hk1 j) as [_ Ha]. rewrite <- Ha. rewrite nth_error_upd_nth_neq by congruence. reflexivity.
  - intros f0 Hf0. inversion Hf0. subst f0. exists a. split; [exact Hst|].
    rewrite nth_error_upd_nth_eq by (eapply nth_error_Some_lt; exact Hf1). cbn. rewrite attr_set_attr. reflexivity.
  - discriminate.
Qed.

Lemma loop2_cons pmap fmap lenf lines i r fields fields' ds :
  loop2 pmap fmap lenf lines (i :: r) fields = ROk (fields', ds) ->
  exists fields1 ds1 ds2, loop2_step pmap fmap lenf lines i fields = ROk (fields1, ds1) /\
                          loop2 pmap fmap lenf lines r fields1 = ROk (fields', ds2) /\ ds = ds1 ++ ds2.
Proof.
  cbn [loop2]. destruct (loop2_step _ _ _ _ _ _) as [[fields1 ds1]|e] eqn:H1; [|discriminate].
  destruct (loop2 _ _ _ _ r fields1) as [[fields2 ds2]|e] eqn:H2; [|discriminate]. intros H. inversion H. subst.
  exists fields1, ds1, ds2. split; [reflexivity|]. split; [exact H2|reflexivity].
Qed.

(* the whole loop over pairwise different indices *)
Lemma loop2_spec pmap fmap lenf lines idx : forall fields fields' ds,
  NoDup idx -> loop2 pmap fmap lenf lines idx fields = ROk (fields', ds) ->
  length fields' = length fields /\
  (forall j, option_map skel (nth_error fields' j) = option_map skel (nth_error fields j)) /\
  (forall j, ~ In j idx -> option_map vf_attr (nth_error fields' j) = option_map vf_attr (nth_error fields j)) /\
  (forall j f, In j idx -> nth_error fields j = Some f ->
     exists a dsj, step_attr pmap fmap (nth j lines 0) (vf_name f) (vf_attr f) = ROk (a, dsj) /\
                   option_map vf_attr (nth_error fields' j) = Some a /\ incl dsj ds).
Proof.
  induction idx as [|i r IH]; intros fields fields' ds Hnd H.
  - cbn in H. inversion H. subst. repeat split; auto. intros j f [].
  - destruct (loop2_cons _ _ _ _ _ _ _ _ _ H) as [fields1 [ds1 [ds2 [H1 [H2 ->]]]]]. inversion Hnd as [|x xs Hnotin Hnd']. subst.
    destruct (loop2_step_spec _ _ _ _ _ _ _ _ H1) as [Hl1 [Hs1 [Ha1 [Hi1 _]]]].
    destruct (IH _ _ _ Hnd' H2) as [Hl2 [Hs2 [Ha2 Hi2]]].
    split; [rewrite Hl2; exact Hl1|]. split; [intros j; rewrite Hs2; apply Hs1|]. split.
    + intros j Hj. rewrite Ha2 by (intros Hx; apply Hj; right; exact Hx). apply Ha1. intros ->. apply Hj. left. reflexivity.
    + intros j f [<-|Hj] Hf.
      * destruct (Hi1 f Hf) as [a [Hst Hat]]. exists a, ds1. split; [exact Hst|]. split; [|apply incl_appl; apply incl_refl].
        rewrite Ha2 by exact Hnotin. exact Hat.
      * assert (Hne : j <> i) by (intros ->; contradiction).
        pose proof (Hs1 j) as Hsj. pose proof (Ha1 j Hne) as Haj. rewrite Hf in Hsj, Haj.
        destruct (option_map_Some_inv _ _ _ Hsj) as [f1 [Hf1 Hsk]]. rewrite Hf1 in Haj. cbn in Haj. inversion Haj as [Hattr].
        destruct (Hi2 j f1 Hj Hf1) as [a [dsj [Hst [Hat Hin]]]]. exists a, dsj.
        assert (Hname : vf_name f1 = vf_name f) by (unfold skel in Hsk; inversion Hsk; reflexivity).
        rewrite Hname in Hst. split; [congruence|]. split; [exact Hat|apply incl_appr; exact Hin].
Qed.

(* ================================================================== (c) C11: the visitor never panics *)

(* attributes as the field visit leaves them: field references are the fresh placeholder objects *)
Definition fresh_attr (a : vattr) : Prop :=
  match a with
  | VALen tgt _ => exists tn, tgt = FRNew tn
  | VAMatch key _ => exists kn, key = FRNew kn
  | _ => True
  end.

(* Field.GetType has an answer, or the attribute loop refuses to ask *)
Definition typed (a : vattr) : Prop := is_plain_object a = true \/ field_get_type a <> None.

Lemma meta_kind_fresh a : meta_kind a = true -> fresh_attr a.
Proof. destruct a; cbn; try discriminate; auto. Qed.

Lemma meta_kind_typed a : meta_kind a = true -> typed a.
Proof. destruct a; cbn; try discriminate; intros _; unfold typed; cbn; auto; right; discriminate. Qed.

(* VisitFieldDefinition returns a field, for every field definition *)
Lemma visit_field_def_ok metas : metas_ok metas -> forall f store,
  exists v st ds, visit_field_def metas f store = ROk (v, st, ds) /\ fresh_attr (vf_attr v) /\ typed (vf_attr v).
Proof.
  intros Hm f. induction f as [sp rep sp2 n o fields c comma IH|sp rep d|sp rep ft fn doc comma|sp d|sp d|sp d comma]
    using field_def_induction; intros store.
  - cbn [visit_field_def].
    assert (IH' : Forall (fun f => forall store, exists v st ds, visit_field_def metas f store = ROk (v, st, ds)) fields).
    { eapply Forall_impl; [|exact IH]. intros a Ha st0. destruct (Ha st0) as [v [st [ds [Hv _]]]]. eauto. }
    assert (Hgo : forall fs store names, Forall (fun f => forall store, exists v st ds, visit_field_def metas f store = ROk (v, st, ds)) fs ->
                   exists subs st ds,
                     (fix go (l : list field_def) (store : list fcell) (names : list string) {struct l}
                        : res (list vfield * list fcell * list diag) :=
                        match l with
                        | [] => ROk ([], store, [])
                        | x :: r =>
                            match visit_field_def metas x store with
                            | RPanic e => RPanic e
                            | ROk (v, st1, ds1) =>
                                let dup := if mem (vf_name v) names then [dup_field_diag (start_line (fd_span x)) (vf_name v) (p_text n)] else [] in
                                match go r st1 (vf_name v :: names) with
                                | RPanic e => RPanic e
                                | ROk (vs, st2, ds2) => ROk (v :: vs, st2, ds1 ++ dup ++ ds2)
                                end
                            end
                        end) fs store names = ROk (subs, st, ds)).
    { induction fs as [|x fs IHfs]; intros st0 names Hall.
      - eexists; eexists; eexists; reflexivity.
      - inversion Hall as [|y ys Hx Hrest]. subst. destruct (Hx st0) as [v [st1 [ds1 Hv]]]. rewrite Hv.
        destruct (IHfs st1 (vf_name v :: names) Hrest) as [subs [st2 [ds2 Hsub]]]. rewrite Hsub. eexists; eexists; eexists; reflexivity. }
    destruct (Hgo fields store [] IH') as [subs [st [ds Hsub]]]. cbv zeta in Hsub |- *. rewrite Hsub.
    eexists; eexists; eexists. split; [reflexivity|]. cbn. split; [exact I|]. right. cbn. discriminate.
  - cbn [visit_field_def]. unfold meta_decl_field.
    destruct (meta_decl_attr_kind d store) as [Hk Hn]. destruct (meta_decl_attr d store) as [a st] eqn:Ha. cbn in Hk, Hn.
    eexists; eexists; eexists. split; [reflexivity|]. cbn. split; [apply meta_kind_fresh; exact Hk|apply meta_kind_typed; exact Hk].
  - cbn [visit_field_def]. eexists; eexists; eexists. split; [reflexivity|]. cbn.
    destruct (find_meta metas (p_text ft)) as [m|] eqn:Hf.
    + pose proof (Hm m (find_meta_In _ _ _ Hf)) as Hk. split; [apply meta_kind_fresh; exact Hk|apply meta_kind_typed; exact Hk].
    + split; [exact I|]. left. reflexivity.
  - cbn [visit_field_def]. eexists; eexists; eexists. split; [reflexivity|]. cbn. split; [eexists; reflexivity|]. right. cbn. discriminate.
  - cbn [visit_field_def]. eexists; eexists; eexists. split; [reflexivity|]. cbn. split; [exact I|]. right. cbn. discriminate.
  - cbn [visit_field_def]. unfold visit_match_field. eexists; eexists; eexists. split; [reflexivity|]. cbn.
    split; [eexists; reflexivity|]. right. cbn. discriminate.
Qed.

(* the attribute loop returns, whatever is written before the field *)
Lemma apply_attr_ok line a f store :
  fresh_attr (vf_attr f) -> typed (vf_attr f) ->
  exists f' st ds, apply_attr line a f store = ROk (f', st, ds) /\ fresh_attr (vf_attr f') /\ typed (vf_attr f').
Proof.
  intros Hfr Hty. destruct a as [sp l|sp c|sp tg|sp p]; cbn [apply_attr].
  - destruct (is_plain_object (vf_attr f)) eqn:Hp; [eexists; eexists; eexists; split; [reflexivity|auto]|].
    destruct Hty as [Hx|Hg]; [rewrite Hx in Hp; discriminate|]. destruct (field_get_type (vf_attr f)); [|contradiction].
    eexists; eexists; eexists. split; [reflexivity|]. rewrite attr_set_attr. split; [eexists; reflexivity|right; cbn; discriminate].
  - destruct (is_plain_object (vf_attr f)) eqn:Hp; [eexists; eexists; eexists; split; [reflexivity|auto]|].
    destruct Hty as [Hx|Hg]; [rewrite Hx in Hp; discriminate|]. destruct (field_get_type (vf_attr f)); [|contradiction].
    eexists; eexists; eexists. split; [reflexivity|]. rewrite attr_set_attr. split; [exact I|right; cbn; discriminate].
  - eexists; eexists; eexists. split; [reflexivity|]. rewrite attr_set_tag. auto.
  - destruct (vf_attr f) eqn:Hf; eexists; eexists; eexists; (split; [reflexivity|]); rewrite Hf; auto.
Qed.

Lemma apply_attrs_ok line attrs : forall f store,
  fresh_attr (vf_attr f) -> typed (vf_attr f) ->
  exists f' st ds, apply_attrs line attrs f store = ROk (f', st, ds) /\ fresh_attr (vf_attr f').
Proof.
  induction attrs as [|a r IH]; intros f store Hfr Hty.
  - eexists; eexists; eexists. split; [reflexivity|exact Hfr].
  - destruct (apply_attr_ok line a f store Hfr Hty) as [f1 [st1 [ds1 [Ha [Hfr1 Hty1]]]]].
    destruct (IH f1 st1 Hfr1 Hty1) as [f2 [st2 [ds2 [Hr Hfr2]]]]. cbn [apply_attrs]. rewrite Ha, Hr.
    eexists; eexists; eexists. split; [reflexivity|exact Hfr2].
Qed.

Lemma visit_field_with_attr_ok metas fw store :
  metas_ok metas -> exists v st ds, visit_field_with_attr metas fw store = ROk (v, st, ds) /\ fresh_attr (vf_attr v).
Proof.
  intros Hm. unfold visit_field_with_attr. destruct (visit_field_def_ok metas Hm (fw_def fw) store) as [f [st1 [ds [Hf [Hfr Hty]]]]].
  rewrite Hf. destruct (apply_attrs_ok (start_line (fw_span fw)) (fw_attrs fw) f st1 Hfr Hty) as [f' [st [ds2 [Hr Hfr']]]]. rewrite Hr.
  eexists; eexists; eexists. split; [reflexivity|exact Hfr'].
Qed.

Lemma nth_error_snoc_old {A} (l : list A) x i y : nth_error l i = Some y -> nth_error (snoc l x) i = Some y.
Proof. intros H. unfold snoc. rewrite nth_error_app1; [exact H|]. eapply nth_error_Some_lt. exact H. Qed.

Lemma nth_error_snoc_new {A} (l : list A) x : nth_error (snoc l x) (length l) = Some x.
Proof. unfold snoc. rewrite nth_error_app2 by lia. rewrite Nat.sub_diag. reflexivity. Qed.

(* what the first loop keeps true *)
Record l1inv (acc : pacc) : Prop := mkL1 {
  i_fresh : forall f, In f (pa_fields acc) -> fresh_attr (vf_attr f);
  i_lenf : forall li, pa_lenf acc = Some li -> exists lf, nth_error (pa_fields acc) li = Some lf /\ is_len_attr (vf_attr lf) = true;
  i_lines : length (pa_lines acc) = length (pa_fields acc)
}.

Lemma snoc_length {A} (l : list A) x : length (snoc l x) = S (length l).
Proof. unfold snoc. rewrite app_length. cbn. lia. Qed.

Lemma loop1_add_inv pname is_root line f acc store ds :
  l1inv acc -> fresh_attr (vf_attr f) -> l1inv (loop1_add pname is_root line f acc store ds).
Proof.
  intros [Hfr Hlf Hln] Hfresh.
  assert (Hkept : forall lenf mfs dg,
             (forall li, lenf = Some li -> pa_lenf acc = Some li \/ (li = length (pa_fields acc) /\ is_len_attr (vf_attr f) = true)) ->
             l1inv (mkPacc (snoc (pa_fields acc) f) (snoc (pa_lines acc) line) (aset (pa_fmap acc) (vf_name f) (length (pa_fields acc)))
                           lenf mfs store dg)).
  { intros lenf mfs dg Hlenf. constructor; cbn.
    - intros x Hx. apply In_snoc in Hx. destruct Hx as [Hx| ->]; [apply Hfr; exact Hx|exact Hfresh].
    - intros li Hli. destruct (Hlenf li Hli) as [Hold|[-> Hislen]].
      + destruct (Hlf li Hold) as [lf [H1 H2]]. exists lf. split; [apply nth_error_snoc_old; exact H1|exact H2].
      + exists f. split; [apply nth_error_snoc_new|exact Hislen].
    - rewrite !snoc_length, Hln. reflexivity. }
  unfold loop1_add. destruct (is_len_attr (vf_attr f)) eqn:Hislen.
  - destruct (negb is_root); [constructor; cbn; assumption|]. destruct (pa_lenf acc) as [l0|] eqn:Hl0.
    + constructor; cbn; [assumption|exact Hlf|assumption].
    + apply Hkept. intros li Hli. inversion Hli. right. auto.
  - apply Hkept. intros li Hli. left. exact Hli.
Qed.

Lemma loop1_ok metas pname is_root : metas_ok metas -> forall l acc,
  l1inv acc -> exists acc', loop1 metas pname is_root l acc = ROk acc' /\ l1inv acc'.
Proof.
  intros Hm. induction l as [|fw l IH]; intros acc Hinv.
  - exists acc. auto.
  - destruct (visit_field_with_attr_ok metas fw (pa_store acc) Hm) as [f [st [ds [Hv Hfr]]]]. cbn [loop1]. rewrite Hv.
    apply IH. apply loop1_add_inv; assumption.
Qed.

(* the second loop: the length field keeps a target object, the fields still to come are as the first loop left them *)
Definition len_ok (lenf : option nat) (fields : list vfield) : Prop :=
  forall li lf, lenf = Some li -> nth_error fields li = Some lf ->
  exists tgt ty tn, vf_attr lf = VALen tgt ty /\ fref_name tgt = Some tn.

Definition fresh_at (idx : list nat) (fields : list vfield) : Prop :=
  forall j f, In j idx -> nth_error fields j = Some f -> fresh_attr (vf_attr f).

Lemma step_attr_ok pmap fmap line fname a :
  fresh_attr a -> exists a' ds, step_attr pmap fmap line fname a = ROk (a', ds) /\
                                (forall tgt ty tn, a = VALen tgt ty -> fref_name tgt = Some tn ->
                                                   exists tgt' ty', a' = VALen tgt' ty' /\ fref_name tgt' = Some tn).
Proof.
  intros Hfr. destruct a as [| | |tgt ty| |iner pn ref inlp|key pairs|]; cbn [step_attr];
    try (eexists; eexists; split; [reflexivity|]; intros; discriminate).
  - destruct Hfr as [tn ->]. cbn [fref_name field_get_type]. destruct (alookup fmap tn) as [j|]; eexists; eexists; (split; [reflexivity|]);
      intros tgt0 ty0 tn0 H Hn; inversion H; subst; cbn in Hn; inversion Hn; subst; eexists; eexists; split; reflexivity.
  - destruct iner; eexists; eexists; (split; [reflexivity|]); intros; discriminate.
  - destruct Hfr as [kn ->]. cbn [fref_name]. destruct (alookup fmap kn); eexists; eexists; (split; [reflexivity|]); intros; discriminate.
Qed.

Lemma loop2_step_ok pmap fmap lenf lines i fields :
  len_ok lenf fields -> fresh_at [i] fields -> exists fields' ds, loop2_step pmap fmap lenf lines i fields = ROk (fields', ds).
Proof.
  intros Hlen Hfresh. unfold loop2_step. destruct (nth_error fields i) as [f|] eqn:Hf; [|eexists; eexists; reflexivity].
  assert (Hla : exists fields1, step_la lenf i fields f = ROk fields1).
  { unfold step_la. destruct lenf as [li|]; [|eexists; reflexivity]. destruct (nth_error fields li) as [lf|] eqn:Hlf; [|eexists; reflexivity].
    destruct (Hlen li lf eq_refl Hlf) as [tgt [ty [tn [-> ->]]]]. destruct (String.eqb _ _); [|eexists; reflexivity].
    destruct (nth_error (upd_nth li _ fields) i); eexists; reflexivity. }
  destruct Hla as [fields1 Hla]. rewrite Hla. destruct (step_la_keeps _ _ _ _ _ Hla) as [_ Hk].
  destruct (nth_error fields1 i) as [f1|] eqn:Hf1; [|eexists; eexists; reflexivity].
  assert (Hattr1 : vf_attr f1 = vf_attr f).
  { destruct (Hk i) as [_ Hai]. rewrite Hf1, Hf in Hai. cbn in Hai. inversion Hai. reflexivity. }
  pose proof (Hfresh i f (or_introl eq_refl) Hf) as Hfr. rewrite Hattr1.
  destruct (step_attr_ok pmap fmap (nth i lines 0) (vf_name f1) (vf_attr f) Hfr) as [a [ds [-> _]]]. eexists; eexists; reflexivity.
Qed.

Lemma loop2_ok pmap fmap lenf lines idx : forall fields,
  NoDup idx -> len_ok lenf fields -> fresh_at idx fields -> exists fields' ds, loop2 pmap fmap lenf lines idx fields = ROk (fields', ds).
Proof.
  induction idx as [|i r IH]; intros fields Hnd Hlen Hfresh; [eexists; eexists; reflexivity|].
  inversion Hnd as [|x xs Hnotin Hnd']. subst.
  destruct (loop2_step_ok pmap fmap lenf lines i fields Hlen) as [fields1 [ds1 H1]].
  { intros j f [<-|[]] Hj. eapply Hfresh; [left; reflexivity|exact Hj]. }
  cbn [loop2]. rewrite H1. destruct (loop2_step_spec _ _ _ _ _ _ _ _ H1) as [_ [Hs1 [Ha1 [Hi1 _]]]].
  destruct (IH fields1 Hnd') as [fields2 [ds2 H2]].
  - (* the length field keeps a target *)
    intros li lf Hli Hlf. destruct (Nat.eq_dec li i) as [->|Hne].
    + destruct (nth_error fields i) as [f0|] eqn:Hf0.
      * destruct (Hi1 f0 eq_refl) as [a [Hst Hat]]. rewrite Hlf in Hat. cbn in Hat. inversion Hat as [Ha].
        destruct (Hlen i f0 Hli Hf0) as [tgt [ty [tn [Hattr Htn]]]].
        assert (Hfr : fresh_attr (vf_attr f0)) by (eapply Hfresh; [left; reflexivity|exact Hf0]).
        destruct (step_attr_ok pmap fmap (nth i lines 0) (vf_name f0) (vf_attr f0) Hfr) as [a' [ds' [Hst' Hkeep]]].
        rewrite Hst in Hst'. inversion Hst'. subst a' ds'. destruct (Hkeep _ _ _ Hattr Htn) as [tgt' [ty' [-> Htn']]].
        exists tgt', ty', tn. auto.
      * pose proof (Hs1 i) as Hsi. rewrite Hlf, Hf0 in Hsi. discriminate.
    + pose proof (Ha1 li Hne) as Hal. rewrite Hlf in Hal. cbn in Hal.
      destruct (nth_error fields li) as [lf0|] eqn:Hlf0; [|discriminate]. cbn in Hal. inversion Hal as [Ha].
      rewrite Ha. exact (Hlen li lf0 Hli Hlf0).
  - (* the fields still to come are untouched *)
    intros j f Hj Hfj. assert (Hne : j <> i) by (intros ->; contradiction).
    pose proof (Ha1 j Hne) as Haj. rewrite Hfj in Haj. cbn in Haj.
    destruct (nth_error fields j) as [f0|] eqn:Hf0; [|discriminate]. cbn in Haj. inversion Haj as [Ha].
    rewrite Ha. eapply Hfresh; [right; exact Hj|exact Hf0].
  - rewrite H2. eexists; eexists; reflexivity.
Qed.

(* VisitPacketDefinition returns a packet *)
Lemma visit_packet_def_ok metas pmap d store :
  metas_ok metas -> exists p st ds, visit_packet_def metas pmap d store = ROk (p, st, ds).
Proof.
  intros Hm. unfold visit_packet_def.
  destruct (loop1_ok metas (p_text (pd_name d)) (is_some (pd_root d)) Hm (pd_fields d) (mkPacc [] [] [] None [] store [])) as [acc [Hl1 Hinv]].
  { constructor; cbn; [intros f []|intros li H; discriminate|reflexivity]. }
  rewrite Hl1. destruct Hinv as [Hfr Hlf _].
  destruct (loop2_ok pmap (pa_fmap acc) (pa_lenf acc) (pa_lines acc) (seq 0 (length (pa_fields acc))) (pa_fields acc)) as [fields [ds2 H2]].
  - apply seq_NoDup.
  - intros li lf Hli Hnth. destruct (Hlf li Hli) as [lf' [H1 Hislen]]. rewrite Hnth in H1. inversion H1. subst lf'.
    pose proof (Hfr lf (nth_error_In _ _ Hnth)) as Hfresh. destruct (vf_attr lf) as [| | |tgt ty| | | |]; try discriminate.
    destruct Hfresh as [tn ->]. exists (FRNew tn), ty, tn. auto.
  - intros j f _ Hj. apply Hfr. eapply nth_error_In. exact Hj.
  - rewrite H2. eexists; eexists; eexists. reflexivity.
Qed.

Lemma visit_packets_ok l : forall s, metas_ok (s_metas s) -> exists s', visit_packets l s = ROk s'.
Proof.
  induction l as [|d l IH]; intros s Hm; [eexists; reflexivity|]. cbn [visit_packets].
  destruct (visit_packet_def_ok (s_metas s) (Visitor.packet_names (s_packets s)) d (s_store s) Hm) as [p [st [ds ->]]].
  apply IH. rewrite add_packet_metas. exact Hm.
Qed.

(* ---- C11 on the model: the visitor returns a result for every parse tree *)
Theorem visit_never_panics : forall t, exists r, visit t = VOk r.
Proof.
  intros t. unfold visit.
  destruct (visit_packets_ok (packets_of t) (phase_options t (phase_metas t st0))) as [s Hs].
  - rewrite phase_options_metas. apply phase_metas_ok.
  - rewrite Hs. eexists. reflexivity.
Qed.

Corollary visit_no_panic t site : visit t <> VPanic site.
Proof. destruct (visit_never_panics t) as [r Hr]. rewrite Hr. discriminate. Qed.

(* the structural fragment of Model/NoPanic.v (what the unrepaired visitor needed) is no longer a condition *)
Corollary nopanic_frag_sound t : nopanic_frag t = true -> exists r, visit t = VOk r.
Proof. intros _. apply visit_never_panics. Qed.

(* ================================================================== C12, the repaired classes *)

(* ---- what the visit of a top-level field returns *)

Lemma apply_attr_name line a f store f' st ds : apply_attr line a f store = ROk (f', st, ds) -> vf_name f' = vf_name f.
Proof.
  destruct a as [sp x|sp x|sp x|sp x]; cbn [apply_attr].
  - destruct (is_plain_object _); [intros H; inversion H; reflexivity|]. destruct (field_get_type _); [|discriminate].
    intros H. inversion H. apply name_set_attr.
  - destruct (is_plain_object _); [intros H; inversion H; reflexivity|]. destruct (field_get_type _); [|discriminate].
    intros H. inversion H. apply name_set_attr.
  - intros H. inversion H. apply name_set_tag.
  - destruct (vf_attr f); intros H; inversion H; reflexivity.
Qed.

Lemma apply_attrs_name line attrs : forall f store f' st ds, apply_attrs line attrs f store = ROk (f', st, ds) -> vf_name f' = vf_name f.
Proof.
  induction attrs as [|a r IH]; intros f store f' st ds H.
  - cbn in H. inversion H. reflexivity.
  - destruct (apply_attrs_cons _ _ _ _ _ _ _ _ H) as [f1 [st1 [ds1 [ds2 [Ha [Hr _]]]]]].
    rewrite (IH _ _ _ _ _ Hr). eapply apply_attr_name. exact Ha.
Qed.

Lemma visit_field_def_name metas f store v st ds : visit_field_def metas f store = ROk (v, st, ds) -> vf_name v = np_field_name f.
Proof.
  destruct f as [sp rep decl comma|sp rep d|sp rep ft fn doc comma|sp d|sp d|sp d comma]; cbn [visit_field_def np_field_name].
  - destruct decl as [sp2 n o fields c]. cbv zeta.
    match goal with |- match ?X with _ => _ end = _ -> _ => destruct X as [[[subs st1] ds1]|e] end; [|discriminate].
    intros H. inversion H. reflexivity.
  - unfold meta_decl_field. destruct (meta_decl_attr d store) as [a st']. intros H. inversion H. reflexivity.
  - intros H. inversion H. destruct fn; reflexivity.
  - intros H. inversion H. reflexivity.
  - intros H. inversion H. reflexivity.
  - unfold visit_match_field. intros H. inversion H. reflexivity.
Qed.

Lemma visit_field_with_attr_name metas fw store v st ds :
  visit_field_with_attr metas fw store = ROk (v, st, ds) -> vf_name v = np_field_name (fw_def fw).
Proof.
  intros H. destruct (visit_field_with_attr_inv _ _ _ _ _ _ H) as [f [st1 [ds1 [ds2 [Hd [Ha _]]]]]].
  rewrite (apply_attrs_name _ _ _ _ _ _ _ Ha). eapply visit_field_def_name. exact Hd.
Qed.

(* a declaration without any @lengthOf does not end up as a length field *)
Lemma final_len_nolen attrs : (forall sp l, ~ In (FALengthOf sp l) attrs) -> final_len attrs false = false.
Proof.
  induction attrs as [|a r IH]; intros H; [reflexivity|]. destruct a as [sp x|sp x|sp x|sp x]; cbn [final_len].
  - exfalso. eapply H. left. reflexivity.
  - clear IH. assert (Hx : forall b, (forall sp l, ~ In (FALengthOf sp l) r) -> final_len r b = false \/ final_len r b = b).
    { clear. induction r as [|a r IH]; intros b H; [right; reflexivity|]. destruct a as [sp x|sp x|sp x|sp x]; cbn [final_len].
      - exfalso. eapply H. left. reflexivity.
      - destruct (IH false) as [Hx|Hx]; [intros sp' l' Hin; eapply H; right; exact Hin|left; exact Hx|left; exact Hx].
      - apply IH. intros sp' l' Hin. eapply H. right. exact Hin.
      - apply IH. intros sp' l' Hin. eapply H. right. exact Hin. }
    destruct (Hx false) as [Hy|Hy]; [intros sp' l' Hin; eapply H; right; exact Hin|exact Hy|exact Hy].
  - apply IH. intros sp' l' Hin. eapply H. right. exact Hin.
  - apply IH. intros sp' l' Hin. eapply H. right. exact Hin.
Qed.

Lemma has_len_false_inv fw :
  has_len fw = false -> is_length_field (fw_def fw) = false /\ (forall sp l, ~ In (FALengthOf sp l) (fw_attrs fw)).
Proof.
  unfold has_len, fw_len_targets. intros H. split.
  - destruct (fw_def fw); try reflexivity. cbn in H. discriminate.
  - intros sp l Hin. destruct (fw_def fw); cbn [app] in H;
      try (assert (Hx : In (p_text (lo_from l)) (flat_map (fun a => match a with FALengthOf _ l0 => [p_text (lo_from l0)] | _ => [] end) (fw_attrs fw)))
             by (apply in_flat_map; exists (FALengthOf sp l); split; [exact Hin|left; reflexivity]);
           destruct (flat_map _ (fw_attrs fw)); [contradiction|discriminate]).
Qed.

Lemma not_len_kept metas fw store v st ds :
  metas_ok metas -> visit_field_with_attr metas fw store = ROk (v, st, ds) -> has_len fw = false -> is_len_attr (vf_attr v) = false.
Proof.
  intros Hm H Hnl. destruct (has_len_false_inv _ Hnl) as [Hdef Hattrs].
  destruct (visit_field_with_attr_inv _ _ _ _ _ _ H) as [f [st1 [ds1 [ds2 [Hd [Ha _]]]]]].
  destruct (visit_field_def_len _ _ _ _ _ _ Hm Hd) as [Hl _].
  destruct (is_plain_object (vf_attr f)) eqn:Hp.
  - destruct (apply_attrs_plain _ _ _ _ _ _ _ Ha Hp) as [-> _]. rewrite Hl. exact Hdef.
  - destruct (apply_attrs_len _ _ _ _ _ _ _ Ha Hp) as [-> _]. rewrite Hl, Hdef. apply final_len_nolen. exact Hattrs.
Qed.

(* ---- what the first loop keeps *)

Lemma loop1_add_kept pname is_root line f acc store ds :
  is_len_attr (vf_attr f) = false ->
  pa_fields (loop1_add pname is_root line f acc store ds) = snoc (pa_fields acc) f /\
  pa_lines (loop1_add pname is_root line f acc store ds) = snoc (pa_lines acc) line /\
  pa_fmap (loop1_add pname is_root line f acc store ds) = aset (pa_fmap acc) (vf_name f) (length (pa_fields acc)) /\
  pa_lenf (loop1_add pname is_root line f acc store ds) = pa_lenf acc /\
  (alookup (pa_fmap acc) (vf_name f) <> None ->
   In (dup_field_diag line (vf_name f) pname) (pa_diags (loop1_add pname is_root line f acc store ds))).
Proof.
  intros Hl. unfold loop1_add. rewrite Hl. cbn. repeat split; auto. intros Hdup.
  destruct (alookup (pa_fmap acc) (vf_name f)); [|contradiction]. apply in_or_app. right. left. reflexivity.
Qed.

Lemma alookup_aset {A} (m : list (string * A)) k v k' :
  alookup (aset m k v) k' = if String.eqb k' k then Some v else alookup m k'.
Proof.
  induction m as [|[k0 v0] m IH]; cbn [aset alookup].
  - reflexivity.
  - destruct (String.eqb_spec k k0) as [->|Hn]; cbn [alookup].
    + destruct (String.eqb k' k0); reflexivity.
    + destruct (String.eqb_spec k' k0) as [->|Hn'].
      * destruct (String.eqb_spec k0 k); [congruence|reflexivity].
      * exact IH.
Qed.

Lemma loop1_add_shape pname is_root line f acc store ds :
  (pa_fields (loop1_add pname is_root line f acc store ds) = pa_fields acc /\
   pa_lines (loop1_add pname is_root line f acc store ds) = pa_lines acc /\
   pa_fmap (loop1_add pname is_root line f acc store ds) = pa_fmap acc /\
   pa_lenf (loop1_add pname is_root line f acc store ds) = pa_lenf acc /\ is_len_attr (vf_attr f) = true) \/
  (pa_fields (loop1_add pname is_root line f acc store ds) = snoc (pa_fields acc) f /\
   pa_lines (loop1_add pname is_root line f acc store ds) = snoc (pa_lines acc) line /\
   pa_fmap (loop1_add pname is_root line f acc store ds) = aset (pa_fmap acc) (vf_name f) (length (pa_fields acc))).
Proof.
  unfold loop1_add. destruct (is_len_attr (vf_attr f)).
  - destruct (negb is_root); [left; cbn; auto|]. destruct (pa_lenf acc); [left; cbn; auto|right; cbn; auto].
  - right. cbn. auto.
Qed.

(* fields, lines and field-map entries only accumulate *)
Lemma loop1_keeps metas pname is_root l : forall acc acc',
  loop1 metas pname is_root l acc = ROk acc' ->
  (forall k f, nth_error (pa_fields acc) k = Some f -> nth_error (pa_fields acc') k = Some f) /\
  (forall k ln, nth_error (pa_lines acc) k = Some ln -> nth_error (pa_lines acc') k = Some ln) /\
  (forall n, alookup (pa_fmap acc) n <> None -> alookup (pa_fmap acc') n <> None) /\
  (length (pa_lines acc) = length (pa_fields acc) -> length (pa_lines acc') = length (pa_fields acc')).
Proof.
  induction l as [|fw l IH]; intros acc acc' H.
  - inversion H. subst. auto.
  - destruct (loop1_cons _ _ _ _ _ _ _ H) as [g [st [ds [_ Hr]]]]. destruct (IH _ _ Hr) as [I1 [I2 [I3 I4]]].
    destruct (loop1_add_shape pname is_root (start_line (fw_span fw)) g acc st ds) as [[E1 [E2 [E3 _]]]|[E1 [E2 E3]]].
    + rewrite E1, E2, E3 in *. auto.
    + rewrite E1, E2, E3 in *. repeat split.
      * intros k f Hk. apply I1. apply nth_error_snoc_old. exact Hk.
      * intros k ln Hk. apply I2. apply nth_error_snoc_old. exact Hk.
      * intros n Hn. apply I3. rewrite alookup_aset. destruct (String.eqb n (vf_name g)); [discriminate|exact Hn].
      * intros Hlen. apply I4. rewrite !snoc_length, Hlen. reflexivity.
Qed.

(* the keys of the field map are names of the declarations gone through *)
Lemma loop1_fmap_keys metas pname is_root l : forall acc acc' n,
  loop1 metas pname is_root l acc = ROk acc' -> alookup (pa_fmap acc') n <> None ->
  alookup (pa_fmap acc) n <> None \/ In n (map (fun fw => np_field_name (fw_def fw)) l).
Proof.
  induction l as [|fw l IH]; intros acc acc' n H Hn.
  - inversion H. subst. left. exact Hn.
  - destruct (loop1_cons _ _ _ _ _ _ _ H) as [g [st [ds [Hg Hr]]]]. destruct (IH _ _ n Hr Hn) as [Hx|Hx]; [|right; right; exact Hx].
    destruct (loop1_add_shape pname is_root (start_line (fw_span fw)) g acc st ds) as [[_ [_ [E3 _]]]|[_ [_ E3]]]; rewrite E3 in Hx.
    + left. exact Hx.
    + rewrite alookup_aset in Hx. destruct (String.eqb_spec n (vf_name g)) as [->|_]; [|left; exact Hx].
      right. left. symmetry. eapply visit_field_with_attr_name. exact Hg.
Qed.

(* a declaration that does not end up as a length field stays: where it is afterwards *)
Definition never_len (metas : list vmeta) (fw : field_with_attr) : Prop :=
  forall store f st ds, visit_field_with_attr metas fw store = ROk (f, st, ds) -> is_len_attr (vf_attr f) = false.

Lemma never_len_nolen metas fw : metas_ok metas -> has_len fw = false -> never_len metas fw.
Proof. intros Hm Hnl store f st ds H. eapply not_len_kept; eassumption. Qed.

Lemma loop1_kept_at metas pname is_root a fw b acc acc' :
  never_len metas fw -> length (pa_lines acc) = length (pa_fields acc) ->
  loop1 metas pname is_root (a ++ fw :: b) acc = ROk acc' ->
  exists acc1 f st ds,
    loop1 metas pname is_root a acc = ROk acc1 /\ visit_field_with_attr metas fw (pa_store acc1) = ROk (f, st, ds) /\
    nth_error (pa_fields acc') (length (pa_fields acc1)) = Some f /\
    nth (length (pa_fields acc1)) (pa_lines acc') 0 = start_line (fw_span fw) /\
    alookup (pa_fmap acc') (vf_name f) <> None /\
    (alookup (pa_fmap acc1) (vf_name f) <> None ->
     In (dup_field_diag (start_line (fw_span fw)) (vf_name f) pname) (pa_diags acc')).
Proof.
  intros Hnl Hlen H. destruct (loop1_app _ _ _ _ _ _ _ H) as [acc1 [H1 H2]].
  destruct (loop1_cons _ _ _ _ _ _ _ H2) as [f [st [ds [Hf Hr]]]].
  pose proof (Hnl _ _ _ _ Hf) as Hk.
  destruct (loop1_add_kept pname is_root (start_line (fw_span fw)) f acc1 st ds Hk) as [E1 [E2 [E3 [_ Edup]]]].
  destruct (loop1_keeps _ _ _ _ _ _ Hr) as [I1 [I2 [I3 _]]].
  destruct (loop1_keeps _ _ _ _ _ _ H1) as [_ [_ [_ J4]]]. pose proof (J4 Hlen) as Hlen1.
  exists acc1, f, st, ds. split; [exact H1|]. split; [exact Hf|]. split; [|split; [|split]].
  - apply I1. rewrite E1. apply nth_error_snoc_new.
  - apply nth_error_nth. apply I2. rewrite E2, <- Hlen1. apply nth_error_snoc_new.
  - apply I3. rewrite E3, alookup_aset, String.eqb_refl. discriminate.
  - intros Hdup. eapply loop1_mono; [exact Hr|]. apply Edup. exact Hdup.
Qed.

(* ---- C12, duplicate field name at the top level of a packet: reported on the first line of the later declaration.
   Guard: neither declaration carries a @lengthOf (dup_field_after_dropped_len_refuted is the counterexample otherwise) *)
Theorem dup_field_diagnosed t r d a fw1 m fw2 b :
  visit t = VOk r -> In d (packet_defs t) -> pd_fields d = a ++ fw1 :: m ++ fw2 :: b ->
  np_field_name (fw_def fw1) = np_field_name (fw_def fw2) -> has_len fw1 = false -> has_len fw2 = false ->
  has_diag r DK_DupField (start_line (fw_span fw2)).
Proof.
  intros Hv Hd Hfields Hname Hnl1 Hnl2.
  destruct (packet_def_diag_reaches _ _ _ Hv Hd) as [metas [pmap [store [p [st [ds [Hm [Hp Hincl]]]]]]]].
  destruct (visit_packet_def_inv _ _ _ _ _ _ _ Hp) as [acc [fields [ds2 [Hloop [_ [_ [_ ->]]]]]]]. rewrite Hfields in Hloop.
  pose proof (fun Hl => loop1_kept_at _ _ _ _ _ _ _ _ (never_len_nolen _ _ Hm Hnl1) Hl Hloop) as K1. destruct (K1 eq_refl) as [acc1 [f1 [st1 [ds1 [Ha [Hf1 _]]]]]].
  replace (a ++ fw1 :: m ++ fw2 :: b) with ((a ++ fw1 :: m) ++ fw2 :: b) in Hloop by (rewrite <- app_assoc; reflexivity).
  pose proof (fun Hl => loop1_kept_at _ _ _ _ _ _ _ _ (never_len_nolen _ _ Hm Hnl2) Hl Hloop) as K2. destruct (K2 eq_refl) as [acc2 [f2 [st2 [ds2' [Hb [Hf2 [_ [_ [_ Hdup]]]]]]]]].
  (* the first declaration has registered the name before the second is reached *)
  assert (Hreg : alookup (pa_fmap acc2) (vf_name f2) <> None).
  { destruct (loop1_app _ _ _ _ _ _ _ Hb) as [acc1' [Ha' Hrest]]. rewrite Ha in Ha'. inversion Ha'. subst acc1'.
    destruct (loop1_cons _ _ _ _ _ _ _ Hrest) as [g [stg [dsg [Hg Hm2]]]]. rewrite Hf1 in Hg. inversion Hg. subst g stg dsg.
    destruct (loop1_keeps _ _ _ _ _ _ Hm2) as [_ [_ [I3 _]]]. apply I3.
    destruct (loop1_add_kept (p_text (pd_name d)) (is_some (pd_root d)) (start_line (fw_span fw1)) f1 acc1 st1 ds1
                             (not_len_kept _ _ _ _ _ _ Hm Hf1 Hnl1)) as [_ [_ [E3 _]]].
    rewrite E3, alookup_aset. rewrite (visit_field_with_attr_name _ _ _ _ _ _ Hf1), (visit_field_with_attr_name _ _ _ _ _ _ Hf2), Hname.
    rewrite String.eqb_refl. discriminate. }
  eexists. split; [apply Hincl; apply in_or_app; left; apply Hdup; exact Hreg|]. cbn. auto.
Qed.

(* ---- tags and padding attributes leave the attribute of the field alone *)
Lemma apply_attrs_nolc line attrs : forall f store f' st ds,
  (forall a, In a attrs -> is_len_or_calc a = false) -> apply_attrs line attrs f store = ROk (f', st, ds) -> vf_attr f' = vf_attr f.
Proof.
  induction attrs as [|a r IH]; intros f store f' st ds Hno H.
  - cbn in H. inversion H. reflexivity.
  - destruct (apply_attrs_cons _ _ _ _ _ _ _ _ H) as [f1 [st1 [ds1 [ds2 [Ha [Hr _]]]]]].
    rewrite (IH _ _ _ _ _ (fun x Hx => Hno x (or_intror Hx)) Hr). pose proof (Hno a (or_introl eq_refl)) as Hna.
    destruct a as [sp x|sp x|sp x|sp x]; cbn in Hna; try discriminate; cbn [apply_attr] in Ha.
    + inversion Ha. apply attr_set_tag.
    + destruct (vf_attr f) eqn:Hf; inversion Ha; subst; exact Hf.
Qed.

(* the declarations of a packet in the second loop: the i-th kept field meets [step_attr] with its own line *)
Lemma packet_step_reaches metas pmap d store p st ds k f :
  visit_packet_def metas pmap d store = ROk (p, st, ds) ->
  forall acc, loop1 metas (p_text (pd_name d)) (is_some (pd_root d)) (pd_fields d) (mkPacc [] [] [] None [] store []) = ROk acc ->
  nth_error (pa_fields acc) k = Some f ->
  exists a dsk, step_attr pmap (pa_fmap acc) (nth k (pa_lines acc) 0) (vf_name f) (vf_attr f) = ROk (a, dsk) /\ incl dsk ds /\
                exists f', nth_error (vk_fields p) k = Some f' /\ vf_attr f' = a /\ skel f' = skel f.
Proof.
  intros Hp acc Hl1 Hk. destruct (visit_packet_def_inv _ _ _ _ _ _ _ Hp) as [acc0 [fields [ds2 [Hloop [Hl2 [-> [_ ->]]]]]]].
  rewrite Hl1 in Hloop. inversion Hloop. subst acc0.
  destruct (loop2_spec _ _ _ _ _ _ _ _ (seq_NoDup _ _) Hl2) as [_ [Hs [_ Hi]]].
  destruct (Hi k f) as [a [dsk [Hst [Hat Hin]]]]; [apply in_seq; pose proof (nth_error_Some_lt _ _ _ Hk); lia|exact Hk|].
  exists a, dsk. split; [exact Hst|]. split; [apply incl_appr; exact Hin|]. cbn [vk_fields].
  pose proof (Hs k) as Hsk. rewrite Hk in Hsk. destruct (option_map_Some_inv _ _ _ Hsk) as [f' [Hf' Hskel]].
  exists f'. split; [exact Hf'|]. split; [|exact Hskel]. rewrite Hf' in Hat. cbn in Hat. inversion Hat. reflexivity.
Qed.

(* ---- C12, match on an undeclared key field, at the top level of a packet: reported on the first line of the match field's
   declaration.  Guard: no @lengthOf / @calculatedFrom before the match field (they would replace the match attribute) *)
Theorem undeclared_match_key_diagnosed t r d a fw b sp md comma :
  visit t = VOk r -> In d (packet_defs t) -> pd_fields d = a ++ fw :: b -> fw_def fw = MatchField sp md comma ->
  (forall x, In x (fw_attrs fw) -> is_len_or_calc x = false) ->
  ~ In (p_text (mf_key md)) (map (fun x => np_field_name (fw_def x)) (pd_fields d)) ->
  has_diag r DK_UnknownMatchKey (start_line (fw_span fw)).
Proof.
  intros Hv Hd Hfields Hdef Hnolc Hundecl.
  destruct (packet_def_diag_reaches _ _ _ Hv Hd) as [metas [pmap [store [p [st [ds [Hm [Hp Hincl]]]]]]]].
  destruct (visit_packet_def_inv _ _ _ _ _ _ _ Hp) as [acc [fields [ds2 [Hloop _]]]]. pose proof Hloop as Hloop0. rewrite Hfields in Hloop.
  assert (Hnl : has_len fw = false).
  { unfold has_len, fw_len_targets. rewrite Hdef. cbn [app].
    assert (Hnil : flat_map (fun x => match x with FALengthOf _ l => [p_text (lo_from l)] | _ => [] end) (fw_attrs fw) = []).
    { induction (fw_attrs fw) as [|x xs IHx]; [reflexivity|]. cbn [flat_map]. rewrite IHx by (intros y Hy; apply Hnolc; right; exact Hy).
      pose proof (Hnolc x (or_introl eq_refl)) as Hx. destruct x; cbn in Hx; try discriminate; reflexivity. }
    rewrite Hnil. reflexivity. }
  pose proof (fun Hl => loop1_kept_at _ _ _ _ _ _ _ _ (never_len_nolen _ _ Hm Hnl) Hl Hloop) as K. destruct (K eq_refl) as [acc1 [f [st1 [ds1 [_ [Hf [Hnth [Hline _]]]]]]]].
  (* the field is the match field with its placeholder key *)
  destruct (visit_field_with_attr_inv _ _ _ _ _ _ Hf) as [f0 [st0 [ds0 [ds0' [Hd0 [Ha0 _]]]]]].
  rewrite Hdef in Hd0. cbn [visit_field_def] in Hd0. unfold visit_match_field in Hd0. inversion Hd0. subst f0.
  pose proof (apply_attrs_nolc _ _ _ _ _ _ _ Hnolc Ha0) as Hattr. cbn [vf_attr] in Hattr.
  destruct (packet_step_reaches _ _ _ _ _ _ _ _ _ Hp acc Hloop0 Hnth) as [a' [dsk [Hst [Hin _]]]].
  (* the key is no key of the field map *)
  assert (Hnone : alookup (pa_fmap acc) (p_text (mf_key md)) = None).
  { destruct (alookup (pa_fmap acc) (p_text (mf_key md))) eqn:Hx; [|reflexivity]. exfalso.
    destruct (loop1_fmap_keys _ _ _ _ _ _ (p_text (mf_key md)) Hloop0) as [Hy|Hy]; [rewrite Hx; discriminate|cbn in Hy; contradiction|].
    apply Hundecl. exact Hy. }
  rewrite Hattr in Hst. cbn [step_attr fref_name] in Hst. rewrite Hnone in Hst. inversion Hst. subst a' dsk.
  eexists. split; [apply Hincl; apply Hin; left; reflexivity|]. cbn. split; [reflexivity|exact Hline].
Qed.

(* ---- a length attribute names a target written on the declaration *)
Definition len_from (targets : list string) (a : vattr) : Prop :=
  forall tgt ty, a = VALen tgt ty -> exists tn, tgt = FRNew tn /\ In tn targets.

Definition attr_targets (attrs : list field_attribute) : list string :=
  flat_map (fun a => match a with FALengthOf _ l => [p_text (lo_from l)] | _ => [] end) attrs.

Lemma len_from_incl T T' a : len_from T a -> incl T T' -> len_from T' a.
Proof. intros H Hi tgt ty Ha. destruct (H tgt ty Ha) as [tn [Ht Hin]]. exists tn. split; [exact Ht|apply Hi; exact Hin]. Qed.

Lemma apply_attrs_len_from line attrs : forall f store f' st ds T,
  apply_attrs line attrs f store = ROk (f', st, ds) -> len_from T (vf_attr f) -> len_from (T ++ attr_targets attrs) (vf_attr f').
Proof.
  induction attrs as [|a r IH]; intros f store f' st ds T H Hl.
  - cbn in H. inversion H. subst. cbn. rewrite app_nil_r. exact Hl.
  - destruct (apply_attrs_cons _ _ _ _ _ _ _ _ H) as [f1 [st1 [ds1 [ds2 [Ha [Hr _]]]]]].
    assert (Hl1 : len_from (T ++ attr_targets [a]) (vf_attr f1)).
    { destruct a as [sp x|sp x|sp x|sp x]; cbn [apply_attr] in Ha; cbn [attr_targets flat_map app].
      - destruct (is_plain_object (vf_attr f)).
        + inversion Ha. subst. eapply len_from_incl; [exact Hl|apply incl_appl; apply incl_refl].
        + destruct (field_get_type (vf_attr f)); [|discriminate]. inversion Ha. rewrite attr_set_attr.
          intros tgt ty Hx. inversion Hx. eexists. split; [reflexivity|]. apply in_or_app. right. left. reflexivity.
      - rewrite app_nil_r. destruct (is_plain_object (vf_attr f)).
        + inversion Ha. subst. exact Hl.
        + destruct (field_get_type (vf_attr f)); [|discriminate]. inversion Ha. rewrite attr_set_attr. intros tgt ty Hx. discriminate.
      - rewrite app_nil_r. inversion Ha. rewrite attr_set_tag. exact Hl.
      - rewrite app_nil_r. assert (Hf1 : f1 = f) by (destruct (vf_attr f); inversion Ha; reflexivity). subst f1. exact Hl. }
    pose proof (IH _ _ _ _ _ _ Hr Hl1) as Hx.
    replace (T ++ attr_targets (a :: r)) with ((T ++ attr_targets [a]) ++ attr_targets r); [exact Hx|].
    rewrite <- app_assoc. f_equal. unfold attr_targets. cbn [flat_map]. rewrite app_nil_r. reflexivity.
Qed.

Lemma visit_field_with_attr_len_from metas fw store v st ds :
  metas_ok metas -> visit_field_with_attr metas fw store = ROk (v, st, ds) -> len_from (fw_len_targets fw) (vf_attr v).
Proof.
  intros Hm H. destruct (visit_field_with_attr_inv _ _ _ _ _ _ H) as [f [st1 [ds1 [ds2 [Hd [Ha _]]]]]].
  unfold fw_len_targets. apply (apply_attrs_len_from _ _ _ _ _ _ _ _ Ha).
  destruct (visit_field_def_len _ _ _ _ _ _ Hm Hd) as [Hl _].
  destruct (fw_def fw) as [sp rep decl comma|sp rep d|sp rep ft fn doc comma|sp d|sp d|sp d comma]; cbn [is_length_field] in Hl;
    try (intros tgt ty Hx; rewrite Hx in Hl; discriminate).
  cbn [visit_field_def] in Hd. inversion Hd. cbn. intros tgt ty Hx. inversion Hx. eexists. split; [reflexivity|left; reflexivity].
Qed.

Lemma loop1_lenf_none metas pname is_root l : forall acc acc',
  metas_ok metas -> (forall x, In x l -> has_len x = false) ->
  loop1 metas pname is_root l acc = ROk acc' -> pa_lenf acc = None -> pa_lenf acc' = None.
Proof.
  induction l as [|fw l IH]; intros acc acc' Hm Hno H Hn.
  - inversion H. subst. exact Hn.
  - destruct (loop1_cons _ _ _ _ _ _ _ H) as [g [st [ds [Hg Hr]]]]. eapply IH; [exact Hm|intros x Hx; apply Hno; right; exact Hx|exact Hr|].
    destruct (loop1_add_kept pname is_root (start_line (fw_span fw)) g acc st ds
                             (not_len_kept _ _ _ _ _ _ Hm Hg (Hno fw (or_introl eq_refl)))) as [_ [_ [_ [E4 _]]]]. rewrite E4. exact Hn.
Qed.

(* ---- C12, length-of an undeclared target: the (first) length field of the root packet whose only target is no field of
   the packet is reported on the first line of its declaration (len_target_of_dropped_len_refuted: not when the length
   field itself is refused) *)
Theorem undeclared_len_target_diagnosed t r d a fw b tn :
  visit t = VOk r -> In d (packet_defs t) -> pd_root d <> None -> pd_fields d = a ++ fw :: b ->
  (forall x, In x a -> has_len x = false) ->
  final_is_len fw = true -> NoPanic.is_object_field (fw_def fw) = false -> fw_len_targets fw = [tn] ->
  ~ In tn (map (fun x => np_field_name (fw_def x)) (pd_fields d)) ->
  has_diag r DK_UnknownLenTarget (start_line (fw_span fw)).
Proof.
  intros Hv Hd Hroot Hfields Hnolen Hfin Hnoobj Htargets Hundecl.
  destruct (packet_def_diag_reaches _ _ _ Hv Hd) as [metas [pmap [store [p [st [ds [Hm [Hp Hincl]]]]]]]].
  destruct (visit_packet_def_inv _ _ _ _ _ _ _ Hp) as [acc [fields [ds2 [Hloop _]]]]. pose proof Hloop as Hloop0. rewrite Hfields in Hloop.
  assert (His_root : is_some (pd_root d) = true) by (destruct (pd_root d); [reflexivity|contradiction]). rewrite His_root in Hloop.
  destruct (loop1_app _ _ _ _ _ _ _ Hloop) as [acc1 [H1 H2]].
  destruct (loop1_cons _ _ _ _ _ _ _ H2) as [f [st1 [ds1 [Hf Hr]]]].
  pose proof (visit_field_with_attr_len _ _ _ _ _ _ Hm Hf Hnoobj) as Hlen. rewrite Hfin in Hlen.
  pose proof (loop1_lenf_none _ _ _ _ _ _ Hm Hnolen H1 eq_refl) as Hnone1.
  destruct (loop1_keeps _ _ _ _ _ _ H1) as [_ [_ [_ J4]]]. pose proof (J4 eq_refl) as Hlen1.
  destruct (loop1_keeps _ _ _ _ _ _ Hr) as [I1 [I2 _]].
  (* the length field is kept as THE length field *)
  assert (Hadd : pa_fields (loop1_add (p_text (pd_name d)) true (start_line (fw_span fw)) f acc1 st1 ds1) = snoc (pa_fields acc1) f /\
                 pa_lines (loop1_add (p_text (pd_name d)) true (start_line (fw_span fw)) f acc1 st1 ds1) = snoc (pa_lines acc1) (start_line (fw_span fw))).
  { unfold loop1_add. rewrite Hlen, Hnone1. cbn. auto. }
  destruct Hadd as [E1 E2].
  assert (Hnth : nth_error (pa_fields acc) (length (pa_fields acc1)) = Some f) by (apply I1; rewrite E1; apply nth_error_snoc_new).
  assert (Hline : nth (length (pa_fields acc1)) (pa_lines acc) 0 = start_line (fw_span fw)).
  { apply nth_error_nth. apply I2. rewrite E2, <- Hlen1. apply nth_error_snoc_new. }
  (* its attribute names the target *)
  destruct (vf_attr f) as [| | |tgt ty| | | |] eqn:Hattr; try discriminate.
  destruct (visit_field_with_attr_len_from _ _ _ _ _ _ Hm Hf tgt ty Hattr) as [x [-> Hx]]. rewrite Htargets in Hx.
  destruct Hx as [<-|[]].
  destruct (packet_step_reaches _ _ _ _ _ _ _ _ _ Hp acc Hloop0 Hnth) as [a' [dsk [Hst [Hin _]]]].
  assert (Hnone : alookup (pa_fmap acc) tn = None).
  { destruct (alookup (pa_fmap acc) tn) eqn:Hy; [|reflexivity]. exfalso.
    destruct (loop1_fmap_keys _ _ _ _ _ _ tn Hloop0) as [Hz|Hz]; [rewrite Hy; discriminate|cbn in Hz; contradiction|].
    apply Hundecl. exact Hz. }
  rewrite Hattr in Hst. cbn [step_attr fref_name field_get_type] in Hst. rewrite Hnone in Hst. inversion Hst. subst a' dsk.
  eexists. split; [apply Hincl; apply Hin; left; reflexivity|]. cbn. split; [reflexivity|exact Hline].
Qed.

(* ---- ResolveDependencies *)

(* the inner loop of [resolve_field] over the fields of an inline object is [resolve_fields] *)
Lemma resolve_inline_eq pmap n pn r pn2 ro lf fs fm mf pl la rep doc tag ln :
  resolve_field pmap (mkVField n (VAObj true pn (Some r) (Some (mkVPacket pn2 ro lf fs fm mf pl))) la rep doc tag ln) =
  (mkVField n (VAObj true pn (Some r) (Some (mkVPacket pn2 ro lf (fst (resolve_fields pmap fs)) fm mf pl))) la rep doc tag ln,
   snd (resolve_fields pmap fs)).
Proof.
  cbn [resolve_field].
  assert (Hgo : forall l, (fix go (l : list vfield) : list vfield * list diag :=
                             match l with
                             | [] => ([], [])
                             | x :: rest => let '(x', d1) := resolve_field pmap x in let '(rest', d2) := go rest in (x' :: rest', d1 ++ d2)
                             end) l = resolve_fields pmap l).
  { induction l as [|x l IH]; [reflexivity|]. cbn [resolve_fields]. rewrite IH. reflexivity. }
  rewrite Hgo. destruct (resolve_fields pmap fs) as [fs' ds]. reflexivity.
Qed.

Lemma resolve_fields_incl pmap fs f : In f fs -> incl (snd (resolve_field pmap f)) (snd (resolve_fields pmap fs)).
Proof.
  induction fs as [|x fs IH]; intros Hin; [contradiction|]. cbn [resolve_fields].
  destruct (resolve_field pmap x) as [x1 d1] eqn:Hx. destruct (resolve_fields pmap fs) as [r1 d2] eqn:Hr. cbn [snd] in *.
  destruct Hin as [->|Hin]; [rewrite Hx; apply incl_appl; apply incl_refl|apply incl_appr; apply IH; exact Hin].
Qed.

Lemma resolve_packets_incl pmap ps p : In p ps -> incl (snd (resolve_fields pmap (vk_fields p))) (snd (resolve_packets pmap ps)).
Proof.
  induction ps as [|x ps IH]; intros Hin; [contradiction|]. cbn [resolve_packets].
  destruct (resolve_fields pmap (vk_fields x)) as [f1 d1] eqn:Hx. destruct (resolve_packets pmap ps) as [r1 d2] eqn:Hr. cbn [snd] in *.
  destruct Hin as [->|Hin]; [rewrite Hx; apply incl_appl; apply incl_refl|apply incl_appr; apply IH; exact Hin].
Qed.

(* what ResolveDependencies says about one field of a kept packet reaches the result *)
Lemma finish_field_diags s p f : In p (s_packets s) -> In f (vk_fields p) ->
  incl (snd (resolve_field (Visitor.packet_names (s_packets s)) f)) (r_diags (finish s)).
Proof.
  intros Hp Hf. rewrite finish_diags. apply incl_appr. eapply incl_tran; [apply resolve_fields_incl; exact Hf|].
  apply resolve_packets_incl. exact Hp.
Qed.

Lemma mem_false_not_In n l : ~ In n l -> mem n l = false.
Proof. intros H. destruct (mem n l) eqn:Hm; [apply mem_In in Hm; contradiction|reflexivity]. Qed.

(* the names AddMetaData has registered are names of MetaData items of the file *)
Lemma phase_metas_names t m : In m (s_metas (phase_metas t st0)) -> In (vm_name m) (meta_names t).
Proof.
  rewrite phase_metas_items. unfold meta_names.
  assert (H : forall l s, (forall i, In i l -> In i (meta_items t)) ->
                          (forall m, In m (s_metas s) -> In (vm_name m) (map meta_item_name (meta_items t))) ->
                          forall m, In m (s_metas (fold_left visit_meta_item l s)) -> In (vm_name m) (map meta_item_name (meta_items t))).
  { induction l as [|i l IH]; intros s Hsub Hs; cbn [fold_left]; [exact Hs|]. apply IH; [intros x Hx; apply Hsub; right; exact Hx|].
    destruct (visit_meta_item_shape s i) as [s' [m0 [-> [Hm' [_ [Hn _]]]]]]. intros x Hx. unfold add_meta in Hx.
    destruct (find_meta _ _); [apply Hs; rewrite <- Hm'; exact Hx|]. cbn in Hx. apply In_snoc in Hx. destruct Hx as [Hx| ->].
    - apply Hs. rewrite <- Hm'. exact Hx.
    - rewrite Hn. apply in_map. apply Hsub. left. reflexivity. }
  apply H; [auto|intros x []].
Qed.

Lemma find_meta_none_of_names ms n : (forall m, In m ms -> vm_name m <> n) -> find_meta ms n = None.
Proof.
  induction ms as [|x ms IH]; intros H; [reflexivity|]. cbn [find_meta].
  destruct (String.eqb_spec n (vm_name x)) as [->|_]; [exfalso; apply (H x); [left; reflexivity|reflexivity]|].
  apply IH. intros m Hm. apply H. right. exact Hm.
Qed.

Lemma add_packet_keeps_packet s p q : In q (s_packets s) -> In q (s_packets (add_packet s p)).
Proof. rewrite add_packet_packets. destruct (mem _ _); [auto|]. intros H. apply In_snoc. left. exact H. Qed.

Lemma visit_packets_keeps_packet l : forall s s' q, visit_packets l s = ROk s' -> In q (s_packets s) -> In q (s_packets s').
Proof.
  induction l as [|d l IH]; intros s s' q H Hq.
  - inversion H. subst. exact Hq.
  - destruct (visit_packets_cons _ _ _ _ H) as [p [st [ds [_ Hr]]]]. eapply IH; [exact Hr|]. apply add_packet_keeps_packet. exact Hq.
Qed.

(* a packet definition whose name is new: its packet, as VisitPacketDefinition returns it, is in the result, and the names of the
   final PacketsMap are the names of the packet definitions *)
Lemma kept_packet t r A d B :
  visit t = VOk r -> packet_defs t = A ++ d :: B -> ~ In (pd_name_text d) (map pd_name_text A) ->
  exists s metas pmap store p st ds,
    r = finish s /\ metas_ok metas /\ (forall n, find_meta metas n <> None -> In n (meta_names t)) /\
    (forall n, In n pmap -> In n (Faults.packet_names t)) /\
    visit_packet_def metas pmap d store = ROk (p, st, ds) /\ In p (s_packets s) /\ incl ds (r_diags r) /\
    (forall n, In n (Visitor.packet_names (s_packets s)) -> In n (Faults.packet_names t)).
Proof.
  intros Hv Hdefs Hfresh. destruct (visit_ok_inv _ _ Hv) as [s [Hs Hr]]. pose proof Hs as Hs0. rewrite packets_of_defs, Hdefs in Hs.
  destruct (phases_no_packets t) as [Hnop _].
  destruct (visit_packets_app _ _ _ _ Hs) as [sa [Ha Hrest]].
  destruct (visit_packets_cons _ _ _ _ Hrest) as [p [st [ds [Hp Hrest2]]]].
  exists s, (s_metas sa), (Visitor.packet_names (s_packets sa)), (s_store sa), p, st, ds.
  assert (Hmetas : s_metas sa = s_metas (phase_metas t st0)) by (rewrite (visit_packets_metas _ _ _ Ha), phase_options_metas; reflexivity).
  split; [exact Hr|]. split; [rewrite Hmetas; apply phase_metas_ok|]. split; [|split; [|split; [exact Hp|split; [|split]]]].
  - intros n Hn. rewrite Hmetas in Hn. destruct (find_meta (s_metas (phase_metas t st0)) n) as [m|] eqn:Hf; [|contradiction].
    assert (Hname : vm_name m = n).
    { clear - Hf. induction (s_metas (phase_metas t st0)) as [|x ms IH]; cbn [find_meta] in Hf; [discriminate|].
      destruct (String.eqb_spec n (vm_name x)); [inversion Hf; subst; auto|apply IH; exact Hf]. }
    rewrite <- Hname. apply phase_metas_names. eapply find_meta_In. exact Hf.
  - intros n Hn. rewrite (visit_packets_names _ _ _ n Ha), Hnop in Hn. destruct Hn as [[]|Hn].
    unfold Faults.packet_names. rewrite Hdefs, map_app. apply in_or_app. left. exact Hn.
  - eapply visit_packets_keeps_packet; [exact Hrest2|]. rewrite add_packet_packets. cbn [s_packets].
    destruct (visit_packet_def_shape _ _ _ _ _ _ _ Hp) as [Hpn _].
    destruct (mem (vk_name p) _) eqn:Hm.
    + exfalso. apply mem_In in Hm. rewrite (visit_packets_names _ _ _ (vk_name p) Ha), Hnop in Hm. destruct Hm as [[]|Hm].
      apply Hfresh. rewrite <- Hpn. exact Hm.
    + apply In_snoc. right. reflexivity.
  - subst r. eapply incl_tran; [|apply finish_mono]. eapply incl_tran; [|eapply visit_packets_mono; exact Hrest2].
    eapply incl_tran; [|apply add_packet_mono]. cbn. apply incl_appr. apply incl_refl.
  - intros n Hn. rewrite (visit_packets_names _ _ _ n Hs), Hnop in Hn. destruct Hn as [[]|Hn].
    unfold Faults.packet_names. rewrite Hdefs. exact Hn.
Qed.

(* the visit of an object field whose type is no MetaData entry *)
Lemma visit_object_field metas fw store f st ds sp rep ft fn doc comma :
  fw_def fw = ObjectField sp rep ft fn doc comma -> find_meta metas (p_text ft) = None ->
  visit_field_with_attr metas fw store = ROk (f, st, ds) ->
  vf_attr f = VAObj false (p_text ft) None None /\ vf_line f = start_line sp.
Proof.
  intros Hdef Hnone H. destruct (visit_field_with_attr_inv _ _ _ _ _ _ H) as [f0 [st0 [ds0 [ds1 [Hd [Ha _]]]]]].
  rewrite Hdef in Hd. cbn [visit_field_def] in Hd. rewrite Hnone in Hd. inversion Hd. subst f0.
  destruct (apply_attrs_plain _ _ _ _ _ _ _ Ha eq_refl) as [Hx [Hy _]]. auto.
Qed.

(* ---- C12, an object field at the top level of a packet (that is not itself rejected as a duplicate) whose type is neither a
   packet nor a MetaData entry: reported, on the line of the fieldDefinition (undeclared_packet_line_refuted: not on the line
   of a prefixed attribute; undeclared_packet_in_dup_packet_refuted: not in a rejected packet) *)
Theorem undeclared_object_type_diagnosed t r A d B a fw b sp rep ft fn doc comma :
  visit t = VOk r ->
  packet_defs t = A ++ d :: B -> ~ In (pd_name_text d) (map pd_name_text A) ->
  pd_fields d = a ++ fw :: b -> fw_def fw = ObjectField sp rep ft fn doc comma ->
  ~ In (p_text ft) (Faults.packet_names t) -> ~ In (p_text ft) (meta_names t) ->
  has_diag r DK_UnknownPacket (start_line sp).
Proof.
  intros Hv Hdefs Hfreshname Hfields Hdef Hnp Hnm.
  destruct (kept_packet _ _ _ _ _ Hv Hdefs Hfreshname) as [s [metas [pmap [store [p [st [ds [Hr [Hm [Hmn [Hpm [Hp [Hpin [_ Hfinal]]]]]]]]]]]]]].
  destruct (visit_packet_def_inv _ _ _ _ _ _ _ Hp) as [acc [fields [ds2 [Hloop _]]]]. pose proof Hloop as Hloop0. rewrite Hfields in Hloop.
  assert (Hnone : find_meta metas (p_text ft) = None).
  { destruct (find_meta metas (p_text ft)) eqn:Hx; [|reflexivity]. exfalso. apply Hnm. apply Hmn. rewrite Hx. discriminate. }
  assert (Hnl : never_len metas fw).
  { intros store0 f0 st0 ds0 H0. destruct (visit_object_field _ _ _ _ _ _ _ _ _ _ _ _ Hdef Hnone H0) as [-> _]. reflexivity. }
  pose proof (fun Hl => loop1_kept_at _ _ _ _ _ _ _ _ Hnl Hl Hloop) as K. destruct (K eq_refl) as [acc1 [f [st1 [ds1 [_ [Hf [Hnth _]]]]]]].
  destruct (visit_object_field _ _ _ _ _ _ _ _ _ _ _ _ Hdef Hnone Hf) as [Hattr Hline].
  destruct (packet_step_reaches _ _ _ _ _ _ _ _ _ Hp acc Hloop0 Hnth) as [a' [dsk [Hst [_ [f' [Hf' [Ha' Hskel]]]]]]].
  rewrite Hattr in Hst. cbn [step_attr] in Hst. rewrite (mem_false_not_In _ _ (fun H => Hnp (Hpm _ H))) in Hst. inversion Hst as [[Hea Hed]]. rewrite <- Hea in Ha'.
  pose proof (finish_field_diags s p f' Hpin (nth_error_In _ _ Hf')) as Hres.
  destruct f' as [n0 a0 la0 rep0 doc0 tag0 ln0]. cbn [vf_attr] in Ha'. subst a0. cbn [resolve_field] in Hres.
  rewrite (mem_false_not_In _ _ (fun H => Hnp (Hfinal _ H))) in Hres. cbn [snd] in Hres.
  eexists. split; [rewrite Hr; apply Hres; left; reflexivity|]. cbn. split; [reflexivity|].
  unfold skel in Hskel. cbn in Hskel. inversion Hskel. rewrite Hline. reflexivity.
Qed.

(* ---- C12, an undeclared packet as the value of a match pair (with a single key) of a top-level match field of a packet that is
   not rejected: reported on the line of the pair.  Guard: no @lengthOf / @calculatedFrom before the match field *)
Theorem undeclared_packet_in_pair_diagnosed t r A d B a fw b sp md comma pr :
  visit t = VOk r ->
  packet_defs t = A ++ d :: B -> ~ In (pd_name_text d) (map pd_name_text A) ->
  pd_fields d = a ++ fw :: b -> fw_def fw = MatchField sp md comma ->
  (forall x, In x (fw_attrs fw) -> is_len_or_calc x = false) ->
  In pr (mf_pairs md) -> (match PT.mp_key pr with MKList _ => False | _ => True end) ->
  ~ In (p_text (mp_ident pr)) (Faults.packet_names t) ->
  has_diag r DK_UnknownPacket (start_line (mp_span pr)).
Proof.
  intros Hv Hdefs Hfreshname Hfields Hdef Hnolc Hpr Hsingle Hnp.
  destruct (kept_packet _ _ _ _ _ Hv Hdefs Hfreshname) as [s [metas [pmap [store [p [st [ds [Hr [Hm [Hmn [Hpm [Hp [Hpin [_ Hfinal]]]]]]]]]]]]]].
  destruct (visit_packet_def_inv _ _ _ _ _ _ _ Hp) as [acc [fields [ds2 [Hloop _]]]]. pose proof Hloop as Hloop0. rewrite Hfields in Hloop.
  assert (Hvisit : forall store0 f0 st0 ds0, visit_field_with_attr metas fw store0 = ROk (f0, st0, ds0) ->
                   vf_attr f0 = VAMatch (FRNew (p_text (mf_key md))) (flat_map visit_match_pair (mf_pairs md)) /\ vf_name f0 = p_text (mf_name md)).
  { intros store0 f0 st0 ds0 H0. destruct (visit_field_with_attr_inv _ _ _ _ _ _ H0) as [g [stg [dsg [dsg' [Hd0 [Ha0 _]]]]]].
    rewrite Hdef in Hd0. cbn [visit_field_def] in Hd0. unfold visit_match_field in Hd0. inversion Hd0. subst g.
    rewrite (apply_attrs_nolc _ _ _ _ _ _ _ Hnolc Ha0), (apply_attrs_name _ _ _ _ _ _ _ Ha0). auto. }
  assert (Hnl : never_len metas fw). { intros store0 f0 st0 ds0 H0. destruct (Hvisit _ _ _ _ H0) as [-> _]. reflexivity. }
  pose proof (fun Hl => loop1_kept_at _ _ _ _ _ _ _ _ Hnl Hl Hloop) as K. destruct (K eq_refl) as [acc1 [f [st1 [ds1 [_ [Hf [Hnth _]]]]]]].
  destruct (Hvisit _ _ _ _ Hf) as [Hattr Hname].
  destruct (packet_step_reaches _ _ _ _ _ _ _ _ _ Hp acc Hloop0 Hnth) as [a' [dsk [Hst [_ [f' [Hf' [Ha' Hskel]]]]]]].
  (* the second loop keeps the pairs *)
  assert (Hpairs : exists key, a' = VAMatch key (flat_map visit_match_pair (mf_pairs md))).
  { rewrite Hattr in Hst. cbn [step_attr fref_name] in Hst. destruct (alookup (pa_fmap acc) (p_text (mf_key md))); inversion Hst; eexists; reflexivity. }
  destruct Hpairs as [key Hea]. rewrite Hea in Ha'.
  pose proof (finish_field_diags s p f' Hpin (nth_error_In _ _ Hf')) as Hres.
  destruct f' as [n0 a0 la0 rep0 doc0 tag0 ln0]. cbn [vf_attr] in Ha'. subst a0. cbn [resolve_field snd] in Hres.
  (* the pair is among them, with its line *)
  assert (Hvp : In (mkVPair (match PT.mp_key pr with MKDigits k | MKString k => p_text k | MKList _ => "" end) (p_text (mp_ident pr)) (start_line (mp_span pr)))
                   (flat_map visit_match_pair (mf_pairs md))).
  { apply in_flat_map. exists pr. split; [exact Hpr|]. unfold visit_match_pair. destruct (PT.mp_key pr); try contradiction; left; reflexivity. }
  eexists. split.
  - rewrite Hr. apply Hres. unfold pair_diags. apply in_flat_map. eexists. split; [exact Hvp|]. cbn [vp_value].
    rewrite (mem_false_not_In _ _ (fun H => Hnp (Hfinal _ H))). left. reflexivity.
  - cbn. auto.
Qed.

(* ---- C12, duplicate match key *)

Definition model_keys (md : match_field_decl) : list (string * nat) :=
  map (fun p => (vp_key p, vp_line p)) (flat_map visit_match_pair (mf_pairs md)).

(* the repaired check finds every key that occurred before *)
Lemma match_dup_loop_spec pairs : forall seen l,
  In l (later_dups seen (map (fun p => (vp_key p, vp_line p)) pairs)) ->
  exists d, In d (match_dup_loop pairs seen) /\ d_kind d = DK_DupMatchKey /\ d_line d = l.
Proof.
  induction pairs as [|p pairs IH]; intros seen l H; cbn [map later_dups match_dup_loop] in *; [contradiction|].
  change (name_in (vp_key p) seen) with (mem (vp_key p) seen) in H. destruct (mem (vp_key p) seen).
  - destruct H as [<-|H].
    + eexists. split; [left; reflexivity|]. cbn. auto.
    + destruct (IH _ _ H) as [d [Hd Hk]]. exists d. split; [right; exact Hd|exact Hk].
  - exact (IH _ _ H).
Qed.

(* the keys as the visitor lists them are the keys in source order, when no key list mixes numbers and strings and the span
   of a single-key pair starts at its key (as in every tree the parser builds) *)
Definition homogeneous (ks : list ptok) : Prop :=
  (forall k, In k ks -> p_type k = T_DIGITS) \/ (forall k, In k ks -> p_type k = T_STRING).

Definition pair_wf (p : match_pair) : Prop :=
  match PT.mp_key p with
  | MKDigits k | MKString k => start_line (mp_span p) = p_line k
  | MKList l => homogeneous (key_items l)
  end.

Lemma filter_all {A} (g : A -> bool) (l : list A) : (forall x, In x l -> g x = true) -> filter g l = l.
Proof.
  induction l as [|x l IH]; intros H; [reflexivity|]. cbn [filter]. rewrite (H x (or_introl eq_refl)). f_equal.
  apply IH. intros y Hy. apply H. right. exact Hy.
Qed.

Lemma filter_none {A} (g : A -> bool) (l : list A) : (forall x, In x l -> g x = false) -> filter g l = [].
Proof.
  induction l as [|x l IH]; intros H; [reflexivity|]. cbn [filter]. rewrite (H x (or_introl eq_refl)).
  apply IH. intros y Hy. apply H. right. exact Hy.
Qed.

Lemma map_pair_keys val ks :
  map (fun p => (vp_key p, vp_line p)) (map (fun k => mkVPair (p_text k) val (p_line k)) ks) = map (fun k => (p_text k, p_line k)) ks.
Proof. induction ks as [|k ks IH]; [reflexivity|]. cbn [map]. rewrite IH. reflexivity. Qed.

Lemma model_keys_spec md : Forall pair_wf (mf_pairs md) -> model_keys md = match_keys md.
Proof.
  unfold model_keys, match_keys. induction (mf_pairs md) as [|p ps IH]; intros Hwf; [reflexivity|].
  inversion Hwf as [|x xs Hp Hps]. subst. cbn [flat_map]. rewrite !map_app, (IH Hps). f_equal.
  unfold visit_match_pair, pair_keys, pair_wf in *. destruct (PT.mp_key p) as [k|k|l].
  - cbn. rewrite Hp. reflexivity.
  - cbn. rewrite Hp. reflexivity.
  - change (li_first l :: map snd (li_rest l)) with (key_items l). destruct Hp as [Hd|Hs].
    + rewrite (filter_all _ _ (fun k Hk => proj2 (Nat.eqb_eq _ _) (Hd k Hk))).
      rewrite (filter_none (fun k => Nat.eqb (p_type k) T_STRING) (key_items l)) by (intros k Hk; rewrite (Hd k Hk); reflexivity).
      rewrite app_nil_r. apply map_pair_keys.
    + rewrite (filter_none (fun k => Nat.eqb (p_type k) T_DIGITS) (key_items l)) by (intros k Hk; rewrite (Hs k Hk); reflexivity).
      rewrite (filter_all _ _ (fun k Hk => proj2 (Nat.eqb_eq _ _) (Hs k Hk))). cbn [app]. apply map_pair_keys.
Qed.

(* a key that occurred earlier in the same match field, at the top level of a packet: reported on the line of the later key *)
Theorem dup_match_key_diagnosed t r d a fw b sp md comma l :
  visit t = VOk r -> In d (packet_defs t) -> pd_fields d = a ++ fw :: b -> fw_def fw = MatchField sp md comma ->
  Forall pair_wf (mf_pairs md) -> In l (later_dups [] (match_keys md)) ->
  has_diag r DK_DupMatchKey l.
Proof.
  intros Hv Hd Hfields Hdef Hwf Hl. rewrite <- (model_keys_spec _ Hwf) in Hl.
  destruct (match_dup_loop_spec _ _ _ Hl) as [dg [Hdg Hk]].
  destruct (packet_def_diag_reaches _ _ _ Hv Hd) as [metas [pmap [store [p [st [ds [Hm [Hp Hincl]]]]]]]].
  destruct (visit_packet_def_inv _ _ _ _ _ _ _ Hp) as [acc [fields [ds2 [Hloop [_ [_ [_ ->]]]]]]]. rewrite Hfields in Hloop.
  destruct (loop1_app _ _ _ _ _ _ _ Hloop) as [acc1 [_ H2]].
  destruct (loop1_cons _ _ _ _ _ _ _ H2) as [f [st1 [ds1 [Hf Hr]]]].
  destruct (visit_field_with_attr_inv _ _ _ _ _ _ Hf) as [f0 [st0 [ds0 [ds0' [Hd0 [_ ->]]]]]].
  rewrite Hdef in Hd0. cbn [visit_field_def] in Hd0. unfold visit_match_field in Hd0. inversion Hd0. subst ds0.
  exists dg. split; [|exact Hk]. apply Hincl. apply in_or_app. left. eapply loop1_mono; [exact Hr|].
  apply loop1_add_mono. apply in_or_app. right. apply in_or_app. left. exact Hdg.
Qed.

(* ---- C12, an undeclared packet as the type of a field of an inline object *)

(* the first loop of VisitInerObjectField *)
Fixpoint inline_go (metas : list vmeta) (pname : string) (l : list field_def) (store : list fcell) (names : list string)
  : res (list vfield * list fcell * list diag) :=
  match l with
  | [] => ROk ([], store, [])
  | x :: r =>
      match visit_field_def metas x store with
      | RPanic e => RPanic e
      | ROk (v, st1, ds1) =>
          let dup := if mem (vf_name v) names then [dup_field_diag (start_line (fd_span x)) (vf_name v) pname] else [] in
          match inline_go metas pname r st1 (vf_name v :: names) with
          | RPanic e => RPanic e
          | ROk (vs, st2, ds2) => ROk (v :: vs, st2, ds1 ++ dup ++ ds2)
          end
      end
  end.

Lemma visit_inline_unfold metas sp rep sp2 nm o fields c comma store :
  visit_field_def metas (InerObjectField sp rep (InerObjectDecl sp2 nm o fields c) comma) store =
  match inline_go metas (p_text nm) fields store [] with
  | RPanic e => RPanic e
  | ROk (subs, st1, ds) =>
      ROk (mkVField (p_text nm) (VAObj true (p_text nm) (Some (p_text nm))
                       (Some (mkVPacket (p_text nm) false None (map (link_key subs) subs) [] [] (start_line sp)))) VLNone (is_some rep) "" 0%N (start_line sp),
           st1, ds ++ inline_key_diags (combine subs (map (fun x => start_line (fd_span x)) fields)) (map vf_name subs))
  end.
Proof.
  cbn [visit_field_def]. cbv zeta.
  assert (Hgo : forall l st names,
            (fix go (l : list field_def) (store : list fcell) (names : list string) {struct l} : res (list vfield * list fcell * list diag) :=
               match l with
               | [] => ROk ([], store, [])
               | x :: r =>
                   match visit_field_def metas x store with
                   | RPanic e => RPanic e
                   | ROk (v, st1, ds1) =>
                       match go r st1 (vf_name v :: names) with
                       | RPanic e => RPanic e
                       | ROk (vs, st2, ds2) =>
                           ROk (v :: vs, st2, ds1 ++ (if mem (vf_name v) names then [dup_field_diag (start_line (fd_span x)) (vf_name v) (p_text nm)] else []) ++ ds2)
                       end
                   end
               end) l st names = inline_go metas (p_text nm) l st names).
  { induction l as [|x l IH]; intros st names; [reflexivity|]. cbn [inline_go]. destruct (visit_field_def metas x st) as [[[v st1] ds1]|e]; [|reflexivity].
    rewrite IH. reflexivity. }
  rewrite Hgo. reflexivity.
Qed.

(* an object field of the inline object whose type is no MetaData entry is among the sub-fields, unresolved *)
Lemma inline_go_object metas pname l : forall store names subs st ds sp rep ft fn doc comma,
  inline_go metas pname l store names = ROk (subs, st, ds) -> In (ObjectField sp rep ft fn doc comma) l -> find_meta metas (p_text ft) = None ->
  exists v, In v subs /\ vf_attr v = VAObj false (p_text ft) None None /\ vf_line v = start_line sp.
Proof.
  induction l as [|x l IH]; intros store names subs st ds sp rep ft fn doc comma H Hin Hnone; [contradiction|]. cbn [inline_go] in H.
  destruct (visit_field_def metas x store) as [[[v st1] ds1]|e] eqn:Hx; [|discriminate].
  destruct (inline_go metas pname l st1 (vf_name v :: names)) as [[[vs st2] ds2]|e] eqn:Hr; [|discriminate]. inversion H. subst subs.
  destruct Hin as [->|Hin].
  - cbn [visit_field_def] in Hx. rewrite Hnone in Hx. inversion Hx. eexists. split; [left; reflexivity|]. cbn. auto.
  - destruct (IH _ _ _ _ _ _ _ _ _ _ _ Hr Hin Hnone) as [w [Hw Hp]]. exists w. split; [right; exact Hw|exact Hp].
Qed.

Theorem undeclared_packet_in_inline_diagnosed t r A d B a fw b sp rep sp2 nm o subfields c comma spx repx ft fn doc commax :
  visit t = VOk r ->
  packet_defs t = A ++ d :: B -> ~ In (pd_name_text d) (map pd_name_text A) ->
  pd_fields d = a ++ fw :: b -> fw_def fw = InerObjectField sp rep (InerObjectDecl sp2 nm o subfields c) comma ->
  (forall x, In x (fw_attrs fw) -> is_len_or_calc x = false) ->
  In (ObjectField spx repx ft fn doc commax) subfields ->
  ~ In (p_text ft) (Faults.packet_names t) -> ~ In (p_text ft) (meta_names t) ->
  has_diag r DK_UnknownPacket (start_line spx).
Proof.
  intros Hv Hdefs Hfreshname Hfields Hdef Hnolc Hsub Hnp Hnm.
  destruct (kept_packet _ _ _ _ _ Hv Hdefs Hfreshname) as [s [metas [pmap [store [p [st [ds [Hr [Hm [Hmn [Hpm [Hp [Hpin [_ Hfinal]]]]]]]]]]]]]].
  destruct (visit_packet_def_inv _ _ _ _ _ _ _ Hp) as [acc [fields [ds2 [Hloop _]]]]. pose proof Hloop as Hloop0. rewrite Hfields in Hloop.
  assert (Hnone : find_meta metas (p_text ft) = None).
  { destruct (find_meta metas (p_text ft)) eqn:Hx; [|reflexivity]. exfalso. apply Hnm. apply Hmn. rewrite Hx. discriminate. }
  assert (Hvisit : forall store0 f0 st0 ds0, visit_field_with_attr metas fw store0 = ROk (f0, st0, ds0) ->
                   exists subs, vf_attr f0 = VAObj true (p_text nm) (Some (p_text nm)) (Some (mkVPacket (p_text nm) false None subs [] [] (start_line sp))) /\
                                exists v, In v subs /\ vf_attr v = VAObj false (p_text ft) None None /\ vf_line v = start_line spx).
  (* (subs: the sub-fields after the keys of the match fields among them are linked; an object field is not touched by that) *)
  { intros store0 f0 st0 ds0 H0. destruct (visit_field_with_attr_inv _ _ _ _ _ _ H0) as [g [stg [dsg [dsg' [Hd0 [Ha0 _]]]]]].
    rewrite Hdef, visit_inline_unfold in Hd0. destruct (inline_go metas (p_text nm) subfields store0 []) as [[[subs st1] ds1]|e] eqn:Hgo; [|discriminate].
    inversion Hd0. subst g. exists (map (link_key subs) subs). rewrite (apply_attrs_nolc _ _ _ _ _ _ _ Hnolc Ha0). split; [reflexivity|].
    destruct (inline_go_object _ _ _ _ _ _ _ _ _ _ _ _ _ _ Hgo Hsub Hnone) as [v [Hvin [Hva Hvl]]].
    exists v. split; [|auto]. apply in_map_iff. exists v. split; [|exact Hvin]. unfold link_key. rewrite Hva. reflexivity. }
  assert (Hnl : never_len metas fw). { intros store0 f0 st0 ds0 H0. destruct (Hvisit _ _ _ _ H0) as [subs [-> _]]. reflexivity. }
  pose proof (fun Hl => loop1_kept_at _ _ _ _ _ _ _ _ Hnl Hl Hloop) as K. destruct (K eq_refl) as [acc1 [f [st1 [ds1 [_ [Hf [Hnth _]]]]]]].
  destruct (Hvisit _ _ _ _ Hf) as [subs [Hattr [v [Hv_in [Hv_attr Hv_line]]]]].
  destruct (packet_step_reaches _ _ _ _ _ _ _ _ _ Hp acc Hloop0 Hnth) as [a' [dsk [Hst [_ [f' [Hf' [Ha' Hskel]]]]]]].
  rewrite Hattr in Hst. cbn [step_attr] in Hst. inversion Hst as [[Hea Hed]]. rewrite <- Hea in Ha'.
  pose proof (finish_field_diags s p f' Hpin (nth_error_In _ _ Hf')) as Hres.
  destruct f' as [n0 a0 la0 rep0 doc0 tag0 ln0]. cbn [vf_attr] in Ha'. subst a0. rewrite resolve_inline_eq in Hres. cbn [snd] in Hres.
  pose proof (resolve_fields_incl (Visitor.packet_names (s_packets s)) subs v Hv_in) as Hsubs.
  destruct v as [vn va vla vrep vdoc vtag vln]. cbn [vf_attr vf_line] in Hv_attr, Hv_line. subst va vln. cbn [resolve_field] in Hsubs.
  rewrite (mem_false_not_In _ _ (fun H => Hnp (Hfinal _ H))) in Hsubs. cbn [snd] in Hsubs.
  eexists. split; [rewrite Hr; apply Hres; apply Hsubs; left; reflexivity|]. cbn. auto.
Qed.

(* ================================================================== (d) C08 on the visitor level *)

(* "explicit default options versus none" fails for one option: with FixedStringPadFromLeft = true alone,
   NewConfiguration takes the pad character from a Go literal that is the bare blank (1 byte), where the option
   value - also the documented default - is the token text quote-blank-quote (3 bytes) *)
Lemma default_options_refuted :
  same_meaning_o (visit w_pad_from_left_only) (visit (rw_default_options w_pad_from_left_only)) = false /\
  (exists r, visit w_pad_from_left_only = VOk r /\ BModel.c_pad (r_config r) = Some (BModel.mkPad " " true)) /\
  (exists r, visit (rw_default_options w_pad_from_left_only) = VOk r /\ BModel.c_pad (r_config r) = Some (BModel.mkPad "' '" true)).
Proof. split; [reflexivity|]. split; eexists; (split; [vm_compute; reflexivity|reflexivity]). Qed.

(* type aliases: the two spellings of a basic type normalise to the same name wherever a generator asks for the type *)
Ltac by_spelling s :=
  repeat match goal with
         | |- context [String.eqb s ?k] => destruct (String.eqb_spec s k) as [->|_]; [reflexivity|]
         end.

Lemma alias_same_type s : norm_ty (long_of (short_of s)) = norm_ty (short_of s).
Proof. unfold short_of. by_spelling s. unfold long_of. by_spelling s. reflexivity. Qed.

Lemma short_of_norm s : norm_ty (short_of s) = norm_ty s.
Proof. unfold short_of. by_spelling s. reflexivity. Qed.

(* "a key list versus its expanded pairs": VisitMatchPair takes the DIGITS keys of a list before its STRING keys, so a
   list that mixes the two kinds is not its pairs in source order *)
Lemma mixed_key_list_refuted :
  same_meaning_o (visit w_mixed_key_list) (visit (rw_expand_keys w_mixed_key_list)) = false.
Proof. reflexivity. Qed.
