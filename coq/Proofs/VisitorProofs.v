(* C12 / C11 / C08 on the visitor model (Model/Visitor.v): what holds is proved, what does not
   is refuted by a concrete parse tree (Proofs/VisitorWitnesses.v: the real parser's trees of
   the witness texts) evaluated with vm_compute.

   Conventions: [faults] (Model/Faults.v) is the specification; [has_diag r k l] says that the
   result carries a diagnostic of call-site kind k on line l. *)
From Coq Require Import String Ascii NArith Bool Arith List Lia.
From FP Require BModel.
From FP Require Import PT Flatten Visitor VisitorShow Faults NoPanic Spelling VisitorWitnesses.
Import ListNotations.
Open Scope string_scope.

Definition has_diag (r : result) (k : dkind) (l : nat) : Prop :=
  exists d, In d (r_diags r) /\ d_kind d = k /\ d_line d = l.

Definition no_diag_of (r : result) (k : dkind) : Prop := forall d, In d (r_diags r) -> d_kind d <> k.

(* ================================================================== (b) refuted: findings *)

Ltac by_compute := vm_compute; repeat split; auto; try discriminate.

(* the visitor accepts the tree: it returns a result without any diagnostic *)
Definition accepted (t : pt) : Prop := exists r, visit t = VOk r /\ r_diags r = [].

Ltac accept := eexists; split; [vm_compute; reflexivity | reflexivity].

(* duplicate field name: FieldMap keeps the last field, nothing is reported *)
Lemma dup_field_refuted : In (FDupField, 1) (faults w_dup_field) /\ accepted w_dup_field.
Proof. split; [by_compute | accept]. Qed.

(* duplicate match key: the check reads a map that is never written *)
Lemma dup_match_key_refuted : In (FDupMatchKey, 1) (faults w_dup_match_key) /\ accepted w_dup_match_key.
Proof. split; [by_compute | accept]. Qed.

(* length-of field in an inline object *)
Lemma len_in_inline_refuted : In (FLenOutsideRoot, 1) (faults w_len_in_inline) /\ accepted w_len_in_inline.
Proof. split; [by_compute | accept]. Qed.

(* @lengthOf followed by @calculatedFrom on the same field of a non-root packet: the length attribute is gone
   before VisitPacketDefinition looks at it *)
Lemma len_then_calc_refuted : In (FLenOutsideRoot, 1) (faults w_len_then_calc) /\ accepted w_len_then_calc.
Proof. split; [by_compute | accept]. Qed.

(* undeclared packet as the value of a match pair *)
Lemma undeclared_packet_in_pair_refuted : In (FUndeclaredPacket, 1) (faults w_undeclared_in_pair) /\ accepted w_undeclared_in_pair.
Proof. split; [by_compute | accept]. Qed.

(* undeclared packet as a field type inside an inline object *)
Lemma undeclared_packet_in_inline_refuted : In (FUndeclaredPacket, 1) (faults w_undeclared_in_inline) /\ accepted w_undeclared_in_inline.
Proof. split; [by_compute | accept]. Qed.

(* undeclared packet in a packet that is itself rejected as a duplicate: only the duplicate is reported *)
Lemma undeclared_packet_in_dup_packet_refuted :
  In (FUndeclaredPacket, 1) (faults w_undeclared_in_dup_packet) /\
  exists r, visit w_undeclared_in_dup_packet = VOk r /\ no_diag_of r DK_UnknownPacket.
Proof.
  split; [by_compute|]. eexists; split; [vm_compute; reflexivity|].
  intros d Hd. vm_compute in Hd. destruct Hd as [Hd|[]]. subst d. discriminate.
Qed.

(* the diagnostic of an undeclared packet names the line of the field definition, not of its first attribute *)
Lemma undeclared_packet_line_refuted :
  In (FUndeclaredPacket, 1) (faults w_undeclared_packet_line) /\
  exists r, visit w_undeclared_packet_line = VOk r /\ ~ has_diag r DK_UnknownPacket 1 /\ has_diag r DK_UnknownPacket 2.
Proof.
  split; [by_compute|]. eexists; split; [vm_compute; reflexivity|]. split.
  - intros [d [Hd [_ Hl]]]. vm_compute in Hd. destruct Hd as [Hd|[]]. subst d. discriminate.
  - eexists; split; [vm_compute; left; reflexivity|split; reflexivity].
Qed.

(* match on an undeclared key: MatchKeyField becomes nil, nothing is reported *)
Lemma undeclared_match_key_refuted : In (FUndeclaredMatchKey, 1) (faults w_undeclared_match_key) /\ accepted w_undeclared_match_key.
Proof. split; [by_compute | accept]. Qed.

(* length-of an undeclared target: accepted when the length field is the last field ... *)
Lemma undeclared_len_target_refuted : In (FUndeclaredLenTarget, 1) (faults w_undeclared_len_target) /\ accepted w_undeclared_len_target.
Proof. split; [by_compute | accept]. Qed.

(* ... and a panic when a field follows it *)
Lemma undeclared_len_target_panics :
  In (FUndeclaredLenTarget, 1) (faults w_undeclared_len_target_panic) /\ visit w_undeclared_len_target_panic = VPanic site_packetdef.
Proof. split; by_compute. Qed.

(* a repeated unknown option is reported as unknown twice, never as a duplicate *)
Lemma dup_unknown_option_refuted :
  In (FDupOption, 1) (faults w_dup_unknown_option) /\
  exists r, visit w_dup_unknown_option = VOk r /\ no_diag_of r DK_OptDup.
Proof.
  split; [by_compute|]. eexists; split; [vm_compute; reflexivity|].
  intros d Hd. vm_compute in Hd. destruct Hd as [Hd|[Hd|[]]]; subst d; discriminate.
Qed.

(* a second root that is also a duplicate packet is only reported as a duplicate *)
Lemma second_root_dup_refuted :
  In (FSecondRoot, 1) (faults w_second_root_dup) /\
  exists r, visit w_second_root_dup = VOk r /\ no_diag_of r DK_MultiRoot.
Proof.
  split; [by_compute|]. eexists; split; [vm_compute; reflexivity|].
  intros d Hd. vm_compute in Hd. destruct Hd as [Hd|[]]; subst d; discriminate.
Qed.

(* a root packet rejected as a duplicate does not count: the next root is accepted as THE root *)
Lemma root_after_rejected_root_refuted :
  In (FSecondRoot, 1) (faults w_root_after_rejected_root) /\
  exists r, visit w_root_after_rejected_root = VOk r /\ no_diag_of r DK_MultiRoot /\ r_root r = Some "B".
Proof.
  split; [by_compute|]. eexists; split; [vm_compute; reflexivity|]. split; [|reflexivity].
  intros d Hd. vm_compute in Hd. destruct Hd as [Hd|[]]; subst d; discriminate.
Qed.

(* quoted option values lose their quotes before the check: "u16" is accepted, and "yes" for a boolean is
   reported (correctly) *)
Lemma quoted_option_value_refuted :
  In (FIllegalOptionValue, 1) (faults w_quoted_option) /\
  exists r, visit w_quoted_option = VOk r /\
            r_diags r = [mkDiag 1 DK_OptValue "Option LittleEndian is not allowed to be yes, Expected one of:true,false"].
Proof. split; [by_compute|]. eexists; split; [vm_compute; reflexivity|reflexivity]. Qed.

(* the converse direction of C12: well-formed programs that are rejected *)
Lemma padchar_nul_rejected :
  faults w_padchar_nul = [] /\ exists r, visit w_padchar_nul = VOk r /\ has_diag r DK_OptValue 1.
Proof.
  split; [reflexivity|]. eexists; split; [vm_compute; reflexivity|].
  eexists; split; [left; reflexivity|split; reflexivity].
Qed.

Lemma alias_option_value_rejected :
  faults w_alias_option = [] /\ exists r, visit w_alias_option = VOk r /\ has_diag r DK_OptValue 1.
Proof.
  split; [reflexivity|]. eexists; split; [vm_compute; reflexivity|].
  eexists; split; [left; reflexivity|split; reflexivity].
Qed.

(* a well-formed program that IS accepted, with everything in it (sanity of the witnesses' set-up) *)
Lemma small_program_accepted : faults w_ok_small = [] /\ accepted w_ok_small.
Proof. split; [reflexivity | accept]. Qed.

(* ================================================================== (c) C11: every panic site is reachable *)

Lemma panic_attr_reachable : visit w_pad_on_basic = VPanic site_attr.
Proof. reflexivity. Qed.

Lemma panic_gettype_reachable : visit w_lengthof_on_object = VPanic site_gettype.
Proof. reflexivity. Qed.

Lemma panic_lenfield_reachable : visit w_len_named_nil_meta = VPanic site_lenfield.
Proof. reflexivity. Qed.

Lemma panic_checksum_reachable : visit w_sum_named_nil_meta = VPanic site_checksum.
Proof. reflexivity. Qed.

Lemma panic_packetdef_reachable : visit w_undeclared_len_target_panic = VPanic site_packetdef.
Proof. reflexivity. Qed.

Theorem visit_may_panic : ~ (forall t, exists r, visit t = VOk r).
Proof.
  intros H. destruct (H w_pad_on_basic) as [r Hr]. rewrite panic_attr_reachable in Hr. discriminate.
Qed.

(* attribute misuse has no fault class: the spec calls these trees well-formed, the visitor panics *)
Lemma attribute_misuse_not_diagnosed :
  faults w_pad_on_basic = [] /\ faults w_lengthof_on_object = [] /\
  faults w_len_named_nil_meta = [] /\ faults w_sum_named_nil_meta = [].
Proof. repeat split; reflexivity. Qed.

(* ================================================================== (d) C08: attribute locality is false *)

(* "an attribute applies only to the field it is written on": the padding written on field a of
   w_shared_pad reaches field b (and the MetaData entry), because the three hold the same
   FixedStringFieldAttribute object.  b is the second field of the only packet. *)
Definition field_b_attr (t : pt) : option BModel.attr :=
  match visit t with
  | VOk r => match BModel.m_packets (to_bmodel r) with
             | p :: _ => option_map BModel.f_attr (nth_error (BModel.p_fields p) 1)
             | [] => None
             end
  | VPanic _ => None
  end.

Lemma attribute_locality_refuted :
  field_b_attr w_shared_pad = Some (BModel.AFixed 4 (Some (BModel.mkPad "'0'" true))) /\
  field_b_attr w_shared_pad_without = Some (BModel.AFixed 4 None) /\
  (* the inlined spelling of the same declarations keeps the attribute local *)
  field_b_attr w_shared_pad_inlined = Some (BModel.AFixed 4 None).
Proof. repeat split; reflexivity. Qed.

(* hence "a MetaData-typed field versus the inlined type" is not meaning-preserving *)
Lemma inline_meta_not_same_meaning :
  same_meaning_o (visit w_shared_pad) (visit (rw_inline_meta w_shared_pad)) = false /\
  same_tokens (rw_inline_meta w_shared_pad) w_shared_pad_inlined = true.
Proof. split; reflexivity. Qed.

Open Scope list_scope.

(* ================================================================== (a) what the visitor does diagnose *)

(* ---- lists *)

Lemma In_snoc {A} (l : list A) (x y : A) : In x (snoc l y) <-> In x l \/ x = y.
Proof.
  unfold snoc. rewrite in_app_iff. cbn [In]. intuition.
Qed.

Lemma incl_snoc {A} (l : list A) (y : A) : incl l (snoc l y).
Proof. intros x Hx. apply In_snoc. left. exact Hx. Qed.

Lemma fold_left_flat_map {A B S} (f : S -> B -> S) (g : A -> list B) (l : list A) (s : S) :
  fold_left f (flat_map g l) s = fold_left (fun s a => fold_left f (g a) s) l s.
Proof.
  revert s. induction l as [|a l IH]; intros s; cbn [flat_map fold_left]; [reflexivity|].
  rewrite fold_left_app. apply IH.
Qed.

(* a monotone step function keeps what an earlier step has added *)
Lemma fold_left_mono {A S D} (f : S -> A -> S) (dg : S -> list D)
      (Hmono : forall s a, incl (dg s) (dg (f s a))) (l : list A) (s : S) :
  incl (dg s) (dg (fold_left f l s)).
Proof.
  revert s. induction l as [|a l IH]; intros s; cbn [fold_left]; [apply incl_refl|].
  eapply incl_tran; [apply Hmono|apply IH].
Qed.

(* ---- the specification: which component a fault comes from *)

Lemma In_tag k k' l ls : In (k, l) (tag k' ls) <-> k = k' /\ In l ls.
Proof.
  unfold tag. rewrite in_map_iff. split.
  - intros [x [Hx Hin]]. inversion Hx; subst. auto.
  - intros [Hk Hin]. subst. exists l. auto.
Qed.

Lemma option_fault_kind k l d : In (k, l) (option_fault d) -> k = FUnknownOption \/ k = FIllegalOptionValue.
Proof.
  unfold option_fault. destruct (lookup documented_options (p_text (od_name d))) as [vs|].
  - destruct vs as [|v vs]; [intros []|].
    destruct (name_in _ _); [intros []|]. intros [H|[]]. inversion H. auto.
  - intros [H|[]]. inversion H. auto.
Qed.

Definition scope_kind (k : fault_kind) : bool :=
  match k with
  | FDupField | FDupMatchKey | FSecondLen | FLenOutsideRoot | FUndeclaredPacket | FUndeclaredMatchKey
  | FUndeclaredLenTarget => true
  | _ => false
  end.

Lemma scope_faults_kind pn mn s k l : In (k, l) (scope_faults pn mn s) -> scope_kind k = true.
Proof.
  unfold scope_faults. rewrite !in_app_iff. intros [H|[H|[H|H]]].
  - apply In_tag in H. destruct H as [-> _]. reflexivity.
  - apply in_flat_map in H. destruct H as [e [_ H]]. destruct (e_def e); try contradiction.
    apply In_tag in H. destruct H as [-> _]. reflexivity.
  - destruct (sc_top s && sc_root s); apply In_tag in H; destruct H as [-> _]; reflexivity.
  - apply in_flat_map in H. destruct H as [e [_ H]]. rewrite in_app_iff in H. destruct H as [H|H].
    + destruct (e_def e); try contradiction.
      * destruct (_ || _); [contradiction|]. destruct H as [H|[]]. inversion H. reflexivity.
      * rewrite in_app_iff in H. destruct H as [H|H].
        -- destruct (name_in _ _); [contradiction|]. destruct H as [H|[]]. inversion H. reflexivity.
        -- apply in_flat_map in H. destruct H as [p [_ H]]. destruct (name_in _ _); [contradiction|].
           destruct H as [H|[]]. inversion H. reflexivity.
    + destruct (forallb _ _); [contradiction|]. destruct H as [H|[]]. inversion H. reflexivity.
Qed.

(* the components of [faults] *)
Lemma faults_inv t k l :
  In (k, l) (faults t) ->
  (k = FDupPacket /\ In l (later_dups [] (map (fun p => (p_text (pd_name p), line_of (pd_span p))) (packet_defs t)))) \/
  (k = FDupMeta /\ In l (later_dups [] (map (fun i => (meta_item_name i, meta_item_line i)) (meta_items t)))) \/
  (k = FDupOption /\ In l (later_dups [] (map (fun d => (p_text (od_name d), line_of (od_span d))) (option_decls t)))) \/
  (k = FSecondRoot /\ In l (map (fun p => line_of (pd_span p)) (tl (root_defs t)))) \/
  (exists d, In d (option_decls t) /\ In (k, l) (option_fault d)) \/
  (exists s, In s (scopes t) /\ In (k, l) (scope_faults (Faults.packet_names t) (meta_names t) s)).
Proof.
  unfold faults. rewrite !in_app_iff. intros [H|[H|[H|[H|[H|H]]]]].
  - left. apply In_tag in H. exact H.
  - right; left. apply In_tag in H. exact H.
  - right; right; left. apply In_tag in H. exact H.
  - right; right; right; left. apply In_tag in H. exact H.
  - right; right; right; right; left. apply in_flat_map in H. exact H.
  - right; right; right; right; right. apply in_flat_map in H. exact H.
Qed.

(* what [later_dups] finds: an entry whose name occurred before *)
Lemma later_dups_spec (xs : list (string * nat)) : forall seen l,
  In l (later_dups seen xs) ->
  exists a n b, xs = a ++ (n, l) :: b /\ (name_in n seen = true \/ exists l', In (n, l') a).
Proof.
  induction xs as [|[n ln] xs IH]; intros seen l H; cbn [later_dups] in H; [contradiction|].
  destruct (name_in n seen) eqn:Hn.
  - destruct H as [H|H].
    + subst. exists [], n, xs. split; [reflexivity|]. left. exact Hn.
    + destruct (IH _ _ H) as [a [m [b [Hx Hc]]]]. exists ((n, ln) :: a), m, b. split; [rewrite Hx; reflexivity|].
      destruct Hc as [Hc|[l' Hc]]; [left; exact Hc|right; exists l'; right; exact Hc].
  - destruct (IH _ _ H) as [a [m [b [Hx Hc]]]]. exists ((n, ln) :: a), m, b. split; [rewrite Hx; reflexivity|].
    destruct Hc as [Hc|[l' Hc]].
    + cbn [name_in existsb] in Hc. apply orb_true_iff in Hc. destruct Hc as [Hc|Hc].
      * apply String.eqb_eq in Hc. subst. right. exists ln. left. reflexivity.
      * left. exact Hc.
    + right. exists l'. right. exact Hc.
Qed.

Lemma later_dups_nil_spec (xs : list (string * nat)) l :
  In l (later_dups [] xs) -> exists a n b l', xs = a ++ (n, l) :: b /\ In (n, l') a.
Proof.
  intros H. destruct (later_dups_spec _ _ _ H) as [a [n [b [Hx [Hc|[l' Hc]]]]]]; [discriminate|].
  exists a, n, b, l'. auto.
Qed.

(* a split of [map f xs] is the image of a split of xs *)
Lemma map_split {A B} (f : A -> B) (xs : list A) (a b : list B) (y : B) :
  map f xs = a ++ y :: b -> exists xa x xb, xs = xa ++ x :: xb /\ map f xa = a /\ f x = y /\ map f xb = b.
Proof.
  revert a. induction xs as [|x xs IH]; intros a H.
  - destruct a; discriminate.
  - destruct a as [|a0 a]; cbn in H; inversion H; subst.
    + exists [], x, xs. auto.
    + destruct (IH _ H2) as [xa [x' [xb [Hx [Ha [Hy Hb]]]]]]. exists (x :: xa), x', xb. subst. auto.
Qed.

(* ---- the diagnostics list only grows *)

Lemma add_diag_mono s d : incl (s_diags s) (s_diags (add_diag s d)).
Proof. cbn. apply incl_snoc. Qed.

Lemma add_meta_mono s m : incl (s_diags s) (s_diags (add_meta s m)).
Proof.
  unfold add_meta. destruct (find_meta (s_metas s) (vm_name m)); [apply add_diag_mono|cbn; apply incl_refl].
Qed.

(* every MetaData item is handed to AddMetaData with its name and line *)
Lemma visit_meta_item_shape s i :
  exists s' m, visit_meta_item s i = add_meta s' m /\ s_metas s' = s_metas s /\ s_diags s' = s_diags s /\
               vm_name m = meta_item_name i /\ vm_line m = meta_item_line i.
Proof.
  destruct i as [d|d]; cbn [visit_meta_item].
  - destruct (meta_decl_attr d (s_store s)) as [a st]. eexists; eexists; split; [reflexivity|]. cbn. auto.
  - eexists; eexists; split; [reflexivity|]. cbn. auto.
Qed.

Lemma visit_meta_item_mono s i : incl (s_diags s) (s_diags (visit_meta_item s i)).
Proof.
  destruct (visit_meta_item_shape s i) as [s' [m [-> [_ [Hd _]]]]]. rewrite <- Hd. apply add_meta_mono.
Qed.

Lemma find_meta_snoc ms m n :
  find_meta (snoc ms m) n =
  match find_meta ms n with Some x => Some x | None => if String.eqb n (vm_name m) then Some m else None end.
Proof.
  unfold snoc. induction ms as [|x ms IH]; cbn [app find_meta]; [reflexivity|].
  destruct (String.eqb n (vm_name x)); [reflexivity|apply IH].
Qed.

Definition registered (s : vst) (n : string) : Prop := find_meta (s_metas s) n <> None.

Lemma add_meta_registers s m : registered (add_meta s m) (vm_name m).
Proof.
  unfold registered, add_meta. destruct (find_meta (s_metas s) (vm_name m)) eqn:H.
  - cbn. rewrite H. discriminate.
  - cbn. rewrite find_meta_snoc, H, String.eqb_refl. discriminate.
Qed.

Lemma add_meta_keeps s m n : registered s n -> registered (add_meta s m) n.
Proof.
  unfold registered, add_meta. intros Hn. destruct (find_meta (s_metas s) (vm_name m)); cbn; [exact Hn|].
  rewrite find_meta_snoc. destruct (find_meta (s_metas s) n); [discriminate|contradiction].
Qed.

Lemma visit_meta_item_registers s i : registered (visit_meta_item s i) (meta_item_name i).
Proof.
  destruct (visit_meta_item_shape s i) as [s' [m [-> [_ [_ [Hn _]]]]]]. rewrite <- Hn. apply add_meta_registers.
Qed.

Lemma visit_meta_item_keeps s i n : registered s n -> registered (visit_meta_item s i) n.
Proof.
  destruct (visit_meta_item_shape s i) as [s' [m [-> [Hm _]]]]. intros H. apply add_meta_keeps.
  unfold registered. rewrite Hm. exact H.
Qed.

Lemma fold_meta_items_keeps l : forall s n, registered s n -> registered (fold_left visit_meta_item l s) n.
Proof.
  induction l as [|i l IH]; intros s n H; cbn [fold_left]; [exact H|]. apply IH. apply visit_meta_item_keeps. exact H.
Qed.

Lemma fold_meta_items_registers l : forall s i, In i l -> registered (fold_left visit_meta_item l s) (meta_item_name i).
Proof.
  induction l as [|x l IH]; intros s i Hin; [contradiction|]. cbn [fold_left]. destruct Hin as [->|Hin].
  - apply fold_meta_items_keeps. apply visit_meta_item_registers.
  - apply IH. exact Hin.
Qed.

(* a registered name makes AddMetaData report the duplicate, on the line of the item *)
Lemma visit_meta_item_dup s i :
  registered s (meta_item_name i) ->
  exists d, In d (s_diags (visit_meta_item s i)) /\ d_kind d = DK_DupMeta /\ d_line d = meta_item_line i.
Proof.
  destruct (visit_meta_item_shape s i) as [s' [m [-> [Hm [_ [Hn Hl]]]]]]. unfold registered. rewrite <- Hm, <- Hn. intros H.
  unfold add_meta. destruct (find_meta (s_metas s') (vm_name m)); [|contradiction].
  eexists. split; [cbn; apply In_snoc; right; reflexivity|]. cbn. auto.
Qed.

Lemma phase_metas_items t s : phase_metas t s = fold_left visit_meta_item (meta_items t) s.
Proof.
  unfold phase_metas, metas_of, meta_items. revert s. induction (pk_defs t) as [|d ds IH]; intros s; [reflexivity|].
  cbn [flat_map]. rewrite !fold_left_app. destruct d; cbn [fold_left app]; apply IH.
Qed.

Lemma fold_meta_items_mono l s : incl (s_diags s) (s_diags (fold_left visit_meta_item l s)).
Proof. apply fold_left_mono. apply visit_meta_item_mono. Qed.

(* options *)
Lemma add_option_mono s n v l : incl (s_diags s) (s_diags (add_option s n v l)).
Proof.
  unfold add_option. destruct (alookup option_table n) as [values|]; [|apply add_diag_mono].
  set (s1 := match values with [] => s | _ => _ end).
  assert (H1 : incl (s_diags s) (s_diags s1)).
  { subst s1. destruct values; [apply incl_refl|]. destruct (mem v _); [apply incl_refl|apply add_diag_mono]. }
  destruct (alookup (s_options s1) n); [eapply incl_tran; [exact H1|apply add_diag_mono]|exact H1].
Qed.

Lemma visit_option_decl_mono s d : incl (s_diags s) (s_diags (visit_option_decl s d)).
Proof. unfold visit_option_decl. apply add_option_mono. Qed.

Lemma phase_options_decls t s : phase_options t s = fold_left visit_option_decl (option_decls t) s.
Proof.
  unfold phase_options, options_of, option_decls. revert s. induction (pk_defs t) as [|d ds IH]; intros s; [reflexivity|].
  cbn [flat_map]. rewrite !fold_left_app. destruct d; cbn [fold_left app]; apply IH.
Qed.

Lemma fold_option_decls_mono l s : incl (s_diags s) (s_diags (fold_left visit_option_decl l s)).
Proof. apply fold_left_mono. apply visit_option_decl_mono. Qed.

Lemma phase_options_mono t s : incl (s_diags s) (s_diags (phase_options t s)).
Proof. rewrite phase_options_decls. apply fold_option_decls_mono. Qed.

(* packets *)
Lemma add_packet_mono s p : incl (s_diags s) (s_diags (add_packet s p)).
Proof.
  unfold add_packet. destruct (mem _ _); [apply add_diag_mono|]. destruct (vk_root p); [|cbn; apply incl_refl].
  cbn. destruct (s_root s); cbn; [apply incl_snoc|apply incl_refl].
Qed.

Lemma visit_packets_mono l : forall s s', visit_packets l s = ROk s' -> incl (s_diags s) (s_diags s').
Proof.
  induction l as [|d l IH]; intros s s' H; cbn [visit_packets] in H.
  - inversion H. apply incl_refl.
  - destruct (visit_packet_def _ _ d _) as [[[p st] ds]|e]; [|discriminate].
    apply IH in H. eapply incl_tran; [|exact H]. eapply incl_tran; [|apply add_packet_mono]. cbn.
    apply incl_appl. apply incl_refl.
Qed.

(* ResolveDependencies *)
Lemma resolve_field_mono pmap f ds : incl ds (snd (resolve_field pmap (f, ds))).
Proof.
  unfold resolve_field. destruct (vf_attr f); try apply incl_refl. destruct ref; [apply incl_refl|].
  destruct (mem _ _); cbn; [apply incl_refl|apply incl_snoc].
Qed.

Lemma resolve_fields_mono pmap fs : forall ds, incl ds (snd (resolve_fields pmap fs ds)).
Proof.
  induction fs as [|f fs IH]; intros ds; cbn [resolve_fields]; [apply incl_refl|].
  pose proof (resolve_field_mono pmap f ds) as H1. destruct (resolve_field pmap (f, ds)) as [f1 ds1]. cbn in H1.
  pose proof (IH ds1) as H2. destruct (resolve_fields pmap fs ds1) as [r1 ds2]. cbn in *. eapply incl_tran; eassumption.
Qed.

Lemma resolve_packets_mono pmap ps : forall ds, incl ds (snd (resolve_packets pmap ps ds)).
Proof.
  induction ps as [|p ps IH]; intros ds; cbn [resolve_packets]; [apply incl_refl|].
  pose proof (resolve_fields_mono pmap (vk_fields p) ds) as H1. destruct (resolve_fields pmap (vk_fields p) ds) as [f1 ds1]. cbn in H1.
  pose proof (IH ds1) as H2. destruct (resolve_packets pmap ps ds1) as [r1 ds2]. cbn in *. eapply incl_tran; eassumption.
Qed.

Lemma finish_mono s : incl (s_diags s) (r_diags (finish s)).
Proof.
  unfold finish. pose proof (resolve_packets_mono (Visitor.packet_names (s_packets s)) (s_packets s) (s_diags s)) as H.
  destruct (resolve_packets _ _ _) as [ps ds]. cbn in *. exact H.
Qed.

(* the phases of [visit] *)
Lemma visit_ok_inv t r :
  visit t = VOk r ->
  exists s, visit_packets (packets_of t) (phase_options t (phase_metas t st0)) = ROk s /\ r = finish s.
Proof.
  unfold visit. destruct (visit_packets _ _) as [s|e]; [|discriminate]. intros H. inversion H. exists s. auto.
Qed.

(* a diagnostic of the MetaData phase / of the options phase reaches the result *)
Lemma metas_diag_reaches t r d : visit t = VOk r -> In d (s_diags (phase_metas t st0)) -> In d (r_diags r).
Proof.
  intros Hv Hd. destruct (visit_ok_inv _ _ Hv) as [s [Hs ->]]. apply finish_mono.
  eapply visit_packets_mono; [exact Hs|]. apply phase_options_mono. exact Hd.
Qed.

Lemma options_diag_reaches t r d : visit t = VOk r -> In d (s_diags (phase_options t (phase_metas t st0))) -> In d (r_diags r).
Proof.
  intros Hv Hd. destruct (visit_ok_inv _ _ Hv) as [s [Hs ->]]. apply finish_mono.
  eapply visit_packets_mono; [exact Hs|]. exact Hd.
Qed.

(* ---- C12, duplicate MetaData entry (also through a ref-declaration): diagnosed on the line of the later entry *)
Theorem dup_meta_diagnosed t l r :
  In (FDupMeta, l) (faults t) -> visit t = VOk r -> has_diag r DK_DupMeta l.
Proof.
  intros Hf Hv. apply faults_inv in Hf.
  destruct Hf as [[Hk _]|[[_ Hl]|[[Hk _]|[[Hk _]|[[d [_ Hd]]|[s [_ Hs]]]]]]]; try discriminate.
  - destruct (later_dups_nil_spec _ _ Hl) as [a [n [b [l' [Hx Ha]]]]].
    destruct (map_split _ _ _ _ _ Hx) as [xa [i [xb [Hitems [Hxa [Hi _]]]]]]. injection Hi as Hn Hl2. subst n l a.
    apply in_map_iff in Ha. destruct Ha as [i0 [Hi0 Hin0]]. injection Hi0 as Hname _.
    assert (Hreg : registered (fold_left visit_meta_item xa st0) (meta_item_name i)).
    { rewrite <- Hname. apply fold_meta_items_registers. exact Hin0. }
    destruct (visit_meta_item_dup _ _ Hreg) as [d [Hd [Hk Hl']]].
    exists d. split; [|auto]. eapply metas_diag_reaches; [exact Hv|].
    rewrite phase_metas_items, Hitems, fold_left_app. cbn [fold_left]. apply fold_meta_items_mono. exact Hd.
  - apply option_fault_kind in Hd. destruct Hd; discriminate.
  - apply scope_faults_kind in Hs. discriminate.
Qed.

(* ---- options: the documented names are the names of the table of model.go *)

Ltac case_name n :=
  repeat match goal with
         | |- context [String.eqb n ?k] => destruct (String.eqb_spec n k) as [?|?]; [subst n; cbn in *|]
         | H : context [String.eqb n ?k] |- _ => destruct (String.eqb_spec n k) as [?|?]; [subst n; cbn in *|]
         end.

Lemma undocumented_unknown n : lookup documented_options n = None -> alookup option_table n = None.
Proof.
  cbn [lookup alookup documented_options option_table]. intros H. case_name n; try discriminate; reflexivity.
Qed.

Lemma documented_known n vs : lookup documented_options n = Some vs -> exists ws, alookup option_table n = Some ws.
Proof.
  cbn [lookup alookup documented_options option_table]. intros H. case_name n; try discriminate; eexists; reflexivity.
Qed.

Lemma mem_In v l : mem v l = true <-> In v l.
Proof.
  unfold mem. rewrite existsb_exists. split.
  - intros [x [Hx He]]. apply String.eqb_eq in He. subst. exact Hx.
  - intros H. exists v. split; [exact H|apply String.eqb_refl].
Qed.

Lemma name_in_In v l : name_in v l = true <-> In v l.
Proof. apply mem_In. Qed.

(* a value the table of model.go accepts is a documented value, or the 3-byte string quote-NUL-quote
   (which no token text can be) *)
Lemma table_values_documented n vs ws v :
  lookup documented_options n = Some vs -> alookup option_table n = Some ws -> ws <> [] ->
  In v ws -> v = nul_pad_char \/ In v vs.
Proof.
  cbn [lookup alookup documented_options option_table]. intros H1 H2 Hne Hin.
  case_name n; try discriminate; inversion H1; inversion H2; subst; try (exfalso; apply Hne; reflexivity);
    cbn in Hin |- *; intuition.
Qed.

Lemma restricted_restricted n vs : lookup documented_options n = Some vs -> vs <> [] ->
  exists ws, alookup option_table n = Some ws /\ ws <> [].
Proof.
  cbn [lookup alookup documented_options option_table]. intros H Hne.
  case_name n; try discriminate; inversion H; subst; try (exfalso; apply Hne; reflexivity);
    eexists; (split; [reflexivity|discriminate]).
Qed.

Lemma In_option_fault k l d :
  In (k, l) (option_fault d) ->
  l = line_of (od_span d) /\
  ((k = FUnknownOption /\ lookup documented_options (p_text (od_name d)) = None) \/
   (k = FIllegalOptionValue /\ exists vs, lookup documented_options (p_text (od_name d)) = Some vs /\ vs <> [] /\
                                            ~ In (text_of (toks_value (od_value d))) vs)).
Proof.
  unfold option_fault. destruct (lookup documented_options (p_text (od_name d))) as [vs|].
  - destruct vs as [|v0 vs]; [intros []|]. destruct (name_in _ _) eqn:Hn; [intros []|].
    intros [H|[]]. inversion H. split; [reflexivity|]. right. split; [reflexivity|]. eexists. split; [reflexivity|].
    split; [discriminate|]. intros Hin. apply name_in_In in Hin. rewrite Hin in Hn. discriminate.
  - intros [H|[]]. inversion H. split; [reflexivity|]. left. auto.
Qed.

Lemma In_fold_split {A} (l : list A) (x : A) : In x l -> exists a b, l = a ++ x :: b.
Proof. apply in_split. Qed.

(* ---- C12, unknown option *)
Theorem unknown_option_diagnosed t l r :
  In (FUnknownOption, l) (faults t) -> visit t = VOk r -> has_diag r DK_OptUnknown l.
Proof.
  intros Hf Hv. apply faults_inv in Hf.
  destruct Hf as [[Hk _]|[[Hk _]|[[Hk _]|[[Hk _]|[[d [Hin Hd]]|[s [_ Hs]]]]]]]; try discriminate.
  - apply In_option_fault in Hd. destruct Hd as [Hl [[_ Hnone]|[Hk _]]]; [|discriminate].
    destruct (in_split _ _ Hin) as [a [b Hsplit]].
    eexists. split.
    + eapply options_diag_reaches; [exact Hv|]. rewrite phase_options_decls, Hsplit, fold_left_app. cbn [fold_left].
      apply fold_option_decls_mono. unfold visit_option_decl at 1, add_option. rewrite (undocumented_unknown _ Hnone).
      cbn. apply In_snoc. right. reflexivity.
    + cbn. split; [reflexivity|]. symmetry. exact Hl.
  - apply scope_faults_kind in Hs. discriminate.
Qed.

(* ---- C12, illegal option value.  The visitor strips the quotes of a STRING value before the check, so
   the theorem is about unquoted values (quoted_option_value_refuted is the counterexample otherwise) *)
Definition unquoted (d : option_decl) : Prop :=
  match od_value d with VString _ _ => False | _ => True end /\ value_text (od_value d) <> nul_pad_char.

Theorem illegal_option_value_diagnosed t l r :
  In (FIllegalOptionValue, l) (faults t) -> visit t = VOk r ->
  (forall d, In d (option_decls t) -> unquoted d) ->
  has_diag r DK_OptValue l.
Proof.
  intros Hf Hv Hq. apply faults_inv in Hf.
  destruct Hf as [[Hk _]|[[Hk _]|[[Hk _]|[[Hk _]|[[d [Hin Hd]]|[s [_ Hs]]]]]]]; try discriminate.
  - apply In_option_fault in Hd. destruct Hd as [Hl [[Hk _]|[_ [vs [Hvs [Hne Hnot]]]]]]; [discriminate|].
    destruct (Hq d Hin) as [Hnq Hnn].
    destruct (restricted_restricted _ _ Hvs Hne) as [ws [Hws Hwne]].
    destruct (in_split _ _ Hin) as [a [b Hsplit]].
    set (s0 := fold_left visit_option_decl a (phase_metas t st0)).
    assert (Hv' : (match od_value d with VString _ _ => trim_quotes (value_text (od_value d)) | _ => value_text (od_value d) end)
                  = value_text (od_value d)).
    { destruct (od_value d); try reflexivity. contradiction. }
    assert (Hmem : mem (value_text (od_value d)) ws = false).
    { destruct (mem (value_text (od_value d)) ws) eqn:Hm; [|reflexivity]. apply mem_In in Hm.
      destruct (table_values_documented _ _ _ _ Hvs Hws Hwne Hm) as [Hx|Hx]; [contradiction|]. exfalso. apply Hnot. exact Hx. }
    eexists. split.
    + eapply options_diag_reaches; [exact Hv|]. rewrite phase_options_decls, Hsplit, fold_left_app. cbn [fold_left].
      apply fold_option_decls_mono. fold s0. unfold visit_option_decl, add_option. rewrite Hv', Hws.
      destruct ws as [|w ws]; [exfalso; apply Hwne; reflexivity|]. rewrite Hmem.
      match goal with |- In _ (s_diags (match alookup (s_options ?x) _ with _ => _ end)) => set (s1 := x) end.
      assert (H1 : In (mkDiag (start_line (od_span d)) DK_OptValue
                              ("Option " ++ p_text (od_name d) ++ " is not allowed to be " ++ value_text (od_value d) ++
                               ", Expected one of:" ++ join "," (w :: ws))%string) (s_diags s1)).
      { subst s1. cbn. apply In_snoc. right. reflexivity. }
      destruct (alookup (s_options s1) (p_text (od_name d))); [apply add_diag_mono; exact H1|exact H1].
    + cbn. split; [reflexivity|]. symmetry. exact Hl.
  - apply scope_faults_kind in Hs. discriminate.
Qed.

(* ---- C12, duplicate option (of a documented name; dup_unknown_option_refuted is the counterexample otherwise) *)
Lemma alookup_snoc {A} (l : list (string * A)) k v n :
  alookup (snoc l (k, v)) n = match alookup l n with Some x => Some x | None => if String.eqb n k then Some v else None end.
Proof.
  unfold snoc. induction l as [|[k' v'] l IH]; cbn [app alookup]; [reflexivity|]. destruct (String.eqb n k'); [reflexivity|apply IH].
Qed.

Definition opt_set (s : vst) (n : string) : Prop := alookup (s_options s) n <> None.

Lemma add_option_options s n v l :
  s_options (add_option s n v l) = s_options s \/ s_options (add_option s n v l) = snoc (s_options s) (n, v).
Proof.
  unfold add_option. destruct (alookup option_table n) as [values|]; [|left; reflexivity].
  set (s1 := match values with [] => s | _ => _ end).
  assert (H1 : s_options s1 = s_options s).
  { subst s1. destruct values; [reflexivity|]. destruct (mem v _); reflexivity. }
  destruct (alookup (s_options s1) n); cbn; rewrite H1; auto.
Qed.

Lemma add_option_keeps s n v l m : opt_set s m -> opt_set (add_option s n v l) m.
Proof.
  unfold opt_set. intros H. destruct (add_option_options s n v l) as [->| ->]; [exact H|].
  rewrite alookup_snoc. destruct (alookup (s_options s) m); [discriminate|contradiction].
Qed.

Lemma add_option_sets s n v l ws : alookup option_table n = Some ws -> opt_set (add_option s n v l) n.
Proof.
  unfold opt_set, add_option. intros ->.
  set (s1 := match ws with [] => s | _ => _ end).
  destruct (alookup (s_options s1) n) eqn:H; cbn; [rewrite H; discriminate|].
  rewrite alookup_snoc, H, String.eqb_refl. discriminate.
Qed.

Lemma add_option_dup s n v l ws :
  alookup option_table n = Some ws -> opt_set s n ->
  exists d, In d (s_diags (add_option s n v l)) /\ d_kind d = DK_OptDup /\ d_line d = l.
Proof.
  unfold opt_set, add_option. intros -> H.
  set (s1 := match ws with [] => s | _ => _ end).
  assert (H1 : s_options s1 = s_options s).
  { subst s1. destruct ws; [reflexivity|]. destruct (mem v _); reflexivity. }
  rewrite H1. destruct (alookup (s_options s) n); [|contradiction].
  eexists. split; [cbn; apply In_snoc; right; reflexivity|]. cbn. auto.
Qed.

Lemma fold_option_decls_keeps l : forall s m, opt_set s m -> opt_set (fold_left visit_option_decl l s) m.
Proof.
  induction l as [|d l IH]; intros s m H; cbn [fold_left]; [exact H|]. apply IH. apply add_option_keeps. exact H.
Qed.

Lemma fold_option_decls_sets l : forall s d ws, In d l -> alookup option_table (p_text (od_name d)) = Some ws ->
  opt_set (fold_left visit_option_decl l s) (p_text (od_name d)).
Proof.
  induction l as [|x l IH]; intros s d ws Hin Hws; [contradiction|]. cbn [fold_left]. destruct Hin as [->|Hin].
  - apply fold_option_decls_keeps. eapply add_option_sets. exact Hws.
  - eapply IH; eassumption.
Qed.

Theorem dup_option_diagnosed t l r :
  In (FDupOption, l) (faults t) -> visit t = VOk r ->
  (forall d, In d (option_decls t) -> lookup documented_options (p_text (od_name d)) <> None) ->
  has_diag r DK_OptDup l.
Proof.
  intros Hf Hv Hdoc. apply faults_inv in Hf.
  destruct Hf as [[Hk _]|[[Hk _]|[[_ Hl]|[[Hk _]|[[d [_ Hd]]|[s [_ Hs]]]]]]]; try discriminate.
  - destruct (later_dups_nil_spec _ _ Hl) as [a [n [b [l' [Hx Ha]]]]].
    destruct (map_split _ _ _ _ _ Hx) as [xa [d [xb [Hdecls [Hxa [Hd _]]]]]]. injection Hd as Hn Hl2. subst n l a.
    apply in_map_iff in Ha. destruct Ha as [d0 [Hd0 Hin0]]. injection Hd0 as Hname _.
    assert (Hind : In d (option_decls t)) by (rewrite Hdecls; apply in_or_app; right; left; reflexivity).
    destruct (lookup documented_options (p_text (od_name d))) as [vs|] eqn:Hvs; [|exfalso; eapply Hdoc; eassumption].
    destruct (documented_known _ _ Hvs) as [ws Hws].
    assert (Hset : opt_set (fold_left visit_option_decl xa (phase_metas t st0)) (p_text (od_name d))).
    { rewrite <- Hname. eapply fold_option_decls_sets; [exact Hin0|]. rewrite Hname. exact Hws. }
    destruct (add_option_dup _ _ (match od_value d with VString _ _ => trim_quotes (value_text (od_value d)) | _ => value_text (od_value d) end)
                             (start_line (od_span d)) _ Hws Hset) as [dg [Hdg [Hk Hln]]].
    exists dg. split; [|split; [exact Hk|exact Hln]].
    eapply options_diag_reaches; [exact Hv|]. rewrite phase_options_decls, Hdecls, fold_left_app. cbn [fold_left].
    apply fold_option_decls_mono. exact Hdg.
  - apply option_fault_kind in Hd. destruct Hd; discriminate.
  - apply scope_faults_kind in Hs. discriminate.
Qed.

(* ---- packets *)

Definition pd_name_text (d : packet_def) : string := p_text (pd_name d).

Lemma visit_packet_def_shape metas pmap d store p st ds :
  visit_packet_def metas pmap d store = ROk (p, st, ds) ->
  vk_name p = pd_name_text d /\ vk_line p = start_line (pd_span d) /\ vk_root p = is_some (pd_root d).
Proof.
  unfold visit_packet_def. destruct (loop1 _ _ _ _) as [acc|e]; [|discriminate].
  destruct (loop2 _ _ _ _ _) as [fields|e]; [|discriminate]. intros H. inversion H. cbn. auto.
Qed.

Lemma add_packet_packets s p :
  s_packets (add_packet s p) =
  if mem (vk_name p) (Visitor.packet_names (s_packets s)) then s_packets s else snoc (s_packets s) p.
Proof.
  unfold add_packet. destruct (mem _ _); [reflexivity|]. destruct (vk_root p); [|reflexivity]. cbn. destruct (s_root s); reflexivity.
Qed.

Lemma packet_names_snoc ps p : Visitor.packet_names (snoc ps p) = snoc (Visitor.packet_names ps) (vk_name p).
Proof. unfold Visitor.packet_names, snoc. rewrite map_app. reflexivity. Qed.

Lemma add_packet_names s p n :
  In n (Visitor.packet_names (s_packets (add_packet s p))) <-> In n (Visitor.packet_names (s_packets s)) \/ n = vk_name p.
Proof.
  rewrite add_packet_packets. destruct (mem (vk_name p) _) eqn:Hm.
  - apply mem_In in Hm. split; [auto|]. intros [H|H]; [exact H|subst; exact Hm].
  - rewrite packet_names_snoc. apply In_snoc.
Qed.

Lemma visit_packets_cons d l s s' :
  visit_packets (d :: l) s = ROk s' ->
  exists p st ds, visit_packet_def (s_metas s) (Visitor.packet_names (s_packets s)) d (s_store s) = ROk (p, st, ds) /\
                  visit_packets l (add_packet (mkSt st (s_metas s) (s_options s) (s_packets s) (s_root s) (s_diags s ++ ds)) p) = ROk s'.
Proof.
  cbn [visit_packets]. destruct (visit_packet_def _ _ d _) as [[[p st] ds]|e]; [|discriminate]. intros H. exists p, st, ds. auto.
Qed.

Lemma visit_packets_app a : forall b s s',
  visit_packets (a ++ b) s = ROk s' -> exists s1, visit_packets a s = ROk s1 /\ visit_packets b s1 = ROk s'.
Proof.
  induction a as [|d a IH]; intros b s s' H.
  - exists s. auto.
  - cbn [app] in H. destruct (visit_packets_cons _ _ _ _ H) as [p [st [ds [Hd Hr]]]].
    destruct (IH _ _ _ Hr) as [s1 [H1 H2]]. exists s1. split; [|exact H2]. cbn [visit_packets]. rewrite Hd. exact H1.
Qed.

Lemma visit_packets_names l : forall s s' n,
  visit_packets l s = ROk s' ->
  (In n (Visitor.packet_names (s_packets s')) <-> In n (Visitor.packet_names (s_packets s)) \/ In n (map pd_name_text l)).
Proof.
  induction l as [|d l IH]; intros s s' n H.
  - inversion H. cbn. intuition.
  - destruct (visit_packets_cons _ _ _ _ H) as [p [st [ds [Hd Hr]]]]. rewrite (IH _ _ n Hr), add_packet_names. cbn [s_packets map In].
    destruct (visit_packet_def_shape _ _ _ _ _ _ _ Hd) as [Hn _]. rewrite Hn. intuition.
Qed.

Lemma phases_no_packets t : s_packets (phase_options t (phase_metas t st0)) = [] /\ s_root (phase_options t (phase_metas t st0)) = None.
Proof.
  rewrite phase_options_decls, phase_metas_items.
  assert (H1 : forall l s, s_packets (fold_left visit_meta_item l s) = s_packets s /\ s_root (fold_left visit_meta_item l s) = s_root s).
  { induction l as [|i l IH]; intros s; cbn [fold_left]; [auto|]. destruct (IH (visit_meta_item s i)) as [-> ->].
    destruct i as [d|d]; cbn [visit_meta_item]; [destruct (meta_decl_attr d (s_store s)) as [a st]|];
      unfold add_meta; cbn; destruct (find_meta _ _); cbn; auto. }
  assert (H2 : forall l s, s_packets (fold_left visit_option_decl l s) = s_packets s /\ s_root (fold_left visit_option_decl l s) = s_root s).
  { induction l as [|d l IH]; intros s; cbn [fold_left]; [auto|]. destruct (IH (visit_option_decl s d)) as [-> ->].
    unfold visit_option_decl, add_option. destruct (alookup option_table _) as [vs|]; [|cbn; auto].
    match goal with |- context [alookup (s_options ?x) _] => set (s1 := x) end.
    assert (Hs1 : s_packets s1 = s_packets s /\ s_root s1 = s_root s).
    { subst s1. destruct vs; [auto|]. destruct (mem _ _); cbn; auto. }
    destruct (alookup (s_options s1) _); cbn; exact Hs1. }
  destruct (H2 (option_decls t) (fold_left visit_meta_item (meta_items t) st0)) as [-> ->]. apply H1.
Qed.

Lemma packets_of_defs t : packets_of t = packet_defs t.
Proof. reflexivity. Qed.

Lemma packets_diag_reaches t r s d :
  visit_packets (packets_of t) (phase_options t (phase_metas t st0)) = ROk s -> r = finish s -> In d (s_diags s) -> In d (r_diags r).
Proof. intros _ -> Hd. apply finish_mono. exact Hd. Qed.

(* AddPacket on a registered name reports the duplicate on the packet's line *)
Lemma add_packet_dup s p :
  In (vk_name p) (Visitor.packet_names (s_packets s)) ->
  exists d, In d (s_diags (add_packet s p)) /\ d_kind d = DK_DupPacket /\ d_line d = vk_line p.
Proof.
  intros H. apply mem_In in H. unfold add_packet. rewrite H.
  eexists. split; [cbn; apply In_snoc; right; reflexivity|]. cbn. auto.
Qed.

(* ---- C12, duplicate packet: diagnosed on the line of the later packetDefinition *)
Theorem dup_packet_diagnosed t l r :
  In (FDupPacket, l) (faults t) -> visit t = VOk r -> has_diag r DK_DupPacket l.
Proof.
  intros Hf Hv. apply faults_inv in Hf.
  destruct Hf as [[_ Hl]|[[Hk _]|[[Hk _]|[[Hk _]|[[d [_ Hd]]|[s [_ Hs]]]]]]]; try discriminate.
  - destruct (later_dups_nil_spec _ _ Hl) as [a [n [b [l' [Hx Ha]]]]].
    destruct (map_split _ _ _ _ _ Hx) as [xa [d [xb [Hdefs [Hxa [Hd _]]]]]]. injection Hd as Hn Hl2. subst n l a.
    apply in_map_iff in Ha. destruct Ha as [d0 [Hd0 Hin0]]. injection Hd0 as Hname _.
    destruct (visit_ok_inv _ _ Hv) as [s [Hs Hr]]. pose proof Hs as Hs0.
    rewrite packets_of_defs, Hdefs in Hs. destruct (visit_packets_app _ _ _ _ Hs) as [s1 [H1 H2]].
    destruct (visit_packets_cons _ _ _ _ H2) as [p [st [ds [Hp Hrest]]]].
    destruct (visit_packet_def_shape _ _ _ _ _ _ _ Hp) as [Hpn [Hpl _]].
    assert (Hreg : In (vk_name p) (Visitor.packet_names (s_packets s1))).
    { rewrite (visit_packets_names _ _ _ (vk_name p) H1). right. rewrite Hpn. unfold pd_name_text. rewrite <- Hname.
      apply in_map_iff. exists d0. auto. }
    destruct (add_packet_dup (mkSt st (s_metas s1) (s_options s1) (s_packets s1) (s_root s1) (s_diags s1 ++ ds)) p Hreg)
      as [dg [Hdg [Hk Hln]]].
    exists dg. split; [|split; [exact Hk|rewrite Hln, Hpl; reflexivity]].
    eapply packets_diag_reaches; [exact Hs0|exact Hr|]. eapply visit_packets_mono; [exact Hrest|exact Hdg].
  - apply option_fault_kind in Hd. destruct Hd; discriminate.
  - apply scope_faults_kind in Hs. discriminate.
Qed.

(* ---- C12, more than one root packet.  Guard: the packet names are pairwise different (a root that is
   also a duplicate is only reported as a duplicate: second_root_dup_refuted, root_after_rejected_root_refuted) *)
Lemma filter_tl_split {A} (f : A -> bool) (l : list A) x rest y :
  filter f l = x :: rest -> In y rest ->
  exists a m b, l = a ++ x :: m ++ y :: b /\ f x = true /\ f y = true.
Proof.
  revert x rest. induction l as [|z l IH]; intros x rest Hf Hy; [discriminate|]. cbn [filter] in Hf.
  destruct (f z) eqn:Hz.
  - inversion Hf; subst z rest. assert (Hy' : In y (filter f l)) by exact Hy. apply filter_In in Hy'. destruct Hy' as [Hin Hfy].
    destruct (in_split _ _ Hin) as [m [b ->]]. exists [], m, b. auto.
  - destruct (IH _ _ Hf Hy) as [a [m [b [-> [Hx Hfy]]]]]. exists (z :: a), m, b. auto.
Qed.

Lemma add_packet_root_keeps s p : s_root s <> None -> s_root (add_packet s p) <> None.
Proof.
  intros H. unfold add_packet. destruct (mem _ _); [exact H|]. destruct (vk_root p); [|exact H]. cbn.
  destruct (s_root s); [cbn; discriminate|contradiction].
Qed.

Lemma visit_packets_root_keeps l : forall s s', visit_packets l s = ROk s' -> s_root s <> None -> s_root s' <> None.
Proof.
  induction l as [|d l IH]; intros s s' H Hr.
  - inversion H. subst. exact Hr.
  - destruct (visit_packets_cons _ _ _ _ H) as [p [st [ds [_ Hrest]]]]. eapply IH; [exact Hrest|].
    apply add_packet_root_keeps. exact Hr.
Qed.

Lemma add_packet_new_root s p :
  ~ In (vk_name p) (Visitor.packet_names (s_packets s)) -> vk_root p = true ->
  s_root (add_packet s p) <> None /\
  (s_root s <> None -> exists d, In d (s_diags (add_packet s p)) /\ d_kind d = DK_MultiRoot /\ d_line d = vk_line p).
Proof.
  intros Hn Hr. unfold add_packet. destruct (mem _ _) eqn:Hm; [apply mem_In in Hm; contradiction|]. rewrite Hr.
  destruct s as [st me op pk ro dg]. cbn. destruct ro as [x|]; cbn.
  - split; [discriminate|]. intros _. eexists. split; [apply In_snoc; right; reflexivity|]. cbn. auto.
  - split; [discriminate|]. intros H. contradiction.
Qed.

Lemma NoDup_mid {A} (xs ys : list A) (y : A) : NoDup (xs ++ y :: ys) -> ~ In y xs /\ ~ In y ys.
Proof.
  intros H. apply NoDup_remove_2 in H. split; intros Hin; apply H; apply in_or_app; auto.
Qed.

Theorem second_root_diagnosed t l r :
  In (FSecondRoot, l) (faults t) -> visit t = VOk r ->
  NoDup (map pd_name_text (packet_defs t)) ->
  has_diag r DK_MultiRoot l.
Proof.
  intros Hf Hv Hnd. apply faults_inv in Hf.
  destruct Hf as [[Hk _]|[[Hk _]|[[Hk _]|[[_ Hl]|[[d [_ Hd]]|[s [_ Hs]]]]]]]; try discriminate.
  - apply in_map_iff in Hl. destruct Hl as [d2 [Hline Hin2]].
    unfold root_defs in Hin2. destruct (filter _ (packet_defs t)) as [|d1 rest] eqn:Hfilt; [contradiction|]. cbn [tl] in Hin2.
    destruct (filter_tl_split _ _ _ _ _ Hfilt Hin2) as [a [m [b [Hdefs [Hr1 Hr2]]]]].
    destruct (visit_ok_inv _ _ Hv) as [s [Hs Hr]]. pose proof Hs as Hs0.
    rewrite packets_of_defs, Hdefs in Hs.
    destruct (phases_no_packets t) as [Hnop Hnoroot].
    destruct (visit_packets_app _ _ _ _ Hs) as [sa [Ha Hrest]].
    destruct (visit_packets_cons _ _ _ _ Hrest) as [p1 [st1 [ds1 [Hp1 Hrest1]]]].
    destruct (visit_packets_app _ _ _ _ Hrest1) as [sm [Hm Hrest2]].
    destruct (visit_packets_cons _ _ _ _ Hrest2) as [p2 [st2 [ds2 [Hp2 Hrest3]]]].
    destruct (visit_packet_def_shape _ _ _ _ _ _ _ Hp1) as [Hn1 [_ Hroot1]].
    destruct (visit_packet_def_shape _ _ _ _ _ _ _ Hp2) as [Hn2 [Hl2 Hroot2]].
    (* the names before d1 do not contain d1's, those before d2 do not contain d2's *)
    assert (Hnd1 : ~ In (pd_name_text d1) (map pd_name_text a)).
    { rewrite Hdefs, map_app in Hnd. cbn [map] in Hnd. apply NoDup_mid in Hnd. apply Hnd. }
    assert (Hnd2 : ~ In (pd_name_text d2) (map pd_name_text (a ++ d1 :: m))).
    { rewrite Hdefs in Hnd. replace (a ++ d1 :: m ++ d2 :: b) with ((a ++ d1 :: m) ++ d2 :: b) in Hnd
        by (rewrite <- app_assoc; reflexivity).
      rewrite map_app in Hnd. cbn [map] in Hnd. apply NoDup_mid in Hnd. apply Hnd. }
    assert (Hfresh1 : ~ In (vk_name p1) (Visitor.packet_names (s_packets sa))).
    { rewrite (visit_packets_names _ _ _ (vk_name p1) Ha), Hnop, Hn1. cbn. intros [[]|Hin]. contradiction. }
    assert (Hfresh2 : ~ In (vk_name p2) (Visitor.packet_names (s_packets sm))).
    { rewrite (visit_packets_names _ _ _ (vk_name p2) Hm), add_packet_names. cbn [s_packets].
      rewrite (visit_packets_names _ _ _ (vk_name p2) Ha), Hnop, Hn2, Hn1. cbn [Visitor.packet_names map In].
      intros Hin. apply Hnd2. rewrite map_app. cbn [map]. apply in_or_app. cbn [In].
      destruct Hin as [[[[]|Hin]|Heq]|Hin]; [left; exact Hin|right; left; symmetry; exact Heq|right; right; exact Hin]. }
    assert (Hp1root : vk_root p1 = true).
    { rewrite Hroot1. destruct (pd_root d1); [reflexivity|discriminate]. }
    assert (Hp2root : vk_root p2 = true).
    { rewrite Hroot2. destruct (pd_root d2); [reflexivity|discriminate]. }
    set (s1 := mkSt st1 (s_metas sa) (s_options sa) (s_packets sa) (s_root sa) (s_diags sa ++ ds1)) in *.
    destruct (add_packet_new_root s1 p1 Hfresh1 Hp1root) as [Hrootset _].
    pose proof (visit_packets_root_keeps _ _ _ Hm Hrootset) as Hrootsm.
    set (s2 := mkSt st2 (s_metas sm) (s_options sm) (s_packets sm) (s_root sm) (s_diags sm ++ ds2)) in *.
    destruct (add_packet_new_root s2 p2 Hfresh2 Hp2root) as [_ Hdiag].
    destruct (Hdiag Hrootsm) as [dg [Hdg [Hk Hln]]].
    exists dg. split; [|split; [exact Hk|rewrite Hln, Hl2; exact Hline]].
    eapply packets_diag_reaches; [exact Hs0|exact Hr|]. eapply visit_packets_mono; [exact Hrest3|exact Hdg].
  - apply option_fault_kind in Hd. destruct Hd; discriminate.
  - apply scope_faults_kind in Hs. discriminate.
Qed.

(* ---- induction on field definitions (nested through the list of an inline object) *)
Section FieldDefInd.
  Variable P : field_def -> Prop.
  Hypothesis H_inline : forall sp rep sp2 n o fields c comma,
      Forall P fields -> P (InerObjectField sp rep (InerObjectDecl sp2 n o fields c) comma).
  Hypothesis H_meta : forall sp rep d, P (MetaField sp rep d).
  Hypothesis H_object : forall sp rep ft fn doc comma, P (ObjectField sp rep ft fn doc comma).
  Hypothesis H_length : forall sp d, P (LengthField sp d).
  Hypothesis H_checksum : forall sp d, P (CheckSumField sp d).
  Hypothesis H_match : forall sp d comma, P (MatchField sp d comma).

  Fixpoint field_def_induction (f : field_def) : P f :=
    match f with
    | InerObjectField sp rep (InerObjectDecl sp2 n o fields c) comma =>
        H_inline sp rep sp2 n o fields c comma
          ((fix go (l : list field_def) : Forall P l :=
              match l with
              | [] => Forall_nil P
              | x :: r => Forall_cons x (field_def_induction x) (go r)
              end) fields)
    | MetaField sp rep d => H_meta sp rep d
    | ObjectField sp rep ft fn doc comma => H_object sp rep ft fn doc comma
    | LengthField sp d => H_length sp d
    | CheckSumField sp d => H_checksum sp d
    | MatchField sp d comma => H_match sp d comma
    end.
End FieldDefInd.

Lemma inline_scopes_not_top f : forall s, In s (inline_scopes f) -> sc_top s = false.
Proof.
  induction f as [sp rep sp2 n o fields c comma IH| | | | |] using field_def_induction; intros s Hs; cbn [inline_scopes] in Hs;
    try contradiction.
  destruct Hs as [<-|Hs]; [reflexivity|]. apply in_flat_map in Hs. destruct Hs as [x [Hx Hs]].
  rewrite Forall_forall in IH. exact (IH x Hx s Hs).
Qed.

(* a top scope is the body of a packet definition *)
Lemma top_scope_inv t s :
  In s (scopes t) -> sc_top s = true ->
  exists d, In d (packet_defs t) /\ s = mkScope true (is_some (pd_root d)) (map top_entry (pd_fields d)).
Proof.
  unfold scopes. intros Hs Htop. apply in_flat_map in Hs. destruct Hs as [d [Hd Hs]]. exists d. split; [exact Hd|].
  unfold packet_scopes in Hs. destruct Hs as [<-|Hs].
  - unfold is_some. destruct (pd_root d); reflexivity.
  - apply in_flat_map in Hs. destruct Hs as [fw [_ Hs]]. apply inline_scopes_not_top in Hs. rewrite Hs in Htop. discriminate.
Qed.

(* where a length-placement fault comes from *)
Lemma len_fault_inv pn mn s k l :
  In (k, l) (scope_faults pn mn s) -> k = FLenOutsideRoot \/ k = FSecondLen ->
  In (k, l) (if sc_top s && sc_root s
             then tag FSecondLen (map e_line (tl (filter is_len_entry (sc_entries s))))
             else tag FLenOutsideRoot (map e_line (filter is_len_entry (sc_entries s)))).
Proof.
  unfold scope_faults. rewrite !in_app_iff. intros [H|[H|[H|H]]] Hk.
  - apply In_tag in H. destruct H as [-> _]. destruct Hk; discriminate.
  - apply in_flat_map in H. destruct H as [e [_ H]]. destruct (e_def e); try contradiction.
    apply In_tag in H. destruct H as [-> _]. destruct Hk; discriminate.
  - exact H.
  - apply in_flat_map in H. destruct H as [e [_ H]]. rewrite in_app_iff in H. destruct H as [H|H].
    + destruct (e_def e); try contradiction.
      * destruct (_ || _); [contradiction|]. destruct H as [H|[]]. inversion H. subst. destruct Hk; discriminate.
      * rewrite in_app_iff in H. destruct H as [H|H].
        -- destruct (name_in _ _); [contradiction|]. destruct H as [H|[]]. inversion H. subst. destruct Hk; discriminate.
        -- apply in_flat_map in H. destruct H as [p [_ H]]. destruct (name_in _ _); [contradiction|].
           destruct H as [H|[]]. inversion H. subst. destruct Hk; discriminate.
    + destruct (forallb _ _); [contradiction|]. destruct H as [H|[]]. inversion H. subst. destruct Hk; discriminate.
Qed.

(* ---- the attribute a top-level field ends up with: is it a length attribute? *)

(* MetaData entries never carry a length attribute *)
Definition metas_ok (ms : list vmeta) : Prop := forall m, In m ms -> is_len_attr (vm_attr m) = false.

Lemma find_meta_In ms n m : find_meta ms n = Some m -> In m ms.
Proof.
  induction ms as [|x ms IH]; cbn [find_meta]; [discriminate|]. destruct (String.eqb n (vm_name x)).
  - intros H. inversion H. left. reflexivity.
  - intros H. right. apply IH. exact H.
Qed.

Lemma meta_decl_attr_not_len d store : is_len_attr (fst (meta_decl_attr d store)) = false.
Proof. unfold meta_decl_attr. destruct (md_type d); reflexivity. Qed.

Lemma add_meta_ok s m : metas_ok (s_metas s) -> is_len_attr (vm_attr m) = false -> metas_ok (s_metas (add_meta s m)).
Proof.
  intros H Hm. unfold add_meta. destruct (find_meta _ _); [exact H|]. cbn. intros x Hx. apply In_snoc in Hx.
  destruct Hx as [Hx| ->]; [apply H; exact Hx|exact Hm].
Qed.

Lemma visit_meta_item_ok s i : metas_ok (s_metas s) -> metas_ok (s_metas (visit_meta_item s i)).
Proof.
  intros H. destruct i as [d|d]; cbn [visit_meta_item].
  - pose proof (meta_decl_attr_not_len d (s_store s)) as Ha. destruct (meta_decl_attr d (s_store s)) as [a st]. cbn in Ha.
    apply add_meta_ok; [exact H|exact Ha].
  - apply add_meta_ok; [exact H|]. cbn. destruct (find_meta _ _) as [m|] eqn:Hm; [|reflexivity]. apply H. eapply find_meta_In. exact Hm.
Qed.

Lemma phase_metas_ok t : metas_ok (s_metas (phase_metas t st0)).
Proof.
  rewrite phase_metas_items. assert (H : forall l s, metas_ok (s_metas s) -> metas_ok (s_metas (fold_left visit_meta_item l s))).
  { induction l as [|i l IH]; intros s Hs; cbn [fold_left]; [exact Hs|]. apply IH. apply visit_meta_item_ok. exact Hs. }
  apply H. intros m [].
Qed.

Lemma add_option_metas s n v l : s_metas (add_option s n v l) = s_metas s.
Proof.
  unfold add_option. destruct (alookup option_table n) as [vs|]; [|reflexivity].
  match goal with |- context [alookup (s_options ?x) _] => set (s1 := x) end.
  assert (H1 : s_metas s1 = s_metas s). { subst s1. destruct vs; [reflexivity|]. destruct (mem _ _); reflexivity. }
  destruct (alookup _ _); cbn; exact H1.
Qed.

Lemma phase_options_metas t s : s_metas (phase_options t s) = s_metas s.
Proof.
  rewrite phase_options_decls. revert s. induction (option_decls t) as [|d l IH]; intros s; cbn [fold_left]; [reflexivity|].
  rewrite IH. apply add_option_metas.
Qed.

Lemma add_packet_metas s p : s_metas (add_packet s p) = s_metas s.
Proof.
  unfold add_packet. destruct (mem _ _); [reflexivity|]. destruct (vk_root p); [|reflexivity]. cbn. destruct (s_root s); reflexivity.
Qed.

Lemma visit_packets_metas l : forall s s', visit_packets l s = ROk s' -> s_metas s' = s_metas s.
Proof.
  induction l as [|d l IH]; intros s s' H.
  - inversion H. reflexivity.
  - destruct (visit_packets_cons _ _ _ _ H) as [p [st [ds [_ Hr]]]]. rewrite (IH _ _ Hr), add_packet_metas. reflexivity.
Qed.

(* the last @lengthOf / @calculatedFrom of an attribute list decides; without one, the declaration does *)
Fixpoint final_len (attrs : list field_attribute) (init : bool) : bool :=
  match attrs with
  | [] => init
  | FALengthOf _ _ :: r => final_len r true
  | FACalculatedFrom _ _ :: r => final_len r false
  | _ :: r => final_len r init
  end.

Definition is_length_field (f : field_def) : bool := match f with LengthField _ _ => true | _ => false end.
Definition final_is_len (fw : field_with_attr) : bool := final_len (fw_attrs fw) (is_length_field (fw_def fw)).

Lemma apply_attrs_len attrs : forall f store f' st,
  apply_attrs attrs f store = ROk (f', st) -> is_len_attr (vf_attr f') = final_len attrs (is_len_attr (vf_attr f)).
Proof.
  induction attrs as [|a attrs IH]; intros f store f' st H; cbn [apply_attrs] in H.
  - inversion H. reflexivity.
  - destruct (apply_attr a f store) as [[f1 st1]|e] eqn:Ha; [|discriminate]. rewrite (IH _ _ _ _ H).
    destruct a as [sp x|sp x|sp x|sp x]; cbn [apply_attr] in Ha; cbn [final_len].
    + destruct (field_get_type (vf_attr f)); [|discriminate]. inversion Ha. destruct f; reflexivity.
    + destruct (field_get_type (vf_attr f)); [|discriminate]. inversion Ha. destruct f; reflexivity.
    + inversion Ha. destruct f; reflexivity.
    + destruct (vf_attr f) eqn:Hf; try discriminate. inversion Ha. subst. rewrite Hf. reflexivity.
Qed.

Lemma visit_field_def_len metas f store v st ds :
  metas_ok metas -> visit_field_def metas f store = ROk (v, st, ds) -> is_len_attr (vf_attr v) = is_length_field f.
Proof.
  intros Hm H. destruct f as [sp rep decl comma|sp rep d|sp rep ft fn doc comma|sp d|sp d|sp d comma]; cbn [visit_field_def] in H.
  - destruct decl as [sp2 n o fields c].
    match type of H with match ?X with _ => _ end = _ => destruct X as [[[subs st1] ds1]|e] end; [|discriminate].
    inversion H. reflexivity.
  - pose proof (meta_decl_attr_not_len d store) as Ha. unfold meta_decl_field in H.
    destruct (meta_decl_attr d store) as [a st']. inversion H. cbn in *. exact Ha.
  - inversion H. cbn. destruct (find_meta metas (p_text ft)) as [m|] eqn:Hf; [|reflexivity]. apply Hm. eapply find_meta_In. exact Hf.
  - unfold visit_length_field in H. destruct (decl_type _ _ _ _); [|discriminate]. inversion H. reflexivity.
  - unfold visit_checksum_field in H. destruct (decl_type _ _ _ _); [|discriminate]. inversion H. reflexivity.
  - unfold visit_match_field in H. inversion H. reflexivity.
Qed.

Lemma visit_field_with_attr_len metas fw store v st ds :
  metas_ok metas -> visit_field_with_attr metas fw store = ROk (v, st, ds) -> is_len_attr (vf_attr v) = final_is_len fw.
Proof.
  intros Hm H. unfold visit_field_with_attr in H.
  destruct (visit_field_def metas (fw_def fw) store) as [[[f st1] ds1]|e] eqn:Hd; [|discriminate].
  destruct (apply_attrs (fw_attrs fw) f st1) as [[f1 st2]|e] eqn:Ha; [|discriminate]. inversion H. subst.
  rewrite (apply_attrs_len _ _ _ _ _ Ha), (visit_field_def_len _ _ _ _ _ _ Hm Hd). reflexivity.
Qed.

(* ---- the first loop of VisitPacketDefinition *)

Lemma loop1_add_mono is_root line f acc store ds : incl (pa_diags acc ++ ds) (pa_diags (loop1_add is_root line f acc store ds)).
Proof.
  unfold loop1_add. destruct (is_len_attr (vf_attr f)).
  - destruct (negb is_root); [cbn; apply incl_snoc|]. destruct (pa_lenf acc); cbn; [apply incl_snoc|apply incl_refl].
  - cbn. apply incl_refl.
Qed.

Lemma loop1_cons metas is_root fw l acc acc' :
  loop1 metas is_root (fw :: l) acc = ROk acc' ->
  exists f st ds, visit_field_with_attr metas fw (pa_store acc) = ROk (f, st, ds) /\
                  loop1 metas is_root l (loop1_add is_root (start_line (fw_span fw)) f acc st ds) = ROk acc'.
Proof.
  cbn [loop1]. destruct (visit_field_with_attr _ _ _) as [[[f st] ds]|e]; [|discriminate]. intros H. exists f, st, ds. auto.
Qed.

Lemma loop1_app metas is_root a : forall b acc acc',
  loop1 metas is_root (a ++ b) acc = ROk acc' -> exists acc1, loop1 metas is_root a acc = ROk acc1 /\ loop1 metas is_root b acc1 = ROk acc'.
Proof.
  induction a as [|fw a IH]; intros b acc acc' H.
  - exists acc. auto.
  - cbn [app] in H. destruct (loop1_cons _ _ _ _ _ _ H) as [f [st [ds [Hf Hr]]]].
    destruct (IH _ _ _ Hr) as [acc1 [H1 H2]]. exists acc1. split; [|exact H2]. cbn [loop1]. rewrite Hf. exact H1.
Qed.

Lemma loop1_mono metas is_root l : forall acc acc', loop1 metas is_root l acc = ROk acc' -> incl (pa_diags acc) (pa_diags acc').
Proof.
  induction l as [|fw l IH]; intros acc acc' H.
  - inversion H. apply incl_refl.
  - destruct (loop1_cons _ _ _ _ _ _ H) as [f [st [ds [_ Hr]]]]. apply IH in Hr. eapply incl_tran; [|exact Hr].
    eapply incl_tran; [|apply loop1_add_mono]. apply incl_appl. apply incl_refl.
Qed.

(* a length field in a non-root packet is reported on its first line *)
Lemma loop1_len_not_root metas a fw b acc acc' :
  metas_ok metas -> final_is_len fw = true ->
  loop1 metas false (a ++ fw :: b) acc = ROk acc' ->
  exists d, In d (pa_diags acc') /\ d_kind d = DK_LenNotRoot /\ d_line d = start_line (fw_span fw).
Proof.
  intros Hm Hfin H. destruct (loop1_app _ _ _ _ _ _ H) as [acc1 [_ H2]].
  destruct (loop1_cons _ _ _ _ _ _ H2) as [f [st [ds [Hf Hr]]]].
  pose proof (visit_field_with_attr_len _ _ _ _ _ _ Hm Hf) as Hlen. rewrite Hfin in Hlen.
  eexists. split; [eapply loop1_mono; [exact Hr|]|].
  - unfold loop1_add. rewrite Hlen. cbn. apply In_snoc. right. reflexivity.
  - cbn. auto.
Qed.

Lemma loop1_add_lenf_keeps is_root line f acc store ds : pa_lenf acc <> None -> pa_lenf (loop1_add is_root line f acc store ds) <> None.
Proof.
  intros H. unfold loop1_add. destruct (is_len_attr (vf_attr f)).
  - destruct (negb is_root); [exact H|]. destruct (pa_lenf acc); [exact H|contradiction].
  - exact H.
Qed.

Lemma loop1_lenf_keeps metas is_root l : forall acc acc', loop1 metas is_root l acc = ROk acc' -> pa_lenf acc <> None -> pa_lenf acc' <> None.
Proof.
  induction l as [|fw l IH]; intros acc acc' H Hl.
  - inversion H. subst. exact Hl.
  - destruct (loop1_cons _ _ _ _ _ _ H) as [f [st [ds [_ Hr]]]]. eapply IH; [exact Hr|]. apply loop1_add_lenf_keeps. exact Hl.
Qed.

(* the second length field of a root packet is reported on its first line *)
Lemma loop1_len_dup metas a fw1 m fw2 b acc acc' :
  metas_ok metas -> final_is_len fw1 = true -> final_is_len fw2 = true ->
  loop1 metas true (a ++ fw1 :: m ++ fw2 :: b) acc = ROk acc' ->
  exists d, In d (pa_diags acc') /\ d_kind d = DK_LenDup /\ d_line d = start_line (fw_span fw2).
Proof.
  intros Hm Hfin1 Hfin2 H. destruct (loop1_app _ _ _ _ _ _ H) as [acc1 [_ H2]].
  destruct (loop1_cons _ _ _ _ _ _ H2) as [f1 [st1 [ds1 [Hf1 Hr1]]]].
  pose proof (visit_field_with_attr_len _ _ _ _ _ _ Hm Hf1) as Hlen1. rewrite Hfin1 in Hlen1.
  destruct (loop1_app _ _ _ _ _ _ Hr1) as [acc2 [Hmid H3]].
  destruct (loop1_cons _ _ _ _ _ _ H3) as [f2 [st2 [ds2 [Hf2 Hr2]]]].
  pose proof (visit_field_with_attr_len _ _ _ _ _ _ Hm Hf2) as Hlen2. rewrite Hfin2 in Hlen2.
  assert (Hset : pa_lenf acc2 <> None).
  { eapply loop1_lenf_keeps; [exact Hmid|]. unfold loop1_add. rewrite Hlen1. cbn. destruct (pa_lenf acc1); cbn; discriminate. }
  eexists. split; [eapply loop1_mono; [exact Hr2|]|].
  - unfold loop1_add. rewrite Hlen2. cbn. destruct (pa_lenf acc2); [|contradiction]. cbn. apply In_snoc. right. reflexivity.
  - cbn. auto.
Qed.

Lemma visit_packet_def_diags metas pmap d store p st ds :
  visit_packet_def metas pmap d store = ROk (p, st, ds) ->
  exists acc, loop1 metas (is_some (pd_root d)) (pd_fields d) (mkPacc [] [] None [] store []) = ROk acc /\ ds = pa_diags acc.
Proof.
  unfold visit_packet_def. destruct (loop1 _ _ _ _) as [acc|e]; [|discriminate].
  destruct (loop2 _ _ _ _ _) as [fields|e]; [|discriminate]. intros H. inversion H. exists acc. auto.
Qed.

(* the diagnostics of one packet definition reach the result *)
Lemma packet_def_diag_reaches t r d :
  visit t = VOk r -> In d (packet_defs t) ->
  exists metas pmap store p st ds,
    metas_ok metas /\ visit_packet_def metas pmap d store = ROk (p, st, ds) /\ incl ds (r_diags r).
Proof.
  intros Hv Hd. destruct (visit_ok_inv _ _ Hv) as [s [Hs Hr]]. pose proof Hs as Hs0.
  rewrite packets_of_defs in Hs. destruct (in_split _ _ Hd) as [a [b Hsplit]]. rewrite Hsplit in Hs.
  destruct (visit_packets_app _ _ _ _ Hs) as [sa [Ha Hrest]].
  destruct (visit_packets_cons _ _ _ _ Hrest) as [p [st [ds [Hp Hrest2]]]].
  exists (s_metas sa), (Visitor.packet_names (s_packets sa)), (s_store sa), p, st, ds. split; [|split; [exact Hp|]].
  - rewrite (visit_packets_metas _ _ _ Ha), phase_options_metas. apply phase_metas_ok.
  - subst r. eapply incl_tran; [|apply finish_mono]. eapply incl_tran; [|eapply visit_packets_mono; exact Hrest2].
    eapply incl_tran; [|apply add_packet_mono]. cbn. apply incl_appr. apply incl_refl.
Qed.

(* ---- C12, length-of field outside the root packet / second length-of field.
   Guards: on every top-level field with a length-of the length attribute is the one that takes effect
   (len_then_calc_refuted is the counterexample otherwise), and - for placement - no inline object declares a
   length-of field (len_in_inline_refuted). *)
Definition len_final (t : pt) : Prop :=
  forall d fw, In d (packet_defs t) -> In fw (pd_fields d) -> is_len_entry (top_entry fw) = true -> final_is_len fw = true.

Definition no_inline_len (t : pt) : Prop :=
  forall s, In s (scopes t) -> sc_top s = false -> filter is_len_entry (sc_entries s) = [].

Lemma is_some_root d : (match pd_root d with Some _ => true | None => false end) = is_some (pd_root d).
Proof. destruct (pd_root d); reflexivity. Qed.

Theorem len_outside_root_diagnosed t l r :
  In (FLenOutsideRoot, l) (faults t) -> visit t = VOk r -> len_final t -> no_inline_len t ->
  has_diag r DK_LenNotRoot l.
Proof.
  intros Hf Hv Hfinal Hnoinl. apply faults_inv in Hf.
  destruct Hf as [[Hk _]|[[Hk _]|[[Hk _]|[[Hk _]|[[d [_ Hd]]|[s [Hs Hsf]]]]]]]; try discriminate.
  - apply option_fault_kind in Hd. destruct Hd; discriminate.
  - apply len_fault_inv in Hsf; [|left; reflexivity].
    destruct (sc_top s) eqn:Htop.
    + destruct (top_scope_inv _ _ Hs Htop) as [d [Hd ->]]. cbn [sc_top sc_root sc_entries andb] in Hsf.
      destruct (is_some (pd_root d)) eqn:Hroot; [apply In_tag in Hsf; destruct Hsf; discriminate|].
      apply In_tag in Hsf. destruct Hsf as [_ Hl]. apply in_map_iff in Hl. destruct Hl as [e [Hline He]].
      apply filter_In in He. destruct He as [He Hlen]. apply in_map_iff in He. destruct He as [fw [<- Hfw]].
      pose proof (Hfinal _ _ Hd Hfw Hlen) as Hfin.
      destruct (packet_def_diag_reaches _ _ _ Hv Hd) as [metas [pmap [store [p [st [ds [Hm [Hp Hincl]]]]]]]].
      destruct (visit_packet_def_diags _ _ _ _ _ _ _ Hp) as [acc [Hloop ->]]. rewrite Hroot in Hloop.
      destruct (in_split _ _ Hfw) as [a [b Hsplit]]. rewrite Hsplit in Hloop.
      destruct (loop1_len_not_root _ _ _ _ _ _ Hm Hfin Hloop) as [dg [Hdg [Hk Hln]]].
      exists dg. split; [apply Hincl; exact Hdg|]. split; [exact Hk|]. rewrite Hln. exact Hline.
    + cbn [andb] in Hsf. apply In_tag in Hsf. destruct Hsf as [_ Hl]. rewrite (Hnoinl _ Hs Htop) in Hl. contradiction.
Qed.

Theorem second_len_diagnosed t l r :
  In (FSecondLen, l) (faults t) -> visit t = VOk r -> len_final t ->
  has_diag r DK_LenDup l.
Proof.
  intros Hf Hv Hfinal. apply faults_inv in Hf.
  destruct Hf as [[Hk _]|[[Hk _]|[[Hk _]|[[Hk _]|[[d [_ Hd]]|[s [Hs Hsf]]]]]]]; try discriminate.
  - apply option_fault_kind in Hd. destruct Hd; discriminate.
  - apply len_fault_inv in Hsf; [|right; reflexivity].
    destruct (sc_top s) eqn:Htop; [|cbn [andb] in Hsf; apply In_tag in Hsf; destruct Hsf; discriminate].
    destruct (top_scope_inv _ _ Hs Htop) as [d [Hd ->]]. cbn [sc_top sc_root sc_entries andb] in Hsf.
    destruct (is_some (pd_root d)) eqn:Hroot; [|apply In_tag in Hsf; destruct Hsf; discriminate].
    apply In_tag in Hsf. destruct Hsf as [_ Hl]. apply in_map_iff in Hl. destruct Hl as [e2 [Hline He2]].
    destruct (filter is_len_entry (map top_entry (pd_fields d))) as [|e1 rest] eqn:Hfilt; [contradiction|]. cbn [tl] in He2.
    destruct (filter_tl_split _ _ _ _ _ Hfilt He2) as [A [M [B [Hmap [Hlen1 Hlen2]]]]].
    destruct (map_split _ _ _ _ _ Hmap) as [a [fw1 [rest1 [Hfields [_ [Hfw1 Hrest1]]]]]].
    destruct (map_split _ _ _ _ _ Hrest1) as [m [fw2 [b [Hrest2 [_ [Hfw2 _]]]]]]. subst rest1 e1 e2.
    assert (Hin1 : In fw1 (pd_fields d)) by (rewrite Hfields; apply in_or_app; right; left; reflexivity).
    assert (Hin2 : In fw2 (pd_fields d)).
    { rewrite Hfields. apply in_or_app. right. right. apply in_or_app. right. left. reflexivity. }
    pose proof (Hfinal _ _ Hd Hin1 Hlen1) as Hfin1. pose proof (Hfinal _ _ Hd Hin2 Hlen2) as Hfin2.
    destruct (packet_def_diag_reaches _ _ _ Hv Hd) as [metas [pmap [store [p [st [ds [Hm [Hp Hincl]]]]]]]].
    destruct (visit_packet_def_diags _ _ _ _ _ _ _ Hp) as [acc [Hloop ->]]. rewrite Hroot, Hfields in Hloop.
    destruct (loop1_len_dup _ _ _ _ _ _ _ _ Hm Hfin1 Hfin2 Hloop) as [dg [Hdg [Hk Hln]]].
    exists dg. split; [apply Hincl; exact Hdg|]. split; [exact Hk|]. rewrite Hln. exact Hline.
Qed.

(* ---- the second loop of VisitPacketDefinition *)

Lemma length_upd_nth {A} (l : list A) : forall i x, length (upd_nth i x l) = length l.
Proof. induction l as [|y l IH]; intros [|i] x; cbn; auto. Qed.

Lemma nth_error_upd_nth_eq {A} (l : list A) : forall i x, i < length l -> nth_error (upd_nth i x l) i = Some x.
Proof.
  induction l as [|y l IH]; intros [|i] x H; cbn in *; try lia; [reflexivity|]. apply IH. lia.
Qed.

Lemma nth_error_upd_nth_neq {A} (l : list A) : forall i j x, i <> j -> nth_error (upd_nth i x l) j = nth_error l j.
Proof.
  induction l as [|y l IH]; intros [|i] [|j] x H; cbn; try reflexivity; try congruence. apply IH. congruence.
Qed.

Lemma nth_error_Some_lt {A} (l : list A) i x : nth_error l i = Some x -> i < length l.
Proof. intros H. apply nth_error_Some. rewrite H. discriminate. Qed.

(* name and line of a field: what the second loop never changes *)
Definition skel (f : vfield) : string * nat := (vf_name f, vf_line f).

Lemma skel_set_la f l : skel (set_la f l) = skel f. Proof. destruct f; reflexivity. Qed.
Lemma skel_set_attr f a : skel (set_attr f a) = skel f. Proof. destruct f; reflexivity. Qed.
Lemma attr_set_la f l : vf_attr (set_la f l) = vf_attr f. Proof. destruct f; reflexivity. Qed.
Lemma attr_set_attr f a : vf_attr (set_attr f a) = a. Proof. destruct f; reflexivity. Qed.

(* replacing an element by one with the same skeleton *)
Lemma skel_upd_nth fields i f g j :
  nth_error fields i = Some f -> skel g = skel f ->
  option_map skel (nth_error (upd_nth i g fields) j) = option_map skel (nth_error fields j).
Proof.
  intros Hf Hs. destruct (Nat.eq_dec i j) as [<-|Hn].
  - rewrite nth_error_upd_nth_eq by (eapply nth_error_Some_lt; exact Hf). rewrite Hf. cbn. rewrite Hs. reflexivity.
  - rewrite nth_error_upd_nth_neq by exact Hn. reflexivity.
Qed.

Lemma attr_upd_nth_la fields i f l j :
  nth_error fields i = Some f ->
  option_map vf_attr (nth_error (upd_nth i (set_la f l) fields) j) = option_map vf_attr (nth_error fields j).
Proof.
  intros Hf. destruct (Nat.eq_dec i j) as [<-|Hn].
  - rewrite nth_error_upd_nth_eq by (eapply nth_error_Some_lt; exact Hf). rewrite Hf. cbn. rewrite attr_set_la. reflexivity.
  - rewrite nth_error_upd_nth_neq by exact Hn. reflexivity.
Qed.

(* the first half of an iteration (the LenAttr assignments) changes no Attr, no name, no line *)
Definition step_la (lenf : option nat) (i : nat) (fields : list vfield) (f : vfield) : res (list vfield) :=
  match lenf with
  | None => ROk fields
  | Some li =>
      match nth_error fields li with
      | None => ROk fields
      | Some lf =>
          match vf_attr lf with
          | VALen tgt lenty =>
              match fref_name tgt with
              | None => RPanic site_packetdef
              | Some tn =>
                  if String.eqb (vf_name f) tn then
                    let fields1 := upd_nth li (set_la lf (VLLenOf (vf_name lf))) fields in
                    match nth_error fields1 i with
                    | Some f1 => ROk (upd_nth i (set_la f1 (VLLen (Some tn) lenty)) fields1)
                    | None => ROk fields1
                    end
                  else ROk fields
              end
          | _ => RPanic site_packetdef
          end
      end
  end.

Lemma step_la_keeps lenf i fields f fields1 :
  step_la lenf i fields f = ROk fields1 ->
  length fields1 = length fields /\
  forall j, option_map skel (nth_error fields1 j) = option_map skel (nth_error fields j) /\
            option_map vf_attr (nth_error fields1 j) = option_map vf_attr (nth_error fields j).
Proof.
  unfold step_la. destruct lenf as [li|]; [|intros H; inversion H; auto].
  destruct (nth_error fields li) as [lf|] eqn:Hlf; [|intros H; inversion H; auto].
  destruct (vf_attr lf) eqn:Ha; try discriminate. destruct (fref_name target) as [tn|]; [|discriminate].
  destruct (String.eqb (vf_name f) tn); [|intros H; inversion H; auto].
  set (fields0 := upd_nth li (set_la lf (VLLenOf (vf_name lf))) fields).
  assert (H0 : length fields0 = length fields /\
               forall j, option_map skel (nth_error fields0 j) = option_map skel (nth_error fields j) /\
                         option_map vf_attr (nth_error fields0 j) = option_map vf_attr (nth_error fields j)).
  { subst fields0. split; [apply length_upd_nth|]. intros j. split.
    - apply (skel_upd_nth _ _ lf); [exact Hlf|apply skel_set_la].
    - apply attr_upd_nth_la. exact Hlf. }
  destruct H0 as [Hlen0 Hk0].
  destruct (nth_error fields0 i) as [f1|] eqn:Hf1; intros H; inversion H; subst fields1.
  - split; [rewrite length_upd_nth; exact Hlen0|]. intros j. destruct (Hk0 j) as [Hs Hat]. rewrite <- Hs, <- Hat. split.
    + apply (skel_upd_nth _ _ f1); [exact Hf1|apply skel_set_la].
    + apply attr_upd_nth_la. exact Hf1.
  - split; [exact Hlen0|exact Hk0].
Qed.

Lemma loop2_step_unfold pmap fmap lenf i fields f :
  nth_error fields i = Some f ->
  loop2_step pmap fmap lenf i fields =
  match step_la lenf i fields f with
  | RPanic e => RPanic e
  | ROk fields1 =>
      match nth_error fields1 i with
      | None => ROk fields1
      | Some f1 =>
          match vf_attr f1 with
          | VAObj false pn _ inlp =>
              ROk (upd_nth i (set_attr f1 (VAObj false pn (if mem pn pmap then Some pn else None) inlp)) fields1)
          | VALen tgt lenty =>
              match fref_name tgt with
              | None => RPanic site_packetdef
              | Some tn =>
                  match field_get_type (vf_attr f1) with
                  | None => RPanic site_gettype
                  | Some t => ROk (upd_nth i (set_attr f1 (VALen (fmap_ref fmap tn) t)) fields1)
                  end
              end
          | VAMatch key pairs =>
              match fref_name key with
              | None => RPanic site_packetdef
              | Some kn => ROk (upd_nth i (set_attr f1 (VAMatch (fmap_ref fmap kn) pairs)) fields1)
              end
          | _ => ROk fields1
          end
      end
  end.
Proof. intros Hf. unfold loop2_step, step_la. rewrite Hf. reflexivity. Qed.

(* the new attribute of the field an iteration works on *)
Definition step_attr (pmap : list string) (fmap : list (string * nat)) (a : vattr) : vattr :=
  match a with
  | VAObj false pn _ inlp => VAObj false pn (if mem pn pmap then Some pn else None) inlp
  | VALen tgt lenty =>
      match fref_name tgt, field_get_type a with
      | Some tn, Some t => VALen (fmap_ref fmap tn) t
      | _, _ => a
      end
  | VAMatch key pairs =>
      match fref_name key with
      | Some kn => VAMatch (fmap_ref fmap kn) pairs
      | None => a
      end
  | _ => a
  end.

(* one iteration: lengths, names and lines stay; the Attr of the i-th field becomes [step_attr], the others stay *)
Lemma loop2_step_spec pmap fmap lenf i fields fields' :
  loop2_step pmap fmap lenf i fields = ROk fields' ->
  length fields' = length fields /\
  forall j, option_map skel (nth_error fields' j) = option_map skel (nth_error fields j) /\
            option_map vf_attr (nth_error fields' j) =
            (if Nat.eqb i j then option_map (step_attr pmap fmap) else (fun x => x)) (option_map vf_attr (nth_error fields j)).
Proof.
  destruct (nth_error fields i) as [f|] eqn:Hf.
  - rewrite (loop2_step_unfold _ _ _ _ _ _ Hf). destruct (step_la lenf i fields f) as [fields1|e] eqn:Hla; [|discriminate].
    destruct (step_la_keeps _ _ _ _ _ Hla) as [Hlen1 Hk1].
    destruct (nth_error fields1 i) as [f1|] eqn:Hf1.
    2:{ intros H. inversion H. subst fields'. split; [exact Hlen1|]. intros j. destruct (Hk1 j) as [Hs Ha]. split; [exact Hs|].
        rewrite Ha. destruct (Nat.eqb_spec i j) as [<-|_]; [|reflexivity].
        destruct (Hk1 i) as [_ Hai]. rewrite Hf1, Hf in Hai. discriminate. }
    assert (Hattr1 : vf_attr f1 = vf_attr f).
    { destruct (Hk1 i) as [_ Hai]. rewrite Hf1, Hf in Hai. cbn in Hai. inversion Hai. reflexivity. }
    assert (Hupd : forall g, skel g = skel f1 ->
                     length (upd_nth i g fields1) = length fields /\
                     forall j, option_map skel (nth_error (upd_nth i g fields1) j) = option_map skel (nth_error fields j) /\
                               option_map vf_attr (nth_error (upd_nth i g fields1) j) =
                               (if Nat.eqb i j then (fun _ => Some (vf_attr g)) else (fun x => x)) (option_map vf_attr (nth_error fields j))).
    { intros g Hg. split; [rewrite length_upd_nth; exact Hlen1|]. intros j. destruct (Hk1 j) as [Hs Ha]. split.
      - rewrite <- Hs. apply (skel_upd_nth _ _ f1); [exact Hf1|exact Hg].
      - destruct (Nat.eqb_spec i j) as [<-|Hn].
        + rewrite nth_error_upd_nth_eq by (eapply nth_error_Some_lt; exact Hf1). reflexivity.
        + rewrite nth_error_upd_nth_neq by exact Hn. exact Ha. }
    assert (Hsame : fields' = fields1 -> step_attr pmap fmap (vf_attr f) = vf_attr f ->
                    length fields' = length fields /\
                    forall j, option_map skel (nth_error fields' j) = option_map skel (nth_error fields j) /\
                              option_map vf_attr (nth_error fields' j) =
                              (if Nat.eqb i j then option_map (step_attr pmap fmap) else (fun x => x)) (option_map vf_attr (nth_error fields j))).
    { intros -> Hst. split; [exact Hlen1|]. intros j. destruct (Hk1 j) as [Hs Ha]. split; [exact Hs|]. rewrite Ha.
      destruct (Nat.eqb_spec i j) as [<-|_]; [|reflexivity]. rewrite Hf. cbn. rewrite Hst. reflexivity. }
    assert (Hnew : forall g, skel g = skel f1 -> fields' = upd_nth i g fields1 -> vf_attr g = step_attr pmap fmap (vf_attr f) ->
                    length fields' = length fields /\
                    forall j, option_map skel (nth_error fields' j) = option_map skel (nth_error fields j) /\
                              option_map vf_attr (nth_error fields' j) =
                              (if Nat.eqb i j then option_map (step_attr pmap fmap) else (fun x => x)) (option_map vf_attr (nth_error fields j))).
    { intros g Hg -> Hst. destruct (Hupd g Hg) as [Hl Hk]. split; [exact Hl|]. intros j. destruct (Hk j) as [Hs Ha]. split; [exact Hs|].
      rewrite Ha. destruct (Nat.eqb_spec i j) as [<-|_]; [|reflexivity]. rewrite Hf. cbn. rewrite Hst. reflexivity. }
    rewrite Hattr1. destruct (vf_attr f) as [ty|c| |tgt lenty|alg ty|iner pn ref inlp|key pairs|] eqn:Hfa;
      try (intros H; injection H as <-; apply Hsame; reflexivity).
    + destruct (fref_name tgt) as [tn|] eqn:Htn; [|discriminate]. cbn [field_get_type].
      intros H. injection H as <-. eapply Hnew; [apply skel_set_attr|reflexivity|]. rewrite attr_set_attr. cbn [step_attr field_get_type]. rewrite Htn. reflexivity.
    + destruct iner.
      * intros H; injection H as <-; apply Hsame; reflexivity.
      * intros H. injection H as <-. eapply Hnew; [apply skel_set_attr|reflexivity|]. rewrite attr_set_attr. reflexivity.
    + destruct (fref_name key) as [kn|] eqn:Hkn; [|discriminate].
      intros H. injection H as <-. eapply Hnew; [apply skel_set_attr|reflexivity|]. rewrite attr_set_attr. cbn [step_attr]. rewrite Hkn. reflexivity.
  - unfold loop2_step. rewrite Hf. intros H. inversion H. subst. split; [reflexivity|]. intros j. split; [reflexivity|].
    destruct (Nat.eqb_spec i j) as [<-|_]; [rewrite Hf|]; reflexivity.
Qed.

Lemma loop2_cons pmap fmap lenf i r fields fields' :
  loop2 pmap fmap lenf (i :: r) fields = ROk fields' ->
  exists fields1, loop2_step pmap fmap lenf i fields = ROk fields1 /\ loop2 pmap fmap lenf r fields1 = ROk fields'.
Proof.
  cbn [loop2]. destruct (loop2_step _ _ _ _ _) as [fields1|e]; [|discriminate]. intros H. exists fields1. auto.
Qed.

(* the whole loop over pairwise different indices *)
Lemma loop2_spec pmap fmap lenf idx : forall fields fields',
  NoDup idx -> loop2 pmap fmap lenf idx fields = ROk fields' ->
  length fields' = length fields /\
  forall j, option_map skel (nth_error fields' j) = option_map skel (nth_error fields j) /\
            option_map vf_attr (nth_error fields' j) =
            (if existsb (Nat.eqb j) idx then option_map (step_attr pmap fmap) else (fun x => x)) (option_map vf_attr (nth_error fields j)).
Proof.
  induction idx as [|i r IH]; intros fields fields' Hnd H.
  - inversion H. subst. split; [reflexivity|]. intros j. split; reflexivity.
  - destruct (loop2_cons _ _ _ _ _ _ _ H) as [fields1 [H1 H2]]. inversion Hnd as [|x xs Hnotin Hnd']. subst.
    destruct (loop2_step_spec _ _ _ _ _ _ H1) as [Hl1 Hk1]. destruct (IH _ _ Hnd' H2) as [Hl2 Hk2].
    split; [rewrite Hl2; exact Hl1|]. intros j. destruct (Hk1 j) as [Hs1 Ha1]. destruct (Hk2 j) as [Hs2 Ha2].
    split; [rewrite Hs2; exact Hs1|]. rewrite Ha2, Ha1. cbn [existsb]. rewrite (Nat.eqb_sym j i).
    destruct (Nat.eqb_spec i j) as [<-|Hn]; cbn [orb].
    + assert (Hex : existsb (Nat.eqb i) r = false).
      { destruct (existsb (Nat.eqb i) r) eqn:He; [|reflexivity]. apply existsb_exists in He. destruct He as [x [Hx He]].
        apply Nat.eqb_eq in He. subst. contradiction. }
      rewrite Hex. reflexivity.
    + reflexivity.
Qed.

(* ================================================================== (c) C11: no panic on the fragment *)

(* what MetaData entries can be, and where the nil ones come from *)
Definition meta_kind (a : vattr) : bool :=
  match a with VABasic _ | VAFixed _ | VADyn | VANil => true | _ => false end.

Definition metas_inv (refs : list string) (ms : list vmeta) : Prop :=
  forall m, In m ms -> meta_kind (vm_attr m) = true /\ (vm_attr m = VANil -> In (vm_name m) refs).

Lemma meta_decl_attr_kind d store :
  meta_kind (fst (meta_decl_attr d store)) = true /\ fst (meta_decl_attr d store) <> VANil.
Proof. unfold meta_decl_attr. destruct (md_type d); cbn; split; (reflexivity || discriminate). Qed.

Lemma add_meta_inv refs s m :
  metas_inv refs (s_metas s) -> meta_kind (vm_attr m) = true -> (vm_attr m = VANil -> In (vm_name m) refs) ->
  metas_inv refs (s_metas (add_meta s m)).
Proof.
  intros H Hk Hn. unfold add_meta. destruct (find_meta _ _); [exact H|]. cbn. intros x Hx. apply In_snoc in Hx.
  destruct Hx as [Hx| ->]; [apply H; exact Hx|auto].
Qed.

Lemma visit_meta_item_inv refs s i :
  metas_inv refs (s_metas s) -> (forall r, i = MIRef r -> In (p_text (rm_name r)) refs) ->
  metas_inv refs (s_metas (visit_meta_item s i)).
Proof.
  intros H Href. destruct i as [d|d]; cbn [visit_meta_item].
  - destruct (meta_decl_attr_kind d (s_store s)) as [Hk Hn]. destruct (meta_decl_attr d (s_store s)) as [a st]. cbn in Hk, Hn.
    apply add_meta_inv; [exact H|exact Hk|]. cbn. intros Ha. contradiction.
  - apply add_meta_inv; [exact H| |].
    + cbn. destruct (find_meta _ _) as [m|] eqn:Hm; [|reflexivity]. apply H. eapply find_meta_In. exact Hm.
    + cbn. intros _. apply Href. reflexivity.
Qed.

Lemma ref_names_In t r : In (MIRef r) (meta_items t) -> In (p_text (rm_name r)) (ref_names t).
Proof.
  unfold meta_items, ref_names. intros H. apply in_flat_map in H. destruct H as [d [Hd H]]. apply in_flat_map. exists d. split; [exact Hd|].
  destruct d as [p|m|o]; try contradiction. apply in_flat_map. exists (MIRef r). split; [exact H|left; reflexivity].
Qed.

Lemma phase_metas_inv t : metas_inv (ref_names t) (s_metas (phase_metas t st0)).
Proof.
  rewrite phase_metas_items.
  assert (H : forall l s, (forall i, In i l -> In i (meta_items t)) -> metas_inv (ref_names t) (s_metas s) ->
                          metas_inv (ref_names t) (s_metas (fold_left visit_meta_item l s))).
  { induction l as [|i l IH]; intros s Hsub Hs; cbn [fold_left]; [exact Hs|]. apply IH; [intros x Hx; apply Hsub; right; exact Hx|].
    apply visit_meta_item_inv; [exact Hs|]. intros r ->. apply ref_names_In. apply Hsub. left. reflexivity. }
  apply H; [auto|]. intros m [].
Qed.

(* attributes as the field visit leaves them: field references are the fresh placeholder objects *)
Definition fresh_attr (a : vattr) : Prop :=
  match a with
  | VALen tgt _ => exists tn, tgt = FRNew tn
  | VAMatch key _ => exists kn, key = FRNew kn
  | _ => True
  end.

(* a length attribute names one of the given targets *)
Definition len_from (targets : list string) (a : vattr) : Prop :=
  forall tgt ty, a = VALen tgt ty -> exists tn, tgt = FRNew tn /\ In tn targets.

Definition gettable (a : vattr) : Prop := field_get_type a <> None.

Lemma meta_kind_fresh a : meta_kind a = true -> fresh_attr a.
Proof. destruct a; cbn; try discriminate; auto. Qed.

Lemma meta_kind_len_from a T : meta_kind a = true -> len_from T a.
Proof. destruct a; cbn; try discriminate; intros _ tgt ty H; discriminate. Qed.

Definition def_len_targets (f : field_def) : list string :=
  match f with LengthField _ d => [p_text (lo_from (lf_length_of d))] | _ => [] end.

Lemma decl_type_ok site refs metas ty name :
  metas_inv refs metas -> ~ In name refs -> exists typ, decl_type site metas ty name = ROk typ.
Proof.
  intros Hm Hn. unfold decl_type. destruct (find_meta metas name) as [m|] eqn:Hf; [|eexists; reflexivity].
  destruct (Hm m (find_meta_In _ _ _ Hf)) as [Hk Hnil].
  assert (Hname : vm_name m = name).
  { clear - Hf. induction metas as [|x ms IH]; cbn [find_meta] in Hf; [discriminate|].
    destruct (String.eqb_spec name (vm_name x)); [inversion Hf; subst; auto|apply IH; exact Hf]. }
  destruct (vm_attr m); try (eexists; reflexivity). exfalso. apply Hn. rewrite <- Hname. apply Hnil. reflexivity.
Qed.

Lemma np_mem_In n l : np_mem n l = true <-> In n l.
Proof. apply mem_In. Qed.

(* VisitFieldDefinition does not panic on the fragment, and what it returns *)
Lemma visit_field_def_ok refs metas : metas_inv refs metas -> forall f store,
  def_ok refs f = true ->
  exists v st ds, visit_field_def metas f store = ROk (v, st, ds) /\
                  vf_name v = np_field_name f /\ fresh_attr (vf_attr v) /\ len_from (def_len_targets f) (vf_attr v) /\
                  (is_object_field f = false -> gettable (vf_attr v)) /\
                  (is_fixed_meta_field f = true -> exists c, vf_attr v = VAFixed c).
Proof.
  intros Hm f. induction f as [sp rep sp2 n o fields c comma IH|sp rep d|sp rep ft fn doc comma|sp d|sp d|sp d comma]
    using field_def_induction; intros store Hok.
  - (* inline object *)
    cbn [def_ok] in Hok. cbn [visit_field_def].
    assert (IH' : Forall (fun f => forall store, def_ok refs f = true -> exists v st ds, visit_field_def metas f store = ROk (v, st, ds)) fields).
    { eapply Forall_impl; [|exact IH]. intros a Ha st0 Hd. destruct (Ha st0 Hd) as [v [st [ds [Hv _]]]]. eauto. }
    assert (Hgo : forall fs store, Forall (fun f => forall store, def_ok refs f = true -> exists v st ds, visit_field_def metas f store = ROk (v, st, ds)) fs ->
                   forallb (def_ok refs) fs = true ->
                   exists subs st ds,
                     (fix go (l : list field_def) (store : list fcell) {struct l} : res (list vfield * list fcell * list diag) :=
                        match l with
                        | [] => ROk ([], store, [])
                        | x :: r =>
                            match visit_field_def metas x store with
                            | RPanic e => RPanic e
                            | ROk (v, st1, ds1) =>
                                match go r st1 with
                                | RPanic e => RPanic e
                                | ROk (vs, st2, ds2) => ROk (v :: vs, st2, ds1 ++ ds2)
                                end
                            end
                        end) fs store = ROk (subs, st, ds)).
    { induction fs as [|x fs IHfs]; intros st0 Hall Hfb.
      - eexists; eexists; eexists; reflexivity.
      - inversion Hall as [|y ys Hx Hrest]. subst. cbn [forallb] in Hfb. apply andb_true_iff in Hfb. destruct Hfb as [Hx1 Hx2].
        destruct (Hx st0 Hx1) as [v [st1 [ds1 Hv]]]. rewrite Hv.
        destruct (IHfs st1 Hrest Hx2) as [subs [st2 [ds2 Hsub]]]. rewrite Hsub. eexists; eexists; eexists; reflexivity. }
    destruct (Hgo fields store IH' Hok) as [subs [st [ds Hsub]]]. rewrite Hsub.
    eexists; eexists; eexists. split; [reflexivity|]. cbn. repeat split; auto; try discriminate.
  - (* MetaField *)
    cbn [visit_field_def]. unfold meta_decl_field.
    destruct (meta_decl_attr_kind d store) as [Hk Hn]. destruct (meta_decl_attr d store) as [a st] eqn:Ha. cbn in Hk, Hn.
    eexists; eexists; eexists. split; [reflexivity|]. cbn. split; [reflexivity|]. split; [apply meta_kind_fresh; exact Hk|].
    split; [apply meta_kind_len_from; exact Hk|]. split.
    + intros _. unfold gettable. destruct a; cbn in *; try discriminate. contradiction.
    + intros Hfx. unfold meta_decl_attr in Ha. destruct (md_type d); try discriminate. inversion Ha. eexists. reflexivity.
  - (* ObjectField *)
    cbn [visit_field_def]. eexists; eexists; eexists. split; [reflexivity|]. cbn.
    split; [destruct fn; reflexivity|].
    destruct (find_meta metas (p_text ft)) as [m|] eqn:Hf.
    + destruct (Hm m (find_meta_In _ _ _ Hf)) as [Hk _]. split; [apply meta_kind_fresh; exact Hk|].
      split; [apply meta_kind_len_from; exact Hk|]. split; discriminate.
    + split; [exact I|]. split; [intros tgt ty H; discriminate|]. split; discriminate.
  - (* LengthField *)
    cbn [def_ok] in Hok. apply negb_true_iff in Hok. cbn [visit_field_def]. unfold visit_length_field.
    assert (Hn : ~ In (p_text (lf_name d)) refs). { intros Hin. apply np_mem_In in Hin. rewrite Hin in Hok. discriminate. }
    destruct (decl_type_ok site_lenfield refs metas (lf_type d) _ Hm Hn) as [typ ->].
    eexists; eexists; eexists. split; [reflexivity|]. cbn. split; [reflexivity|]. split; [eexists; reflexivity|]. split.
    + intros tgt ty H. inversion H. eexists. split; [reflexivity|left; reflexivity].
    + split; [intros _; unfold gettable; cbn; discriminate|discriminate].
  - (* CheckSumField *)
    cbn [def_ok] in Hok. apply negb_true_iff in Hok. cbn [visit_field_def]. unfold visit_checksum_field.
    assert (Hn : ~ In (p_text (ck_name d)) refs). { intros Hin. apply np_mem_In in Hin. rewrite Hin in Hok. discriminate. }
    destruct (decl_type_ok site_checksum refs metas (ck_type d) _ Hm Hn) as [typ ->].
    eexists; eexists; eexists. split; [reflexivity|]. cbn. split; [reflexivity|]. split; [exact I|]. split.
    + intros tgt ty H. discriminate.
    + split; [intros _; unfold gettable; cbn; discriminate|discriminate].
  - (* MatchField *)
    cbn [visit_field_def]. unfold visit_match_field. eexists; eexists; eexists. split; [reflexivity|]. cbn.
    split; [reflexivity|]. split; [eexists; reflexivity|]. split; [intros tgt ty H; discriminate|].
    split; [intros _; unfold gettable; cbn; discriminate|discriminate].
Qed.

Definition attr_targets (attrs : list field_attribute) : list string :=
  flat_map (fun a => match a with FALengthOf _ l => [p_text (lo_from l)] | _ => [] end) attrs.

Lemma len_from_incl T T' a : len_from T a -> incl T T' -> len_from T' a.
Proof. intros H Hi tgt ty Ha. destruct (H tgt ty Ha) as [tn [Ht Hin]]. exists tn. split; [exact Ht|apply Hi; exact Hin]. Qed.

Lemma name_set_attr f a : vf_name (set_attr f a) = vf_name f. Proof. destruct f; reflexivity. Qed.
Lemma name_set_tag f t : vf_name (set_tag f t) = vf_name f. Proof. destruct f; reflexivity. Qed.
Lemma attr_set_tag f t : vf_attr (set_tag f t) = vf_attr f. Proof. destruct f; reflexivity. Qed.

(* the attribute loop of VisitFieldDefinitionWithAttribute does not panic when: padding only meets a fixed string that
   no @lengthOf/@calculatedFrom replaces, and @lengthOf/@calculatedFrom meet a field whose type can be taken *)
Lemma apply_attrs_ok attrs : forall f store T,
  (existsb is_padding attrs = true -> (exists c, vf_attr f = VAFixed c) /\ existsb is_len_or_calc attrs = false) ->
  (existsb is_len_or_calc attrs = true -> gettable (vf_attr f)) ->
  fresh_attr (vf_attr f) -> len_from T (vf_attr f) ->
  exists f' st, apply_attrs attrs f store = ROk (f', st) /\ vf_name f' = vf_name f /\ fresh_attr (vf_attr f') /\
                len_from (T ++ attr_targets attrs) (vf_attr f').
Proof.
  induction attrs as [|a r IH]; intros f store T Hpad Hlc Hfresh Hlen.
  - exists f, store. cbn. rewrite app_nil_r. auto.
  - destruct a as [sp l|sp c|sp tg|sp p]; cbn [apply_attrs apply_attr].
    + (* @lengthOf *)
      assert (Hnopad : existsb is_padding r = false).
      { destruct (existsb is_padding r) eqn:Hp; [|reflexivity]. destruct (Hpad Hp) as [_ Hx]. discriminate. }
      pose proof (Hlc eq_refl) as Hg. unfold gettable in Hg. destruct (field_get_type (vf_attr f)) as [t|]; [|contradiction].
      destruct (IH (set_attr f (VALen (FRNew (p_text (lo_from l))) t)) store (T ++ [p_text (lo_from l)])) as [f' [st [Hr [Hn [Hf Hl]]]]].
      * rewrite Hnopad. discriminate.
      * intros _. rewrite attr_set_attr. unfold gettable. cbn. discriminate.
      * rewrite attr_set_attr. eexists. reflexivity.
      * rewrite attr_set_attr. intros tgt ty H. inversion H. eexists. split; [reflexivity|]. apply in_or_app. right. left. reflexivity.
      * exists f', st. split; [exact Hr|]. split; [rewrite Hn; apply name_set_attr|]. split; [exact Hf|].
        cbn [attr_targets flat_map]. cbn [app]. rewrite <- app_assoc in Hl. exact Hl.
    + (* @calculatedFrom *)
      assert (Hnopad : existsb is_padding r = false).
      { destruct (existsb is_padding r) eqn:Hp; [|reflexivity]. destruct (Hpad Hp) as [_ Hx]. discriminate. }
      pose proof (Hlc eq_refl) as Hg. unfold gettable in Hg. destruct (field_get_type (vf_attr f)) as [t|]; [|contradiction].
      destruct (IH (set_attr f (VACheck (p_text (cf_from c)) t)) store T) as [f' [st [Hr [Hn [Hf Hl]]]]].
      * rewrite Hnopad. discriminate.
      * intros _. rewrite attr_set_attr. unfold gettable. cbn. discriminate.
      * rewrite attr_set_attr. exact I.
      * rewrite attr_set_attr. intros tgt ty H. discriminate.
      * exists f', st. split; [exact Hr|]. split; [rewrite Hn; apply name_set_attr|]. split; [exact Hf|exact Hl].
    + (* @tag *)
      destruct (IH (set_tag f (atoi (p_text (ta_digits tg)))) store T) as [f' [st [Hr [Hn [Hf Hl]]]]].
      * rewrite attr_set_tag. exact Hpad.
      * rewrite attr_set_tag. exact Hlc.
      * rewrite attr_set_tag. exact Hfresh.
      * rewrite attr_set_tag. exact Hlen.
      * exists f', st. split; [exact Hr|]. split; [rewrite Hn; apply name_set_tag|]. split; [exact Hf|exact Hl].
    + (* padding *)
      destruct (Hpad eq_refl) as [[cell Hcell] Hnolc]. cbn [existsb is_len_or_calc orb] in Hnolc. rewrite Hcell.
      match goal with |- context [apply_attrs r f ?st'] => destruct (IH f st' T) as [f' [st [Hr [Hn [Hf Hl]]]]] end.
      * intros _. split; [eexists; exact Hcell|exact Hnolc].
      * rewrite Hnolc. discriminate.
      * exact Hfresh.
      * exact Hlen.
      * exists f', st. split; [exact Hr|]. split; [exact Hn|]. split; [exact Hf|exact Hl].
Qed.

(* VisitFieldDefinitionWithAttribute on the fragment *)
Lemma visit_field_with_attr_ok refs metas fw store :
  metas_inv refs metas -> attrs_ok fw = true -> def_ok refs (fw_def fw) = true ->
  exists v st ds, visit_field_with_attr metas fw store = ROk (v, st, ds) /\
                  vf_name v = np_field_name (fw_def fw) /\ fresh_attr (vf_attr v) /\ len_from (fw_len_targets fw) (vf_attr v).
Proof.
  intros Hm Ha Hd. unfold visit_field_with_attr.
  destruct (visit_field_def_ok refs metas Hm (fw_def fw) store Hd) as [f [st1 [ds [Hf [Hn [Hfr [Hl [Hget Hfix]]]]]]]]. rewrite Hf.
  unfold attrs_ok in Ha. apply andb_true_iff in Ha. destruct Ha as [Ha1 Ha2].
  destruct (apply_attrs_ok (fw_attrs fw) f st1 (def_len_targets (fw_def fw))) as [f' [st [Hr [Hn' [Hfr' Hl']]]]].
  - intros Hp. rewrite Hp in Ha1. apply andb_true_iff in Ha1. destruct Ha1 as [Hfx Hnolc]. apply negb_true_iff in Hnolc.
    split; [apply Hfix; exact Hfx|exact Hnolc].
  - intros Hlc. rewrite Hlc in Ha2. apply negb_true_iff in Ha2. apply Hget. exact Ha2.
  - exact Hfr.
  - exact Hl.
  - rewrite Hr. exists f', st, ds. split; [reflexivity|]. split; [rewrite Hn'; exact Hn|]. split; [exact Hfr'|].
    unfold fw_len_targets. destruct (fw_def fw); exact Hl'.
Qed.

Lemma alookup_aset {A} (m : list (string * A)) k v k' :
  alookup (aset m k v) k' = if String.eqb k' k then Some v else alookup m k'.
Proof.
  induction m as [|[k0 v0] m IH]; cbn [aset alookup].
  - reflexivity.
  - destruct (String.eqb_spec k k0) as [->|Hn]; cbn [alookup].
    + destruct (String.eqb k' k0); reflexivity.
    + destruct (String.eqb_spec k' k0) as [->|Hn'].
      * destruct (String.eqb_spec k0 k); [congruence|reflexivity].
      * exact IH.
Qed.

Lemma alookup_aset_keeps {A} (m : list (string * A)) k v k' : alookup m k' <> None -> alookup (aset m k v) k' <> None.
Proof. rewrite alookup_aset. destruct (String.eqb k' k); [discriminate|auto]. Qed.

Lemma alookup_aset_same {A} (m : list (string * A)) k v : alookup (aset m k v) k <> None.
Proof. rewrite alookup_aset, String.eqb_refl. discriminate. Qed.

Lemma nth_error_snoc_old {A} (l : list A) x i y : nth_error l i = Some y -> nth_error (snoc l x) i = Some y.
Proof. intros H. unfold snoc. rewrite nth_error_app1; [exact H|]. eapply nth_error_Some_lt. exact H. Qed.

Lemma nth_error_snoc_new {A} (l : list A) x : nth_error (snoc l x) (length l) = Some x.
Proof. unfold snoc. rewrite nth_error_app2 by lia. rewrite Nat.sub_diag. reflexivity. Qed.

(* what the first loop has established after the fields [done] *)
Record l1inv (done : list field_with_attr) (acc : pacc) : Prop := mkL1 {
  i_fresh : forall f, In f (pa_fields acc) -> fresh_attr (vf_attr f);
  i_fmap : forall fw, In fw done -> has_len fw = false -> alookup (pa_fmap acc) (np_field_name (fw_def fw)) <> None;
  i_lenf : forall li, pa_lenf acc = Some li ->
           exists lf tn ty fw, nth_error (pa_fields acc) li = Some lf /\ vf_attr lf = VALen (FRNew tn) ty /\
                               In fw done /\ In tn (fw_len_targets fw)
}.

Lemma loop1_add_inv is_root line done fw f acc store ds :
  l1inv done acc ->
  vf_name f = np_field_name (fw_def fw) -> fresh_attr (vf_attr f) -> len_from (fw_len_targets fw) (vf_attr f) ->
  l1inv (snoc done fw) (loop1_add is_root line f acc store ds).
Proof.
  intros [Hfr Hfm Hlf] Hname Hfresh Hlen.
  assert (Hdropped : forall dg, is_len_attr (vf_attr f) = true ->
                     l1inv (snoc done fw) (mkPacc (pa_fields acc) (pa_fmap acc) (pa_lenf acc) (pa_mfs acc) store dg)).
  { intros dg Hislen. constructor; cbn.
    - exact Hfr.
    - intros fw' Hin Hnl. apply In_snoc in Hin. destruct Hin as [Hin| ->]; [apply Hfm; assumption|].
      exfalso. destruct (vf_attr f) eqn:Ha; try discriminate. destruct (Hlen _ _ eq_refl) as [tn [_ Hin]].
      unfold has_len in Hnl. destruct (fw_len_targets fw); [contradiction|discriminate].
    - intros li Hli. destruct (Hlf li Hli) as [lf [tn [ty [fw' [H1 [H2 [H3 H4]]]]]]]. exists lf, tn, ty, fw'.
      repeat split; auto. apply In_snoc. left. exact H3. }
  assert (Hkept : forall lenf mfs,
             (forall li, lenf = Some li -> pa_lenf acc = Some li \/ (li = length (pa_fields acc) /\ is_len_attr (vf_attr f) = true)) ->
             l1inv (snoc done fw) (mkPacc (snoc (pa_fields acc) f) (aset (pa_fmap acc) (vf_name f) (length (pa_fields acc))) lenf mfs store
                                          (pa_diags acc ++ ds))).
  { intros lenf mfs Hlenf. constructor; cbn.
    - intros x Hx. apply In_snoc in Hx. destruct Hx as [Hx| ->]; [apply Hfr; exact Hx|exact Hfresh].
    - intros fw' Hin Hnl. apply In_snoc in Hin. destruct Hin as [Hin| ->].
      + apply alookup_aset_keeps. apply Hfm; assumption.
      + rewrite Hname. apply alookup_aset_same.
    - intros li Hli. destruct (Hlenf li Hli) as [Hold|[-> Hislen]].
      + destruct (Hlf li Hold) as [lf [tn [ty [fw' [H1 [H2 [H3 H4]]]]]]]. exists lf, tn, ty, fw'.
        split; [apply nth_error_snoc_old; exact H1|]. repeat split; auto. apply In_snoc. left. exact H3.
      + destruct (vf_attr f) as [| | |tgt ty| | | |] eqn:Ha; try discriminate.
        destruct (Hlen _ _ eq_refl) as [tn [-> Hin]]. exists f, tn, ty, fw.
        split; [apply nth_error_snoc_new|]. split; [exact Ha|]. split; [apply In_snoc; right; reflexivity|exact Hin]. }
  unfold loop1_add. destruct (is_len_attr (vf_attr f)) eqn:Hislen.
  - destruct (negb is_root); [apply Hdropped; reflexivity|]. destruct (pa_lenf acc) as [l0|] eqn:Hl0.
    + apply Hdropped. reflexivity.
    + apply Hkept. intros li Hli. inversion Hli. right. auto.
  - apply Hkept. intros li Hli. left. exact Hli.
Qed.

Lemma loop1_ok refs metas is_root : metas_inv refs metas -> forall l done acc,
  l1inv done acc -> forallb (fun fw => attrs_ok fw && def_ok refs (fw_def fw)) l = true ->
  exists acc', loop1 metas is_root l acc = ROk acc' /\ l1inv (done ++ l) acc'.
Proof.
  intros Hm. induction l as [|fw l IH]; intros done acc Hinv Hok.
  - exists acc. rewrite app_nil_r. auto.
  - cbn [forallb] in Hok. apply andb_true_iff in Hok. destruct Hok as [Hfw Hrest]. apply andb_true_iff in Hfw. destruct Hfw as [Ha Hd].
    destruct (visit_field_with_attr_ok refs metas fw (pa_store acc) Hm Ha Hd) as [f [st [ds [Hv [Hn [Hfr Hl]]]]]].
    cbn [loop1]. rewrite Hv.
    destruct (IH (snoc done fw) (loop1_add is_root (start_line (fw_span fw)) f acc st ds)) as [acc' [Hr Hinv']].
    + apply loop1_add_inv; assumption.
    + exact Hrest.
    + exists acc'. split; [exact Hr|]. unfold snoc in Hinv'. rewrite <- app_assoc in Hinv'. exact Hinv'.
Qed.

(* ---- the second loop does not panic when the length field's target is a registered field *)
Definition len_ok (fmap : list (string * nat)) (lenf : option nat) (fields : list vfield) : Prop :=
  forall li lf, lenf = Some li -> nth_error fields li = Some lf ->
  exists tgt ty tn, vf_attr lf = VALen tgt ty /\ fref_name tgt = Some tn /\ alookup fmap tn <> None.

Definition fresh_at (idx : list nat) (fields : list vfield) : Prop :=
  forall j f, In j idx -> nth_error fields j = Some f -> fresh_attr (vf_attr f).

Lemma loop2_step_ok pmap fmap lenf i fields :
  len_ok fmap lenf fields -> fresh_at [i] fields -> exists fields', loop2_step pmap fmap lenf i fields = ROk fields'.
Proof.
  intros Hlen Hfresh. destruct (nth_error fields i) as [f|] eqn:Hf; [|unfold loop2_step; rewrite Hf; eexists; reflexivity].
  rewrite (loop2_step_unfold _ _ _ _ _ _ Hf).
  assert (Hla : exists fields1, step_la lenf i fields f = ROk fields1).
  { unfold step_la. destruct lenf as [li|]; [|eexists; reflexivity]. destruct (nth_error fields li) as [lf|] eqn:Hlf; [|eexists; reflexivity].
    destruct (Hlen li lf eq_refl Hlf) as [tgt [ty [tn [-> [-> _]]]]]. destruct (String.eqb _ _); [|eexists; reflexivity].
    destruct (nth_error (upd_nth li _ fields) i); eexists; reflexivity. }
  destruct Hla as [fields1 Hla]. rewrite Hla. destruct (step_la_keeps _ _ _ _ _ Hla) as [_ Hk].
  destruct (nth_error fields1 i) as [f1|] eqn:Hf1; [|eexists; reflexivity].
  assert (Hattr1 : vf_attr f1 = vf_attr f).
  { destruct (Hk i) as [_ Hai]. rewrite Hf1, Hf in Hai. cbn in Hai. inversion Hai. reflexivity. }
  pose proof (Hfresh i f (or_introl eq_refl) Hf) as Hfr. rewrite Hattr1.
  destruct (vf_attr f) as [| | |tgt ty| |iner pn ref inlp|key pairs|]; try (eexists; reflexivity).
  - destruct Hfr as [tn ->]. cbn. eexists; reflexivity.
  - destruct iner; eexists; reflexivity.
  - destruct Hfr as [kn ->]. cbn. eexists; reflexivity.
Qed.

Lemma loop2_ok pmap fmap lenf idx : forall fields,
  NoDup idx -> len_ok fmap lenf fields -> fresh_at idx fields -> exists fields', loop2 pmap fmap lenf idx fields = ROk fields'.
Proof.
  induction idx as [|i r IH]; intros fields Hnd Hlen Hfresh; [eexists; reflexivity|].
  inversion Hnd as [|x xs Hnotin Hnd']. subst.
  destruct (loop2_step_ok pmap fmap lenf i fields Hlen) as [fields1 H1].
  { intros j f [<-|[]] Hj. eapply Hfresh; [left; reflexivity|exact Hj]. }
  cbn [loop2]. rewrite H1. destruct (loop2_step_spec _ _ _ _ _ _ H1) as [_ Hk]. apply IH; [exact Hnd'| |].
  - (* the length field keeps a registered target *)
    intros li lf Hli Hlf. destruct (Hk li) as [_ Ha]. rewrite Hlf in Ha. cbn in Ha.
    destruct (nth_error fields li) as [lf0|] eqn:Hlf0; [|destruct (Nat.eqb i li); discriminate].
    destruct (Hlen li lf0 Hli Hlf0) as [tgt [ty [tn [Hat [Htn Hreg]]]]].
    destruct (Nat.eqb i li); cbn in Ha; inversion Ha as [Ha'].
    + rewrite Ha', Hat. cbn [step_attr field_get_type]. rewrite Htn. unfold fmap_ref.
      destruct (alookup fmap tn) as [k|] eqn:Hk'; [|contradiction]. eexists; eexists; exists tn. split; [reflexivity|]. split; [reflexivity|].
      rewrite Hk'. discriminate.
    + rewrite Ha'. exists tgt, ty, tn. auto.
  - (* the fields still to come are untouched *)
    intros j f Hj Hfj. destruct (Hk j) as [_ Ha]. rewrite Hfj in Ha. cbn in Ha.
    assert (Hne : Nat.eqb i j = false). { apply Nat.eqb_neq. intros ->. contradiction. }
    rewrite Hne in Ha. destruct (nth_error fields j) as [f0|] eqn:Hf0; [|discriminate]. cbn in Ha. inversion Ha as [Ha'].
    rewrite Ha'. eapply Hfresh; [right; exact Hj|exact Hf0].
Qed.

Lemma loop1_lenf_nonroot metas l : forall acc acc', loop1 metas false l acc = ROk acc' -> pa_lenf acc = None -> pa_lenf acc' = None.
Proof.
  induction l as [|fw l IH]; intros acc acc' H Hn.
  - inversion H. subst. exact Hn.
  - destruct (loop1_cons _ _ _ _ _ _ H) as [f [st [ds [_ Hr]]]]. eapply IH; [exact Hr|].
    unfold loop1_add. destruct (is_len_attr (vf_attr f)); cbn; exact Hn.
Qed.

(* VisitPacketDefinition does not panic on a packet of the fragment *)
Lemma visit_packet_def_ok refs metas pmap d store :
  metas_inv refs metas -> packet_ok refs d = true -> exists p st ds, visit_packet_def metas pmap d store = ROk (p, st, ds).
Proof.
  intros Hm Hok. unfold packet_ok in Hok. apply andb_true_iff in Hok. destruct Hok as [Hfields Htargets].
  unfold visit_packet_def.
  destruct (loop1_ok refs metas (is_some (pd_root d)) Hm (pd_fields d) [] (mkPacc [] [] None [] store [])) as [acc [Hl1 Hinv]].
  { constructor; cbn; [intros f []|intros fw []|intros li H; discriminate]. }
  { exact Hfields. }
  rewrite Hl1. cbn [app] in Hinv. destruct Hinv as [Hfr Hfm Hlf].
  destruct (loop2_ok pmap (pa_fmap acc) (pa_lenf acc) (seq 0 (length (pa_fields acc))) (pa_fields acc)) as [fields H2].
  - apply seq_NoDup.
  - intros li lf Hli Hnth. destruct (Hlf li Hli) as [lf' [tn [ty [fw [H1 [Hat [Hin Htn]]]]]]]. rewrite Hnth in H1. inversion H1. subst lf'.
    exists (FRNew tn), ty, tn. split; [exact Hat|]. split; [reflexivity|].
    unfold targets_ok in Htargets. destruct (pd_root d) as [rt|] eqn:Hroot.
    + rewrite forallb_forall in Htargets. pose proof (Htargets fw Hin) as Hfw. rewrite forallb_forall in Hfw.
      pose proof (Hfw tn Htn) as Hsafe. apply np_mem_In in Hsafe. apply in_map_iff in Hsafe. destruct Hsafe as [fw' [Hname Hfw']].
      apply filter_In in Hfw'. destruct Hfw' as [Hin' Hnl]. apply negb_true_iff in Hnl. rewrite <- Hname. apply Hfm; assumption.
    + cbn [is_some] in Hl1. pose proof (loop1_lenf_nonroot _ _ _ _ Hl1 eq_refl) as Hnone. rewrite Hnone in Hli. discriminate.
  - intros j f _ Hj. apply Hfr. eapply nth_error_In. exact Hj.
  - rewrite H2. eexists; eexists; eexists. reflexivity.
Qed.

Lemma visit_packets_ok refs l : forall s,
  metas_inv refs (s_metas s) -> (forall d, In d l -> packet_ok refs d = true) -> exists s', visit_packets l s = ROk s'.
Proof.
  induction l as [|d l IH]; intros s Hm Hok; [eexists; reflexivity|]. cbn [visit_packets].
  destruct (visit_packet_def_ok refs (s_metas s) (Visitor.packet_names (s_packets s)) d (s_store s) Hm (Hok d (or_introl eq_refl)))
    as [p [st [ds ->]]].
  apply IH; [rewrite add_packet_metas; exact Hm|]. intros d' Hd'. apply Hok. right. exact Hd'.
Qed.

(* ---- C11 on the model: inside the structural fragment the visitor returns a result *)
Theorem nopanic_frag_sound t : nopanic_frag t = true -> exists r, visit t = VOk r.
Proof.
  intros H. unfold visit.
  destruct (visit_packets_ok (ref_names t) (packets_of t) (phase_options t (phase_metas t st0))) as [s Hs].
  - rewrite phase_options_metas. apply phase_metas_inv.
  - intros d Hd. unfold packets_of in Hd. apply in_flat_map in Hd. destruct Hd as [x [Hx Hd]].
    unfold nopanic_frag in H. rewrite forallb_forall in H. pose proof (H x Hx) as Hp.
    destruct x as [p|m|o]; try contradiction. destruct Hd as [<-|[]]. exact Hp.
  - rewrite Hs. eexists. reflexivity.
Qed.

(* together with the five witnesses: the five panic sites are exactly what the fragment excludes *)
Corollary panic_outside_fragment t site : visit t = VPanic site -> nopanic_frag t = false.
Proof.
  intros H. destruct (nopanic_frag t) eqn:Hf; [|reflexivity]. destruct (nopanic_frag_sound t Hf) as [r Hr]. rewrite H in Hr. discriminate.
Qed.

(* ================================================================== C12, reference to an undeclared packet *)

(* ResolveDependencies (the local check): an unresolved object field of a kept packet whose type is no packet is reported on
   the field's line *)
Lemma resolve_fields_reports pmap fs : forall ds f iner pn inlp,
  In f fs -> vf_attr f = VAObj iner pn None inlp -> mem pn pmap = false ->
  exists d, In d (snd (resolve_fields pmap fs ds)) /\ d_kind d = DK_UnknownPacket /\ d_line d = vf_line f.
Proof.
  induction fs as [|x fs IH]; intros ds f iner pn inlp Hin Ha Hm; [contradiction|]. cbn [resolve_fields].
  destruct (resolve_field pmap (x, ds)) as [x1 ds1] eqn:Hx.
  pose proof (resolve_fields_mono pmap fs ds1) as Hmono.
  destruct Hin as [->|Hin].
  - unfold resolve_field in Hx. rewrite Ha, Hm in Hx. inversion Hx. subst.
    destruct (resolve_fields pmap fs _) as [r1 ds2]. cbn in *. eexists. split; [apply Hmono; apply In_snoc; right; reflexivity|]. cbn. auto.
  - destruct (IH ds1 f iner pn inlp Hin Ha Hm) as [d [Hd Hk]]. destruct (resolve_fields pmap fs ds1) as [r1 ds2]. cbn in *. exists d. auto.
Qed.

Lemma resolve_packets_reports pmap ps : forall ds p f iner pn inlp,
  In p ps -> In f (vk_fields p) -> vf_attr f = VAObj iner pn None inlp -> mem pn pmap = false ->
  exists d, In d (snd (resolve_packets pmap ps ds)) /\ d_kind d = DK_UnknownPacket /\ d_line d = vf_line f.
Proof.
  induction ps as [|x ps IH]; intros ds p f iner pn inlp Hp Hf Ha Hm; [contradiction|]. cbn [resolve_packets].
  destruct Hp as [->|Hp].
  - destruct (resolve_fields_reports pmap (vk_fields p) ds f iner pn inlp Hf Ha Hm) as [d [Hd Hk]].
    destruct (resolve_fields pmap (vk_fields p) ds) as [f1 ds1]. pose proof (resolve_packets_mono pmap ps ds1) as Hmono.
    destruct (resolve_packets pmap ps ds1) as [r1 ds2]. cbn in *. exists d. split; [apply Hmono; exact Hd|exact Hk].
  - destruct (resolve_fields pmap (vk_fields x) ds) as [f1 ds1].
    destruct (IH ds1 p f iner pn inlp Hp Hf Ha Hm) as [d [Hd Hk]]. destruct (resolve_packets pmap ps ds1) as [r1 ds2]. cbn in *. exists d. auto.
Qed.

Lemma finish_reports s p f iner pn inlp :
  In p (s_packets s) -> In f (vk_fields p) -> vf_attr f = VAObj iner pn None inlp ->
  ~ In pn (Visitor.packet_names (s_packets s)) ->
  exists d, In d (r_diags (finish s)) /\ d_kind d = DK_UnknownPacket /\ d_line d = vf_line f.
Proof.
  intros Hp Hf Ha Hn. unfold finish.
  assert (Hm : mem pn (Visitor.packet_names (s_packets s)) = false).
  { destruct (mem pn _) eqn:Hm; [apply mem_In in Hm; contradiction|reflexivity]. }
  destruct (resolve_packets_reports _ (s_packets s) (s_diags s) p f iner pn inlp Hp Hf Ha Hm) as [d [Hd Hk]].
  destruct (resolve_packets _ _ _) as [ps ds]. cbn in *. exists d. auto.
Qed.

(* the visit of an object field whose type is no MetaData entry *)
Lemma line_set_attr f a : vf_line (set_attr f a) = vf_line f. Proof. destruct f; reflexivity. Qed.
Lemma line_set_tag f t : vf_line (set_tag f t) = vf_line f. Proof. destruct f; reflexivity. Qed.

Lemma apply_attrs_obj attrs : forall f store f' st pn,
  vf_attr f = VAObj false pn None None -> apply_attrs attrs f store = ROk (f', st) ->
  vf_attr f' = VAObj false pn None None /\ vf_line f' = vf_line f.
Proof.
  induction attrs as [|a r IH]; intros f store f' st pn Ha H; cbn [apply_attrs] in H.
  - inversion H. subst. auto.
  - destruct a as [sp l|sp c|sp tg|sp p]; cbn [apply_attr] in H; rewrite ?Ha in H; cbn in H; try discriminate.
    destruct (IH _ _ _ _ pn (eq_trans (attr_set_tag f _) Ha) H) as [H1 H2]. split; [exact H1|]. rewrite H2. apply line_set_tag.
Qed.

Lemma visit_object_field metas fw store f st ds sp rep ft fn doc comma :
  fw_def fw = ObjectField sp rep ft fn doc comma -> find_meta metas (p_text ft) = None ->
  visit_field_with_attr metas fw store = ROk (f, st, ds) ->
  vf_attr f = VAObj false (p_text ft) None None /\ vf_line f = start_line sp.
Proof.
  intros Hdef Hnone H. unfold visit_field_with_attr in H. rewrite Hdef in H. cbn [visit_field_def] in H. rewrite Hnone in H.
  destruct (apply_attrs _ _ _) as [[f1 st2]|e] eqn:Ha; [|discriminate]. inversion H. subst.
  pose proof (fun pf => apply_attrs_obj _ _ _ _ _ (p_text ft) pf Ha) as Hx. destruct (Hx eq_refl) as [H1 H2].
  split; [exact H1|]. rewrite H2. reflexivity.
Qed.

(* the first loop only appends to Fields *)
Lemma loop1_add_fields is_root line f acc store ds :
  pa_fields (loop1_add is_root line f acc store ds) = pa_fields acc \/
  (pa_fields (loop1_add is_root line f acc store ds) = snoc (pa_fields acc) f).
Proof.
  unfold loop1_add. destruct (is_len_attr (vf_attr f)).
  - destruct (negb is_root); [left; reflexivity|]. destruct (pa_lenf acc); [left|right]; reflexivity.
  - right. reflexivity.
Qed.

Lemma loop1_keeps_field metas is_root l : forall acc acc' k f,
  loop1 metas is_root l acc = ROk acc' -> nth_error (pa_fields acc) k = Some f -> nth_error (pa_fields acc') k = Some f.
Proof.
  induction l as [|fw l IH]; intros acc acc' k f H Hk.
  - inversion H. subst. exact Hk.
  - destruct (loop1_cons _ _ _ _ _ _ H) as [g [st [ds [_ Hr]]]]. eapply IH; [exact Hr|].
    destruct (loop1_add_fields is_root (start_line (fw_span fw)) g acc st ds) as [-> | ->]; [exact Hk|apply nth_error_snoc_old; exact Hk].
Qed.

(* the names AddMetaData has registered are names of MetaData items of the file *)
Lemma phase_metas_names t m : In m (s_metas (phase_metas t st0)) -> In (vm_name m) (meta_names t).
Proof.
  rewrite phase_metas_items. unfold meta_names.
  assert (H : forall l s, (forall i, In i l -> In i (meta_items t)) ->
                          (forall m, In m (s_metas s) -> In (vm_name m) (map meta_item_name (meta_items t))) ->
                          forall m, In m (s_metas (fold_left visit_meta_item l s)) -> In (vm_name m) (map meta_item_name (meta_items t))).
  { induction l as [|i l IH]; intros s Hsub Hs; cbn [fold_left]; [exact Hs|]. apply IH; [intros x Hx; apply Hsub; right; exact Hx|].
    destruct (visit_meta_item_shape s i) as [s' [m0 [-> [Hm' [_ [Hn _]]]]]]. intros x Hx. unfold add_meta in Hx.
    destruct (find_meta _ _); [apply Hs; rewrite <- Hm'; exact Hx|]. cbn in Hx. apply In_snoc in Hx. destruct Hx as [Hx| ->].
    - apply Hs. rewrite <- Hm'. exact Hx.
    - rewrite Hn. apply in_map. apply Hsub. left. reflexivity. }
  apply H; [auto|intros x []].
Qed.

Lemma find_meta_none_of_names ms n : (forall m, In m ms -> vm_name m <> n) -> find_meta ms n = None.
Proof.
  induction ms as [|x ms IH]; intros H; [reflexivity|]. cbn [find_meta].
  destruct (String.eqb_spec n (vm_name x)) as [->|_]; [exfalso; apply (H x); [left; reflexivity|reflexivity]|].
  apply IH. intros m Hm. apply H. right. exact Hm.
Qed.

Lemma add_packet_keeps_packet s p q : In q (s_packets s) -> In q (s_packets (add_packet s p)).
Proof. rewrite add_packet_packets. destruct (mem _ _); [auto|]. intros H. apply In_snoc. left. exact H. Qed.

Lemma visit_packets_keeps_packet l : forall s s' q, visit_packets l s = ROk s' -> In q (s_packets s) -> In q (s_packets s').
Proof.
  induction l as [|d l IH]; intros s s' q H Hq.
  - inversion H. subst. exact Hq.
  - destruct (visit_packets_cons _ _ _ _ H) as [p [st [ds [_ Hr]]]]. eapply IH; [exact Hr|]. apply add_packet_keeps_packet. exact Hq.
Qed.

(* ---- C12, an object field at the top level of a packet (that is not itself rejected as a duplicate) whose type is neither a
   packet nor a MetaData entry: reported, on the line of the fieldDefinition (undeclared_packet_line_refuted: not on the line
   of a prefixed attribute; undeclared_packet_in_inline_refuted, undeclared_packet_in_pair_refuted,
   undeclared_packet_in_dup_packet_refuted: not in the other positions) *)
Theorem undeclared_object_type_diagnosed t r A d B fw sp rep ft fn doc comma :
  visit t = VOk r ->
  packet_defs t = A ++ d :: B -> ~ In (pd_name_text d) (map pd_name_text A) ->
  In fw (pd_fields d) -> fw_def fw = ObjectField sp rep ft fn doc comma ->
  ~ In (p_text ft) (Faults.packet_names t) -> ~ In (p_text ft) (meta_names t) ->
  has_diag r DK_UnknownPacket (start_line sp).
Proof.
  intros Hv Hdefs Hfreshname Hfw Hdef Hnp Hnm.
  destruct (visit_ok_inv _ _ Hv) as [s [Hs Hr]]. rewrite packets_of_defs, Hdefs in Hs.
  destruct (phases_no_packets t) as [Hnop _].
  destruct (visit_packets_app _ _ _ _ Hs) as [sa [Ha Hrest]].
  destruct (visit_packets_cons _ _ _ _ Hrest) as [p [st [ds [Hp Hrest2]]]].
  (* the type is no MetaData entry *)
  assert (Hmetas : find_meta (s_metas sa) (p_text ft) = None).
  { apply find_meta_none_of_names. intros m Hm Heq. apply Hnm. rewrite <- Heq. apply phase_metas_names.
    rewrite (visit_packets_metas _ _ _ Ha), phase_options_metas in Hm. exact Hm. }
  (* the names of the final PacketsMap are names of packet definitions *)
  assert (Hfinal : ~ In (p_text ft) (Visitor.packet_names (s_packets s))).
  { rewrite (visit_packets_names _ _ _ (p_text ft) Hs), Hnop. cbn [Visitor.packet_names map In]. intros [[]|Hin]. apply Hnp.
    unfold Faults.packet_names. rewrite Hdefs. exact Hin. }
  assert (Hpmap : mem (p_text ft) (Visitor.packet_names (s_packets sa)) = false).
  { destruct (mem _ _) eqn:Hm; [|reflexivity]. apply mem_In in Hm. exfalso. apply Hfinal.
    rewrite (visit_packets_names _ _ _ (p_text ft) Hs), Hnop. rewrite (visit_packets_names _ _ _ (p_text ft) Ha), Hnop in Hm.
    destruct Hm as [[]|Hm]. right. rewrite map_app. apply in_or_app. left. exact Hm. }
  (* the field in the first loop *)
  unfold visit_packet_def in Hp.
  destruct (loop1 _ _ _ _) as [acc|e] eqn:Hl1; [|discriminate].
  destruct (loop2 _ _ _ _ _) as [fields|e] eqn:Hl2; [|discriminate]. inversion Hp. subst p st ds. clear Hp.
  destruct (in_split _ _ Hfw) as [fa [fb Hsplit]]. rewrite Hsplit in Hl1.
  destruct (loop1_app _ _ _ _ _ _ Hl1) as [acc1 [_ Hl1b]].
  destruct (loop1_cons _ _ _ _ _ _ Hl1b) as [f [st1 [ds1 [Hvf Hl1c]]]].
  destruct (visit_object_field _ _ _ _ _ _ _ _ _ _ _ _ Hdef Hmetas Hvf) as [Hattr Hline].
  assert (Hkept : nth_error (pa_fields acc) (length (pa_fields acc1)) = Some f).
  { eapply loop1_keeps_field; [exact Hl1c|]. unfold loop1_add. rewrite Hattr. cbn. apply nth_error_snoc_new. }
  (* the second loop *)
  destruct (loop2_spec _ _ _ _ _ _ (seq_NoDup _ _) Hl2) as [Hlen Hk].
  destruct (Hk (length (pa_fields acc1))) as [Hskel Hat]. rewrite Hkept in Hskel, Hat. cbn in Hskel, Hat.
  destruct (nth_error fields (length (pa_fields acc1))) as [f'|] eqn:Hf'; [|discriminate]. cbn in Hskel, Hat.
  assert (Hinseq : existsb (Nat.eqb (length (pa_fields acc1))) (seq 0 (length (pa_fields acc))) = true).
  { apply existsb_exists. exists (length (pa_fields acc1)). split; [|apply Nat.eqb_refl]. apply in_seq.
    pose proof (nth_error_Some_lt _ _ _ Hkept). lia. }
  rewrite Hinseq in Hat. cbn in Hat. rewrite Hattr in Hat. cbn [step_attr] in Hat. rewrite Hpmap in Hat.
  inversion Hat as [Hat']. inversion Hskel as [[Hname' Hline']].
  (* the packet is kept and resolved *)
  set (p := mkVPacket (p_text (pd_name d)) (is_some (pd_root d)) (pa_lenf acc) fields (pa_fmap acc) (pa_mfs acc) (start_line (pd_span d))) in *.
  assert (Hpin : In p (s_packets s)).
  { eapply visit_packets_keeps_packet; [exact Hrest2|]. rewrite add_packet_packets. cbn [s_packets].
    destruct (mem (vk_name p) _) eqn:Hm.
    - exfalso. apply mem_In in Hm. rewrite (visit_packets_names _ _ _ (vk_name p) Ha), Hnop in Hm. destruct Hm as [[]|Hm].
      apply Hfreshname. exact Hm.
    - apply In_snoc. right. reflexivity. }
  destruct (finish_reports s p f' false (p_text ft) None Hpin) as [dg [Hdg [Hkind Hln]]].
  - cbn. eapply nth_error_In. exact Hf'.
  - exact Hat'.
  - exact Hfinal.
  - exists dg. subst r. split; [exact Hdg|]. split; [exact Hkind|]. rewrite Hln, Hline'. exact Hline.
Qed.

(* ================================================================== (d) C08 on the visitor level *)

(* "explicit default options versus none" fails for one option: with FixedStringPadFromLeft = true alone,
   NewConfiguration takes the pad character from a Go literal that is the bare blank (1 byte), where the option
   value - also the documented default - is the token text quote-blank-quote (3 bytes) *)
Lemma default_options_refuted :
  same_meaning_o (visit w_pad_from_left_only) (visit (rw_default_options w_pad_from_left_only)) = false /\
  (exists r, visit w_pad_from_left_only = VOk r /\ BModel.c_pad (r_config r) = Some (BModel.mkPad " " true)) /\
  (exists r, visit (rw_default_options w_pad_from_left_only) = VOk r /\ BModel.c_pad (r_config r) = Some (BModel.mkPad "' '" true)).
Proof. split; [reflexivity|]. split; eexists; (split; [vm_compute; reflexivity|reflexivity]). Qed.

(* type aliases: the two spellings of a basic type normalise to the same name wherever a generator asks for the type *)
Ltac by_spelling s :=
  repeat match goal with
         | |- context [String.eqb s ?k] => destruct (String.eqb_spec s k) as [->|_]; [reflexivity|]
         end.

Lemma alias_same_type s : norm_ty (long_of (short_of s)) = norm_ty (short_of s).
Proof. unfold short_of. by_spelling s. unfold long_of. by_spelling s. reflexivity. Qed.

Lemma short_of_norm s : norm_ty (short_of s) = norm_ty s.
Proof. unfold short_of. by_spelling s. reflexivity. Qed.

(* "a key list versus its expanded pairs": VisitMatchPair takes the DIGITS keys of a list before its STRING keys, so a
   list that mixes the two kinds is not its pairs in source order *)
Lemma mixed_key_list_refuted :
  same_meaning_o (visit w_mixed_key_list) (visit (rw_expand_keys w_mixed_key_list)) = false.
Proof. reflexivity. Qed.
