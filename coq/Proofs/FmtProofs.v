(* The formatter properties C09 (format part), C10, C11 (format part) on the model
   Fmt/Formatter.v (tied to the real FormatPacketDsl by harness/fmt.py: exact text equality on
   every text of every run).

   WHAT IS PROVED, WHAT IS PARTIAL, WHAT IS REFUTED
   ------------------------------------------------
   C11  PROVED   C11_format_never_panics      format_res never answers FPanic (Proofs/FmtSafe.v: every
                                              optional-child access is guarded, every token index is in range)
        PROVED   C11_format_total             the answer is the formatted text or the input with an error
        (witness) unguarded_padding_panics    the model WITHOUT the guard of formattor.go:185 panics
                                              (the behaviour before commit de1e826): the theorem has content
   C09  PROVED   C09_error_path               lexer or parser error => (input, error)          [and the converse]
        PROVED   C09_retention_comment_free   comment-free input whose token texts are clean: the result is
                                              render (doc_pt t); the printed terminals are, in order, EXACTLY the
                                              terminals of canon_pt t; everything between two terminals is white space;
                                              if each terminal is printed with its own text (faithful, decidable) the
                                              printed texts are flatten (canon_pt t).
        PROVED   C09_canon_adds_commas_only   on the trees of the parser canon_pt changes nothing but the optional comma of
                                              a match pair (key lists keep their items and their order: the universal
                                              statement that replaces the former witness of the reordered mixed key list,
                                              repaired in 31e9277)
                 PARTIAL in this sense: the token list is the PRINTER's (fmt_tokens), not the lexer's reading of
                 the printed text (no separation lemma for the 45-rule lexer), and "compiles to identical outputs" is
                 an oracle of the harness, not a theorem.
        REFUTED  C09_retention_comment_refuted      a comment between two tokens of a field disappears
        REFUTED  C09_retention_doc_refuted          a multi-line doc string is changed (re-indented)
        (examples, by computation, of what the repairs c81a187 0b4a262 3475ce5 8877dde ce41d8e made true:
                 C09_comments_kept_examples: comments inside / in front of a MetaData block, in front of a closing
                 brace, in front of attributes, after the last definition, and the blanks of a final comment are kept;
                 C09_keylist_order_kept_example)
   C10  REFUTED  C10_idempotent_refuted             format (format x) <> format x  (multi-line doc string)
        PARTIAL  C10_idempotent_partial             comment-free: the text is nc_pt t, the canonical tree formats to
                                                    the same text and is its own canonical tree; what is missing for
                                                    format (format x) = format x is that lexing and parsing the
                                                    printed text gives the canonical tree (C10_idempotent_of_reparse
                                                    states the implication)
        (example) C10_match_comment_idempotent_example   the former witness (comment after the last pair of a match,
                                                    dropped by the second pass) is a fixed point after c81a187
        PROVED   C10_layout_canonical_comment_free  two texts whose token lists are equal up to line and column and
                                                    contain no comment get the same result (END TO END: lex, parse,
                                                    format; uses Proofs/FmtErase.v: the parser ignores positions)
        STATED   C10_layout_canonical               the full statement with comments (each comment on the line of the
                                                    same token); not proved; the harness checks it on every run
        (witness) C10_layout_cr_witness             a bare CR ends a comment but is no line break for the lexer's line
                                                    count: replacing CR by LF changes the result *)
From FP Require Import FmtDoc FmtSafe FmtPure FmtErase FmtDocProofs.
From Coq Require Import Lia.
Open Scope string_scope.
Open Scope list_scope.

Ltac conj_tac := repeat match goal with |- _ /\ _ => split end.

(* ================================================================== C11 *)
Theorem C11_format_never_panics : forall s site, format_res s <> FPanic site.
Proof. exact format_never_panics. Qed.

Theorem C11_format_total : forall s, exists r, format_res s = FOk r \/ format_res s = FErr (string_of_runes s).
Proof. exact format_total. Qed.

(* the theorem is not vacuous: VisitPaddingAttribute as it was before the fix (no guard) *)
Definition visit_padding_attr_unguarded (a : padding_attr) : M string :=
  do padChar <- deref "VisitPaddingAttribute: PADDING_CHAR" (pa_padding a);
  ret (p_text (pa_attr a) ++ "(" ++ padChar ++ ")")%string.

Lemma unguarded_padding_panics :
  exists a, visit_padding_attr_unguarded a [] = Panic "VisitPaddingAttribute: PADDING_CHAR".
Proof.
  exists (mkPaddingAttr (mkSpan dummy_ptok dummy_ptok) dummy_ptok dummy_ptok None dummy_ptok). reflexivity.
Qed.

(* ================================================================== C09: the error path *)
Theorem C09_error_path : forall s,
  lex s = None \/ (exists ts, lex s = Some ts /\ parse ts = None) ->
  format_text s = (string_of_runes s, false).
Proof. exact format_error_path. Qed.

Theorem C09_error_only_on_syntax_error : forall s r,
  format_text s = (r, false) ->
  r = string_of_runes s /\ (lex s = None \/ (exists ts, lex s = Some ts /\ parse ts = None)).
Proof. exact format_error_only_then. Qed.

(* ================================================================== comment-free input *)
Lemma format_res_comment_free s ts t :
  lex s = Some ts -> parse ts = Some t -> no_hidden ts -> format_res s = FOk (nc_pt t).
Proof.
  intros Hl Hp Hn. unfold format_res. rewrite Hl, Hp. rewrite (fmt_pt_comment_free ts t Hn (parse_ok ts t Hp)). reflexivity.
Qed.

(* ------------------------------------------------------------------ C10: layout-canonical *)
Lemma no_hidden_et ts : forall ts', map et ts = map et ts' -> no_hidden ts -> no_hidden ts'.
Proof.
  induction ts as [|t r IH]; intros [|t' r'] E H; cbn [map] in E; try discriminate; [constructor|].
  injection E as E1 E2 E3 E4. inversion H as [|x l Hx Hl]; subst. constructor; [|apply (IH r' E4 Hl)].
  rewrite <- E3. exact Hx.
Qed.

Definition same_outcome (a b : fres) : Prop :=
  match a, b with
  | FOk x, FOk y => x = y
  | FErr _, FErr _ => True
  | _, _ => False
  end.

(* Two texts whose token lists (hidden tokens and EOF included) agree in the type and text of
   every token - i.e. that differ only in what the lexer skips or counts: spaces, tabs, blank
   lines, line breaks - and contain no comment have the same outcome: both are rejected, or
   both are formatted to the same text. *)
Theorem C10_layout_canonical_comment_free : forall x y tx ty,
  lex x = Some tx -> lex y = Some ty -> no_hidden tx -> map et tx = map et ty ->
  same_outcome (format_res x) (format_res y).
Proof.
  intros x y tx ty Hx Hy Hn E.
  pose proof (parse_erase tx) as Px. pose proof (parse_erase ty) as Py. rewrite E in Px. rewrite Px in Py.
  destruct (parse tx) as [t1|] eqn:E1; destruct (parse ty) as [t2|] eqn:E2; cbn [option_map] in Py; try discriminate.
  - rewrite (format_res_comment_free x tx t1 Hx E1 Hn).
    rewrite (format_res_comment_free y ty t2 Hy E2 (no_hidden_et tx ty E Hn)).
    cbn [same_outcome]. assert (Ee : e_pt t1 = e_pt t2) by congruence.
    rewrite <- (nc_pt_erase t1), <- (nc_pt_erase t2), Ee. reflexivity.
  - unfold format_res. rewrite Hx, Hy, E1, E2. exact I.
Qed.

(* The full statement of the second half of C10, comments included.  "Line" is the lexer's
   line (LF only); the line of the end of a token is its line plus the line breaks inside it;
   [comment_pattern]: for every comment, is it on the line on which the default-channel token
   before it ends?  NOT PROVED (it needs the hidden-token bookkeeping through the parser);
   harness/fmt.py oracle (e) checks it against the real formatter on every run. *)
Fixpoint count_nl (s : string) : nat :=
  match s with EmptyString => 0 | String c r => (if is_nl c then 1 else 0) + count_nl r end.

Fixpoint comment_pattern (prev : option nat) (ts : list tok) : list bool :=
  match ts with
  | [] => []
  | t :: r =>
      if hidden t then
        (match prev with Some l => Nat.eqb (line t) l | None => false end) :: comment_pattern prev r
      else comment_pattern (Some (line t + count_nl (text t))) r
  end.

Definition C10_layout_canonical : Prop :=
  forall x y tx ty,
    lex x = Some tx -> lex y = Some ty -> map et tx = map et ty ->
    comment_pattern None tx = comment_pattern None ty ->
    same_outcome (format_res x) (format_res y).

(* a bare CR: the same tokens, CR replaced by LF, another result *)
Definition cr_text : string :=
  "packet A {" ++ nl ++ "    u8 x," ++ String (ascii_of_nat 13) "    // c" ++ String (ascii_of_nat 13) "    u8 y," ++ nl ++ "}".
Definition lf_text : string :=
  "packet A {" ++ nl ++ "    u8 x," ++ nl ++ "    // c" ++ nl ++ "    u8 y," ++ nl ++ "}".

Lemma C10_layout_cr_witness :
  map (fun r => if N.eqb r 13 then 10%N else r) (runes_of_string cr_text) = runes_of_string lf_text
  /\ option_map (map et) (lex (runes_of_string cr_text)) = option_map (map et) (lex (runes_of_string lf_text))
  /\ fst (format_text (runes_of_string cr_text)) <> fst (format_text (runes_of_string lf_text))
  /\ option_map (comment_pattern None) (lex (runes_of_string cr_text))
     <> option_map (comment_pattern None) (lex (runes_of_string lf_text)).
Proof. conj_tac; [vm_compute; reflexivity|vm_compute; reflexivity|vm_compute; discriminate|vm_compute; discriminate]. Qed.

(* ------------------------------------------------------------------ C10: idempotence *)
Definition idempotent_at (s : list rune) : Prop :=
  forall r, format_text s = (r, true) -> format_text (runes_of_string r) = (r, true).
Definition C10_idempotent : Prop := forall s, idempotent_at s.

Definition doc2_text : string := "packet A {" ++ nl ++ "    u8 x `a" ++ nl ++ "b`," ++ nl ++ "}".

Theorem C10_idempotent_refuted : ~ C10_idempotent.
Proof.
  intro H. specialize (H (runes_of_string doc2_text) (fst (format_text (runes_of_string doc2_text)))).
  assert (E : format_text (runes_of_string doc2_text) = (fst (format_text (runes_of_string doc2_text)), true)) by (vm_compute; reflexivity).
  specialize (H E). vm_compute in H. discriminate H.
Qed.

Definition match_comment_text : string :=
  "packet A {" ++ nl ++ "    match k as n {" ++ nl ++ "        1 : B,// c" ++ nl ++ "    }," ++ nl ++ "}".

(* the former witness of "the second pass drops the comment behind the last match pair": after the
   repair the first pass prints the comment in front of the closing brace and the second pass keeps it *)
Lemma C10_match_comment_idempotent_example : idempotent_at (runes_of_string match_comment_text).
Proof.
  intros r Hr.
  assert (E : format_text (runes_of_string match_comment_text)
              = (fst (format_text (runes_of_string match_comment_text)), true)) by (vm_compute; reflexivity).
  rewrite E in Hr. apply (f_equal fst) in Hr. cbn [fst] in Hr. subst r. vm_compute. reflexivity.
Qed.

(* What holds on comment-free input, at the level of trees.  The first pass prints nc_pt t;
   its terminals are those of canon_pt t (C09_retention_comment_free below); the canonical
   tree prints the same text and is its own canonical tree.  Missing for
   format (format x) = format x: that the lexer and the parser read the printed text back as
   canon_pt t (up to positions and token numbers).  That needs a separation lemma for the
   lexer (two adjacent printed lexemes are separated by white space or cannot merge) and a
   round-trip lemma for the parser, and it is FALSE when a token contains a line break
   (C10_idempotent_refuted). *)
Theorem C10_idempotent_partial : forall s ts t,
  lex s = Some ts -> parse ts = Some t -> no_hidden ts ->
  format_res s = FOk (nc_pt t)
  /\ nc_pt (canon_pt t) = nc_pt t
  /\ canon_pt (canon_pt t) = canon_pt t
  /\ srcs (doc_pt t) = toks_pt (canon_pt t).
Proof.
  intros s ts t Hl Hp Hn. split; [apply (format_res_comment_free s ts t Hl Hp Hn)|].
  split; [apply nc_pt_canon|]. split; [apply canon_pt_idem|]. apply (srcs_doc_pt (length ts)). apply parse_ok. exact Hp.
Qed.

(* ... and the implication: if the second pass parses the printed text into a tree that prints
   like the canonical tree (e.g. a tree equal to it up to line and column), the second pass
   returns the same text *)
Theorem C10_idempotent_of_reparse : forall s ts t ts' t',
  lex s = Some ts -> parse ts = Some t -> no_hidden ts ->
  lex (runes_of_string (nc_pt t)) = Some ts' -> parse ts' = Some t' -> no_hidden ts' ->
  nc_pt t' = nc_pt (canon_pt t) ->
  idempotent_at s.
Proof.
  intros s ts t ts' t' Hl Hp Hn Hl' Hp' Hn' E r Hr.
  unfold format_text in Hr. rewrite (format_res_comment_free s ts t Hl Hp Hn) in Hr. inversion Hr; subst.
  unfold format_text. rewrite (format_res_comment_free _ ts' t' Hl' Hp' Hn'). rewrite E, nc_pt_canon. reflexivity.
Qed.

Lemma nc_pt_of_erased_canon t t' : e_pt t' = e_pt (canon_pt t) -> nc_pt t' = nc_pt (canon_pt t).
Proof. intro E. rewrite <- (nc_pt_erase t'), E, nc_pt_erase. reflexivity. Qed.

(* ================================================================== C09: content retention *)
Lemma printed_faithful d : faithful d = true -> printed d = map p_text (srcs d).
Proof.
  induction d as [|p r IH]; [reflexivity|]. unfold faithful in *. cbn [forallb]. intro H. apply andb_true_iff in H. destruct H as [Hp Hr].
  destruct p as [s|s k].
  - exact (IH Hr).
  - apply String.eqb_eq in Hp. change (printed (Tk s k :: r)) with (s :: printed r). change (srcs (Tk s k :: r)) with (k :: srcs r).
    cbn [map]. rewrite (IH Hr), Hp. reflexivity.
Qed.

(* Comment-free input whose token texts begin and end with a visible ASCII character (every
   default-channel token of the grammar does):
     1. the result is the concatenation of the pieces doc_pt t;
     2. the printed terminals are, in order, exactly the terminals of the canonical tree:
        nothing of t is lost, nothing is invented except the comma after a match pair, nothing
        moves (C09_canon_adds_commas_only);
     3. every separator is white space (spaces and line breaks);
     4. where every terminal is printed with its own text, the printed texts are flatten (canon_pt t). *)
Theorem C09_retention_comment_free : forall s ts t,
  lex s = Some ts -> parse ts = Some t -> no_hidden ts -> clean_toks (toks_pt t) ->
  format_text s = (render (doc_pt t), true)
  /\ srcs (doc_pt t) = toks_pt (canon_pt t)
  /\ seps_ok (doc_pt t) = true
  /\ (faithful (doc_pt t) = true -> printed (doc_pt t) = flatten (canon_pt t)).
Proof.
  intros s ts t Hl Hp Hn Hc.
  assert (Hs : srcs (doc_pt t) = toks_pt (canon_pt t)) by (apply (srcs_doc_pt (length ts)); apply parse_ok; exact Hp).
  split; [|split; [exact Hs|split; [apply seps_doc_pt|]]].
  - unfold format_text. rewrite (format_res_comment_free s ts t Hl Hp Hn), (nc_pt_render t Hc). reflexivity.
  - intro Hf. rewrite (printed_faithful _ Hf), Hs. reflexivity.
Qed.

(* The canonical tree of a tree of the parser: every match pair gets its comma, nothing else
   changes (a key list is its own canonical form: the items keep their order). *)
Theorem C09_canon_adds_commas_only : forall n p,
  ok_match_pair n p = true ->
  canon_match_pair p = mkMatchPair (mp_span p) (mp_key p) (mp_colon p) (mp_ident p) (Some (comma_of (mp_comma p))).
Proof.
  intros n p H. unfold ok_match_pair in H. apply andb_true_iff in H. destruct H as [_ Hk].
  unfold canon_match_pair. f_equal. destruct (mp_key p) as [t|t|l]; try reflexivity.
  cbn [canon_match_key key_ok] in *. rewrite (canon_key_list_ok l Hk). reflexivity.
Qed.

Theorem C09_parsed_key_lists_keep_order : forall ts t n p,
  parse ts = Some t -> ok_match_pair n p = true -> forall l, mp_key p = MKList l ->
  map p_text (key_items l) = map p_text (list_items l).
Proof.
  intros ts t n p _ H l E. unfold ok_match_pair in H. apply andb_true_iff in H. destruct H as [_ Hk].
  rewrite E in Hk. cbn [key_ok] in Hk. pose proof (canon_key_list_ok l Hk) as Hc.
  unfold key_list_ok in Hk. apply andb_true_iff in Hk. destruct Hk as [Hf Hr].
  f_equal. unfold key_items. apply filter_all. unfold list_items. cbn [forallb].
  change (is_item (li_first l)) with (item_ok (li_first l)). rewrite Hf. cbn [andb].
  rewrite forallb_forall. intros x Hx. apply in_map_iff in Hx. destruct Hx as [q [Eq Hq]]. subst x.
  rewrite forallb_forall in Hr. exact (Hr q Hq).
Qed.

(* ------------------------------------------------------------------ refutations by computation *)
Definition comments_of (s : list rune) : list string :=
  match lex s with
  | Some ts => map text (filter hidden ts)
  | None => []
  end.
Definition default_texts_of (s : list rune) : list string :=
  match lex s with
  | Some ts => map text (filter (fun t => negb (hidden t)) (removelast ts))
  | None => []
  end.
Definition formatted (s : string) : string := fst (format_text (runes_of_string s)).

(* a comment between two tokens of a field is dropped (CMT-INSIDE-NODE) *)
Definition inside_text : string := "packet A {" ++ nl ++ "    u8 // c" ++ nl ++ "    x," ++ nl ++ "}".
Lemma C09_retention_comment_refuted :
  snd (format_text (runes_of_string inside_text)) = true
  /\ comments_of (runes_of_string inside_text) = ["// c"]
  /\ comments_of (runes_of_string (formatted inside_text)) = [].
Proof. conj_tac; vm_compute; reflexivity. Qed.

(* examples of what the repairs made true (each was a recorded finding with this witness) *)
Definition meta_text : string := "MetaData M {" ++ nl ++ "    // c" ++ nl ++ "    u8 x," ++ nl ++ "}".
Definition before_meta_text : string := "packet A {" ++ nl ++ "}" ++ nl ++ "// c" ++ nl ++ "MetaData M {" ++ nl ++ "}".
Definition rbrace_text : string := "packet A {" ++ nl ++ "    u8 x," ++ nl ++ "    // c" ++ nl ++ "}".
Definition attr_text : string := "packet A {" ++ nl ++ "    // c" ++ nl ++ "    @tag(1)" ++ nl ++ "    u8 x," ++ nl ++ "}".
Definition at_end_text : string := "packet A {" ++ nl ++ "}" ++ nl ++ "// c".
Definition trim_end_text : string := "packet A {" ++ nl ++ "}// c ".

Definition kept (s : string) : bool :=
  snd (format_text (runes_of_string s))
  && (if list_eq_dec string_dec (comments_of (runes_of_string (formatted s))) (comments_of (runes_of_string s)) then true else false)
  && String.eqb (formatted (formatted s)) (formatted s).

Lemma C09_comments_kept_examples :
  kept meta_text = true /\ kept before_meta_text = true /\ kept rbrace_text = true /\ kept attr_text = true
  /\ kept at_end_text = true /\ kept trim_end_text = true /\ kept match_comment_text = true.
Proof. conj_tac; vm_compute; reflexivity. Qed.

(* a mixed key list keeps its order *)
Definition mixed_text : string :=
  "packet A {" ++ nl ++ "    match k as n {" ++ nl ++ "        [""a"", 1] : B," ++ nl ++ "    }," ++ nl ++ "}".
Lemma C09_keylist_order_kept_example :
  snd (format_text (runes_of_string mixed_text)) = true
  /\ default_texts_of (runes_of_string (formatted mixed_text)) = default_texts_of (runes_of_string mixed_text)
  /\ formatted mixed_text = mixed_text.
Proof. conj_tac; vm_compute; reflexivity. Qed.

(* a multi-line doc string is changed; the piece is not faithful (DOC-REINDENT) *)
Lemma C09_retention_doc_refuted :
  snd (format_text (runes_of_string doc2_text)) = true
  /\ In ("`a" ++ nl ++ "b`")%string (default_texts_of (runes_of_string doc2_text))
  /\ ~ In ("`a" ++ nl ++ "b`")%string (default_texts_of (runes_of_string (formatted doc2_text)))
  /\ In ("`a" ++ nl ++ "    b`")%string (default_texts_of (runes_of_string (formatted doc2_text)))
  /\ match lex (runes_of_string doc2_text) with
     | Some ts => match parse ts with Some t => faithful (doc_pt t) = false | None => False end
     | None => False
     end.
Proof.
  split; [vm_compute; reflexivity|]. split; [vm_compute; tauto|]. split; [|split; [vm_compute; tauto|vm_compute; reflexivity]].
  vm_compute. intro H. repeat (destruct H as [H|H]; [discriminate H|]). exact H.
Qed.

(* a positive instance of the retention theorem, hypotheses checked by computation *)
Definition sample_text : string :=
  "root packet A { repeat u8 x `d`, B b, Inner { match y as z { 1 : B [3, ""a"", 4] : D, }, }, @tag(3) zchar[2] w, } MetaData M { T t `x`, } options { a = 1; }".
Lemma retention_sample :
  match lex (runes_of_string sample_text) with
  | Some ts =>
      match parse ts with
      | Some t => forallb (fun k => clean (p_text k)) (toks_pt t) = true /\ faithful (doc_pt t) = true
                  /\ forallb (fun t => negb (hidden t)) ts = true
      | None => False
      end
  | None => False
  end.
Proof. vm_compute. conj_tac; reflexivity. Qed.

(* ================================================================== no axioms *)
Print Assumptions C11_format_never_panics.
Print Assumptions C09_error_path.
Print Assumptions C10_layout_canonical_comment_free.
Print Assumptions C10_idempotent_refuted.
Print Assumptions C10_idempotent_partial.
Print Assumptions C09_retention_comment_free.
