(* C17 as a theorem for validated codecs: the test "encode the sample, decode, compare" that
   Tests/SelfTest.v models PASSES on every typed, laid-out sample when the emitted codec is
   accepted by the proved-sound validator, under boolean conditions on the test's equality
   (eqs), its copy-back list (post) and the model (no computed member below the top level)
   that harness/tests.py can evaluate.  The last condition is necessary: see
   [nested_checksum_refuted] at the end (the recorded finding nested-checksum-not-copied).

   Scope: encoders with an EMPTY store table (Tests/SelfTest.v): Rust, C++, and Go/Java/Python
   programs whose encoders contain no store-back.  With store-backs (p.BodyLen = ..., this.checksum
   = ...) the test compares the STORED value of a computed member with the DECODED one, and the
   decoder theorem (Proofs/Validated.v, validated_dec_correct) only says the decoded member is
   "some integer" ([ueq_field]: exists a b).  A proof for those languages needs a sharper decoder
   theorem - the decoded length-of member is the size of the target's encoding, the decoded
   checksum member is the registered algorithm applied to the preceding bytes - which means
   carrying exact values through the invariant of Proofs/RefDec.v; that is not done here. *)
From FP Require Import SelfTest SelfTestLemmas Validate Validated Typed Paths EqvSoundDec.
From Coq Require Import Lia.
Open Scope list_scope.

(* ------------------------------------------------------------------ small facts *)

Lemma value_eqb_refl : forall v, value_eqb v v = true.
Proof.
  fix IH 1. intros [n|s|l|fs|pkt v]; cbn [value_eqb].
  - apply N.eqb_refl.
  - apply list_eqb_refl.
  - induction l as [|x r IHl]; [reflexivity|]. rewrite IH. exact IHl.
  - induction fs as [|x r IHl]; [reflexivity|]. rewrite IH. exact IHl.
  - rewrite String.eqb_refl. apply IH.
Qed.

Lemma assoc_in {A} (l : list (string * A)) k a : assoc l k = Some a -> In (k, a) l.
Proof.
  induction l as [|[k' a'] l IH]; cbn [assoc]; [discriminate|].
  destruct (String.eqb_spec k k') as [E|E].
  - intros H. inversion H; subst. left. reflexivity.
  - intros H. right. exact (IH H).
Qed.

Lemma assoc_nodup_in {A} (l : list (string * A)) k a :
  NoDup (map fst l) -> In (k, a) l -> assoc l k = Some a.
Proof.
  induction l as [|[k' a'] l IH]; [intros _ []|].
  cbn [map fst]. intros Hnd Hin. inversion Hnd as [|x xs Hnotin Hnd']; subst.
  cbn [assoc]. destruct (String.eqb_spec k k') as [E|E].
  - subst k'. destruct Hin as [Hin|Hin]; [inversion Hin; reflexivity|].
    exfalso. apply Hnotin. apply (in_map fst) in Hin. exact Hin.
  - destruct Hin as [Hin|Hin]; [inversion Hin; congruence|]. apply IH; assumption.
Qed.

Lemma packet_at_in M path p :
  NoDup (map fst (all_packets M)) -> In (path, p) (all_packets M) -> packet_at M path = Some p.
Proof. intros Hnd Hin. unfold packet_at. apply assoc_nodup_in; assumption. Qed.

Lemma number_nth {A} (l : list A) : forall k i x, nth_error l i = Some x -> In ((k + i)%nat, x) (number k l).
Proof.
  induction l as [|y r IH]; intros k i x H; destruct i as [|i]; cbn in H; try discriminate.
  - inversion H; subst. cbn [number]. left. rewrite Nat.add_0_r. reflexivity.
  - cbn [number]. right. replace (k + S i)%nat with (S k + i)%nat by lia. apply IH. exact H.
Qed.

Lemma set_nth_length {A} (l : list A) : forall i x, length (set_nth l i x) = length l.
Proof.
  induction l as [|y r IH]; intros i x; destruct i as [|i]; cbn [set_nth length]; try reflexivity.
  rewrite IH. reflexivity.
Qed.

Lemma nth_set_nth_eq {A} (l : list A) : forall i x y, nth_error l i = Some y -> nth_error (set_nth l i x) i = Some x.
Proof.
  induction l as [|z r IH]; intros i x y H; destruct i as [|i]; cbn in H |- *; try discriminate; [reflexivity|].
  exact (IH i x y H).
Qed.

Lemma nth_set_nth_neq {A} (l : list A) : forall i j x, i <> j -> nth_error (set_nth l i x) j = nth_error l j.
Proof.
  induction l as [|z r IH]; intros i j x H; destruct i as [|i], j as [|j]; cbn [set_nth nth_error]; try reflexivity.
  - exfalso. apply H. reflexivity.
  - apply IH. intros E. apply H. rewrite E. reflexivity.
Qed.

Definition inb (i : nat) (l : list nat) : bool := existsb (Nat.eqb i) l.

Definition copy_list (post : list nat) (xs ys : list value) : list value :=
  fold_left (fun xs i => match nth_error ys i with Some y => set_nth xs i y | None => xs end) post xs.

Lemma copy_list_length post : forall xs ys, length (copy_list post xs ys) = length xs.
Proof.
  induction post as [|a post IH]; intros xs ys; cbn [copy_list fold_left]; [reflexivity|].
  fold (copy_list post (match nth_error ys a with Some y => set_nth xs a y | None => xs end) ys).
  rewrite IH. destruct (nth_error ys a); [apply set_nth_length|reflexivity].
Qed.

Lemma copy_list_nth post : forall xs ys i x y,
  nth_error xs i = Some x -> nth_error ys i = Some y ->
  nth_error (copy_list post xs ys) i = Some (if inb i post then y else x).
Proof.
  induction post as [|a post IH]; intros xs ys i x y Hx Hy; cbn [copy_list fold_left inb existsb]; [exact Hx|].
  fold (copy_list post (match nth_error ys a with Some y => set_nth xs a y | None => xs end) ys).
  fold (inb i post).
  destruct (Nat.eqb_spec i a) as [E|E].
  - subst a. rewrite Hy. cbn [orb].
    rewrite (IH (set_nth xs i y) ys i y y (nth_set_nth_eq _ _ _ _ Hx) Hy). destruct (inb i post); reflexivity.
  - cbn [orb]. apply IH; [|exact Hy].
    destruct (nth_error ys a); [|exact Hx]. rewrite nth_set_nth_neq; [exact Hx|]. intros E'. apply E. symmetry. exact E'.
Qed.

Lemma forall2_combine_nth {A B C} (R : A * B -> C -> Prop) : forall (fs : list A) (vs : list B) (vs' : list C),
  Forall2 R (combine fs vs) vs' -> length vs = length fs ->
  length vs' = length fs /\
  forall i f x y, nth_error fs i = Some f -> nth_error vs i = Some x -> nth_error vs' i = Some y -> R (f, x) y.
Proof.
  induction fs as [|f0 fs IH]; intros vs vs' H Hl.
  - destruct vs; [|discriminate]. cbn in H. inversion H; subst. split; [reflexivity|].
    intros i f x y Hf. destruct i; discriminate.
  - destruct vs as [|x0 vs]; [discriminate|]. cbn [combine] in H. inversion H as [|a b l l' Hab Hr]; subst.
    cbn [length] in Hl. injection Hl as Hl. destruct (IH vs l' Hr Hl) as [Hlen Hnth]. split.
    + cbn [length]. rewrite Hlen. reflexivity.
    + intros i f x y Hf Hx Hy. destruct i as [|i]; cbn in Hf, Hx, Hy.
      * inversion Hf; inversion Hx; inversion Hy; subst. exact Hab.
      * exact (Hnth i f x y Hf Hx Hy).
Qed.

Lemma typed_fields_nth M rec p vs : forall fs rest k,
  typed_fields M rec p vs k fs rest = true ->
  length rest = length fs /\
  forall j f x, nth_error fs j = Some f -> nth_error rest j = Some x -> typed_field M rec p vs (k + j) f x = true.
Proof.
  induction fs as [|f0 fs IH]; intros rest k H; destruct rest as [|x0 rest]; cbn [typed_fields] in H; try discriminate.
  - split; [reflexivity|]. intros j f x Hf. destruct j; discriminate.
  - apply andb_prop in H. destruct H as [H0 Hr]. destruct (IH rest (S k) Hr) as [Hl Hn]. split.
    + cbn [length]. rewrite Hl. reflexivity.
    + intros j f x Hf Hx. destruct j as [|j]; cbn in Hf, Hx.
      * inversion Hf; inversion Hx; subst. rewrite Nat.add_0_r. exact H0.
      * replace (k + S j)%nat with (S k + j)%nat by lia. exact (Hn j f x Hf Hx).
Qed.

Lemma table_first_in t v n : table_first t v = Some n -> In n (map snd t).
Proof.
  induction t as [|[k p] t IH]; cbn [table_first]; [discriminate|].
  destruct (key_matches k v).
  - intros H. inversion H; subst. left. reflexivity.
  - intros H. right. exact (IH H).
Qed.

(* ------------------------------------------------------------------ the conditions (all boolean) *)

(* a member the encoder computes: a non-repeated length-of / checksum field *)
Definition computed_len (f : field) : bool := match f_attr f, f_rep f with ALen _ _, false => true | _, _ => false end.
Definition computed_cks (f : field) : bool := match f_attr f, f_rep f with ACheck _ _, false => true | _, _ => false end.
(* ... whose decoded value can differ from the sample: a length always, a checksum when the algorithm is registered *)
Definition must_copy (reg : bool) (f : field) : bool := orb (computed_len f) (andb reg (computed_cks f)).
Definition may_copy (f : field) : bool := orb (computed_len f) (computed_cks f).

(* the packets below a field (inline object, referenced packet, the payload packets of a match
   field) satisfy [rec]; a repeated match field has no layout at all *)
Definition below_with (M : bmodel) (rec : packet -> bool) (f : field) : bool :=
  match f_attr f with
  | AObj true _ _ (Some q) => rec q
  | AObj false _ (Some n) _ => match lookup_packet M n with Some q => rec q | None => true end
  | AMatch _ _ pairs =>
      andb (negb (f_rep f))
           (forallb (fun mp => match lookup_packet M (mp_value mp) with Some q => rec q | None => true end) pairs)
  | _ => true
  end.

(* no member of [q], or of a packet below it, has to be copied back *)
Fixpoint plain (reg : bool) (M : bmodel) (fuel : nat) (q : packet) : bool :=
  match fuel with
  | O => true
  | S k => forallb (fun f => andb (negb (must_copy reg f)) (below_with M (plain reg M k) f)) (p_fields q)
  end.

(* the guard of the theorem: computed members only at the top level of the tested packet *)
Definition no_nested_computed (reg : bool) (M : bmodel) (p : packet) : bool :=
  forallb (below_with M (plain reg M (pred fuel0))) (p_fields p).

(* the test copies back (at least) every member that has to be, and only computed members *)
Definition post_ok (reg : bool) (p : packet) (post : list nat) : bool :=
  andb (forallb (fun i => match nth_error (p_fields p) i with Some f => may_copy f | None => false end) post)
       (forallb (fun e => implb (must_copy reg (snd e)) (inb (fst e) post)) (number 0 (p_fields p))).

(* the member lists of the emitted equality name members that exist (absent path = whole object) *)
Definition eqs_ok (M : bmodel) (eqs : list (string * list nat)) : bool :=
  forallb (fun e => match packet_at M (fst e) with
                    | Some p => forallb (fun i => Nat.ltb i (length (p_fields p))) (snd e)
                    | None => false
                    end) eqs.

(* ------------------------------------------------------------------ teq, one level unfolded *)
Section Link.
  Variable reg : bool.
  Variable M : bmodel.
  Variable eqs : list (string * list nat).
  Hypothesis Hnd : NoDup (map fst (all_packets M)).
  Hypothesis Heqs : eqs_ok M eqs = true.

  Let cs := cs_test reg.

  Definition t_ref (k : nat) (name : string) (x y : value) : bool :=
    match lookup_packet M name with Some q => teq M eqs k name q x y | None => value_eqb x y end.

  Definition t_elem (k : nat) (path : string) (f : field) (x y : value) : bool :=
    match f_attr f, x, y with
    | AObj true _ _ (Some q), _, _ => teq M eqs k (path_join path (f_name f)) q x y
    | AObj false _ (Some name) _, _, _ => t_ref k name x y
    | AMatch _ _ _, VDyn n x', VDyn n' y' => andb (String.eqb n n') (t_ref k n x' y')
    | _, _, _ => value_eqb x y
    end.

  Definition t_member (k : nat) (path : string) (f : field) (x y : value) : bool :=
    if f_rep f
    then match x, y with
         | VList l, VList l' => all2 (t_elem k path f) l l'
         | _, _ => value_eqb x y
         end
    else t_elem k path f x y.

  Lemma teq_unfold k path p a b :
    teq M eqs (S k) path p a b =
    match a, b with
    | VObj xs, VObj ys =>
        andb (Nat.eqb (length xs) (length ys))
             (forallb (fun i => match nth_error (p_fields p) i, nth_error xs i, nth_error ys i with
                                | Some f, Some x, Some y => t_member k path f x y
                                | _, _, _ => false
                                end)
                      (match assoc eqs path with Some l => l | None => seq 0 (length xs) end))
    | _, _ => false
    end.
  Proof. reflexivity. Qed.

  (* the indices the equality of the packet at [path] looks at are field indices *)
  Lemma eq_indices_in_range path p n i :
    In (path, p) (all_packets M) -> n = length (p_fields p) ->
    In i (match assoc eqs path with Some l => l | None => seq 0 n end) -> (i < length (p_fields p))%nat.
  Proof.
    intros Hin Hn Hi. destruct (assoc eqs path) as [l|] eqn:Ea.
    - apply assoc_in in Ea. unfold eqs_ok in Heqs. rewrite forallb_forall in Heqs. specialize (Heqs _ Ea).
      cbn [fst snd] in Heqs. rewrite (packet_at_in M path p Hnd Hin) in Heqs.
      rewrite forallb_forall in Heqs. specialize (Heqs i Hi). apply Nat.ltb_lt in Heqs. exact Heqs.
    - apply in_seq in Hi. lia.
  Qed.

  (* ---------------------------------------------------------------- one level *)
  Section Level.
    Variable k : nat.
    (* the statement one level down *)
    Hypothesis IH : forall path q v v',
        In (path, q) (all_packets M) -> plain reg M k q = true -> typed M k q v = true ->
        ueq cs M k q v v' -> teq M eqs k path q v v' = true.

    Lemma t_ref_ok name q x y :
      lookup_packet M name = Some q -> plain reg M k q = true -> typed M k q x = true ->
      ueq cs M k q x y -> t_ref k name x y = true.
    Proof.
      intros Hl Hp Ht Hu. unfold t_ref. rewrite Hl. apply IH; try assumption. apply lookup_in_all. exact Hl.
    Qed.

    (* elements of a type that is not a match payload *)
    Lemma t_elem_ok path p f x y :
      In (path, p) (all_packets M) -> In f (p_fields p) ->
      (match f_attr f with AMatch _ _ _ => false | _ => true end) = true ->
      below_with M (plain reg M k) f = true ->
      typed_elem M (typed M k) (f_attr f) x = true ->
      ueq_elem M (ueq cs M k) (f_attr f) x y ->
      t_elem k path f x y = true.
    Proof.
      intros Hin Hf Hnm Hb Ht Hu. destruct f as [fname a la rp]. unfold t_elem, below_with in *. cbn [f_attr f_name f_rep] in *.
      destruct a as [ty|len pad| |tg lt|alg ty|iner pn rf inl|key ka pairs|]; cbn [ueq_elem typed_elem] in *;
        try (subst y; apply value_eqb_refl); try discriminate Hnm.
      destruct iner.
      - destruct inl as [q|].
        + apply IH; try assumption. apply (all_closed M path p fname q Hin).
          apply (inline_child_of_field _ fname pn rf q la rp). exact Hf.
        + destruct rf as [n|]; subst y; destruct x; apply value_eqb_refl.
      - destruct rf as [n|].
        + destruct (lookup_packet M n) as [q|] eqn:El; [|discriminate Ht].
          apply (t_ref_ok n q); assumption.
        + subst y. destruct x; apply value_eqb_refl.
    Qed.

    Lemma all2_ok (f : value -> value -> bool) (P : value -> bool) (R : value -> value -> Prop) :
      (forall x y, P x = true -> R x y -> f x y = true) ->
      forall l l', forallb P l = true -> Forall2 R l l' -> all2 f l l' = true.
    Proof.
      intros H l l' Hp Hr. induction Hr as [|x y l l' Hxy Hr IHr]; [reflexivity|].
      cbn [forallb] in Hp. apply andb_prop in Hp. destruct Hp as [Hx Hp]. cbn [all2].
      rewrite (H x y Hx Hxy). exact (IHr Hp).
    Qed.

    (* a member that does not have to be copied back *)
    Lemma t_member_ok path p vs i f x y :
      In (path, p) (all_packets M) -> In f (p_fields p) ->
      must_copy reg f = false ->
      below_with M (plain reg M k) f = true ->
      typed_field M (typed M k) p vs i f x = true ->
      ueq_field cs M (ueq cs M k) f x y ->
      t_member k path f x y = true.
    Proof.
      intros Hin Hf Hmc Hb Ht Hu. unfold t_member, typed_field, ueq_field in *.
      destruct (f_rep f) eqn:Er.
      - (* repeated *)
        destruct x as [| |l| |]; try (subst y; apply value_eqb_refl).
        destruct y as [| |l'| |]; try (rewrite Hu; apply value_eqb_refl).
        assert (Hnm : (match f_attr f with AMatch _ _ _ => false | _ => true end) = true).
        { unfold below_with in Hb. destruct (f_attr f); try reflexivity. rewrite Er in Hb. discriminate Hb. }
        apply (all2_ok _ (typed_elem M (typed M k) (f_attr f)) (ueq_elem M (ueq cs M k) (f_attr f))); try assumption.
        intros x y Hx Hxy. apply (t_elem_ok path p f x y); assumption.
      - (* single *)
        unfold must_copy, computed_len, computed_cks in Hmc. rewrite Er in Hmc.
        destruct (f_attr f) as [ty|len pad| |tg lt|alg ty|iner pn rf inl|key ka pairs|] eqn:Ea;
          try (apply (t_elem_ok path p f x y); try assumption; rewrite Ea; try reflexivity; assumption).
        + (* ALen: has to be copied *) discriminate Hmc.
        + (* ACheck: not registered *)
          cbn [orb] in Hmc. rewrite Bool.andb_true_r in Hmc.
          destruct Hu as [Hu _]. unfold t_elem. rewrite Ea.
          assert (E : x = y) by (apply Hu; unfold cs, cs_test; rewrite Hmc; reflexivity).
          subst y. destruct x; apply value_eqb_refl.
        + (* AMatch *)
          destruct key as [kname|]; [|destruct x; discriminate Ht].
          destruct x as [| | | |name pv]; try discriminate Ht.
          destruct (index_of_name kname (p_fields p) 0) as [ki|]; [|discriminate Ht].
          apply andb_prop in Ht. destruct Ht as [_ Ht].
          destruct (nth_error (p_fields p) ki) as [kf|]; [|discriminate Ht].
          destruct (nth_error vs ki) as [kv|]; [|discriminate Ht].
          apply andb_prop in Ht. destruct Ht as [_ Ht]. apply andb_prop in Ht. destruct Ht as [_ Ht].
          destruct (table_first (pairs_table pairs) kv) as [n0|] eqn:Etf; [|discriminate Ht].
          destruct (lookup_packet M name) as [q|] eqn:El; [|discriminate Ht].
          apply andb_prop in Ht. destruct Ht as [Hn0 Htq]. apply String.eqb_eq in Hn0. subst n0.
          cbn [ueq_elem] in Hu.
          destruct y as [| | | |name' pv']; try discriminate Hu.
          destruct Hu as [Hnn Hu]. subst name'. rewrite El in Hu.
          unfold t_elem. rewrite Ea, String.eqb_refl. cbn [andb].
          apply (t_ref_ok name q); try assumption.
          (* the payload packet is one of the pairs' packets *)
          unfold below_with in Hb. rewrite Ea in Hb. apply andb_prop in Hb. destruct Hb as [_ Hb].
          rewrite forallb_forall in Hb.
          apply table_first_in in Etf. unfold pairs_table in Etf. rewrite map_map in Etf. cbn [snd] in Etf.
          apply in_map_iff in Etf. destruct Etf as [mp [Emp Hmp]]. specialize (Hb mp Hmp). rewrite Emp, El in Hb. exact Hb.
    Qed.
  End Level.
End Link.

Lemma nth_error_lt_some {A} (l : list A) i : (i < length l)%nat -> exists x, nth_error l i = Some x.
Proof.
  intros H. destruct (nth_error l i) as [x|] eqn:E; [exists x; reflexivity|].
  apply nth_error_None in E. lia.
Qed.

Section Main.
  Variable reg : bool.
  Variable M : bmodel.
  Variable eqs : list (string * list nat).
  Hypothesis Hnd : NoDup (map fst (all_packets M)).
  Hypothesis Heqs : eqs_ok M eqs = true.

  (* below the top level: same message up to computed members, no member that has to be copied
     => equal under the test's equality *)
  Lemma ueq_teq_plain : forall k path q v v',
      In (path, q) (all_packets M) -> plain reg M k q = true -> typed M k q v = true ->
      ueq (cs_test reg) M k q v v' -> teq M eqs k path q v v' = true.
  Proof.
    induction k as [|k IHk]; intros path q v v' Hin Hp Ht Hu; [destruct Hu|].
    rewrite teq_unfold. cbn [ueq] in Hu. unfold ueq_body in Hu. cbn [typed] in Ht. unfold typed_body in Ht.
    destruct v as [| | |vs|]; try contradiction. destruct v' as [| | |vs'|]; try contradiction.
    destruct Hu as [Hf2 Hlen].
    destruct (forall2_combine_nth _ _ _ _ Hf2 Hlen) as [Hlen' Hnth].
    destruct (typed_fields_nth M (typed M k) q vs _ _ _ Ht) as [_ Htn].
    cbn [plain] in Hp. rewrite forallb_forall in Hp.
    apply andb_true_intro. split; [rewrite Hlen, Hlen'; apply Nat.eqb_refl|].
    apply forallb_forall. intros i Hi.
    pose proof (eq_indices_in_range reg M eqs Hnd Heqs path q (length vs) i Hin Hlen Hi) as Hlt.
    destruct (nth_error_lt_some (p_fields q) i Hlt) as [f Hf].
    destruct (nth_error_lt_some vs i ltac:(rewrite Hlen; exact Hlt)) as [x Hx].
    destruct (nth_error_lt_some vs' i ltac:(rewrite Hlen'; exact Hlt)) as [y Hy].
    rewrite Hf, Hx, Hy.
    pose proof (nth_error_In _ _ Hf) as Hfin. specialize (Hp f Hfin). apply andb_prop in Hp. destruct Hp as [Hmc Hb].
    apply (t_member_ok reg M eqs k IHk path q vs (0 + i) f x y); try assumption.
    - destruct (must_copy reg f); [discriminate Hmc|reflexivity].
    - exact (Htn i f x Hf Hx).
    - exact (Hnth i f x y Hf Hx Hy).
  Qed.

  Lemma t_member_copied k path f y : may_copy f = true -> t_member M eqs k path f y y = true.
  Proof.
    unfold may_copy, computed_len, computed_cks, t_member, t_elem. intros H.
    destruct (f_attr f); destruct (f_rep f); try discriminate H; destruct y; apply value_eqb_refl.
  Qed.

  (* the top level: the members that have to be copied back are *)
  Lemma ueq_teq_top k path p post v v' :
      In (path, p) (all_packets M) ->
      forallb (below_with M (plain reg M k)) (p_fields p) = true ->
      post_ok reg p post = true ->
      typed M (S k) p v = true ->
      ueq (cs_test reg) M (S k) p v v' ->
      teq M eqs (S k) path p (copy_members post v v') v' = true.
  Proof.
    intros Hin Hb Hpost Ht Hu.
    cbn [ueq] in Hu. unfold ueq_body in Hu. cbn [typed] in Ht. unfold typed_body in Ht.
    destruct v as [| | |vs|]; try contradiction. destruct v' as [| | |vs'|]; try contradiction.
    destruct Hu as [Hf2 Hlen].
    destruct (forall2_combine_nth _ _ _ _ Hf2 Hlen) as [Hlen' Hnth].
    destruct (typed_fields_nth M (typed M k) p vs _ _ _ Ht) as [_ Htn].
    rewrite forallb_forall in Hb.
    unfold post_ok in Hpost. apply andb_prop in Hpost. destruct Hpost as [Hmay Hmust].
    rewrite forallb_forall in Hmay. rewrite forallb_forall in Hmust.
    change (copy_members post (VObj vs) (VObj vs')) with (VObj (copy_list post vs vs')).
    rewrite teq_unfold. rewrite copy_list_length.
    apply andb_true_intro. split; [rewrite Hlen, Hlen'; apply Nat.eqb_refl|].
    apply forallb_forall. intros i Hi.
    pose proof (eq_indices_in_range reg M eqs Hnd Heqs path p (length vs) i Hin Hlen Hi) as Hlt.
    destruct (nth_error_lt_some (p_fields p) i Hlt) as [f Hf].
    destruct (nth_error_lt_some vs i ltac:(rewrite Hlen; exact Hlt)) as [x Hx].
    destruct (nth_error_lt_some vs' i ltac:(rewrite Hlen'; exact Hlt)) as [y Hy].
    rewrite Hf, (copy_list_nth post vs vs' i x y Hx Hy), Hy.
    pose proof (nth_error_In _ _ Hf) as Hfin.
    destruct (inb i post) eqn:Ei.
    - (* copied back: a computed member *)
      apply t_member_copied. unfold inb in Ei. apply existsb_exists in Ei. destruct Ei as [j [Hj Ej]].
      apply Nat.eqb_eq in Ej. subst j. specialize (Hmay i Hj). rewrite Hf in Hmay. exact Hmay.
    - (* not copied: it did not have to be *)
      assert (Hmc : must_copy reg f = false).
      { specialize (Hmust (i, f) (number_nth (p_fields p) 0 i f Hf)). cbn [fst snd] in Hmust.
        rewrite Ei in Hmust. destruct (must_copy reg f); [discriminate Hmust|reflexivity]. }
      apply (t_member_ok reg M eqs k (ueq_teq_plain k) path p vs (0 + i) f x y); try assumption.
      + exact (Hb f Hfin).
      + exact (Htn i f x Hf Hx).
      + exact (Hnth i f x y Hf Hx Hy).
  Qed.
End Main.

(* ------------------------------------------------------------------ the theorem *)

(* selftest_nostores with a copy-back list *)
Lemma selftest_nostores_post reg M P eqs post path p v b :
  packet_at M path = Some p ->
  sem_enc (cs_test reg) P fuel0 path v [] = Some b ->
  selftest reg M P [] eqs post path v =
    match sem_dec P fuel0 path b with
    | DOk (v2, _) => if teq M eqs fuel0 path p (copy_members post v v2) v2 then TPass else TNotEqual
    | _ => TDecodeFails
    end.
Proof.
  intros Hp He. unfold selftest. rewrite Hp, enc_mut_nostores, He. cbn [lift].
  rewrite list_eqb_refl. reflexivity.
Qed.

Theorem validated_selftest_passes reg M O eqs post path p v :
  validate_enc M O = true -> validate_dec_full M O = true ->
  In (path, p) (all_packets M) ->
  typed M fuel0 p v = true ->
  layout_defined reg M path v = true ->
  eqs_ok M eqs = true ->
  post_ok reg p post = true ->
  no_nested_computed reg M p = true ->
  selftest reg M O [] eqs post path v = TPass.
Proof.
  intros Henc Hdec Hin Ht Hlay Heqs Hpost Hguard.
  assert (Hnd : NoDup (map fst (all_packets M))).
  { unfold validate_enc, paths_ok in Henc. apply andb_prop in Henc. destruct Henc as [Hp _]. exact (nodupb_NoDup _ Hp). }
  pose proof (packet_at_in M path p Hnd Hin) as Hpa.
  unfold layout_defined in Hlay. rewrite Hpa in Hlay. unfold layout in Hlay.
  destruct (lay_packet (cs_test reg) M fuel0 p v []) as [b|] eqn:Hl; [|discriminate Hlay].
  pose proof (validated_enc_correct (cs_test reg) M O Henc fuel0 path p v [] b Hin Hl) as He.
  destruct (validated_dec_correct (cs_test reg) M O Hdec fuel0 path p v [] b Hin Ht Hl) as [msg [v' [Hb [Hd [Hu _]]]]].
  cbn [app] in Hb. subst msg.
  rewrite (selftest_nostores_post reg M O eqs post path p v b Hpa He).
  specialize (Hd []). rewrite app_nil_r in Hd. rewrite Hd.
  change fuel0 with (S (pred fuel0)) in Ht, Hu |- *.
  rewrite (ueq_teq_top reg M eqs Hnd Heqs (pred fuel0) path p post v v' Hin Hguard Hpost Ht Hu). reflexivity.
Qed.

Print Assumptions validated_selftest_passes.

(* ------------------------------------------------------------------ the theorem is not vacuous *)
Open Scope string_scope.
Definition ex_cfg : config := mkCfg "u16" "u16" "" "" "" false None.
Definition ex_inner : packet :=
  mkPacket "Inner" false None [mkField "a" (ABasic "u8") LNone false; mkField "s" ADyn LNone false] [].
Definition ex_logon : packet :=
  mkPacket "Logon" false None [mkField "x" (ABasic "u8") LNone false; mkField "codes" (ABasic "u16") LNone true] [].
Definition ex_hdr : packet :=
  mkPacket "Hdr" false None [mkField "k" (ABasic "u8") LNone false; mkField "sym" (AFixed 4 None) LNone false] [].
Definition ex_pairs : list mpair := [mkPair "1" "Logon"; mkPair "2" "Inner"].
Definition ex_msg : packet :=
  mkPacket "Msg" true (Some "BodyLen")
    [mkField "MsgType" (ABasic "u16") LNone false;
     mkField "BodyLen" (ALen (Some "Body") "u32") LLenOf false;
     mkField "Body" (AMatch (Some "MsgType") (Some (ABasic "u16")) ex_pairs) LTarget false;
     mkField "Inner" (AObj false "Inner" (Some "Inner") None) LNone false;
     mkField "Hdr" (AObj true "Hdr" (Some "Hdr") (Some ex_hdr)) LNone false;
     mkField "Items" (AObj false "Inner" (Some "Inner") None) LNone true;
     mkField "Checksum" (ACheck """CRC32""" "u32") LNone false]
    [("MsgType", ex_pairs)].
Definition ex_M : bmodel := mkModel ex_cfg [ex_inner; ex_logon; ex_msg] ["Inner"; "Logon"; "Msg"] (Some "Msg") [].
(* the emitted codec: the reference compilation (any validated IR would do) *)
Definition ex_O : prog := ref_prog ex_M (fun _ _ => 1%nat).
Definition ex_v : value :=
  VObj [VInt 1; VInt 77;
        VDyn "Logon" (VObj [VInt 9; VList [VInt 2; VInt 3]]);
        VObj [VInt 5; VStr [104; 105]%N];
        VObj [VInt 7; VStr [65; 66]%N];
        VList [VObj [VInt 1; VStr []]; VObj [VInt 2; VStr [120]%N]];
        VInt 4].
(* Rust: derived PartialEq, copies length and checksum back; C++: member lists of equals() *)
Definition ex_post : list nat := [1; 6]%nat.
Definition ex_eqs_members : list (string * list nat) :=
  [("Msg", [0; 1; 2; 3; 4; 5; 6]); ("Inner", [0; 1]); ("Logon", [0; 1]); ("Msg/Hdr", [0; 1])]%nat.

Example ex_hypotheses :
  validate_enc ex_M ex_O = true /\ validate_dec_full ex_M ex_O = true /\
  packet_at ex_M "Msg" = Some ex_msg /\
  typed ex_M fuel0 ex_msg ex_v = true /\
  layout_defined true ex_M "Msg" ex_v = true /\ layout_defined false ex_M "Msg" ex_v = true /\
  eqs_ok ex_M [] = true /\ eqs_ok ex_M ex_eqs_members = true /\
  post_ok true ex_msg ex_post = true /\ post_ok false ex_msg ex_post = true /\
  no_nested_computed true ex_M ex_msg = true /\ no_nested_computed false ex_M ex_msg = true.
Proof. repeat split; vm_compute; reflexivity. Qed.

(* ... and the theorem applies (four instances: registered or not, whole-object or member-list equality) *)
Example ex_passes :
  forall reg eqs, (eqs = [] \/ eqs = ex_eqs_members) ->
  selftest reg ex_M ex_O [] eqs ex_post "Msg" ex_v = TPass.
Proof.
  destruct ex_hypotheses as [He [Hd [Hp [Ht [Hl1 [Hl0 [Hq0 [Hq1 [Hp1 [Hp0 [Hg1 Hg0]]]]]]]]]]].
  intros reg eqs Heq. apply (validated_selftest_passes reg ex_M ex_O eqs ex_post "Msg" ex_msg ex_v); try assumption.
  - unfold packet_at in Hp. exact (assoc_in _ _ _ Hp).
  - destruct reg; assumption.
  - destruct Heq; subst eqs; assumption.
  - destruct reg; assumption.
  - destruct reg; assumption.
Qed.

(* the evaluation agrees, and the sample is not trivially equal to what is decoded:
   without the copy-back the comparison fails *)
Example ex_evaluated :
  selftest true ex_M ex_O [] [] ex_post "Msg" ex_v = TPass /\
  selftest true ex_M ex_O [] [] [] "Msg" ex_v = TNotEqual.
Proof. split; vm_compute; reflexivity. Qed.

(* ------------------------------------------------------------------ the guard is necessary *)
(* finding nested-checksum-not-copied, as a theorem: a checksum member one level down, a
   registered algorithm, every other hypothesis of the theorem true, and the test fails.  With
   the algorithm not registered the guard holds and the same test passes. *)
Definition rf_env : packet :=
  mkPacket "Env" false None [mkField "a" (ABasic "u8") LNone false; mkField "Sum" (ACheck """CRC16""" "u16") LNone false] [].
Definition rf_p : packet :=
  mkPacket "P" true None [mkField "Env" (AObj false "Env" (Some "Env") None) LNone false; mkField "x" (ABasic "u8") LNone false] [].
Definition rf_M : bmodel := mkModel ex_cfg [rf_env; rf_p] ["Env"; "P"] (Some "P") [].
Definition rf_O : prog := ref_prog rf_M (fun _ _ => 1%nat).
Definition rf_v : value := VObj [VObj [VInt 1; VInt 5]; VInt 2].

Theorem nested_checksum_refuted :
  validate_enc rf_M rf_O = true /\ validate_dec_full rf_M rf_O = true /\
  packet_at rf_M "P" = Some rf_p /\ typed rf_M fuel0 rf_p rf_v = true /\
  layout_defined true rf_M "P" rf_v = true /\ eqs_ok rf_M [] = true /\ post_ok true rf_p [] = true /\
  no_nested_computed true rf_M rf_p = false /\
  selftest true rf_M rf_O [] [] [] "P" rf_v = TNotEqual /\
  (* not registered: the guard holds, the test passes *)
  no_nested_computed false rf_M rf_p = true /\
  selftest false rf_M rf_O [] [] [] "P" rf_v = TPass.
Proof. repeat split; vm_compute; reflexivity. Qed.

Print Assumptions ex_passes.
Print Assumptions nested_checksum_refuted.
