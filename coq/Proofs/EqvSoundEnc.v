(* Soundness of the boolean IR equivalence for encoders: equivalent programs encode
   every message of every packet to the same bytes (or both fail). *)
From FP Require Import Eqv BytesLemmas.
From Coq Require Import Lia.
Open Scope list_scope.

Ltac bool_hyps :=
  repeat match goal with
         | H : andb _ _ = true |- _ => apply andb_prop in H; destruct H
         | H : Nat.eqb _ _ = true |- _ => apply Nat.eqb_eq in H; subst
         | H : String.eqb _ _ = true |- _ => apply String.eqb_eq in H; subst
         | H : Bool.eqb _ _ = true |- _ => apply Bool.eqb_prop in H; subst
         | H : Nat.ltb _ _ = true |- _ => apply Nat.ltb_lt in H
         end.

Lemma order_eqb_enc w a b n : order_eqb w a b = true -> enc_int w a n = enc_int w b n.
Proof.
  unfold order_eqb. intros H. apply orb_prop in H. destruct H as [H|H].
  - apply Bool.eqb_prop in H. subst. reflexivity.
  - apply Nat.leb_le in H. apply enc_int_small_order. exact H.
Qed.

Lemma pad_eqb_of a b : pad_eqb a b = true -> pad_of a = pad_of b.
Proof.
  unfold pad_eqb. destruct (pad_of a) as [[x l]|], (pad_of b) as [[y m]|]; try discriminate.
  intros H. bool_hyps. apply N.eqb_eq in H. subst. reflexivity.
Qed.

Lemma cast_irrelevant a b w k le :
  orb (Nat.eqb a b) (andb (Nat.leb w a) (Nat.leb w b)) = true ->
  enc_int w le (N.of_nat k mod pow256 a) = enc_int w le (N.of_nat k mod pow256 b).
Proof.
  intros H. apply orb_prop in H. destruct H as [H|H].
  - apply Nat.eqb_eq in H. subst. reflexivity.
  - apply andb_prop in H. destruct H as [Ha Hb]. apply Nat.leb_le in Ha. apply Nat.leb_le in Hb.
    rewrite !enc_int_mod by assumption. reflexivity.
Qed.

Section Ext.
  Variable cs : string -> option (list byte -> N).
  Variables rec1 rec2 : string -> value -> list byte -> option (list byte).
  Hypothesis Hrec : forall n v b, rec1 n v b = rec2 n v b.

  Lemma enc_list_ext f g l buf :
    (forall v b, f v b = g v b) -> enc_list f l buf = enc_list g l buf.
  Proof.
    intros H. revert buf. induction l as [|v r IH]; intros buf; cbn [enc_list]; [reflexivity|].
    rewrite H. destruct (g v buf); [apply IH|reflexivity].
  Qed.

  Lemma enc_elem_eqv s : forall t v buf,
    elem_eqvb s t = true -> enc_elem rec1 s v buf = enc_elem rec2 t v buf.
  Proof.
    induction s as [w le|n p|pw ple ele|pw ple ele e IHe|ty| |m w le|e IHe sid|m sid w le cw sl|alg w le|why];
      intros t v buf H; destruct t; cbn [elem_eqvb] in H; try discriminate; bool_hyps.
    - (* EInt *) destruct v; cbn [enc_elem]; try reflexivity.
      match goal with Ho : order_eqb _ _ _ = true |- _ => rewrite (order_eqb_enc _ _ _ _ Ho) end. reflexivity.
    - (* EFixed *) destruct v; cbn [enc_elem]; try reflexivity.
      match goal with Hp : pad_eqb _ _ = true |- _ => rewrite (pad_eqb_of _ _ Hp) end. reflexivity.
    - (* EStr *) destruct v as [| str | | |]; cbn [enc_elem]; try reflexivity.
      match goal with Ho : order_eqb _ _ _ = true |- _ => rename Ho into Hord end.
      destruct str as [|c str].
      + cbn [length]. change (N.of_nat 0) with 0%N. rewrite (enc_int_zero_order _ ele empty_le). reflexivity.
      + rewrite (order_eqb_enc _ _ _ _ Hord). reflexivity.
    - (* EList *) destruct v as [| | l | |]; cbn [enc_elem]; try reflexivity.
      match goal with Ho : order_eqb _ _ _ = true |- _ => rename Ho into Hord end.
      destruct l as [|x l].
      + cbn [length enc_list]. change (N.of_nat 0) with 0%N. rewrite (enc_int_zero_order _ ele empty_le). reflexivity.
      + rewrite (order_eqb_enc _ _ _ _ Hord). apply enc_list_ext. intros v' b'. apply IHe. assumption.
    - (* EObj *) cbn [enc_elem]. destruct v; apply Hrec.
    - (* EDyn *) destruct v; cbn [enc_elem]; try reflexivity. apply Hrec.
  Qed.

  Definition do_step rec (vs : list value) (st : estate) (x : nat * estep) : option estate :=
    match nth_error vs (fst x) with
    | Some v => enc_step cs rec (snd x) v st
    | None => None
    end.

  Lemma nth_error_lt {A} (l : list A) i : (i < length l)%nat -> exists v, nth_error l i = Some v.
  Proof.
    intros H. destruct (nth_error l i) eqn:E; [eauto|]. apply nth_error_None in E. lia.
  Qed.

  Lemma enc_step_elem_eqv s t v st :
    elem_eqvb s t = true -> enc_step cs rec1 s v st = enc_step cs rec2 t v st.
  Proof.
    intros H. pose proof (enc_elem_eqv s t v (st_buf st) H) as He.
    destruct s; destruct t; cbn [elem_eqvb] in H; try discriminate; cbn [enc_step]; rewrite He; reflexivity.
  Qed.

  Lemma do_step_eqv vs st a b :
    step_eqvb (length vs) a b = true -> do_step rec1 vs st a = do_step rec2 vs st b.
  Proof.
    destruct a as [i s], b as [j t]. unfold do_step. cbn [fst snd step_eqvb].
    intros H.
    destruct s; destruct t; try discriminate;
      try (bool_hyps; destruct (nth_error vs j) as [v|]; [|reflexivity];
           match goal with He : elem_eqvb _ _ = true |- _ => apply (enc_step_elem_eqv _ _ v st He) end);
      try (cbn [elem_eqvb] in H; bool_hyps; discriminate).
    - (* EMarkZero *)
      bool_hyps.
      match goal with Hi : (i < _)%nat, Hj : (j < _)%nat |- _ =>
        destruct (nth_error_lt vs i Hi) as [vi Ei]; destruct (nth_error_lt vs j Hj) as [vj Ej] end.
      rewrite Ei, Ej. cbn [enc_step].
      match goal with Ho : order_eqb _ _ _ = true |- _ => rewrite (order_eqb_enc _ _ _ _ Ho) end. reflexivity.
    - (* ESpan *)
      bool_hyps. destruct (nth_error vs j) as [v|]; [|reflexivity]. cbn [enc_step].
      match goal with He : elem_eqvb _ _ = true |- _ => rewrite (enc_elem_eqv _ _ v (st_buf st) He) end. reflexivity.
    - (* EPatch *)
      bool_hyps.
      match goal with Hi : (i < _)%nat, Hj : (j < _)%nat |- _ =>
        destruct (nth_error_lt vs i Hi) as [vi Ei]; destruct (nth_error_lt vs j Hj) as [vj Ej] end.
      rewrite Ei, Ej. cbn [enc_step].
      destruct (lookup_mark (st_marks st) _); [|reflexivity].
      destruct (lookup_mark (st_spans st) _); [|reflexivity].
      match goal with Hc : orb _ _ = true |- _ => rename Hc into Hcast end.
      repeat match goal with Hs : slice_ok ?sl _ = true |- _ =>
        destruct sl; cbn [slice_ok] in Hs; [rewrite Hs|]; clear Hs end;
      match goal with Ho : order_eqb _ _ _ = true |- _ => rewrite (order_eqb_enc _ _ _ _ Ho) end;
      match goal with |- context [N.of_nat ?k mod pow256 _] => rewrite (cast_irrelevant _ _ _ k _ Hcast) end; reflexivity.
    - (* ECheck *)
      bool_hyps. destruct (nth_error vs j) as [v|]; [|reflexivity]. cbn [enc_step].
      destruct v; try reflexivity.
      match goal with Ho : order_eqb _ _ _ = true |- _ => rewrite (order_eqb_enc _ _ _ _ Ho) end. reflexivity.
  Qed.

  (* enc_steps is a fold of do_step *)
  Lemma enc_steps_fold rec steps vs st :
    enc_steps cs rec steps vs st =
    match fold_left (fun o x => match o with Some s => do_step rec vs s x | None => None end) steps (Some st) with
    | Some s => Some (st_buf s)
    | None => None
    end.
  Proof.
    revert st. induction steps as [|[i s] r IH]; intros st; cbn [enc_steps fold_left]; [reflexivity|].
    unfold do_step at 2. cbn [fst snd].
    destruct (nth_error vs i) as [v|].
    - destruct (enc_step cs rec s v st) as [st'|]; [apply IH|].
      clear. induction r as [|x r IH]; [reflexivity|exact IH].
    - clear. induction r as [|x r IH]; [reflexivity|exact IH].
  Qed.

  Lemma fold_none {A B} (f : option A -> B -> option A) (l : list B) :
    (forall x, f None x = None) -> fold_left f l None = None.
  Proof. intros H. induction l as [|x r IH]; cbn; [reflexivity|rewrite H; exact IH]. Qed.

  Lemma strip_noops_sound rec n steps steps' vs (o : option estate) :
    strip_noops n steps = Some steps' -> length vs = n ->
    fold_left (fun o x => match o with Some s => do_step rec vs s x | None => None end) steps o =
    fold_left (fun o x => match o with Some s => do_step rec vs s x | None => None end) steps' o.
  Proof.
    intros Hs Hl. revert steps' o Hs.
    induction steps as [|[i s] r IH]; intros steps' o Hs; cbn [strip_noops] in Hs.
    - inversion Hs. reflexivity.
    - destruct (strip_noops n r) as [r'|]; [|discriminate].
      destruct (is_noop s) eqn:En.
      + destruct (Nat.ltb_spec i n) as [Hi|Hi]; [|discriminate]. inversion Hs; subst steps'.
        cbn [fold_left]. rewrite <- (IH r' _ eq_refl). f_equal.
        destruct o as [st|]; [|reflexivity].
        unfold do_step. cbn [fst snd].
        destruct (nth_error_lt vs i) as [v Ev]; [lia|]. rewrite Ev.
        destruct s; try discriminate. reflexivity.
      + inversion Hs; subst steps'. cbn [fold_left]. apply IH. reflexivity.
  Qed.

  Lemma forall2b_fold vs a b (o : option estate) :
    forall2b (step_eqvb (length vs)) a b = true ->
    fold_left (fun o x => match o with Some s => do_step rec1 vs s x | None => None end) a o =
    fold_left (fun o x => match o with Some s => do_step rec2 vs s x | None => None end) b o.
  Proof.
    revert b o. induction a as [|x a IH]; intros b o H; destruct b as [|y b]; cbn [forall2b] in H; try discriminate.
    - reflexivity.
    - apply andb_prop in H. destruct H as [Hxy Hab]. cbn [fold_left].
      destruct o as [st|].
      + rewrite (do_step_eqv vs st x y Hxy). apply IH. exact Hab.
      + apply IH. exact Hab.
  Qed.

  Lemma enc_steps_eqv vs a b st :
    enc_eqvb (length vs) a b = true -> enc_steps cs rec1 a vs st = enc_steps cs rec2 b vs st.
  Proof.
    unfold enc_eqvb. intros H.
    destruct (strip_noops (length vs) a) as [a'|] eqn:Ea; [|discriminate].
    destruct (strip_noops (length vs) b) as [b'|] eqn:Eb; [|discriminate].
    rewrite !enc_steps_fold.
    rewrite (strip_noops_sound rec1 _ _ _ vs _ Ea eq_refl), (strip_noops_sound rec2 _ _ _ vs _ Eb eq_refl).
    rewrite (forall2b_fold vs a' b' _ H). reflexivity.
  Qed.

  Lemma enc_packet_body_eqv a b v buf :
    ir_members a = ir_members b -> enc_eqvb (ir_members a) (ir_enc a) (ir_enc b) = true ->
    enc_packet_body cs rec1 a v buf = enc_packet_body cs rec2 b v buf.
  Proof.
    intros Hm He. unfold enc_packet_body. destruct v as [| | |vs|]; try reflexivity.
    rewrite <- Hm. destruct (Nat.eqb_spec (length vs) (ir_members a)) as [Hl|Hl]; [|reflexivity].
    apply enc_steps_eqv. rewrite Hl. exact He.
  Qed.
End Ext.

Lemma find_ir_eqv P Q name :
  enc_prog_eqvb P Q = true ->
  match find_ir P name, find_ir Q name with
  | Some a, Some b => ir_members a = ir_members b /\ enc_eqvb (ir_members a) (ir_enc a) (ir_enc b) = true
  | None, None => True
  | _, _ => False
  end.
Proof.
  unfold enc_prog_eqvb. revert Q. induction P as [|[k a] P IH]; intros Q H; destruct Q as [|[k' b] Q]; cbn [forall2b] in H; try discriminate.
  - exact I.
  - apply andb_prop in H. destruct H as [Hp HPQ].
    unfold pkt_eqvb in Hp. cbn [fst snd] in Hp. bool_hyps.
    cbn [find_ir]. destruct (String.eqb k' name).
    + split; assumption.
    + apply IH. exact HPQ.
Qed.

(* equivalent programs have the same encoder semantics *)
Theorem enc_prog_eqv_sound cs P Q :
  enc_prog_eqvb P Q = true ->
  forall fuel name v buf, sem_enc cs P fuel name v buf = sem_enc cs Q fuel name v buf.
Proof.
  intros H fuel. induction fuel as [|fuel IH]; intros name v buf; cbn [sem_enc]; [reflexivity|].
  pose proof (find_ir_eqv P Q name H) as Hf.
  destruct (find_ir P name) as [a|], (find_ir Q name) as [b|]; try contradiction; [|reflexivity].
  destruct Hf as [Hm He]. apply enc_packet_body_eqv; assumption.
Qed.
