(* The printed text of a comment-free tree, token by token.
   PROVED (Fmt/FmtDoc.v has the definitions):
     nc_pt_render      clean_toks (toks_pt t) -> nc_pt t = render (doc_pt t)
                         the text is the concatenation of the pieces of doc_pt t
     srcs_doc_pt       ok_pt n t = true -> srcs (doc_pt t) = toks_pt (canon_pt t)
                         the printed terminals are, in order, exactly the terminals of the canonical tree
     canon_key_list_ok key_list_ok l = true -> canon_key_list l = l   (key lists keep their order)
     seps_doc_pt       every separator piece is white space
     nc_pt_canon       nc_pt (canon_pt t) = nc_pt t
     canon_pt_idem     canon_pt (canon_pt t) = canon_pt t *)
From FP Require Import FmtDoc FmtSafe FmtPure.
From Coq Require Import Lia.
Open Scope string_scope.
Open Scope list_scope.

Local Notation "a +++ b" := (String.append a b) (at level 60, right associativity).

(* ------------------------------------------------------------------ render *)
Lemma render_app a b : render (a ++ b) = render a +++ render b.
Proof. induction a as [|p r IH]; cbn [render app append]; [reflexivity|]. rewrite IH, append_assoc. reflexivity. Qed.

Lemma reindent_app i a b : reindent i (a +++ b) = reindent i a +++ reindent i b.
Proof.
  induction a as [|c r IH]; cbn [append reindent]; [reflexivity|].
  destruct (is_nl c); cbn [append]; rewrite IH; [rewrite append_assoc|]; reflexivity.
Qed.

Lemma render_reindent i d : reindent i (render d) = render (map (pmap (reindent i)) d).
Proof.
  induction d as [|p r IH]; cbn [render map]; [reflexivity|]. rewrite reindent_app, IH. destruct p; reflexivity.
Qed.

Lemma add_indent4ln_render d : add_indent4ln (render d) = render (indent4ln d).
Proof.
  unfold add_indent4ln, add_indent4, add_indent, indent4ln. cbn [render ptxt]. rewrite render_app. cbn [render ptxt].
  rewrite render_reindent, append_assoc, append_nil_r. reflexivity.
Qed.

Lemma render_map_tk l : render (map tk l) = text_of l.
Proof. induction l as [|k r IH]; cbn [map render text_of fold_right tk ptxt]; [reflexivity|]. rewrite IH. reflexivity. Qed.

(* ------------------------------------------------------------------ TrimSpace on clean texts *)
Lemma graphic_not_space b : graphic b = true ->
  ascii_space b = false /\ (forall b2, space2 b b2 = false) /\ (forall b2 b3, space3 b b2 b3 = false)
  /\ (forall b1, space2 b1 b = false) /\ (forall b1 b2, space3 b1 b2 b = false).
Proof.
  unfold graphic. intro H. apply andb_true_iff in H. destruct H as [H1 H2]. apply Nat.leb_le in H1. apply Nat.leb_le in H2.
  assert (E : forall c, 126 < c \/ c < 33 -> Nat.eqb b c = false) by (intros c Hc; apply Nat.eqb_neq; lia).
  assert (L : forall c, 126 < c -> Nat.leb c b = false) by (intros c Hc; apply Nat.leb_gt; lia).
  repeat split; intros; unfold ascii_space, space2, space3;
    rewrite ?(E 32), ?(E 194), ?(E 225), ?(E 226), ?(E 227), ?(E 133), ?(E 160), ?(E 128), ?(E 168), ?(E 169), ?(E 175), ?(E 159),
      ?(L 128) by lia;
    rewrite ?andb_false_r, ?andb_false_l, ?orb_false_r; cbn [andb orb]; rewrite ?andb_false_r; try reflexivity.
  destruct (Nat.leb 9 b) eqn:E9; [|reflexivity]. cbn [andb]. apply Nat.leb_gt. lia.
Qed.

Lemma drop_while_len_zero f fuel l : f l = 0 -> drop_while_len f fuel l = l.
Proof. intro H. destruct fuel; cbn [drop_while_len]; [reflexivity|]. rewrite H. reflexivity. Qed.

Lemma string_of_bytes_of s : string_of (bytes_of s) = s.
Proof.
  unfold string_of, bytes_of. rewrite map_map.
  rewrite (map_ext _ (fun x => x)) by (intro a; apply ascii_nat_embedding). rewrite map_id.
  apply string_of_list_ascii_of_string.
Qed.

Lemma bytes_of_app a b : bytes_of (a +++ b) = bytes_of a ++ bytes_of b.
Proof. induction a as [|c r IH]; [reflexivity|]. unfold bytes_of in *. cbn [append list_ascii_of_string map app]. rewrite IH. reflexivity. Qed.

Lemma gstart_bytes s : gstart s = true -> exists b r, bytes_of s = b :: r /\ graphic b = true.
Proof. destruct s as [|c r]; cbn [gstart]; [discriminate|]. intro H. exists (nat_of_ascii c), (bytes_of r). split; [reflexivity|exact H]. Qed.

Lemma gend_bytes s : gend s = true -> exists b r, rev (bytes_of s) = b :: r /\ graphic b = true.
Proof.
  induction s as [|c r IH]; [discriminate|]. destruct r as [|c2 r2].
  - cbn [gend]. intro H. exists (nat_of_ascii c), []. split; [reflexivity|exact H].
  - intro H. change (gend (String c (String c2 r2))) with (gend (String c2 r2)) in H.
    destruct (IH H) as [b [l [E G]]]. exists b, (l ++ [nat_of_ascii c]). split; [|exact G].
    change (bytes_of (String c (String c2 r2))) with (nat_of_ascii c :: bytes_of (String c2 r2)).
    cbn [rev]. rewrite E. reflexivity.
Qed.

Lemma space_len_graphic b r : graphic b = true -> space_len (b :: r) = 0.
Proof.
  intro G. destruct (graphic_not_space b G) as [H1 [H2 [H3 _]]]. unfold space_len. rewrite H1.
  destruct r as [|b2 r2]; [reflexivity|]. rewrite H2. destruct r2 as [|b3 r3]; [reflexivity|]. rewrite H3. reflexivity.
Qed.

Lemma rspace_len_graphic b r : graphic b = true -> rspace_len (b :: r) = 0.
Proof.
  intro G. destruct (graphic_not_space b G) as [H1 [_ [_ [H4 H5]]]]. unfold rspace_len. rewrite H1.
  destruct r as [|b2 r2]; [reflexivity|]. rewrite H4. destruct r2 as [|b1 r1]; [reflexivity|]. rewrite H5. reflexivity.
Qed.

Lemma trim_space_clean s : clean s = true -> trim_space s = s.
Proof.
  unfold clean. intro H. apply andb_true_iff in H. destruct H as [Hs He].
  destruct (gstart_bytes s Hs) as [b [r [E G]]]. destruct (gend_bytes s He) as [b' [r' [E' G']]].
  unfold trim_space. rewrite E. rewrite (drop_while_len_zero _ _ _ (space_len_graphic b r G)).
  rewrite <- E. rewrite E'. rewrite (drop_while_len_zero _ _ _ (rspace_len_graphic b' r' G')).
  rewrite <- E'. rewrite rev_involutive. apply string_of_bytes_of.
Qed.

Lemma trim_space_clean_sp s : clean s = true -> trim_space (s +++ " ") = s.
Proof.
  unfold clean. intro H. apply andb_true_iff in H. destruct H as [Hs He].
  destruct (gstart_bytes s Hs) as [b [r [E G]]]. destruct (gend_bytes s He) as [b' [r' [E' G']]].
  unfold trim_space. rewrite bytes_of_app. rewrite E. cbn [app].
  rewrite (drop_while_len_zero _ _ _ (space_len_graphic b (r ++ bytes_of " ") G)).
  change (b :: r ++ bytes_of " ") with ((b :: r) ++ [32]). rewrite <- E. rewrite rev_app_distr. cbn [rev app].
  rewrite app_length. cbn [length]. replace (length (bytes_of s) + 1) with (S (length (bytes_of s))) by lia.
  cbn [drop_while_len]. change (rspace_len (32 :: rev (bytes_of s))) with 1. cbn [skipn].
  rewrite E'. rewrite (drop_while_len_zero _ _ _ (rspace_len_graphic b' r' G')). rewrite <- E'.
  rewrite rev_involutive. apply string_of_bytes_of.
Qed.

Lemma gstart_app a b : gstart a = true -> gstart (a +++ b) = true.
Proof. destruct a as [|c r]; [discriminate|]. intro H. exact H. Qed.

Lemma gend_nonempty s : gend s = true -> s <> EmptyString.
Proof. destruct s; [discriminate|]. intros _ E. discriminate. Qed.

Lemma gend_app a b : gend b = true -> gend (a +++ b) = true.
Proof.
  intro H. induction a as [|c r IH]; [exact H|]. cbn [append].
  destruct (r +++ b) as [|c2 r2] eqn:E.
  - exfalso. destruct r; cbn [append] in E; [apply (gend_nonempty b H); exact E|discriminate].
  - cbn [gend]. exact IH.
Qed.

Lemma clean_app a m b : gstart a = true -> gend b = true -> clean (a +++ m +++ b) = true.
Proof.
  intros Ha Hb. unfold clean. apply andb_true_iff. split; [apply gstart_app; exact Ha|].
  apply gend_app. apply gend_app. exact Hb.
Qed.

Lemma clean_gstart s : clean s = true -> gstart s = true.
Proof. unfold clean. intro H. apply andb_true_iff in H. apply H. Qed.
Lemma clean_gend s : clean s = true -> gend s = true.
Proof. unfold clean. intro H. apply andb_true_iff in H. apply H. Qed.

(* ------------------------------------------------------------------ nc = render doc *)
Lemma Forall_app_l {A : Type} (P : A -> Prop) a b : Forall P (a ++ b) -> Forall P a.
Proof. intro H. apply Forall_app in H. apply H. Qed.
Lemma Forall_app_r {A : Type} (P : A -> Prop) a b : Forall P (a ++ b) -> Forall P b.
Proof. intro H. apply Forall_app in H. apply H. Qed.

Lemma Forall_flat_map_in {A B : Type} (P : B -> Prop) (f : A -> list B) l :
  Forall P (flat_map f l) -> Forall (fun x => Forall P (f x)) l.
Proof.
  induction l as [|x r IH]; cbn [flat_map]; intro H; [constructor|].
  constructor; [eapply Forall_app_l; exact H|apply IH; eapply Forall_app_r; exact H].
Qed.

Ltac str_norm :=
  rewrite ?render_app; cbn [render ptxt tk sp1 doc_kw doc_opt map o2l];
  rewrite ?append_assoc; rewrite ?append_nil_r; cbn [append]; rewrite ?append_nil_r.

Ltac str_fin :=
  unfold nl; repeat (progress (rewrite ?append_nil_r, ?append_assoc; cbn [append])); reflexivity.

Lemma type_text_render t : type_text t = render (doc_type t).
Proof. unfold type_text, doc_type. rewrite render_map_tk. reflexivity. Qed.

Lemma value_text_render v : value_text v = render (doc_value v).
Proof. unfold value_text, doc_value. rewrite render_map_tk. reflexivity. Qed.

Lemma kw_if_render o s : kw_if o (s +++ " ") = render (doc_kw o s).
Proof. destruct o; cbn [kw_if non_nil doc_kw render ptxt sp1]; [|reflexivity]. rewrite append_nil_r. reflexivity. Qed.

Lemma opt_text_render o : opt_text " " o = render (doc_opt o).
Proof. destruct o; cbn [opt_text doc_opt render ptxt sp1 tk]; [|reflexivity]. rewrite append_nil_r. reflexivity. Qed.

Lemma opt_type_text_render o : opt_type_text o = render (doc_opt_type o).
Proof.
  destruct o as [t|]; cbn [opt_type_text doc_opt_type]; [|reflexivity].
  rewrite render_app, type_text_render. reflexivity.
Qed.

Lemma nc_field_attribute_render a : nc_field_attribute a = render (doc_field_attribute a).
Proof.
  destruct a as [sp x|sp x|sp x|sp x]; cbn [nc_field_attribute doc_field_attribute];
    unfold visit_length_of_attr, visit_calculated_from_attr, nc_padding_attr, doc_length_of, doc_calculated_from, doc_tag_attr, doc_padding_attr;
    try (str_norm; reflexivity).
  destruct (pa_padding x); cbn [opt_text app]; str_norm; reflexivity.
Qed.

Lemma nc_field_attributes_render l : nc_field_attributes l = render (doc_field_attributes l).
Proof.
  induction l as [|a r IH]; cbn [nc_field_attributes doc_field_attributes]; [reflexivity|].
  rewrite !render_app, <- IH, <- nc_field_attribute_render. reflexivity.
Qed.

Lemma nc_length_field_decl_render d : nc_length_field_decl d = render (doc_length_field_decl d).
Proof.
  unfold nc_length_field_decl, doc_length_field_decl, doc_length_of. rewrite !render_app.
  rewrite <- opt_type_text_render, <- opt_text_render. cbn [render ptxt tk sp1]. str_fin.
Qed.

Lemma nc_checksum_field_decl_render d : nc_checksum_field_decl d = render (doc_checksum_field_decl d).
Proof.
  unfold nc_checksum_field_decl, doc_checksum_field_decl, doc_calculated_from. rewrite !render_app.
  rewrite <- opt_type_text_render, <- opt_text_render. cbn [render ptxt tk sp1]. str_fin.
Qed.

Lemma toks_type_first t : exists k r, toks_type t = k :: r.
Proof. destruct t as [sp b|sp f|sp d]; cbn [toks_type toks_basic_type toks_fixed_string toks_dynamic_string]; eexists; eexists; reflexivity. Qed.

Lemma gstart_type_text t : clean_toks (toks_type t) -> gstart (type_text t) = true.
Proof.
  intro H. unfold type_text. destruct (toks_type_first t) as [k [r E]]. rewrite E in *. inversion H; subst.
  cbn [text_of fold_right]. apply gstart_app. apply clean_gstart. assumption.
Qed.

Lemma nc_meta_decl_render d : clean_toks (toks_meta_decl d) -> nc_meta_decl d = render (doc_meta_decl d).
Proof.
  unfold toks_meta_decl. intro H.
  pose proof (gstart_type_text _ (Forall_app_l _ _ _ H)) as Ht. apply Forall_app_r in H.
  inversion H as [|x l Hname H']; subst. clear H.
  unfold nc_meta_decl, doc_meta_decl. rewrite !render_app. rewrite <- type_text_render.
  destruct (md_doc d) as [k|]; cbn [opt_text doc_opt o2l app] in *.
  - inversion H' as [|x l Hk _]; subst. rewrite trim_space_clean.
    + cbn [render ptxt tk sp1]. rewrite ?append_nil_r, ?append_assoc. reflexivity.
    + unfold clean. apply andb_true_iff. split; [apply gstart_app; exact Ht|].
      repeat apply gend_app. apply clean_gend. exact Hk.
  - rewrite append_nil_r.
    replace (type_text (md_type d) +++ " " +++ p_text (md_name d) +++ " ")
      with ((type_text (md_type d) +++ " " +++ p_text (md_name d)) +++ " ") by (rewrite !append_assoc; reflexivity).
    rewrite trim_space_clean_sp.
    + cbn [render ptxt tk sp1]. rewrite ?append_nil_r, ?append_assoc. reflexivity.
    + apply clean_app; [exact Ht|]. apply clean_gend. exact Hname.
Qed.

Lemma nc_ref_meta_decl_render d : clean_toks (toks_ref_meta_decl d) -> nc_ref_meta_decl d = render (doc_ref_meta_decl d).
Proof.
  unfold toks_ref_meta_decl. intro H. inversion H as [|x l Htyp H1]; subst. inversion H1 as [|x l Hname H2]; subst. clear H H1.
  unfold nc_ref_meta_decl, doc_ref_meta_decl. rewrite !render_app.
  rewrite trim_space_clean.
  - rewrite <- opt_text_render. cbn [render ptxt tk sp1]. rewrite ?append_nil_r, ?append_assoc. reflexivity.
  - destruct (rm_doc d) as [k|]; cbn [opt_text o2l app] in *.
    + inversion H2 as [|x l Hk _]; subst.
      unfold clean. apply andb_true_iff. split; [apply gstart_app; apply clean_gstart; exact Htyp|].
      repeat apply gend_app. apply clean_gend. exact Hk.
    + rewrite append_nil_r. apply clean_app; [apply clean_gstart; exact Htyp|apply clean_gend; exact Hname].
Qed.

(* ---- key lists *)
Lemma map_snd_zip_commas cs items : map snd (zip_commas cs items) = items.
Proof.
  revert cs. induction items as [|i r IH]; intro cs; [reflexivity|].
  destruct cs as [|c cs']; cbn [zip_commas map snd]; rewrite IH; reflexivity.
Qed.

Lemma render_short_rest r : render (doc_short_rest r) = fold_right (fun v acc => ", " +++ v +++ acc) EmptyString (map p_text (map snd r)).
Proof.
  induction r as [|[c i] r IH]; [reflexivity|]. cbn [doc_short_rest map snd fold_right].
  rewrite render_app, IH. cbn [render ptxt tk sp1 append]. rewrite append_nil_r. reflexivity.
Qed.

Lemma join_cons v vs : join ", " (v :: vs) = v +++ fold_right (fun v acc => ", " +++ v +++ acc) EmptyString vs.
Proof.
  revert v. induction vs as [|w r IH]; intro v; [cbn [join fold_right]; rewrite append_nil_r; reflexivity|].
  change (join ", " (v :: w :: r)) with (v +++ ", " +++ join ", " (w :: r)). rewrite IH. reflexivity.
Qed.

Lemma render_long_rest r : forall idx len, len = idx + length r ->
  render (doc_long_rest r idx) =
  (match r with [] => EmptyString | _ => "," +++ (if negb (Nat.eqb (Nat.modulo idx 5) 0) then " " else EmptyString) end)
  +++ long_list 5 (map p_text (map snd r)) idx len.
Proof.
  induction r as [|[c i] r IH]; intros idx len Hlen; [reflexivity|].
  cbn [doc_long_rest map snd long_list]. rewrite !render_app. rewrite (IH (S idx) len) by (cbn [length] in Hlen; lia).
  cbn [render ptxt tk sp1].
  replace (Nat.eqb idx (len - 1)) with (match r with [] => true | _ => false end).
  2:{ destruct r as [|x r']; cbn [length] in Hlen; symmetry; [apply Nat.eqb_eq|apply Nat.eqb_neq]; lia. }
  replace (Nat.modulo (idx + 1) 5) with (Nat.modulo (S idx) 5) by (f_equal; lia).
  destruct (negb (Nat.eqb (Nat.modulo idx 5) 0)); destruct (negb (Nat.eqb idx 0) && Nat.eqb (Nat.modulo idx 5) 0);
    destruct r as [|x r']; cbn [render ptxt negb append map]; rewrite ?append_nil_r, ?append_assoc; cbn [append]; reflexivity.
Qed.

Lemma long_list_head v vs len : len = length (v :: vs) ->
  long_list 5 (v :: vs) 0 len =
  v +++ (match vs with [] => EmptyString | _ => ", " end) +++ long_list 5 vs 1 len.
Proof.
  intro Hlen. subst len. destruct vs; reflexivity.
Qed.

Lemma key_text_render l : match_key_text (MKList l) = render (doc_key_list l).
Proof.
  cbn [match_key_text]. unfold doc_key_list, format_string_list. rewrite map_length.
  destruct (key_items l) as [|f its] eqn:E; [reflexivity|].
  assert (Hr : map snd (key_rest l) = its).
  { unfold key_rest. rewrite map_snd_zip_commas, E. reflexivity. }
  destruct (Nat.leb (length (f :: its)) 5).
  - cbn [map]. rewrite join_cons. rewrite !render_app, render_short_rest, Hr. cbn [render ptxt tk append].
    rewrite ?append_nil_r, ?append_assoc. reflexivity.
  - rewrite !render_app. rewrite <- add_indent4ln_render. cbn [render ptxt tk map].
    rewrite (render_long_rest (key_rest l) 1 (length (f :: its))).
    2:{ rewrite <- Hr. cbn [length]. rewrite map_length. reflexivity. }
    rewrite Hr. rewrite (long_list_head (p_text f) (map p_text its)) by (cbn [length]; rewrite map_length; reflexivity).
    cbn [append]. rewrite append_nil_r.
    assert (Hk : its = [] <-> key_rest l = []).
    { rewrite <- Hr. split; intro H; [destruct (key_rest l); [reflexivity|discriminate]|rewrite H; reflexivity]. }
    destruct its as [|i2 its']; destruct (key_rest l) as [|p2 r2];
      try (exfalso; destruct Hk as [Hk1 Hk2]; (discriminate (Hk1 eq_refl) || discriminate (Hk2 eq_refl)));
      cbn [map Nat.modulo Nat.eqb negb append]; reflexivity.
Qed.

Lemma match_key_text_render k : match_key_text k = render (doc_match_key k).
Proof.
  destruct k as [t|t|l]; [cbn [match_key_text doc_match_key render ptxt tk]; rewrite append_nil_r; reflexivity ..|].
  apply key_text_render.
Qed.

Lemma nc_match_pair_render p : nc_match_pair p = render (doc_match_pair p).
Proof.
  unfold nc_match_pair, doc_match_pair. rewrite <- add_indent4ln_render. f_equal.
  rewrite render_app, <- match_key_text_render. cbn [render ptxt sp1]. rewrite ?append_nil_r. reflexivity.
Qed.

Lemma nc_match_pairs_render ps : nc_match_pairs ps = render (doc_match_pairs ps).
Proof.
  induction ps as [|p r IH]; cbn [nc_match_pairs doc_match_pairs]; [reflexivity|].
  rewrite render_app, <- IH, <- nc_match_pair_render. reflexivity.
Qed.

Lemma nc_match_field_decl_render d : nc_match_field_decl d = render (doc_match_field_decl d).
Proof.
  unfold nc_match_field_decl, doc_match_field_decl. rewrite !render_app, <- nc_match_pairs_render.
  cbn [render ptxt tk sp1]. str_fin.
Qed.

Lemma nc_object_field_render rep ft fn doc comma :
  nc_object_field rep ft fn doc = render (doc_kw rep "repeat" ++ [tk ft] ++ doc_opt fn ++ doc_opt doc ++ [Tk "," comma]).
Proof.
  unfold nc_object_field. destruct rep; destruct fn; destruct doc;
    cbn [kw_if non_nil doc_kw doc_opt app render ptxt tk sp1 append]; rewrite ?append_nil_r, ?append_assoc; cbn [append]; reflexivity.
Qed.

Lemma doc_field_def_iner sp rep sp' name open fields close comma :
  doc_field_def (InerObjectField sp rep (InerObjectDecl sp' name open fields close) comma) =
  doc_kw rep "repeat" ++ [tk name; sp1; Tk "{" open; Sp nl] ++ doc_field_defs fields ++ [Tk "}" close; Tk "," comma].
Proof.
  assert (H : forall fs,
             (fix go (fs : list field_def) : list piece :=
                match fs with
                | [] => []
                | x :: r => indent4ln (doc_field_def x) ++ go r
                end) fs = doc_field_defs fs).
  { induction fs as [|f r IH]; [reflexivity|]. cbn [doc_field_defs]. rewrite <- IH. reflexivity. }
  cbn [doc_field_def]. rewrite H. reflexivity.
Qed.

Lemma toks_field_def_iner sp rep sp' name open fields close comma :
  toks_field_def (InerObjectField sp rep (InerObjectDecl sp' name open fields close) comma) =
  o2l rep ++ ([name; open] ++ flat_map toks_field_def fields ++ [close]) ++ [comma].
Proof. reflexivity. Qed.

Lemma nc_field_def_render f : clean_toks (toks_field_def f) -> nc_field_def f = render (doc_field_def f).
Proof.
  induction f as [sp rep sp' name open fields close comma IH|sp rep d|sp rep ft fn doc comma|sp d|sp d|sp d comma]
    using field_def_ind'; intro H.
  - rewrite nc_field_def_iner, doc_field_def_iner. rewrite toks_field_def_iner in H.
    apply Forall_app_r in H. apply Forall_app_l in H. apply Forall_app_r in H. apply Forall_app_l in H.
    apply Forall_flat_map_in in H.
    assert (E : nc_field_defs fields = render (doc_field_defs fields)).
    { induction fields as [|x r IHr]; cbn [nc_field_defs doc_field_defs]; [reflexivity|].
      inversion IH as [|y l Hy Hl]; subst. inversion H as [|y l Hy' Hl']; subst.
      rewrite render_app, <- add_indent4ln_render, <- (Hy Hy'), (IHr Hl Hl'). reflexivity. }
    rewrite !render_app. rewrite <- (kw_if_render rep "repeat"), <- E. cbn [render ptxt tk sp1]. str_fin.
  - cbn [nc_field_def doc_field_def toks_field_def] in *. rewrite render_app, <- (kw_if_render rep "repeat").
    rewrite <- nc_meta_decl_render; [reflexivity|]. eapply Forall_app_r. exact H.
  - cbn [nc_field_def doc_field_def]. apply nc_object_field_render.
  - cbn [nc_field_def doc_field_def]. apply nc_length_field_decl_render.
  - cbn [nc_field_def doc_field_def]. apply nc_checksum_field_decl_render.
  - cbn [nc_field_def doc_field_def]. rewrite render_app, <- nc_match_field_decl_render. reflexivity.
Qed.

Lemma nc_field_with_attr_render f : clean_toks (toks_field_with_attr f) -> nc_field_with_attr f = render (doc_field_with_attr f).
Proof.
  unfold toks_field_with_attr, nc_field_with_attr, doc_field_with_attr. intro H.
  rewrite render_app, <- nc_field_attributes_render, <- nc_field_def_render; [reflexivity|]. eapply Forall_app_r. exact H.
Qed.

Lemma nc_fields_with_attr_render fs :
  Forall (fun f => clean_toks (toks_field_with_attr f)) fs -> nc_fields_with_attr fs = render (doc_fields_with_attr fs).
Proof.
  induction 1 as [|f r Hf Hr IH]; cbn [nc_fields_with_attr doc_fields_with_attr]; [reflexivity|].
  rewrite render_app, <- add_indent4ln_render, <- (nc_field_with_attr_render f Hf), IH. reflexivity.
Qed.

Lemma nc_packet_def_render d : clean_toks (toks_packet_def d) -> nc_packet_def d = render (doc_packet_def d).
Proof.
  unfold toks_packet_def, nc_packet_def, doc_packet_def. intro H.
  apply Forall_app_r in H. apply Forall_app_r in H. apply Forall_app_l in H. apply Forall_flat_map_in in H.
  rewrite !render_app, <- (kw_if_render (pd_root d) "root"), <- (nc_fields_with_attr_render _ H).
  cbn [render ptxt tk sp1]. str_fin.
Qed.

Lemma nc_option_decl_render d : nc_option_decl d = render (doc_option_decl d).
Proof.
  unfold nc_option_decl, doc_option_decl. rewrite !render_app, <- value_text_render.
  destruct (od_semi d); cbn [kw_if non_nil render ptxt tk sp1]; str_fin.
Qed.

Lemma nc_option_decls_render ds : nc_option_decls ds = render (doc_option_decls ds).
Proof.
  induction ds as [|d r IH]; cbn [nc_option_decls doc_option_decls]; [reflexivity|].
  rewrite render_app, <- add_indent4ln_render, <- nc_option_decl_render, IH. reflexivity.
Qed.

Lemma nc_option_def_render d : nc_option_def d = render (doc_option_def d).
Proof.
  unfold nc_option_def, doc_option_def. rewrite !render_app, <- nc_option_decls_render.
  cbn [render ptxt tk sp1]. str_fin.
Qed.

Lemma nc_meta_items_render items :
  Forall (fun i => clean_toks (toks_meta_item i)) items -> nc_meta_items items = render (doc_meta_items items).
Proof.
  induction 1 as [|i r Hi Hr IH]; cbn [nc_meta_items doc_meta_items]; [reflexivity|].
  rewrite render_app, <- add_indent4ln_render, IH. f_equal. f_equal.
  destruct i as [d|d]; cbn [nc_meta_item doc_meta_item toks_meta_item] in *;
    [apply nc_meta_decl_render|apply nc_ref_meta_decl_render]; assumption.
Qed.

Lemma nc_meta_def_render d : clean_toks (toks_meta_def d) -> nc_meta_def d = render (doc_meta_def d).
Proof.
  unfold toks_meta_def, nc_meta_def, doc_meta_def. intro H.
  apply Forall_app_r in H. apply Forall_app_l in H. apply Forall_flat_map_in in H.
  rewrite !render_app, <- (nc_meta_items_render _ H). cbn [render ptxt tk sp1]. str_fin.
Qed.

Lemma nc_definition_render d : clean_toks (toks_definition d) -> nc_definition d = render (doc_definition d).
Proof.
  destruct d as [x|x|x]; cbn [toks_definition nc_definition doc_definition]; intro H;
    [apply nc_packet_def_render; exact H|apply nc_meta_def_render; exact H|apply nc_option_def_render].
Qed.

Lemma nc_definitions_render ds :
  Forall (fun d => clean_toks (toks_definition d)) ds -> nc_definitions ds = render (doc_definitions ds).
Proof.
  induction 1 as [|d r Hd Hr IH]; cbn [nc_definitions doc_definitions]; [reflexivity|].
  rewrite !render_app, <- (nc_definition_render d Hd), IH. destruct r; cbn [render ptxt]; rewrite ?append_nil_r; reflexivity.
Qed.

Theorem nc_packet_render t : clean_toks (toks_pt t) -> nc_packet t = render (doc_pt t).
Proof.
  unfold toks_pt, nc_packet, doc_pt. intro H. apply nc_definitions_render. apply Forall_flat_map_in. exact H.
Qed.

(* the final TrimSpace does nothing: the text begins with a keyword and ends with "}" *)
Lemma gstart_doc_definition d rest : gstart (render (doc_definition d ++ rest)) = true.
Proof.
  destruct d as [x|x|x]; cbn [doc_definition]; unfold doc_packet_def, doc_meta_def, doc_option_def;
    [destruct (pd_root x)| |]; reflexivity.
Qed.

Lemma gend_doc_definition d : gend (render (doc_definition d)) = true.
Proof.
  destruct d as [x|x|x]; cbn [doc_definition]; unfold doc_packet_def, doc_meta_def, doc_option_def;
    rewrite ?app_assoc; rewrite render_app; apply gend_app; reflexivity.
Qed.

Lemma gend_doc_definitions d r : gend (render (doc_definitions (d :: r))) = true.
Proof.
  revert d. induction r as [|d2 r IH]; intro d.
  - cbn [doc_definitions app]. rewrite app_nil_r. apply gend_doc_definition.
  - change (doc_definitions (d :: d2 :: r)) with (doc_definition d ++ [Sp (nl +++ nl)] ++ doc_definitions (d2 :: r)).
    rewrite 2!render_app. apply gend_app. apply gend_app. apply IH.
Qed.

(* the final TrimRight(.., "\n") does nothing: the text ends with "}" *)
Lemma trim_right_nl_gend s : gend s = true -> trim_right_nl s = s.
Proof.
  induction s as [|c r IH]; [discriminate|]. destruct r as [|c2 r2].
  - cbn [gend trim_right_nl]. intro H. unfold graphic in H. apply andb_true_iff in H. destruct H as [H1 _]. apply Nat.leb_le in H1.
    unfold is_nl. replace (Nat.eqb (nat_of_ascii c) 10) with false by (symmetry; apply Nat.eqb_neq; lia). reflexivity.
  - intro H. change (gend (String c (String c2 r2))) with (gend (String c2 r2)) in H.
    change (trim_right_nl (String c (String c2 r2)))
      with (match trim_right_nl (String c2 r2) with
            | EmptyString => if is_nl c then EmptyString else String c EmptyString
            | r' => String c r'
            end).
    rewrite (IH H). reflexivity.
Qed.

Theorem nc_pt_render t : clean_toks (toks_pt t) -> nc_pt t = render (doc_pt t).
Proof.
  intro H. unfold nc_pt. rewrite (nc_packet_render t H). unfold doc_pt. destruct (pk_defs t) as [|d r]; [reflexivity|].
  apply trim_right_nl_gend. apply gend_doc_definitions.
Qed.

(* ------------------------------------------------------------------ the printed terminals *)
Lemma srcs_app a b : srcs (a ++ b) = srcs a ++ srcs b.
Proof. unfold srcs. apply flat_map_app. Qed.

Lemma srcs_cons p r : srcs (p :: r) = match p with Tk _ k => [k] | Sp _ => [] end ++ srcs r.
Proof. reflexivity. Qed.

Lemma srcs_map_pmap f d : srcs (map (pmap f) d) = srcs d.
Proof. induction d as [|p r IH]; [reflexivity|]. cbn [map]. rewrite !srcs_cons, IH. destruct p; reflexivity. Qed.

Lemma srcs_indent4ln d : srcs (indent4ln d) = srcs d.
Proof.
  unfold indent4ln. change (Sp (spaces 4) :: ?x) with ([Sp (spaces 4)] ++ x). rewrite !srcs_app, srcs_map_pmap.
  cbn [srcs flat_map app]. rewrite app_nil_r. reflexivity.
Qed.

Lemma srcs_map_tk l : srcs (map tk l) = l.
Proof. induction l as [|k r IH]; [reflexivity|]. cbn [map]. unfold tk at 1. rewrite srcs_cons, IH. reflexivity. Qed.

Lemma srcs_doc_opt o : srcs (doc_opt o) = o2l o.
Proof. destruct o; reflexivity. Qed.
Lemma srcs_doc_kw o s : srcs (doc_kw o s) = o2l o.
Proof. destruct o; reflexivity. Qed.
Lemma srcs_doc_opt_type o : srcs (doc_opt_type o) = toks_opt_type o.
Proof. destruct o as [t|]; [|reflexivity]. cbn [doc_opt_type toks_opt_type]. rewrite srcs_app. unfold doc_type. rewrite srcs_map_tk. apply app_nil_r. Qed.

Lemma srcs_doc_field_attribute a : srcs (doc_field_attribute a) = toks_field_attribute a.
Proof.
  destruct a as [sp x|sp x|sp x|sp x]; try reflexivity.
  cbn [doc_field_attribute toks_field_attribute]. unfold doc_padding_attr, toks_padding_attr. rewrite !srcs_app, srcs_map_tk. reflexivity.
Qed.

Lemma srcs_doc_field_attributes l : srcs (doc_field_attributes l) = flat_map toks_field_attribute l.
Proof.
  induction l as [|a r IH]; [reflexivity|]. cbn [doc_field_attributes flat_map]. rewrite !srcs_app, IH, srcs_doc_field_attribute. reflexivity.
Qed.

Lemma srcs_doc_length_field_decl d : srcs (doc_length_field_decl d) = toks_length_field_decl d.
Proof.
  unfold doc_length_field_decl, toks_length_field_decl. rewrite !srcs_app, srcs_doc_opt_type, srcs_doc_opt. reflexivity.
Qed.
Lemma srcs_doc_checksum_field_decl d : srcs (doc_checksum_field_decl d) = toks_checksum_field_decl d.
Proof.
  unfold doc_checksum_field_decl, toks_checksum_field_decl. rewrite !srcs_app, srcs_doc_opt_type, srcs_doc_opt. reflexivity.
Qed.
Lemma srcs_doc_meta_decl d : srcs (doc_meta_decl d) = toks_meta_decl d.
Proof.
  unfold doc_meta_decl, toks_meta_decl, doc_type. rewrite !srcs_app, srcs_map_tk, srcs_doc_opt. reflexivity.
Qed.
Lemma srcs_doc_ref_meta_decl d : srcs (doc_ref_meta_decl d) = toks_ref_meta_decl d.
Proof. unfold doc_ref_meta_decl, toks_ref_meta_decl. rewrite !srcs_app, srcs_doc_opt. reflexivity. Qed.

Lemma srcs_short_rest r : srcs (doc_short_rest r) = flat_map toks_comma_item r.
Proof. induction r as [|[c i] r IH]; [reflexivity|]. cbn [doc_short_rest flat_map]. rewrite srcs_app, IH. reflexivity. Qed.

Lemma srcs_long_rest r : forall idx, srcs (doc_long_rest r idx) = flat_map toks_comma_item r.
Proof.
  induction r as [|[c i] r IH]; intro idx; [reflexivity|]. cbn [doc_long_rest flat_map]. rewrite !srcs_app, IH.
  destruct (negb (Nat.eqb (Nat.modulo idx 5) 0)); destruct (negb (Nat.eqb idx 0) && Nat.eqb (Nat.modulo idx 5) 0); reflexivity.
Qed.

Lemma key_items_nonempty l : key_list_ok l = true -> key_items l <> [].
Proof.
  unfold key_list_ok, key_items, list_items. intro H. apply andb_true_iff in H. destruct H as [H _].
  cbn [filter]. change (is_item (li_first l)) with (item_ok (li_first l)). rewrite H. discriminate.
Qed.

Lemma srcs_doc_key_list l : key_list_ok l = true -> srcs (doc_key_list l) = toks_key_list (canon_key_list l).
Proof.
  intro H. pose proof (key_items_nonempty l H) as Hne. unfold doc_key_list, canon_key_list.
  destruct (key_items l) as [|f its] eqn:E; [contradiction|]. unfold toks_key_list. cbn [li_open li_first li_rest li_close].
  destruct (Nat.leb (length (f :: its)) 5).
  - rewrite !srcs_app, srcs_short_rest. reflexivity.
  - rewrite !srcs_app, srcs_indent4ln. change (tk f :: ?x) with ([tk f] ++ x). rewrite srcs_app, srcs_long_rest. reflexivity.
Qed.

Lemma srcs_doc_match_pair p : key_ok (mp_key p) = true -> srcs (doc_match_pair p) = toks_match_pair (canon_match_pair p).
Proof.
  intro H. unfold doc_match_pair, toks_match_pair. rewrite srcs_indent4ln, srcs_app. cbn [canon_match_pair mp_key mp_colon mp_ident mp_comma o2l].
  destruct (mp_key p) as [t|t|l]; cbn [doc_match_key canon_match_key toks_match_key key_ok] in *; try reflexivity.
  rewrite (srcs_doc_key_list l H). reflexivity.
Qed.

Lemma srcs_doc_match_pairs ps :
  forallb (fun p => key_ok (mp_key p)) ps = true -> srcs (doc_match_pairs ps) = flat_map toks_match_pair (map canon_match_pair ps).
Proof.
  induction ps as [|p r IH]; cbn [forallb]; intro H; [reflexivity|]. apply andb_true_iff in H. destruct H as [Hp Hr].
  cbn [doc_match_pairs map flat_map]. rewrite srcs_app, (srcs_doc_match_pair p Hp), (IH Hr). reflexivity.
Qed.

Lemma ok_pairs_keys n ps : forallb (ok_match_pair n) ps = true -> forallb (fun p => key_ok (mp_key p)) ps = true.
Proof.
  induction ps as [|p r IH]; cbn [forallb]; intro H; [reflexivity|]. apply andb_true_iff in H. destruct H as [Hp Hr].
  unfold ok_match_pair in Hp. apply andb_true_iff in Hp. destruct Hp as [_ Hk]. rewrite Hk, (IH Hr). reflexivity.
Qed.

Lemma srcs_doc_match_field_decl n d :
  ok_match_decl n d = true -> srcs (doc_match_field_decl d) = toks_match_field_decl (canon_match_field_decl d).
Proof.
  unfold ok_match_decl. intro H. apply andb_true_iff in H. destruct H as [_ H]. unfold doc_match_field_decl, toks_match_field_decl. rewrite !srcs_app.
  rewrite (srcs_doc_match_pairs _ (ok_pairs_keys n _ H)). reflexivity.
Qed.

Lemma srcs_doc_field_def n f : ok_field_def n f = true -> srcs (doc_field_def f) = toks_field_def (canon_field_def f).
Proof.
  induction f as [sp rep sp' name open fields close comma IH|sp rep d|sp rep ft fn doc comma|sp d|sp d|sp d comma]
    using field_def_ind'; intro H; cbn [ok_field_def] in H; apply andb_true_iff in H; destruct H as [_ H].
  - apply andb_true_iff in H. destruct H as [_ H].
    assert (E : srcs (doc_field_defs fields) = flat_map toks_field_def (map canon_field_def fields)).
    { induction fields as [|x r IHr]; [reflexivity|]. cbn [forallb] in H. apply andb_true_iff in H. destruct H as [Hx Hr].
      inversion IH as [|y l Hy Hl]; subst. cbn [doc_field_defs map flat_map]. rewrite srcs_app, srcs_indent4ln, (Hy Hx), (IHr Hl Hr). reflexivity. }
    rewrite doc_field_def_iner. cbn [canon_field_def]. rewrite toks_field_def_iner. rewrite !srcs_app, srcs_doc_kw, E.
    rewrite !srcs_cons. cbn [srcs flat_map]. rewrite <- !app_assoc. reflexivity.
  - cbn [doc_field_def canon_field_def toks_field_def]. rewrite srcs_app, srcs_doc_kw, srcs_doc_meta_decl. reflexivity.
  - cbn [doc_field_def canon_field_def toks_field_def]. rewrite !srcs_app, srcs_doc_kw, !srcs_doc_opt. reflexivity.
  - apply srcs_doc_length_field_decl.
  - apply srcs_doc_checksum_field_decl.
  - cbn [doc_field_def canon_field_def toks_field_def]. rewrite srcs_app, (srcs_doc_match_field_decl n d H). reflexivity.
Qed.

Lemma srcs_doc_fields_with_attr n fs :
  forallb (ok_field_with_attr n) fs = true ->
  srcs (doc_fields_with_attr fs) = flat_map toks_field_with_attr (map canon_field_with_attr fs).
Proof.
  induction fs as [|f r IH]; cbn [forallb]; intro H; [reflexivity|]. apply andb_true_iff in H. destruct H as [Hf Hr].
  unfold ok_field_with_attr in Hf. apply andb_true_iff in Hf. destruct Hf as [_ Hf].
  cbn [doc_fields_with_attr map flat_map]. rewrite srcs_app, srcs_indent4ln, (IH Hr). f_equal.
  unfold doc_field_with_attr, toks_field_with_attr. cbn [canon_field_with_attr fw_attrs fw_def].
  rewrite srcs_app, srcs_doc_field_attributes, (srcs_doc_field_def n _ Hf). reflexivity.
Qed.

Lemma srcs_doc_option_decls ds : srcs (doc_option_decls ds) = flat_map toks_option_decl ds.
Proof.
  induction ds as [|d r IH]; [reflexivity|]. cbn [doc_option_decls flat_map]. rewrite srcs_app, srcs_indent4ln, IH. f_equal.
  unfold doc_option_decl, toks_option_decl, doc_value. rewrite !srcs_app, srcs_map_tk. destruct (od_semi d); reflexivity.
Qed.

Lemma srcs_doc_meta_items items : srcs (doc_meta_items items) = flat_map toks_meta_item items.
Proof.
  induction items as [|i r IH]; [reflexivity|]. cbn [doc_meta_items flat_map]. rewrite srcs_app, srcs_indent4ln, IH. f_equal.
  destruct i; [apply srcs_doc_meta_decl|apply srcs_doc_ref_meta_decl].
Qed.

Lemma srcs_doc_definition n d : ok_definition n d = true -> srcs (doc_definition d) = toks_definition (canon_definition d).
Proof.
  destruct d as [x|x|x]; cbn [ok_definition doc_definition canon_definition toks_definition]; intro H.
  - unfold ok_packet_def in H. apply andb_true_iff in H. destruct H as [_ H].
    unfold doc_packet_def, toks_packet_def. cbn [canon_packet_def pd_root pd_packet pd_name pd_open pd_fields pd_close].
    rewrite !srcs_app, srcs_doc_kw, (srcs_doc_fields_with_attr n _ H). reflexivity.
  - unfold doc_meta_def, toks_meta_def. rewrite !srcs_app, srcs_doc_meta_items. reflexivity.
  - unfold doc_option_def, toks_option_def. rewrite !srcs_app, srcs_doc_option_decls. reflexivity.
Qed.

Theorem srcs_doc_pt n t : ok_pt n t = true -> srcs (doc_pt t) = toks_pt (canon_pt t).
Proof.
  unfold ok_pt. intro H. apply andb_true_iff in H. destruct H as [_ H]. unfold doc_pt, toks_pt. cbn [canon_pt pk_defs].
  induction (pk_defs t) as [|d r IH]; [reflexivity|]. cbn [forallb] in H. apply andb_true_iff in H. destruct H as [Hd Hr].
  cbn [doc_definitions map flat_map]. rewrite !srcs_app, (srcs_doc_definition n d Hd), (IH Hr). destruct r; reflexivity.
Qed.

(* ------------------------------------------------------------------ the separators are white space *)
Definition seps_ok (d : list piece) : bool := forallb (fun p => match p with Sp s => ws_only s | Tk _ _ => true end) d.

Lemma seps_ok_cons p r : seps_ok (p :: r) = (match p with Sp s => ws_only s | Tk _ _ => true end) && seps_ok r.
Proof. reflexivity. Qed.

Lemma seps_ok_app a b : seps_ok (a ++ b) = seps_ok a && seps_ok b.
Proof. unfold seps_ok. apply forallb_app. Qed.

Lemma ws_only_app a b : ws_only (a +++ b) = ws_only a && ws_only b.
Proof. induction a as [|c r IH]; cbn [append ws_only]; [reflexivity|]. rewrite IH, andb_assoc. reflexivity. Qed.

Lemma ws_only_reindent s : ws_only s = true -> ws_only (reindent (spaces 4) s) = true.
Proof.
  induction s as [|c r IH]; cbn [ws_only reindent]; [reflexivity|]. intro H. apply andb_true_iff in H. destruct H as [Hc Hr].
  destruct (is_nl c); cbn [ws_only]; rewrite Hc; cbn [andb]; [rewrite ws_only_app, (IH Hr); reflexivity|exact (IH Hr)].
Qed.

Lemma seps_ok_indent4ln d : seps_ok d = true -> seps_ok (indent4ln d) = true.
Proof.
  intro H. unfold indent4ln. change (Sp (spaces 4) :: ?x) with ([Sp (spaces 4)] ++ x). rewrite !seps_ok_app.
  apply andb_true_iff. split; [reflexivity|]. apply andb_true_iff. split; [|reflexivity].
  induction d as [|p r IH]; [reflexivity|]. cbn [map]. rewrite seps_ok_cons in *. apply andb_true_iff in H. destruct H as [Hp Hr].
  rewrite (IH Hr), andb_true_r. destruct p as [s|s k]; cbn [pmap]; [apply ws_only_reindent; exact Hp|reflexivity].
Qed.

Lemma seps_ok_map_tk l : seps_ok (map tk l) = true.
Proof. induction l as [|k r IH]; [reflexivity|]. cbn [map]. rewrite seps_ok_cons, IH. reflexivity. Qed.

Ltac seps_tac :=
  repeat first
    [ reflexivity
    | rewrite seps_ok_app
    | apply andb_true_iff; split
    | apply seps_ok_indent4ln
    | apply seps_ok_map_tk ].

Lemma seps_ok_doc_opt o : seps_ok (doc_opt o) = true.
Proof. destruct o; reflexivity. Qed.
Lemma seps_ok_doc_kw o s : seps_ok (doc_kw o s) = true.
Proof. destruct o; reflexivity. Qed.
Lemma seps_ok_doc_opt_type o : seps_ok (doc_opt_type o) = true.
Proof. destruct o; cbn [doc_opt_type]; unfold doc_type; seps_tac. Qed.

Lemma seps_ok_doc_field_attributes l : seps_ok (doc_field_attributes l) = true.
Proof.
  induction l as [|a r IH]; [reflexivity|]. cbn [doc_field_attributes]. rewrite !seps_ok_app, IH, andb_true_r.
  destruct a as [sp x|sp x|sp x|sp x]; try reflexivity. cbn [doc_field_attribute]. unfold doc_padding_attr.
  rewrite !seps_ok_app, seps_ok_map_tk. reflexivity.
Qed.

Lemma seps_ok_doc_meta_decl d : seps_ok (doc_meta_decl d) = true.
Proof. unfold doc_meta_decl, doc_type. rewrite !seps_ok_app, seps_ok_map_tk, seps_ok_doc_opt. reflexivity. Qed.
Lemma seps_ok_doc_ref_meta_decl d : seps_ok (doc_ref_meta_decl d) = true.
Proof. unfold doc_ref_meta_decl. rewrite !seps_ok_app, seps_ok_doc_opt. reflexivity. Qed.
Lemma seps_ok_doc_length_field_decl d : seps_ok (doc_length_field_decl d) = true.
Proof. unfold doc_length_field_decl. rewrite !seps_ok_app, seps_ok_doc_opt_type, seps_ok_doc_opt. reflexivity. Qed.
Lemma seps_ok_doc_checksum_field_decl d : seps_ok (doc_checksum_field_decl d) = true.
Proof. unfold doc_checksum_field_decl. rewrite !seps_ok_app, seps_ok_doc_opt_type, seps_ok_doc_opt. reflexivity. Qed.

Lemma seps_ok_short_rest r : seps_ok (doc_short_rest r) = true.
Proof. induction r as [|[c i] r IH]; [reflexivity|]. cbn [doc_short_rest]. rewrite seps_ok_app, IH. reflexivity. Qed.
Lemma seps_ok_long_rest r : forall idx, seps_ok (doc_long_rest r idx) = true.
Proof.
  induction r as [|[c i] r IH]; intro idx; [reflexivity|]. cbn [doc_long_rest]. rewrite !seps_ok_app, IH.
  destruct (negb (Nat.eqb (Nat.modulo idx 5) 0)); destruct (negb (Nat.eqb idx 0) && Nat.eqb (Nat.modulo idx 5) 0); reflexivity.
Qed.

Lemma seps_ok_doc_key_list l : seps_ok (doc_key_list l) = true.
Proof.
  unfold doc_key_list. destruct (key_items l) as [|f its]; [reflexivity|]. destruct (Nat.leb (length (f :: its)) 5).
  - rewrite !seps_ok_app, seps_ok_short_rest. reflexivity.
  - rewrite !seps_ok_app. apply andb_true_iff. split; [reflexivity|]. apply andb_true_iff. split; [|reflexivity].
    apply seps_ok_indent4ln. change (tk f :: ?x) with ([tk f] ++ x). rewrite seps_ok_app, seps_ok_long_rest. reflexivity.
Qed.

Lemma seps_ok_doc_match_pairs ps : seps_ok (doc_match_pairs ps) = true.
Proof.
  induction ps as [|p r IH]; [reflexivity|]. cbn [doc_match_pairs]. rewrite seps_ok_app, IH, andb_true_r.
  unfold doc_match_pair. apply seps_ok_indent4ln. rewrite seps_ok_app. apply andb_true_iff. split; [|reflexivity].
  destruct (mp_key p); cbn [doc_match_key]; try reflexivity. apply seps_ok_doc_key_list.
Qed.

Lemma seps_ok_doc_field_def f : seps_ok (doc_field_def f) = true.
Proof.
  induction f as [sp rep sp' name open fields close comma IH|sp rep d|sp rep ft fn doc comma|sp d|sp d|sp d comma]
    using field_def_ind'.
  - rewrite doc_field_def_iner. rewrite !seps_ok_app, seps_ok_doc_kw. cbn [andb].
    apply andb_true_iff. split; [reflexivity|]. apply andb_true_iff. split; [|reflexivity].
    induction fields as [|x r IHr]; [reflexivity|]. inversion IH as [|y l Hy Hl]; subst.
    cbn [doc_field_defs]. rewrite seps_ok_app, (IHr Hl), andb_true_r. apply seps_ok_indent4ln. exact Hy.
  - cbn [doc_field_def]. rewrite seps_ok_app, seps_ok_doc_kw, seps_ok_doc_meta_decl. reflexivity.
  - cbn [doc_field_def]. rewrite !seps_ok_app, seps_ok_doc_kw, !seps_ok_doc_opt. reflexivity.
  - apply seps_ok_doc_length_field_decl.
  - apply seps_ok_doc_checksum_field_decl.
  - cbn [doc_field_def]. unfold doc_match_field_decl. rewrite !seps_ok_app, seps_ok_doc_match_pairs. reflexivity.
Qed.

Lemma seps_ok_doc_fields_with_attr fs : seps_ok (doc_fields_with_attr fs) = true.
Proof.
  induction fs as [|f r IH]; [reflexivity|]. cbn [doc_fields_with_attr]. rewrite seps_ok_app, IH, andb_true_r.
  apply seps_ok_indent4ln. unfold doc_field_with_attr. rewrite seps_ok_app, seps_ok_doc_field_attributes, seps_ok_doc_field_def. reflexivity.
Qed.

Lemma seps_ok_doc_option_decls ds : seps_ok (doc_option_decls ds) = true.
Proof.
  induction ds as [|d r IH]; [reflexivity|]. cbn [doc_option_decls]. rewrite seps_ok_app, IH, andb_true_r.
  apply seps_ok_indent4ln. unfold doc_option_decl, doc_value. rewrite !seps_ok_app, seps_ok_map_tk. destruct (od_semi d); reflexivity.
Qed.

Lemma seps_ok_doc_meta_items items : seps_ok (doc_meta_items items) = true.
Proof.
  induction items as [|i r IH]; [reflexivity|]. cbn [doc_meta_items]. rewrite seps_ok_app, IH, andb_true_r.
  apply seps_ok_indent4ln. destruct i; [apply seps_ok_doc_meta_decl|apply seps_ok_doc_ref_meta_decl].
Qed.

Lemma seps_ok_doc_definition d : seps_ok (doc_definition d) = true.
Proof.
  destruct d as [x|x|x]; cbn [doc_definition].
  - unfold doc_packet_def. rewrite !seps_ok_app, seps_ok_doc_kw, seps_ok_doc_fields_with_attr. reflexivity.
  - unfold doc_meta_def. rewrite !seps_ok_app, seps_ok_doc_meta_items. reflexivity.
  - unfold doc_option_def. rewrite !seps_ok_app, seps_ok_doc_option_decls. reflexivity.
Qed.

Theorem seps_doc_pt t : seps_ok (doc_pt t) = true.
Proof.
  unfold doc_pt. induction (pk_defs t) as [|d r IH]; [reflexivity|]. cbn [doc_definitions].
  rewrite !seps_ok_app, seps_ok_doc_definition, IH. destruct r; reflexivity.
Qed.

(* ------------------------------------------------------------------ the canonical tree formats to the same text *)
Lemma filter_filter_same {A : Type} (f : A -> bool) l : filter f (filter f l) = filter f l.
Proof. induction l as [|x r IH]; [reflexivity|]. cbn [filter]. destruct (f x) eqn:E; cbn [filter]; [rewrite E, IH|rewrite IH]; reflexivity. Qed.

Lemma list_items_canon l f its : key_items l = f :: its -> list_items (canon_key_list l) = key_items l.
Proof.
  intro E. unfold canon_key_list. rewrite E. unfold list_items. cbn [li_first li_rest]. unfold key_rest.
  rewrite map_snd_zip_commas, E. reflexivity.
Qed.

Lemma key_items_canon l : key_items (canon_key_list l) = key_items l.
Proof.
  destruct (key_items l) as [|f its] eqn:E; [unfold canon_key_list; rewrite E; exact E|].
  unfold key_items at 1. rewrite (list_items_canon l f its E). unfold key_items. rewrite filter_filter_same. exact E.
Qed.

(* on the trees of the parser the canonical key list is the key list itself *)
Lemma filter_all {A : Type} (f : A -> bool) l : forallb f l = true -> filter f l = l.
Proof.
  induction l as [|x r IH]; cbn [forallb filter]; intro H; [reflexivity|]. apply andb_true_iff in H. destruct H as [Hx Hr].
  rewrite Hx, (IH Hr). reflexivity.
Qed.

Lemma zip_commas_combine (r : list (ptok * ptok)) : zip_commas (map fst r) (map snd r) = r.
Proof. induction r as [|[c i] r IH]; [reflexivity|]. cbn [map fst snd zip_commas]. rewrite IH. reflexivity. Qed.

Lemma canon_key_list_ok l : key_list_ok l = true -> canon_key_list l = l.
Proof.
  unfold key_list_ok. intro H. apply andb_true_iff in H. destruct H as [Hf Hr].
  assert (E : key_items l = list_items l).
  { unfold key_items. apply filter_all. unfold list_items. cbn [forallb]. change (is_item (li_first l)) with (item_ok (li_first l)).
    rewrite Hf. cbn [andb]. rewrite forallb_forall. intros x Hx. apply in_map_iff in Hx. destruct Hx as [p [Ep Hp]]. subst x.
    rewrite forallb_forall in Hr. exact (Hr p Hp). }
  unfold canon_key_list, key_rest. rewrite E. unfold list_items. cbn [tl]. rewrite zip_commas_combine. destruct l; reflexivity.
Qed.

Lemma match_key_text_canon k : match_key_text (canon_match_key k) = match_key_text k.
Proof.
  destruct k as [t|t|l]; try reflexivity. cbn [canon_match_key match_key_text].
  rewrite key_items_canon. reflexivity.
Qed.

Lemma nc_match_pairs_canon ps : nc_match_pairs (map canon_match_pair ps) = nc_match_pairs ps.
Proof.
  induction ps as [|p r IH]; [reflexivity|]. cbn [map nc_match_pairs]. rewrite IH. f_equal.
  unfold nc_match_pair. cbn [canon_match_pair mp_key mp_ident]. rewrite match_key_text_canon. reflexivity.
Qed.

Lemma nc_field_def_canon f : nc_field_def (canon_field_def f) = nc_field_def f.
Proof.
  induction f as [sp rep sp' name open fields close comma IH|sp rep d|sp rep ft fn doc comma|sp d|sp d|sp d comma]
    using field_def_ind'; try reflexivity.
  - cbn [canon_field_def]. rewrite !nc_field_def_iner. f_equal. f_equal.
    induction fields as [|x r IHr]; [reflexivity|]. inversion IH as [|y l Hy Hl]; subst.
    cbn [map nc_field_defs]. rewrite Hy, (IHr Hl). reflexivity.
  - cbn [canon_field_def nc_field_def]. unfold nc_match_field_decl. cbn [canon_match_field_decl mf_key mf_name mf_pairs].
    rewrite nc_match_pairs_canon. reflexivity.
Qed.

Lemma nc_fields_with_attr_canon fs : nc_fields_with_attr (map canon_field_with_attr fs) = nc_fields_with_attr fs.
Proof.
  induction fs as [|f r IH]; [reflexivity|]. cbn [map nc_fields_with_attr]. rewrite IH. f_equal. f_equal.
  unfold nc_field_with_attr. cbn [canon_field_with_attr fw_attrs fw_def]. rewrite nc_field_def_canon. reflexivity.
Qed.

Lemma nc_definitions_canon ds : nc_definitions (map canon_definition ds) = nc_definitions ds.
Proof.
  induction ds as [|d r IH]; [reflexivity|]. cbn [map nc_definitions]. rewrite IH.
  assert (E : nc_definition (canon_definition d) = nc_definition d).
  { destruct d as [x|x|x]; try reflexivity. cbn [canon_definition nc_definition]. unfold nc_packet_def.
    cbn [canon_packet_def pd_root pd_name pd_fields]. rewrite nc_fields_with_attr_canon. reflexivity. }
  rewrite E. destruct r; reflexivity.
Qed.

Theorem nc_pt_canon t : nc_pt (canon_pt t) = nc_pt t.
Proof. unfold nc_pt, nc_packet. cbn [canon_pt pk_defs]. rewrite nc_definitions_canon. reflexivity. Qed.

(* ------------------------------------------------------------------ canon is idempotent *)
Lemma zip_commas_again cs items : zip_commas (map fst (zip_commas cs items)) items = zip_commas cs items.
Proof.
  revert cs. induction items as [|i r IH]; intro cs; [reflexivity|].
  destruct cs as [|c cs']; cbn [zip_commas map fst]; rewrite IH; reflexivity.
Qed.

Lemma canon_key_list_idem l : canon_key_list (canon_key_list l) = canon_key_list l.
Proof.
  destruct (key_items l) as [|f its] eqn:E.
  - unfold canon_key_list at 2. rewrite E. unfold canon_key_list. rewrite E. reflexivity.
  - unfold canon_key_list at 1. rewrite key_items_canon, E.
    unfold key_rest at 1. rewrite key_items_canon, E. cbn [tl].
    unfold canon_key_list. rewrite E. cbn [li_span li_open li_rest li_close]. unfold key_rest. rewrite E. cbn [tl].
    rewrite zip_commas_again. reflexivity.
Qed.

Lemma canon_match_pair_idem p : canon_match_pair (canon_match_pair p) = canon_match_pair p.
Proof.
  unfold canon_match_pair. cbn [mp_span mp_key mp_colon mp_ident mp_comma comma_of]. f_equal.
  destruct (mp_key p) as [t|t|l]; try reflexivity. cbn [canon_match_key]. rewrite canon_key_list_idem. reflexivity.
Qed.

Lemma canon_field_def_idem f : canon_field_def (canon_field_def f) = canon_field_def f.
Proof.
  induction f as [sp rep sp' name open fields close comma IH|sp rep d|sp rep ft fn doc comma|sp d|sp d|sp d comma]
    using field_def_ind'; try reflexivity.
  - cbn [canon_field_def]. f_equal. f_equal. rewrite map_map.
    induction fields as [|x r IHr]; [reflexivity|]. inversion IH as [|y l Hy Hl]; subst. cbn [map]. rewrite Hy, (IHr Hl). reflexivity.
  - cbn [canon_field_def]. f_equal. unfold canon_match_field_decl. cbn [mf_span mf_match mf_key mf_as mf_name mf_open mf_pairs mf_close].
    f_equal. rewrite map_map. apply map_ext. intro p. apply canon_match_pair_idem.
Qed.

Theorem canon_pt_idem t : canon_pt (canon_pt t) = canon_pt t.
Proof.
  unfold canon_pt. cbn [pk_start pk_stop pk_defs]. f_equal. rewrite map_map. apply map_ext. intro d.
  destruct d as [x|x|x]; try reflexivity. cbn [canon_definition]. f_equal. unfold canon_packet_def.
  cbn [pd_span pd_root pd_packet pd_name pd_open pd_fields pd_close]. f_equal. rewrite map_map. apply map_ext. intro f.
  unfold canon_field_with_attr. cbn [fw_span fw_attrs fw_def]. rewrite canon_field_def_idem. reflexivity.
Qed.
