(* Lemmas about fixed-width integers, padding and patches. *)
From FP Require Import Bytes.
From Coq Require Import Lia ZifyN ZifyNat ZifyBool.
Open Scope N_scope.
Open Scope list_scope.

Lemma enc_be_length w n : length (enc_be w n) = w.
Proof.
  revert n; induction w as [|w IH]; intros n; cbn [enc_be]; [reflexivity|].
  rewrite app_length, IH; cbn [length]; lia.
Qed.

Lemma enc_int_length w le n : length (enc_int w le n) = w.
Proof. unfold enc_int; destruct le; rewrite ?rev_length; apply enc_be_length. Qed.

Lemma dec_be_app acc l1 l2 : dec_be acc (l1 ++ l2) = dec_be (dec_be acc l1) l2.
Proof. revert acc; induction l1 as [|b r IH]; intros acc; cbn [dec_be app]; [reflexivity|apply IH]. Qed.

Lemma pow256_S w : pow256 (S w) = 256 * pow256 w.
Proof.
  unfold pow256. replace (8 * N.of_nat (S w)) with (8 + 8 * N.of_nat w) by lia.
  rewrite N.pow_add_r. reflexivity.
Qed.

Lemma pow256_pos w : 0 < pow256 w.
Proof. unfold pow256. apply N.neq_0_lt_0, N.pow_nonzero. lia. Qed.

Lemma dec_be_enc_be w n acc : dec_be acc (enc_be w n) = acc * pow256 w + n mod pow256 w.
Proof.
  revert n acc; induction w as [|w IH]; intros n acc.
  - cbn [enc_be dec_be]. unfold pow256. cbn. rewrite N.mod_1_r. lia.
  - cbn [enc_be]. rewrite dec_be_app, IH. cbn [dec_be]. rewrite pow256_S.
    pose proof (pow256_pos w) as Hp.
    assert (H256 : 256 <> 0) by lia.
    assert (Hpw : pow256 w <> 0) by lia.
    rewrite (N.mul_comm 256 (pow256 w)).
    rewrite (N.mod_mul_r n (pow256 w) 256) by assumption.
    (* n mod (pw*256) = n mod pw + pw * ((n/pw) mod 256) -- but we have (n/256) mod pw and n mod 256 *)
    (* use the other decomposition *)
    clear IH.
    rewrite <- (N.mod_mul_r n (pow256 w) 256) by assumption.
    rewrite (N.mul_comm (pow256 w) 256).
    rewrite (N.mod_mul_r n 256 (pow256 w)) by assumption.
    lia.
Qed.

Lemma firstn_len_app {A} (l r : list A) : firstn (length l) (l ++ r) = l.
Proof. induction l as [|x l IH]; cbn; [reflexivity|f_equal; exact IH]. Qed.

Lemma skipn_len_app {A} (l r : list A) : skipn (length l) (l ++ r) = r.
Proof. induction l as [|x l IH]; cbn; [reflexivity|exact IH]. Qed.

Lemma dec_int_enc_int w le n r : dec_int w le (enc_int w le n ++ r) = Some (n mod pow256 w, r).
Proof.
  unfold dec_int.
  rewrite app_length, enc_int_length.
  destruct (Nat.ltb_spec (w + length r) w) as [H|H]; [lia|].
  pose proof (enc_int_length w le n) as Hl.
  replace (firstn w (enc_int w le n ++ r)) with (firstn (length (enc_int w le n)) (enc_int w le n ++ r))
    by (rewrite Hl; reflexivity).
  replace (skipn w (enc_int w le n ++ r)) with (skipn (length (enc_int w le n)) (enc_int w le n ++ r))
    by (rewrite Hl; reflexivity).
  rewrite firstn_len_app, skipn_len_app.
  f_equal. f_equal.
  unfold enc_int. destruct le; rewrite ?rev_involutive, dec_be_enc_be; lia.
Qed.

Lemma enc_be_zero w : enc_be w 0 = repeat_byte 0 w.
Proof.
  induction w as [|w IH]; [reflexivity|].
  cbn [enc_be]. rewrite N.div_0_l, IH by lia. rewrite N.mod_0_l by lia.
  clear IH. induction w as [|w IH]; [reflexivity|]. cbn [repeat_byte app]. f_equal. exact IH.
Qed.

Lemma rev_repeat_byte b k : rev (repeat_byte b k) = repeat_byte b k.
Proof.
  induction k as [|k IH]; [reflexivity|]. cbn [repeat_byte rev]. rewrite IH.
  clear IH. induction k as [|k IH]; [reflexivity|]. cbn [repeat_byte app]. f_equal. exact IH.
Qed.

(* the byte order of a zero is immaterial (Java writes the empty prefix big-endian) *)
Lemma enc_int_zero_order w le le' : enc_int w le 0 = enc_int w le' 0.
Proof. unfold enc_int; destruct le, le'; rewrite ?enc_be_zero, ?rev_repeat_byte; reflexivity. Qed.

(* nor is it for at most one byte *)
Lemma enc_int_small_order w le le' n : (w <= 1)%nat -> enc_int w le n = enc_int w le' n.
Proof.
  intros H. destruct w as [|[|w]]; [| |lia]; unfold enc_int; destruct le, le'; reflexivity.
Qed.

Lemma repeat_byte_length b k : length (repeat_byte b k) = k.
Proof. induction k as [|k IH]; cbn [repeat_byte length]; [reflexivity|f_equal; exact IH]. Qed.

Lemma pad_to_length n c lft s : (length s <= n)%nat -> length (pad_to n c lft s) = n.
Proof. intros H; unfold pad_to; destruct lft; rewrite app_length, repeat_byte_length; lia. Qed.

Lemma patch_at_length buf pos new :
  (pos + length new <= length buf)%nat -> length (patch_at buf pos new) = length buf.
Proof.
  intros H. unfold patch_at. rewrite !app_length, firstn_length, skipn_length. lia.
Qed.

Lemma drop_while_eq_fill c k s :
  (match s with [] => True | b :: _ => b <> c end) -> drop_while_eq c (repeat_byte c k ++ s) = s.
Proof.
  intros H. induction k as [|k IH]; cbn [repeat_byte app].
  - destruct s as [|b r]; [reflexivity|]. cbn [drop_while_eq]. destruct (N.eqb_spec b c); [contradiction|reflexivity].
  - cbn [drop_while_eq]. rewrite N.eqb_refl. exact IH.
Qed.

(* trimming the padding gives the string back when it neither begins (left padding) nor
   ends (right padding) with the pad character *)
Lemma trim_pad_pad_to (n : nat) (c : byte) (lft : bool) (s : list byte) :
  (length s <= n)%nat ->
  (if lft : bool then match s with [] => True | b :: _ => b <> c end
   else match rev s with [] => True | b :: _ => b <> c end) ->
  trim_pad c lft (pad_to n c lft s) = s.
Proof.
  intros Hl H. unfold trim_pad, pad_to. destruct lft.
  - apply drop_while_eq_fill; exact H.
  - rewrite rev_app_distr, rev_repeat_byte, drop_while_eq_fill by exact H. apply rev_involutive.
Qed.

(* only the [w] low-order bytes of the number matter *)
Lemma enc_be_mod w cw n : (w <= cw)%nat -> enc_be w (n mod pow256 cw) = enc_be w n.
Proof.
  revert cw n. induction w as [|w IH]; intros cw n H; [reflexivity|].
  destruct cw as [|cw]; [lia|]. cbn [enc_be].
  rewrite pow256_S.
  pose proof (pow256_pos cw) as Hp.
  assert (H256 : 256 <> 0) by lia. assert (Hpc : pow256 cw <> 0) by lia.
  rewrite (N.mod_mul_r n 256 (pow256 cw)) by assumption.
  f_equal.
  - replace ((n mod 256 + 256 * ((n / 256) mod pow256 cw)) / 256) with ((n / 256) mod pow256 cw).
    + apply IH. lia.
    + rewrite (N.mul_comm 256), N.div_add by assumption. rewrite (N.div_small (n mod 256) 256); [lia|].
      apply N.mod_lt. assumption.
  - f_equal. rewrite (N.mul_comm 256), N.mod_add by assumption. apply N.mod_mod. assumption.
Qed.

Lemma enc_int_mod w cw le n : (w <= cw)%nat -> enc_int w le (n mod pow256 cw) = enc_int w le n.
Proof. intros H. unfold enc_int. rewrite (enc_be_mod w cw n H). reflexivity. Qed.
