(* The object-returning encoder of Tests/SelfTest.v against the IR semantics of IR/Sem.v:
   with an empty store table (Rust: encode takes &self, C++: encode is const) it writes
   exactly the bytes of [sem_enc] and returns the message unchanged, so that for those
   languages [selftest] is "sem_enc, sem_dec, compare".  (With store-backs the statement is
   false in general - a later step could read a member an earlier step assigned - which is
   why [selftest] re-checks the bytes against [sem_enc] on every evaluation: TInternal.) *)
From FP Require Import SelfTest.
Open Scope list_scope.

Definition lift {A B} (o : option A) (v : B) : option (A * B) :=
  match o with Some b => Some (b, v) | None => None end.

Lemma set_nth_same {A} (l : list A) i x : nth_error l i = Some x -> set_nth l i x = l.
Proof.
  revert i. induction l as [|y r IH]; intros i H; destruct i as [|i]; cbn in H |- *; try discriminate.
  - inversion H. reflexivity.
  - rewrite (IH i H). reflexivity.
Qed.

Section NoStores.
  Variable cs : string -> option (list byte -> N).
  Variable rec : string -> value -> list byte -> option (list byte).
  Variable recm : string -> value -> list byte -> option (list byte * value).
  Hypothesis Hrec : forall n v b, recm n v b = lift (rec n v b) v.

  Lemma encm_list_lift f g l : forall buf acc,
    (forall v b, f v b = lift (g v b) v) ->
    encm_list f l buf acc = lift (enc_list g l buf) (rev acc ++ l).
  Proof.
    induction l as [|x r IH]; intros buf acc H; cbn [encm_list enc_list lift].
    - rewrite app_nil_r. reflexivity.
    - rewrite H. destruct (g x buf) as [b|]; cbn [lift]; [|reflexivity].
      rewrite (IH b (x :: acc) H). cbn [rev]. rewrite <- app_assoc. reflexivity.
  Qed.

  Lemma encm_elem_lift s : forall v buf, encm_elem recm s v buf = lift (enc_elem rec s v buf) v.
  Proof.
    induction s as [w le|n p|pw ple ele|pw ple ele e IHe|ty| |m w le|e IHe sid|m sid w le cw sl|alg w le|why];
      intros v buf.
    - destruct v; reflexivity.
    - destruct v; reflexivity.
    - destruct v; reflexivity.
    - destruct v as [| |l| |]; try reflexivity. cbn [encm_elem enc_elem].
      rewrite (encm_list_lift (encm_elem recm e) (enc_elem rec e) l _ [] IHe). cbn [rev app].
      destruct (enc_list (enc_elem rec e) l _); reflexivity.
    - destruct v; cbn [encm_elem enc_elem]; apply Hrec.
    - destruct v as [| | | |q pv]; try reflexivity. cbn [encm_elem enc_elem]. rewrite Hrec.
      destruct (rec q pv buf); reflexivity.
    - destruct v; reflexivity.
    - destruct v; reflexivity.
    - destruct v; reflexivity.
    - destruct v; reflexivity.
    - destruct v; reflexivity.
  Qed.

  Lemma encm_step_lift i s v vs st :
    nth_error vs i = Some v ->
    encm_step cs recm [] i s v vs st = lift (enc_step cs rec s v st) vs.
  Proof.
    intros Hn. destruct s as [w le|n p|pw ple ele|pw ple ele e|ty| |m w le|e sid|m sid w le cw sl|alg w le|why];
      unfold encm_step; cbn [enc_step].
    - rewrite encm_elem_lift. cbn [enc_elem]. destruct v; cbn [lift]; try reflexivity. rewrite (set_nth_same _ _ _ Hn). reflexivity.
    - rewrite encm_elem_lift. destruct (enc_elem rec (EFixed n p) v (st_buf st)); cbn [lift]; [rewrite (set_nth_same _ _ _ Hn)|]; reflexivity.
    - rewrite encm_elem_lift. destruct (enc_elem rec (EStr pw ple ele) v (st_buf st)); cbn [lift]; [rewrite (set_nth_same _ _ _ Hn)|]; reflexivity.
    - rewrite encm_elem_lift. destruct (enc_elem rec (EList pw ple ele e) v (st_buf st)); cbn [lift]; [rewrite (set_nth_same _ _ _ Hn)|]; reflexivity.
    - rewrite encm_elem_lift. destruct (enc_elem rec (EObj ty) v (st_buf st)); cbn [lift]; [rewrite (set_nth_same _ _ _ Hn)|]; reflexivity.
    - rewrite encm_elem_lift. destruct (enc_elem rec EDyn v (st_buf st)); cbn [lift]; [rewrite (set_nth_same _ _ _ Hn)|]; reflexivity.
    - reflexivity.
    - rewrite encm_elem_lift. destruct (enc_elem rec e v (st_buf st)); cbn [lift]; [rewrite (set_nth_same _ _ _ Hn)|]; reflexivity.
    - destruct (lookup_mark (st_marks st) m); [|reflexivity].
      destruct (lookup_mark (st_spans st) sid); [|reflexivity].
      destruct (match sl with Some k => Nat.leb w k | None => true end); reflexivity.
    - destruct v; cbn [lift]; try reflexivity.
      destruct (cs (unquote alg)); reflexivity.
    - reflexivity.
  Qed.

  Lemma encm_steps_lift steps : forall vs st,
    encm_steps cs recm [] steps vs st = lift (enc_steps cs rec steps vs st) vs.
  Proof.
    induction steps as [|[i s] r IH]; intros vs st; cbn [encm_steps enc_steps]; [reflexivity|].
    destruct (nth_error vs i) as [v|] eqn:Hn; [|reflexivity].
    rewrite (encm_step_lift i s v vs st Hn).
    destruct (enc_step cs rec s v st) as [st'|]; cbn [lift]; [apply IH|reflexivity].
  Qed.

  Lemma encm_packet_body_lift ir v buf :
    encm_packet_body cs recm [] ir v buf = lift (enc_packet_body cs rec ir v buf) v.
  Proof.
    unfold encm_packet_body, enc_packet_body. destruct v as [| | |vs|]; try reflexivity.
    destruct (Nat.eqb (length vs) (ir_members ir)); [|reflexivity].
    rewrite encm_steps_lift. destruct (enc_steps cs rec (ir_enc ir) vs _); reflexivity.
  Qed.
End NoStores.

(* Rust / C++: no store-backs *)
Theorem enc_mut_nostores cs P fuel : forall name v buf,
  enc_mut cs P [] fuel name v buf = lift (sem_enc cs P fuel name v buf) v.
Proof.
  induction fuel as [|fuel IH]; intros name v buf; cbn [enc_mut sem_enc]; [reflexivity|].
  destruct (find_ir P name) as [ir|]; [|reflexivity].
  change (stores_of [] name) with (@nil store).
  apply encm_packet_body_lift. exact IH.
Qed.

(* hence the test of a language without store-backs and without post-copies passes exactly when
   the decoder returns, for the encoder's own bytes, a message equal under the test's equality *)
Corollary selftest_nostores reg M P eqs path p v b :
  packet_at M path = Some p ->
  sem_enc (cs_test reg) P fuel0 path v [] = Some b ->
  selftest reg M P [] eqs [] path v =
    match sem_dec P fuel0 path b with
    | DOk (v2, _) => if teq M eqs fuel0 path p (copy_members [] v v2) v2 then TPass else TNotEqual
    | _ => TDecodeFails
    end.
Proof.
  intros Hp He. unfold selftest. rewrite Hp, enc_mut_nostores, He. cbn [lift].
  assert (Hl : list_eqb b b = true).
  { clear. induction b as [|x r IH]; cbn [list_eqb]; [reflexivity|]. rewrite N.eqb_refl, IH. reflexivity. }
  rewrite Hl. reflexivity.
Qed.

Print Assumptions selftest_nostores.
