(* Python: on the fragment py_frag_enc / py_frag_dec (Gen/Frag.v) the generator model's
   output is accepted by the validator - for ALL models. *)
From FP Require Import Validate Frag BytesLemmas Paths RefEnc RefDec Validated FragCommon.
From Coq Require Import Lia.
Open Scope nat_scope.
Open Scope list_scope.

Ltac cond1 H := apply conds_ok_cons in H; destruct H as [H _].
Ltac cond2 H H1 := apply conds_ok_cons in H; destruct H as [H1 H].

Lemma py_ty_numeric M x w : ty_width x = Some w -> py_ty M x = Some (w, andb (le_of M) (negb (Nat.eqb w 1))).
Proof. intros H. unfold py_ty. rewrite H. reflexivity. Qed.

Lemma py_scalar_basic M n t la rp w : ty_width (get_basic_type t) = Some w ->
  py_scalar M (mkField n (ABasic t) la rp) = Some (w, andb (le_of M) (negb (Nat.eqb w 1))).
Proof. intros H. unfold py_scalar. rewrite (fgt_basic _ _ _ _ _ H). apply py_ty_numeric. exact H. Qed.
Lemma py_scalar_len M n tg t la rp w : ty_width (get_basic_type t) = Some w ->
  py_scalar M (mkField n (ALen tg t) la rp) = Some (w, andb (le_of M) (negb (Nat.eqb w 1))).
Proof. intros H. unfold py_scalar. rewrite (fgt_len _ _ _ _ _ _ H). apply py_ty_numeric. exact H. Qed.
Lemma py_scalar_check M n alg t la rp w : ty_width (get_basic_type t) = Some w ->
  py_scalar M (mkField n (ACheck alg t) la rp) = Some (w, andb (le_of M) (negb (Nat.eqb w 1))).
Proof. intros H. unfold py_scalar. rewrite (fgt_check _ _ _ _ _ _ H). apply py_ty_numeric. exact H. Qed.

(* in the fragment every field has a member line *)
Lemma py_has_member_ok M path p j f : conds_ok (py_common_conds M path p j f) = true -> py_has_member M f = true.
Proof.
  unfold py_common_conds. intros H. apply conds_ok_cons in H. destruct H as [_ H].
  destruct f as [fn a la rp]. unfold py_has_member. cbn [f_rep f_attr] in *.
  destruct rp; [reflexivity|].
  destruct a as [t|len fp| |tg lt|alg t|iner pn rf inl|k ka pairs|]; try reflexivity.
  - cond1 H. apply numeric_inv in H. destruct H as [w Hw]. rewrite (py_scalar_basic _ _ _ _ _ _ Hw). reflexivity.
  - cond1 H. apply numeric_inv in H. destruct H as [w Hw]. rewrite (py_scalar_len _ _ _ _ _ _ _ Hw). reflexivity.
  - cond1 H. apply numeric_inv in H. destruct H as [w Hw]. rewrite (py_scalar_check _ _ _ _ _ _ _ Hw). reflexivity.
Qed.

Lemma filter_all {A} (f : A -> bool) l : (forall x, In x l -> f x = true) -> filter f l = l.
Proof.
  induction l as [|x l IH]; intros H; cbn [filter]; [reflexivity|].
  rewrite (H x (or_introl eq_refl)), IH; [reflexivity|]. intros y Hy. apply H. right. exact Hy.
Qed.

Lemma in_number {A} (l : list A) x : In x l -> forall k, exists i, In (i, x) (FP.Common.number k l).
Proof.
  induction l as [|y l IH]; intros Hin k; [destruct Hin|]. cbn [FP.Common.number].
  destruct Hin as [E|Hin]; [subst; exists k; left; reflexivity|].
  destruct (IH Hin (S k)) as [i Hi]. exists i. right. exact Hi.
Qed.

Lemma py_members_all M path p (c : string -> packet -> nat -> field -> conds) :
  (forall j f, conds_ok (c path p j f) = true -> conds_ok (py_common_conds M path p j f) = true) ->
  conds_ok (fields_conds c path p) = true -> py_members M p = p_fields p.
Proof.
  intros Hc H. unfold py_members. apply filter_all. intros f Hin.
  destruct (in_number _ _ Hin 0) as [j Hj].
  apply (py_has_member_ok M path p j). apply Hc. exact (fields_conds_in _ _ _ _ _ H Hj).
Qed.

Lemma py_method_ty M t : fst (py_method (py_ty M t)) = opt_w (ty_width t) /\
  order_eqb (opt_w (ty_width t)) (snd (py_method (py_ty M t))) (le_of M) = true.
Proof.
  unfold py_ty. destruct (ty_width t) as [w|]; cbn [py_method fst snd opt_w]; split; try reflexivity.
  - apply order_eqb_1.
  - unfold order_eqb. apply orb_true_r.
Qed.

Lemma py_len_method M p w : lenf_w p = Some w ->
  py_method (match len_field p with Some lf => py_scalar M lf | None => None end) = (w, andb (le_of M) (negb (Nat.eqb w 1))).
Proof.
  unfold lenf_w, width_of_field, py_scalar. destruct (len_field p) as [lf|]; [|discriminate].
  destruct (field_get_type lf) as [t|]; [|discriminate]. intros H. rewrite (py_ty_numeric _ _ _ H). reflexivity.
Qed.

Section PyPacket.
  Variable M : bmodel.
  Variable mk : string -> packet -> nat.
  Variable path : string.
  Variable p : packet.
  Hypothesis Hmk : mk path p = py_pkt_mark M p.
  Let n := length (p_fields p).

  Ltac py_plain rp Hc H Hsn Hj :=
      destruct rp;
      [ (* repeated *)
        let Hlw := fresh "Hlw" in let Hlo := fresh "Hlo" in let lw := fresh "lw" in let lle := fresh "lle" in
        destruct (py_method_ty M (c_list (m_cfg M))) as [Hlw Hlo];
        destruct (py_method (py_ty M (c_list (m_cfg M)))) as [lw lle]; cbn [fst snd] in Hlw, Hlo; subst lw;
        unfold cfg_list_w, py_enc_elem, ref_elem; cbn [f_attr];
        match goal with
        | |- context [match ?a with ABasic _ => _ | _ => _ end] =>
          destruct a as [t|len fp| |tg lt|alg t|iner pn rf inl|k ka pairs|]; try (cond1 Hc; discriminate Hc)
        end;
        [ let w := fresh "w" in let Hw := fresh "Hw" in
          cond1 Hc; apply numeric_inv in Hc; destruct Hc as [w Hw];
          rewrite (py_scalar_basic _ _ _ _ _ _ Hw), (scalar_width_numeric _ _ Hw); cbn [opt_w];
          apply se_elem; [reflexivity|]; apply eqv_list_o; [exact Hlo|]; apply eqv_int_o; apply order_eqb_1
        | cond1 Hc; apply se_elem; [reflexivity|]; apply eqv_list_o; [exact Hlo|]; apply eqv_fixed;
          apply pad_ok_eqb; [exact norm_go_good|exact Hc]
        | apply se_elem; [reflexivity|]; apply eqv_list_o; [exact Hlo|]; apply eqv_str
        | cond1 Hc; unfold obj_ok, ref_obj_path in *;
          destruct (obj_path path _) as [ty|]; [|discriminate];
          apply se_elem; [reflexivity|]; apply eqv_list_o; [exact Hlo|]; apply eqv_obj ]
      | (* single *)
        unfold py_enc_elem, ref_elem; cbn [f_attr];
        match goal with
        | |- context [match ?a with ABasic _ => _ | _ => _ end] =>
          destruct a as [t|len fp| |tg lt|alg t|iner pn rf inl|k ka pairs|]; try (cond1 Hc; discriminate Hc)
        end;
        [ let w := fresh "w" in let Hw := fresh "Hw" in
          cond1 Hc; apply numeric_inv in Hc; destruct Hc as [w Hw];
          rewrite (py_scalar_basic _ _ _ _ _ _ Hw), (scalar_width_numeric _ _ Hw); cbn [opt_w];
          apply se_elem; [reflexivity|]; apply eqv_int_o; apply order_eqb_1
        | cond1 Hc; apply se_elem; [reflexivity|]; apply eqv_fixed; apply pad_ok_eqb; [exact norm_go_good|exact Hc]
        | apply se_elem; [reflexivity|]; apply eqv_str
        | let w := fresh "w" in let Hw := fresh "Hw" in
          cond1 Hc; apply numeric_inv in Hc; destruct Hc as [w Hw];
          rewrite (py_scalar_len _ _ _ _ _ _ _ Hw), Hw; cbn [py_method opt_w];
          cond1 H; apply Nat.eqb_eq in H; rewrite Hmk, <- H, Hsn;
          apply se_mark; [exact Hj|exact Hj|apply order_eqb_1]
        | let w := fresh "w" in let Hw := fresh "Hw" in
          cond1 Hc; apply numeric_inv in Hc; destruct Hc as [w Hw];
          rewrite (py_scalar_check _ _ _ _ _ _ _ Hw), Hw; cbn [opt_w];
          apply se_check; apply order_eqb_1
        | cond1 Hc; unfold obj_ok, ref_obj_path in *;
          destruct (obj_path path _) as [ty|]; [|discriminate];
          apply se_elem; [reflexivity|]; apply eqv_obj
        | apply se_elem; reflexivity ] ].

  Lemma py_enc_field_ok j f :
    j < n -> conds_ok (py_enc_conds M path p j f) = true ->
    steps_ok n (py_enc_step M path p j f) (ref_enc_field M mk path p j f) = true.
  Proof.
    intros Hj H. unfold py_enc_conds in H. apply conds_ok_app in H. destruct H as [Hc H].
    unfold py_common_conds in Hc. cond2 Hc Hsn. apply Nat.eqb_eq in Hsn.
    destruct f as [fn a la rp].
    unfold py_enc_step, ref_enc_field. cbv zeta. rewrite Hsn. cbn [f_rep f_attr f_len f_name] in *.
    destruct la.
    - py_plain rp Hc H Hsn Hj.
    - cond2 H H1. cond2 H H2. cond2 H H3. cond2 H H4. cond1 H.
      destruct rp; [cbn in H1; discriminate H1|]. clear H1.
      unfold len_w_agree, ref_len_w in *.
      destruct (len_width p) as [w'|]; [|discriminate].
      destruct (lenf_w p) as [w|] eqn:Ew; [|discriminate]. apply Nat.eqb_eq in H4. subst w'. cbn [opt_w].
      fold (len_field p). rewrite (py_len_method M p w Ew).
      destruct (len_field_index p) as [li|]; [|discriminate]. rewrite H3.
      destruct (p_lenf p) as [ln|]; [|discriminate]. apply Nat.eqb_eq in H. rewrite Hmk, <- H.
      assert (Hcw : orb (Nat.eqb w w) (andb (Nat.leb w w) (Nat.leb w w)) = true) by (rewrite Nat.eqb_refl; reflexivity).
      unfold ref_elem. cbn [f_attr].
      destruct a as [t|len fp| |tg lt|alg t|iner pn rf inl|k ka pairs|]; try discriminate H2.
      + cond1 Hc. unfold obj_ok, ref_obj_path in *. destruct (obj_path path _) as [ty|]; [|discriminate].
        apply se_target; [exact Hj|exact Hj|apply eqv_obj|apply order_eqb_1|exact Hcw|reflexivity].
      + apply se_target; [exact Hj|exact Hj|reflexivity|apply order_eqb_1|exact Hcw|reflexivity].
    - py_plain rp Hc H Hsn Hj.
  Qed.
End PyPacket.

Lemma py_first_mark M path p j f r :
  first_mark (py_enc_step M path p j f ++ r) = match py_field_mark M p f with Some m => m | None => first_mark r end.
Proof.
  destruct f as [fn a la rp]. unfold py_enc_step, py_field_mark. cbv zeta. cbn [f_rep f_attr f_len f_name].
  destruct la.
  2: { destruct (py_method _) as [w le]. reflexivity. }
  all: destruct a as [t|len fp| |tg lt|alg t|iner pn rf inl|k ka pairs|];
    try (destruct (py_method _) as [w le]; reflexivity);
    try (destruct (py_scalar M _) as [[w le]|]; reflexivity);
    (destruct rp; [destruct (py_method _) as [w le]; reflexivity|]);
    unfold py_enc_elem; cbn [f_attr app first_mark];
    try reflexivity;
    try (destruct (py_scalar M _) as [[w le]|]; reflexivity);
    try (destruct (obj_path path _); reflexivity).
Qed.

Lemma py_dec_field_ok M path p j f :
  conds_ok (py_dec_conds M path p j f) = true ->
  dsteps_ok [py_dec_step M path p f] (ref_dec_field M path p j f) = true.
Proof.
  intros H. unfold py_dec_conds in H. apply conds_ok_app in H. destruct H as [Hc H].
  unfold py_common_conds in Hc. cond2 Hc Hsn. apply Nat.eqb_eq in Hsn.
  destruct f as [fn a la rp].
  unfold py_dec_step, ref_dec_field. cbv zeta. rewrite Hsn. cbn [f_rep f_attr f_len f_name] in *.
  unfold py_dec_elem, ref_delem. cbn [f_attr].
  destruct rp.
  - destruct a as [t|len fp| |tg lt|alg t|iner pn rf inl|k ka pairs|]; try (cond1 Hc; discriminate Hc).
    + cond1 Hc. apply numeric_inv in Hc. destruct Hc as [w Hw].
      rewrite (py_scalar_basic _ _ _ _ _ _ Hw), (scalar_width_numeric _ _ Hw). cbn [opt_w].
      apply dse. apply deqv_list. apply deqv_int_o. apply order_eqb_1.
    + cond1 Hc. apply dse. apply deqv_list. apply deqv_fixed. apply pad_ok_eqb; [exact norm_go_good|exact Hc].
    + apply dse. apply deqv_list. apply deqv_str.
    + cond1 Hc. unfold obj_ok, ref_obj_path in *. destruct (obj_path path _) as [ty|]; [|discriminate].
      apply dse. apply deqv_list. apply deqv_obj.
  - destruct a as [t|len fp| |tg lt|alg t|iner pn rf inl|[k|] ka pairs|]; try (cond1 Hc; discriminate Hc);
      try (cond1 H; discriminate H).
    + cond1 Hc. apply numeric_inv in Hc. destruct Hc as [w Hw].
      rewrite (py_scalar_basic _ _ _ _ _ _ Hw), (scalar_width_numeric _ _ Hw). cbn [opt_w].
      apply dse. apply deqv_int_o. apply order_eqb_1.
    + cond1 Hc. apply dse. apply deqv_fixed. apply pad_ok_eqb; [exact norm_go_good|exact Hc].
    + apply dse. apply deqv_str.
    + cond1 Hc. apply numeric_inv in Hc. destruct Hc as [w Hw].
      rewrite (py_scalar_len _ _ _ _ _ _ _ Hw), Hw. cbn [opt_w].
      apply dse. apply deqv_int_o. apply order_eqb_1.
    + cond1 Hc. apply numeric_inv in Hc. destruct Hc as [w Hw].
      rewrite (py_scalar_check _ _ _ _ _ _ _ Hw), Hw. cbn [opt_w].
      apply dse. apply deqv_int_o. apply order_eqb_1.
    + cond1 Hc. unfold obj_ok, ref_obj_path in *. destruct (obj_path path _) as [ty|]; [|discriminate].
      apply dse. apply deqv_obj.
    + cond2 H H1. cond2 H H2. cond1 H.
      destruct (index_where (String.eqb k) (p_fields p) 0) as [ki|]; [|discriminate].
      apply Nat.eqb_eq in H1. rewrite H1. apply tbl_eqb_eq in H2. rewrite H2. unfold pairs_tbl in *.
      apply dse. apply deqv_dispatch. rewrite H. apply orb_true_r.
Qed.

Lemma map_number {A B} (f : A -> B) l : forall k, map f l = map (fun x => f (snd x)) (FP.Common.number k l).
Proof. induction l as [|x l IH]; intros k; cbn [map FP.Common.number snd]; [reflexivity|]. rewrite (IH (S k)). reflexivity. Qed.

Lemma py_enc_common M path p j f : conds_ok (py_enc_conds M path p j f) = true -> conds_ok (py_common_conds M path p j f) = true.
Proof. unfold py_enc_conds. intros H. apply conds_ok_app in H. exact (proj1 H). Qed.
Lemma py_dec_common M path p j f : conds_ok (py_dec_conds M path p j f) = true -> conds_ok (py_common_conds M path p j f) = true.
Proof. unfold py_dec_conds. intros H. apply conds_ok_app in H. exact (proj1 H). Qed.

Lemma py_packet_enc M mk path p :
  mk path p = first_mark (ir_enc (py_ir M path p)) ->
  conds_ok (fields_conds (py_enc_conds M) path p) = true ->
  ir_members (py_ir M path p) = length (p_fields p) /\
  steps_ok (length (p_fields p)) (ir_enc (py_ir M path p)) (ir_enc (ref_ir M mk path p)) = true.
Proof.
  intros Hmk H. split.
  { unfold py_ir. cbn [ir_members]. rewrite (py_members_all M path p _ (py_enc_common M path p) H). reflexivity. }
  unfold py_ir, ref_ir in *. cbn [ir_enc] in *. rewrite py_number_eq in *.
  rewrite (first_mark_flat (py_enc_step M path p) (py_field_mark M p)) in Hmk by (intros; apply py_first_mark).
  fold (py_pkt_mark M p) in Hmk.
  apply steps_ok_flat. intros [i f] Hin.
  destruct (number_in _ _ _ _ Hin) as [Hi _].
  apply py_enc_field_ok; [exact Hmk|lia|].
  exact (fields_conds_in _ _ _ _ _ H Hin).
Qed.

Lemma py_packet_dec M mk path p :
  conds_ok (fields_conds (py_dec_conds M) path p) = true ->
  ir_members (py_ir M path p) = length (p_fields p) /\
  dsteps_ok (ir_dec (py_ir M path p)) (ir_dec (ref_ir M mk path p)) = true.
Proof.
  intros H. split.
  { unfold py_ir. cbn [ir_members]. rewrite (py_members_all M path p _ (py_dec_common M path p) H). reflexivity. }
  unfold py_ir, ref_ir. cbn [ir_dec]. rewrite (map_number _ _ 0), map_as_flat_map.
  apply dsteps_ok_flat. intros [i f] Hin. cbn [snd].
  apply py_dec_field_ok. exact (fields_conds_in _ _ _ _ _ H Hin).
Qed.

Lemma py_packet_trav M path p : py_packet M path p = trav pkt_ir (py_ir M) path p.
Proof. reflexivity. Qed.

Lemma gen_py_gprog M : is_some (m_root M) = true ->
  gen_py M = gprog (string * packet) (fun x => x) (fun x => py_ir M (fst x) (snd x)) (all_packets M).
Proof.
  unfold gen_py, gprog. destruct (m_root M); [|discriminate]. intros _.
  rewrite (flat_map_ext_in' _ (fun p => trav pkt_ir (py_ir M) (p_name p) p)) by (intros; apply py_packet_trav).
  rewrite trav_all. apply map_ext. intros [path p]. reflexivity.
Qed.

Theorem py_frag_enc_validates M : py_frag_enc M = true -> validate_enc M (gen_py M) = true.
Proof.
  unfold py_frag_enc, py_enc_all. intros H. cond2 H Hp. cond2 H Hr.
  rewrite (gen_py_gprog M Hr). apply generic_validate_enc; [symmetry; apply map_id|exact Hp|].
  intros [path p] mk Hin Hmk. cbn [fst snd] in *.
  apply py_packet_enc; [exact Hmk|].
  exact (packets_conds_in M _ path p H Hin).
Qed.

Theorem py_frag_dec_validates M : py_frag_dec M = true -> validate_dec M (gen_py M) = true.
Proof.
  unfold py_frag_dec, py_dec_all. intros H. cond2 H Hp. cond2 H Hl. cond2 H Hr.
  rewrite (gen_py_gprog M Hr). apply generic_validate_dec; [symmetry; apply map_id|exact Hp|].
  intros [path p] Hin. cbn [fst snd] in *.
  apply py_packet_dec. exact (packets_conds_in M _ path p H Hin).
Qed.

Theorem py_frag_dec_validates_full M : py_frag_dec M = true -> validate_dec_full M (gen_py M) = true.
Proof.
  intros H. unfold validate_dec_full. rewrite (py_frag_dec_validates M H). cbn [andb].
  unfold py_frag_dec, py_dec_all in H. cond2 H Hp. cond2 H Hl. rewrite <- frag_lenw_ok_eq. exact Hl.
Qed.
