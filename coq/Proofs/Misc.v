(* Small facts about the wire specification and the reference decoder used by C04-C06. *)
From FP Require Import Validate.
Open Scope list_scope.

Section Spec.
  Variable cs : string -> option (list byte -> N).
  Variable M : bmodel.
  Variable rec : packet -> value -> list byte -> option (list byte).

  (* the value the caller stored in a length-of member *)
  Definition len_member_differs (f : field) (v v' : value) : Prop :=
    v = v' \/ (f_rep f = false /\ (exists tg t, f_attr f = ALen tg t) /\ exists a b, v = VInt a /\ v' = VInt b).

  Lemma lay_field_len_agnostic p f v v' st :
    len_member_differs f v v' -> lay_field cs M rec p f v st = lay_field cs M rec p f v' st.
  Proof.
    intros [H|[Hr [[tg [t Ha]] [a [b [Hv Hv']]]]]]; [subst; reflexivity|].
    subst. destruct st as [buf lp]. unfold lay_field. rewrite Hr, Ha. reflexivity.
  Qed.

  Lemma lay_fields_len_agnostic p fs : forall vs vs' st,
    Forall2 (fun fv v' => len_member_differs (fst fv) (snd fv) v') (combine fs vs) vs' ->
    length vs = length fs ->
    lay_fields cs M rec p fs vs st = lay_fields cs M rec p fs vs' st.
  Proof.
    induction fs as [|f fs IH]; intros vs vs' st H Hl; destruct vs as [|v vs]; cbn [length] in Hl; try discriminate.
    - cbn [combine] in H. inversion H. reflexivity.
    - cbn [combine] in H. inversion H as [|x y l l' Hxy Hrest]; subst. cbn [fst snd] in Hxy. cbn [lay_fields].
      rewrite (lay_field_len_agnostic p f v y st Hxy).
      destruct (lay_field cs M rec p f y st); [|reflexivity]. apply IH; [assumption|]. injection Hl. auto.
  Qed.

  (* the checksum clause of the specification *)
  Lemma lay_field_checksum_registered p f alg t n w h buf lp :
    f_rep f = false -> f_attr f = ACheck alg t -> ty_width (get_basic_type t) = Some w ->
    cs (unquote alg) = Some h -> fits w (h buf) = true ->
    lay_field cs M rec p f (VInt n) (buf, lp) = Some (buf ++ enc_int w (cfg_le M) (h buf), lp).
  Proof. intros Hr Ha Hw Hc Hf. unfold lay_field. rewrite Hr, Ha, Hw, Hc, Hf. reflexivity. Qed.

  Lemma lay_field_checksum_unregistered p f alg t n w buf lp :
    f_rep f = false -> f_attr f = ACheck alg t -> ty_width (get_basic_type t) = Some w ->
    cs (unquote alg) = None -> fits w n = true ->
    lay_field cs M rec p f (VInt n) (buf, lp) = Some (buf ++ enc_int w (cfg_le M) n, lp).
  Proof. intros Hr Ha Hw Hc Hf. unfold lay_field. rewrite Hr, Ha, Hw, Hc, Hf. reflexivity. Qed.

  (* the match clause: the payload the caller supplied is laid out as a message of its own packet *)
  Lemma lay_elem_match k ka pairs name pv q buf :
    lookup_packet M name = Some q ->
    lay_elem M rec (AMatch k ka pairs) (VDyn name pv) buf = rec q pv buf.
  Proof. intros H. cbn [lay_elem]. unfold lay_ref. rewrite H. reflexivity. Qed.
End Spec.

(* dispatch in a decoder: the packet the table maps the key to, else a reported error *)
Lemma dispatch_known rec t fw k ue ms rd kv q :
  nth_error ms k = Some (Some kv) -> table_lookup t fw kv = Some q ->
  dec_elem rec (DDispatch t fw k ue) ms rd =
  match rec q rd with DOk (v, rd') => DOk (VDyn q v, rd') | DErr => DErr | DCrash => DCrash end.
Proof. intros Hk Ht. cbn [dec_elem]. rewrite Hk, Ht. reflexivity. Qed.

Lemma dispatch_unknown rec t fw k ms rd kv :
  nth_error ms k = Some (Some kv) -> table_lookup t fw kv = None ->
  dec_elem rec (DDispatch t fw k true) ms rd = DErr.
Proof. intros Hk Ht. cbn [dec_elem]. rewrite Hk, Ht. reflexivity. Qed.

(* the reference decoder dispatches through exactly the DSL's table and reports unknown keys *)
Lemma ref_match_step M path p f k ka pairs ki :
  f_attr f = AMatch (Some k) ka pairs -> index_where (String.eqb k) (p_fields p) 0 = Some ki ->
  ref_delem M path p f = DDispatch (map (fun mp => (mp_key mp, mp_value mp)) pairs) true ki true.
Proof. intros Ha Hi. unfold ref_delem. rewrite Ha, Hi. reflexivity. Qed.
